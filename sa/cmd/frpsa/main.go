// Command frpsa decides the frp properties C01–C20 by static analysis of /repo's current working tree.
//
//	frpsa check -prop C09 -tier quick|thorough [-repo /repo] [-verif /verif]
//	frpsa replay <evidence/violations/KEY.json>
//	frpsa list
package main

import (
	"encoding/json"
	"flag"
	"fmt"
	"os"
	"path/filepath"
	"runtime"
	"runtime/debug"
	"sort"
	"strconv"
	"strings"
	"time"

	"frpsa/engine"
	"frpsa/rules"
)

func main() {
	rules.Finalize()
	if len(os.Args) < 2 {
		usage()
	}
	switch os.Args[1] {
	case "check":
		os.Exit(cmdCheck(os.Args[2:]))
	case "replay":
		os.Exit(cmdReplay(os.Args[2:]))
	case "list":
		var ids []string
		for id := range rules.Registry {
			ids = append(ids, id)
		}
		sort.Strings(ids)
		for _, id := range ids {
			fmt.Println(id, rules.Registry[id].Title)
		}
	case "selftest":
		os.Exit(cmdSelftest(os.Args[2:]))
	case "variant":
		os.Exit(cmdVariant(os.Args[2:]))
	default:
		usage()
	}
}

func usage() {
	fmt.Fprintln(os.Stderr, "usage: frpsa check -prop Cnn -tier quick|thorough | frpsa replay <path> | frpsa selftest -prop Cnn | frpsa list")
	os.Exit(2)
}

func defaultVerif() string {
	if d := os.Getenv("VERIF_DIR"); d != "" {
		return d
	}
	exe, err := os.Executable()
	if err == nil {
		d := filepath.Dir(filepath.Dir(exe))
		if _, err := os.Stat(filepath.Join(d, "properties.jsonl")); err == nil {
			return d
		}
	}
	return "/verif"
}

func cmdCheck(args []string) (exit int) {
	fs := flag.NewFlagSet("check", flag.ExitOnError)
	prop := fs.String("prop", "", "property id")
	tier := fs.String("tier", "", "quick|thorough (default $VERIF_TIER or quick)")
	repo := fs.String("repo", "/repo", "repository root")
	verif := fs.String("verif", defaultVerif(), "verif directory (evidence, known_findings.txt)")
	noSelf := fs.Bool("noselftest", false, "thorough: skip the variant self-test")
	fs.Parse(args)
	if *tier == "" {
		*tier = os.Getenv("VERIF_TIER")
	}
	if *tier == "" {
		*tier = "quick"
	}
	seed, _ := strconv.Atoi(os.Getenv("VERIF_SEED"))
	pr, ok := rules.Registry[*prop]
	if !ok {
		fmt.Printf("unknown property %q\n", *prop)
		return 2
	}
	start := time.Now()
	fail := func(what string, err any) int {
		// a check that cannot analyse the tree fails loudly; it never passes on a partial view
		os.MkdirAll(filepath.Join(*verif, "evidence", "violations"), 0o755)
		rp := filepath.Join("evidence", "violations", *prop+".load-report.json")
		b, _ := json.MarshalIndent(map[string]any{"property": *prop, "stage": what, "error": fmt.Sprint(err)}, "", " ")
		os.WriteFile(filepath.Join(*verif, rp), b, 0o644)
		ev := engine.Evidence{PropertyID: *prop, Tier: *tier, Seed: seed, Level: "other", Coverage: map[string]any{
			"explanation": "analysis could not be completed: " + what + ": " + fmt.Sprint(err), "evaluations": 0, "distinct_nontrivial": 0},
			Assumptions: []string{}, WallS: time.Since(start).Seconds(), Violations: 1}
		eb, _ := json.MarshalIndent(ev, "", " ")
		os.WriteFile(filepath.Join(*verif, "evidence", *prop+".json"), eb, 0o644)
		fmt.Printf("ERROR %s: %v\n", what, err)
		fmt.Printf("VIOLATION property=%s replay=%s\n", *prop, rp)
		return 1
	}
	defer func() {
		if r := recover(); r != nil {
			exit = fail("analyzer panic", fmt.Sprintf("%v\n%s", r, debug.Stack()))
		}
	}()
	// watchdog: an analysis that does not finish is a failed check with a diagnosable report, never a hang
	limit := 20 * time.Minute
	if *tier == "thorough" {
		limit = 4 * time.Hour
	}
	if d, err := time.ParseDuration(os.Getenv("FRPSA_TIMEOUT")); err == nil && d > 0 {
		limit = d
	}
	go func() {
		time.Sleep(limit)
		buf := make([]byte, 1<<20)
		buf = buf[:runtime.Stack(buf, true)]
		os.Exit(fail("analysis did not finish within "+limit.String(), string(buf)))
	}()
	p, err := engine.Load(engine.LoadOpts{Dir: *repo, Deps: *tier == "thorough" && pr.NeedDeps})
	if err != nil {
		return fail("load", err)
	}
	c := engine.NewCtx(p, *prop, *tier)
	pr.Run(c)
	extra := map[string]any{}
	configs := []string{"default"}
	if *tier == "thorough" {
		// the two shipped build configurations must give the same verdict for every obligation they contain
		// (Makefile: -tags frps ./cmd/frps, -tags frpc ./cmd/frpc; no file is keyed on frpc, so that build equals the default one)
		for _, tags := range []string{"frps", "frpc"} {
			pc, err := engine.Load(engine.LoadOpts{Dir: *repo, Tags: tags})
			if err != nil {
				return fail("load -tags "+tags, err)
			}
			cc := engine.NewCtx(pc, *prop, *tier)
			cc.Partial = true
			pr.Run(cc)
			n := c.MergeConfig(cc, tags)
			configs = append(configs, fmt.Sprintf("-tags %s (%d obligations re-evaluated)", tags, n))
		}
		if !*noSelf {
			res := runSelftest(*prop, *repo, *verif)
			extra["variant_selftest"] = res
			for _, r := range res.Failures {
				c.Rule("SELFTEST", "every seeded breaking edit of this property's variant table must be reported by the named rule and every benign edit must stay silent (checker liveness and false-alarm guard)")
				c.Violate(r.Name, 0, nil, "%s", r.Why)
			}
		}
	}
	extra["build_configs"] = configs
	return c.Finish(*verif, start, seed, pr.Explanation, pr.Assumptions, extra)
}

func cmdReplay(args []string) int {
	if len(args) < 1 {
		usage()
	}
	verif := defaultVerif()
	path := args[0]
	if !filepath.IsAbs(path) {
		path = filepath.Join(verif, path)
	}
	b, err := os.ReadFile(path)
	if err != nil {
		fmt.Println("cannot read", path, err)
		return 2
	}
	var rec struct {
		Property   string             `json:"property"`
		Obligation *engine.Obligation `json:"obligation"`
		RuleDoc    string             `json:"rule_doc"`
		Repo       string             `json:"repo"`
		Stage      string             `json:"stage"`
		Error      string             `json:"error"`
	}
	if err := json.Unmarshal(b, &rec); err != nil {
		fmt.Println("bad replay file:", err)
		return 2
	}
	if rec.Obligation == nil {
		fmt.Printf("recorded failure of %s at stage %s: %s\n", rec.Property, rec.Stage, rec.Error)
		return 1
	}
	fmt.Printf("recorded: %s %s at %s\n  %s\n  rule: %s\n", rec.Obligation.Verdict, rec.Obligation.Key, rec.Obligation.Pos, rec.Obligation.Msg, rec.RuleDoc)
	for _, f := range rec.Obligation.Facts {
		fmt.Println("    " + f)
	}
	pr, ok := rules.Registry[rec.Property]
	if !ok {
		return 2
	}
	repo := "/repo"
	if len(args) > 1 {
		repo = args[1]
	}
	p, err := engine.Load(engine.LoadOpts{Dir: repo})
	if err != nil {
		fmt.Println("load:", err)
		return 1
	}
	c := engine.NewCtx(p, rec.Property, "quick")
	pr.Run(c)
	for _, o := range c.Obls {
		if o.Key == rec.Obligation.Key {
			fmt.Printf("re-evaluated on %s: %s at %s\n  %s\n", repo, o.Verdict, o.Pos, o.Msg)
			for _, f := range o.Facts {
				fmt.Println("    " + f)
			}
			if o.Verdict == engine.Holds {
				return 0
			}
			return 1
		}
	}
	fmt.Printf("re-evaluated on %s: obligation %s no longer exists\n", repo, rec.Obligation.Key)
	return 1
}

var _ = strings.TrimSpace
