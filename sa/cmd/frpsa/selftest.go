package main

import (
	"bytes"
	"encoding/json"
	"flag"
	"fmt"
	"os"
	"os/exec"
	"path/filepath"
	"sort"
	"strings"
	"sync"

	"frpsa/engine"
	"frpsa/rules"
)

// Variant self-test (thorough tier): every property carries a table of small source edits. Each edit is applied
// in memory through packages.Config.Overlay (no scratch copy on disk), the variant is type-checked and the
// property's rules are run on it in a sub-process. A *breaking* edit must make the named rule report; a *benign*
// edit (rename, extracted helper, added logging, reordering) must leave the run silent. An edit whose old text
// no longer occurs in /repo (because the tree was changed) is skipped, never failed.

type selfResult struct {
	Variants int           `json:"variants"`
	Fired    int           `json:"breaking_detected"`
	Silent   int           `json:"benign_silent"`
	Skipped  []string      `json:"skipped"`
	Failures []selfFailure `json:"failures"`
	Details  []selfDetail  `json:"details"`
}

type selfFailure struct {
	Name string `json:"name"`
	Why  string `json:"why"`
}

type selfDetail struct {
	Name    string   `json:"name"`
	Kind    string   `json:"kind"`
	Outcome string   `json:"outcome"`
	Keys    []string `json:"reported_keys,omitempty"`
}

// variantReport is what the sub-process prints.
type variantReport struct {
	LoadError string   `json:"load_error,omitempty"`
	Bad       []string `json:"bad"` // keys of non-holding obligations that are not known findings
}

func runSelftest(prop, repo, verif string) selfResult {
	res := selfResult{}
	vs := append([]rules.Variant{}, rules.Variants[prop]...)
	// confirmed seeded changes from independent authors (seeded/<id>/patch.diff) are breaking variants too
	if dirs, _ := filepath.Glob(filepath.Join(verif, "seeded", "*", "meta.json")); dirs != nil {
		sort.Strings(dirs)
		for _, mf := range dirs {
			var meta struct {
				ID       string `json:"id"`
				Property string `json:"property"`
				Needs    string `json:"needs_to_manifest"`
			}
			b, err := os.ReadFile(mf)
			if err != nil || json.Unmarshal(b, &meta) != nil || meta.Property != prop {
				continue
			}
			vs = append(vs, rules.Variant{Name: "seeded:" + meta.ID, Patch: filepath.Join(filepath.Dir(mf), "patch.diff"), Expect: prop + ".", Why: meta.Needs})
		}
	}
	// behaviour-preserving refactorings from independent authors (benign/<id>/patch.diff): every property's rules
	// must stay silent on each of them
	if dirs, _ := filepath.Glob(filepath.Join(verif, "benign", "*", "patch.diff")); dirs != nil {
		sort.Strings(dirs)
		for _, pf := range dirs {
			vs = append(vs, rules.Variant{Name: "benign:" + filepath.Base(filepath.Dir(pf)), Patch: pf, Benign: true, Why: "independent behaviour-preserving refactoring"})
		}
	}
	exe, _ := os.Executable()
	type job struct {
		i int
		v rules.Variant
	}
	details := make([]selfDetail, len(vs))
	fails := make([][]selfFailure, len(vs))
	skipped := make([]bool, len(vs))
	var wg sync.WaitGroup
	sem := make(chan struct{}, 8) // a few variants at a time: each sub-process loads the whole program
	for i, v := range vs {
		wg.Add(1)
		go func(i int, v rules.Variant) {
			defer wg.Done()
			sem <- struct{}{}
			defer func() { <-sem }()
			if v.Patch != "" {
				if _, err := overlayFromPatch(repo, v.Patch); err != nil {
					skipped[i] = true
					details[i] = selfDetail{Name: v.Name, Kind: kind(v), Outcome: "skipped: patch no longer applies to this tree"}
					return
				}
			} else {
				src, err := os.ReadFile(filepath.Join(repo, v.File))
				if err != nil || !bytes.Contains(src, []byte(v.Old)) {
					skipped[i] = true
					details[i] = selfDetail{Name: v.Name, Kind: kind(v), Outcome: "skipped: old text not present in " + v.File}
					return
				}
			}
			cmd := exec.Command(exe, "variant", "-prop", prop, "-repo", repo, "-verif", verif, "-name", v.Name, "-patch", v.Patch)
			var out bytes.Buffer
			cmd.Stdout = &out
			cmd.Stderr = &out
			_ = cmd.Run()
			var rep variantReport
			line := lastJSONLine(out.String())
			if err := json.Unmarshal([]byte(line), &rep); err != nil {
				fails[i] = append(fails[i], selfFailure{v.Name, "variant sub-process gave no report: " + tail(out.String(), 300)})
				return
			}
			d := selfDetail{Name: v.Name, Kind: kind(v), Keys: rep.Bad}
			switch {
			case rep.LoadError != "":
				d.Outcome = "variant does not type-check: " + rep.LoadError
				fails[i] = append(fails[i], selfFailure{v.Name, d.Outcome})
			case v.Benign:
				if len(rep.Bad) > 0 {
					d.Outcome = "FALSE ALARM on benign edit"
					fails[i] = append(fails[i], selfFailure{v.Name, "benign edit (" + v.Why + ") raised " + strings.Join(rep.Bad, ", ")})
				} else {
					d.Outcome = "silent (as required)"
				}
			default:
				hit := false
				for _, k := range rep.Bad {
					if strings.Contains(k, v.Expect) {
						hit = true
					}
				}
				if hit {
					d.Outcome = "detected by " + v.Expect
				} else {
					d.Outcome = "MISSED"
					fails[i] = append(fails[i], selfFailure{v.Name, fmt.Sprintf("breaking edit (%s) not reported by %s; reported: %v", v.Why, v.Expect, rep.Bad)})
				}
			}
			details[i] = d
		}(i, v)
	}
	wg.Wait()
	for i, v := range vs {
		res.Variants++
		if skipped[i] {
			res.Skipped = append(res.Skipped, v.Name)
		}
		res.Failures = append(res.Failures, fails[i]...)
		res.Details = append(res.Details, details[i])
		if len(fails[i]) == 0 && !skipped[i] {
			if v.Benign {
				res.Silent++
			} else {
				res.Fired++
			}
		}
	}
	return res
}

func kind(v rules.Variant) string {
	if v.Benign {
		return "benign"
	}
	return "breaking"
}

func lastJSONLine(s string) string {
	lines := strings.Split(strings.TrimSpace(s), "\n")
	for i := len(lines) - 1; i >= 0; i-- {
		if strings.HasPrefix(lines[i], "{") {
			return lines[i]
		}
	}
	return ""
}

func tail(s string, n int) string {
	if len(s) > n {
		return s[len(s)-n:]
	}
	return s
}

// cmdVariant (internal): analyse one in-memory variant and print its report as one JSON line.
func cmdVariant(args []string) int {
	fs := flag.NewFlagSet("variant", flag.ExitOnError)
	prop := fs.String("prop", "", "")
	repo := fs.String("repo", "/repo", "")
	verif := fs.String("verif", defaultVerif(), "")
	name := fs.String("name", "", "")
	patch := fs.String("patch", "", "")
	verbose := fs.Bool("v", false, "")
	fs.Parse(args)
	var v *rules.Variant
	for i := range rules.Variants[*prop] {
		if rules.Variants[*prop][i].Name == *name {
			v = &rules.Variants[*prop][i]
		}
	}
	if *patch != "" {
		v = &rules.Variant{Name: *name, Patch: *patch}
	}
	rep := variantReport{Bad: []string{}}
	emit := func() int {
		b, _ := json.Marshal(rep)
		fmt.Println(string(b))
		return 0
	}
	if v == nil {
		rep.LoadError = "unknown variant"
		return emit()
	}
	var overlay map[string][]byte
	if v.Patch != "" {
		ov, err := overlayFromPatch(*repo, v.Patch)
		if err != nil {
			rep.LoadError = err.Error()
			return emit()
		}
		overlay = ov
	} else {
		path := filepath.Join(*repo, v.File)
		src, err := os.ReadFile(path)
		if err != nil {
			rep.LoadError = err.Error()
			return emit()
		}
		overlay = map[string][]byte{path: bytes.Replace(src, []byte(v.Old), []byte(v.New), 1)}
	}
	p, err := engine.Load(engine.LoadOpts{Dir: *repo, Overlay: overlay})
	if err != nil {
		rep.LoadError = err.Error()
		return emit()
	}
	c := engine.NewCtx(p, *prop, "quick")
	rules.Registry[*prop].Run(c)
	known := map[string]bool{}
	fds, _ := engine.LoadFindings(filepath.Join(*verif, "known_findings.txt"))
	for _, f := range fds {
		if f.Kind == "finding" && f.Prop == *prop {
			known[*prop+"."+f.Key] = true
		}
	}
	for _, o := range c.Obls {
		if o.Verdict != engine.Holds && !known[o.Key] {
			rep.Bad = append(rep.Bad, o.Key)
			if *verbose {
				fmt.Printf("%s %s at %s: %s\n", o.Verdict, o.Key, o.Pos, o.Msg)
			}
		}
	}
	sort.Strings(rep.Bad)
	return emit()
}

// cmdSelftest runs the variant table of one property (or all) and prints the outcome.
func cmdSelftest(args []string) int {
	fs := flag.NewFlagSet("selftest", flag.ExitOnError)
	prop := fs.String("prop", "", "property id (empty: all)")
	repo := fs.String("repo", "/repo", "")
	verif := fs.String("verif", defaultVerif(), "")
	fs.Parse(args)
	var props []string
	if *prop != "" {
		props = []string{*prop}
	} else {
		for id := range rules.Variants {
			props = append(props, id)
		}
		sort.Strings(props)
	}
	exit := 0
	for _, id := range props {
		res := runSelftest(id, *repo, *verif)
		for _, d := range res.Details {
			fmt.Printf("%s %-8s %-50s %s\n", id, d.Kind, d.Name, d.Outcome)
		}
		for _, f := range res.Failures {
			fmt.Printf("%s SELFTEST-FAIL %s: %s\n", id, f.Name, f.Why)
			exit = 1
		}
	}
	return exit
}

// overlayFromPatch applies a unified diff to copies of the files it names (in a temporary directory outside the
// repository) and returns the patched contents keyed by their path in the repository.
func overlayFromPatch(repo, patchFile string) (map[string][]byte, error) {
	b, err := os.ReadFile(patchFile)
	if err != nil {
		return nil, err
	}
	var files []string
	for _, line := range strings.Split(string(b), "\n") {
		if strings.HasPrefix(line, "+++ b/") {
			files = append(files, strings.TrimSpace(strings.TrimPrefix(line, "+++ b/")))
		}
	}
	if len(files) == 0 {
		return nil, fmt.Errorf("no files in patch")
	}
	tmp, err := os.MkdirTemp("", "frpsa-patch-")
	if err != nil {
		return nil, err
	}
	defer os.RemoveAll(tmp)
	for _, f := range files {
		src, err := os.ReadFile(filepath.Join(repo, f))
		if err != nil {
			return nil, err
		}
		os.MkdirAll(filepath.Dir(filepath.Join(tmp, f)), 0o755)
		if err := os.WriteFile(filepath.Join(tmp, f), src, 0o644); err != nil {
			return nil, err
		}
	}
	cmd := exec.Command("patch", "-p1", "-s", "-f", "--no-backup-if-mismatch", "-d", tmp, "-i", patchFile)
	if out, err := cmd.CombinedOutput(); err != nil {
		return nil, fmt.Errorf("patch does not apply: %s", strings.TrimSpace(string(out)))
	}
	ov := map[string][]byte{}
	for _, f := range files {
		nb, err := os.ReadFile(filepath.Join(tmp, f))
		if err != nil {
			return nil, err
		}
		ov[filepath.Join(repo, f)] = nb
	}
	return ov, nil
}
