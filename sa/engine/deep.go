package engine

import (
	"fmt"
	"go/token"
	"go/types"
	"strings"

	"golang.org/x/tools/go/ssa"
)

// Deep provenance: the origin of a value across function boundaries, field by field.
//
// Provenance (prov.go) slices inside one function. Code that is "modernised" routinely moves a value through carriers
// the local slice cannot see through: a small struct that groups parameters, a constructor that returns such a struct, a
// helper that receives it, a method on it. DeepSources follows
//
//   - a parameter to the matching argument at every static call site of its function in the repository (or, when the
//     walk entered the function through a call, to that call's argument only);
//   - a call of a repository function to the values it returns (context: this call);
//   - a field selection to what was stored into that very field of the carrier: field stores into the local it lives in,
//     whole-struct stores (then the same field of the stored value), composite literals returned by a constructor;
//   - free variables to their binding, loads of local cells to their stores.
//
// Everything else is sliced locally as before. The result over-approximates (call sites are merged when the walk did not
// come through one of them), which is the safe direction for the "is fed from X and from nothing else in this family"
// rules that use it; rules that need "is fed from X" get more precise answers than from the local slice.
type deepWalker struct {
	p       *Prog
	s       *Sources
	seen    map[string]bool
	callers map[*ssa.Function][]ssa.CallInstruction
	steps   int
	o       DeepOpts
}

// DeepOpts tunes the walk.
type DeepOpts struct {
	// Bind / Rets: the parameter bindings and inlined returns of a path (PathState.DeepSources): a parameter of a callee
	// that the path explored inline denotes this path's argument, a call explored inline what it returned on this path.
	Bind map[*ssa.Parameter]ssa.Value
	Rets map[*ssa.Call][]ssa.Value
	// Heap: a field read from a long-lived object (a receiver, a structure reached through pointers) is followed to the
	// values stored into that field anywhere in the repository (field-based, flow-insensitive); parameters of exported
	// functions are followed to their callers too. For "where does this secret / setting come from" questions.
	Heap bool
}

var deepFieldStores = map[*Prog]map[*types.Var][]ssa.Value{}

func (p *Prog) fieldStoreIndex() map[*types.Var][]ssa.Value {
	if m, ok := deepFieldStores[p]; ok {
		return m
	}
	m := map[*types.Var][]ssa.Value{}
	for _, f := range p.RepoFuncs() {
		ForEachInstr(f, func(in ssa.Instruction) {
			if st, ok := in.(*ssa.Store); ok {
				if fa, ok := st.Addr.(*ssa.FieldAddr); ok {
					if fv := fieldVar(fa.X.Type(), fa.Field); fv != nil {
						m[fv] = append(m[fv], st.Val)
					}
				}
			}
		})
	}
	deepFieldStores = map[*Prog]map[*types.Var][]ssa.Value{p: m}
	return m
}

// DeepSourcesOpt is DeepSources with options.
func DeepSourcesOpt(p *Prog, v ssa.Value, o DeepOpts) *Sources {
	w := &deepWalker{p: p, s: newSources(), seen: map[string]bool{}, callers: p.staticCallers(), o: o}
	w.val(v, nil, nil, 0)
	return w.s
}

// DeepSourcesOfField: the sources of field fv of the struct value (or pointee) v.
func DeepSourcesOfField(p *Prog, v ssa.Value, fv *types.Var) *Sources {
	w := &deepWalker{p: p, s: newSources(), seen: map[string]bool{}, callers: p.staticCallers()}
	var find func(t types.Type, prefix []int, depth int)
	find = func(t types.Type, prefix []int, depth int) {
		st, ok := Deref(t).Underlying().(*types.Struct)
		if !ok || depth > 3 {
			return
		}
		for i := 0; i < st.NumFields(); i++ {
			sel := append(append([]int{}, prefix...), i)
			if st.Field(i) == fv {
				w.val(v, sel, nil, 0)
			} else if _, isStruct := st.Field(i).Type().Underlying().(*types.Struct); isStruct {
				find(st.Field(i).Type(), sel, depth+1) // nested struct value (not through pointers)
			}
		}
	}
	find(v.Type(), nil, 0)
	return w.s
}

// DeepSources of a value as seen on this path.
func (s *PathState) DeepSources(p *Prog, v ssa.Value, heap bool) *Sources {
	return DeepSourcesOpt(p, s.Resolve(v), DeepOpts{Bind: s.bind, Rets: s.rets, Heap: heap})
}

// heap: the values stored anywhere into the fields selected by sel, starting at a value of type t.
func (w *deepWalker) heap(t types.Type, sel []int, depth int) {
	if !w.o.Heap || len(sel) == 0 {
		return
	}
	idx := w.p.fieldStoreIndex()
	cur := t
	for i, fi := range sel {
		st, ok := Deref(cur).Underlying().(*types.Struct)
		if !ok || fi >= st.NumFields() {
			return
		}
		fv := st.Field(fi)
		w.s.Fields[fv] = true
		if stores := idx[fv]; len(stores) <= 12 {
			for _, sv := range stores {
				w.val(sv, sel[i+1:], nil, depth+1)
			}
		}
		cur = fv.Type()
	}
}

type deepCtx struct {
	call ssa.CallInstruction
	up   *deepCtx
}

var deepCallers = map[*Prog]map[*ssa.Function][]ssa.CallInstruction{}

func (p *Prog) staticCallers() map[*ssa.Function][]ssa.CallInstruction {
	if m, ok := deepCallers[p]; ok {
		return m
	}
	m := map[*ssa.Function][]ssa.CallInstruction{}
	for _, f := range p.RepoFuncs() {
		ForEachInstr(f, func(in ssa.Instruction) {
			if call, ok := in.(ssa.CallInstruction); ok {
				if cf := CalleeFn(call); cf != nil && cf.Blocks != nil {
					m[cf] = append(m[cf], call)
				}
			}
		})
	}
	deepCallers = map[*Prog]map[*ssa.Function][]ssa.CallInstruction{p: m} // keep one program only
	return m
}

// DynamicTypes: the concrete types an interface value can hold, traced through parameters (to the arguments of every
// static caller), local cells, phis and interface conversions. complete=false when some source cannot be enumerated
// (an exported function's parameter, a field, a call result): then anything may flow in.
func DynamicTypes(p *Prog, v ssa.Value) (ts []types.Type, complete bool) {
	callers := p.staticCallers()
	seen := map[ssa.Value]bool{}
	complete = true
	var walk func(v ssa.Value, depth int)
	walk = func(v ssa.Value, depth int) {
		if v == nil || seen[v] {
			return
		}
		seen[v] = true
		if depth > 12 {
			complete = false
			return
		}
		switch x := v.(type) {
		case *ssa.MakeInterface:
			ts = append(ts, x.X.Type())
		case *ssa.ChangeInterface:
			walk(x.X, depth+1)
		case *ssa.ChangeType:
			walk(x.X, depth+1)
		case *ssa.Phi:
			for _, e := range x.Edges {
				walk(e, depth+1)
			}
		case *ssa.Const:
			// nil interface: no dynamic type
		case *ssa.Parameter:
			f := x.Parent()
			obj, _ := f.Object().(*types.Func)
			idx := -1
			for i, q := range f.Params {
				if q == x {
					idx = i
				}
			}
			cs := callers[f]
			if idx < 0 || len(cs) == 0 || (f.Parent() == nil && (obj == nil || obj.Exported())) {
				complete = false
				return
			}
			for _, call := range cs {
				args := CallArgs(call)
				if idx < len(args) {
					walk(args[idx], depth+1)
				} else {
					complete = false
				}
			}
		case *ssa.FreeVar:
			if b := ClosureBinding(x); b != nil {
				walk(b, depth+1)
			} else {
				complete = false
			}
		case *ssa.UnOp:
			if x.Op == token.MUL {
				if al, ok := x.X.(*ssa.Alloc); ok {
					n := 0
					for _, r := range *al.Referrers() {
						if st, ok := r.(*ssa.Store); ok && st.Addr == ssa.Value(al) {
							n++
							walk(st.Val, depth+1)
						}
					}
					if n == 0 {
						complete = false
					}
					return
				}
				if fv, ok := x.X.(*ssa.FreeVar); ok {
					if b, ok := ClosureBinding(fv).(*ssa.Alloc); ok {
						for _, r := range *b.Referrers() {
							if st, ok := r.(*ssa.Store); ok && st.Addr == ssa.Value(b) {
								walk(st.Val, depth+1)
							}
						}
						return
					}
				}
			}
			complete = false
		default:
			complete = false
		}
	}
	walk(v, 0)
	return ts, complete
}

// DeepSources computes the interprocedural, field-sensitive sources of v.
func DeepSources(p *Prog, v ssa.Value) *Sources {
	w := &deepWalker{p: p, s: newSources(), seen: map[string]bool{}, callers: p.staticCallers()}
	w.val(v, nil, nil, 0)
	return w.s
}

func selKey(sel []int) string {
	var b strings.Builder
	for _, i := range sel {
		fmt.Fprintf(&b, ".%d", i)
	}
	return b.String()
}

func (w *deepWalker) visit(kind string, v ssa.Value, sel []int, ctx *deepCtx) bool {
	w.steps++
	if w.steps > 20000 {
		return false
	}
	k := fmt.Sprintf("%s|%p|%s|%p", kind, v, selKey(sel), ctx)
	if w.seen[k] {
		return false
	}
	w.seen[k] = true
	return true
}

func push(i int, sel []int) []int {
	out := make([]int, 0, len(sel)+1)
	out = append(out, i)
	return append(out, sel...)
}

// local falls back to the one-function slice for v (all of its fields, calls, constants are sources).
func (w *deepWalker) local(v ssa.Value) {
	sub := Provenance(v, ProvOpts{})
	for k := range sub.Fields {
		w.s.Fields[k] = true
	}
	for k := range sub.Calls {
		w.s.Calls[k] = true
	}
	for k := range sub.CallIns {
		w.s.CallIns[k] = true
	}
	for k := range sub.Consts {
		w.s.Consts[k] = true
	}
	for k := range sub.Globals {
		w.s.Globals[k] = true
	}
	for k := range sub.Params {
		w.s.Params[k] = true
	}
	for k := range sub.Values {
		w.s.Values[k] = true
	}
}

// val: the sources of (v).sel — v is a value (for pointers: the sources of the pointee's field when sel is given).
func (w *deepWalker) val(v ssa.Value, sel []int, ctx *deepCtx, depth int) {
	if v == nil || depth > 40 || !w.visit("v", v, sel, ctx) {
		return
	}
	w.s.Values[v] = true
	switch x := v.(type) {
	case *ssa.Const:
		if x.Value == nil {
			w.s.Consts["nil"] = true
		} else {
			w.s.Consts[x.Value.ExactString()] = true
		}
	case *ssa.Global:
		w.s.Globals[x] = true
	case *ssa.Function, *ssa.Builtin:
	case *ssa.Parameter:
		w.s.Params[x] = true
		w.param(x, sel, ctx, depth, false)
	case *ssa.FreeVar:
		if b := ClosureBinding(x); b != nil {
			w.val(b, sel, ctx, depth+1)
		} else {
			w.s.Opaque = append(w.s.Opaque, v)
		}
	case *ssa.Alloc:
		// a pointer to a local: the pointee's (selected) content
		w.s.Allocs[x] = true
		w.addr(x, sel, ctx, depth+1)
	case *ssa.UnOp:
		if x.Op == token.MUL {
			w.addr(x.X, sel, ctx, depth+1)
			return
		}
		w.val(x.X, sel, ctx, depth+1)
	case *ssa.FieldAddr:
		// the address of a field used as a value (pointer to the field): its pointee
		w.addr(x, sel, ctx, depth+1)
	case *ssa.Field:
		if fv := fieldVar(x.X.Type(), x.Field); fv != nil {
			w.s.Fields[fv] = true
		}
		w.val(x.X, push(x.Field, sel), ctx, depth+1)
	case *ssa.Phi:
		for _, e := range x.Edges {
			w.val(e, sel, ctx, depth+1)
		}
	case *ssa.Extract:
		if call, ok := x.Tuple.(*ssa.Call); ok {
			w.call(call, x.Index, sel, ctx, depth)
			return
		}
		w.val(x.Tuple, sel, ctx, depth+1)
	case *ssa.Call:
		w.call(x, 0, sel, ctx, depth)
	case *ssa.MakeInterface:
		w.val(x.X, sel, ctx, depth+1)
	case *ssa.ChangeType:
		w.val(x.X, sel, ctx, depth+1)
	case *ssa.ChangeInterface:
		w.val(x.X, sel, ctx, depth+1)
	case *ssa.Convert:
		w.val(x.X, sel, ctx, depth+1)
	case *ssa.TypeAssert:
		w.val(x.X, sel, ctx, depth+1)
	case *ssa.BinOp:
		w.val(x.X, nil, ctx, depth+1)
		w.val(x.Y, nil, ctx, depth+1)
	case *ssa.MakeClosure:
		for _, b := range x.Bindings {
			w.val(b, nil, ctx, depth+1)
		}
	default:
		w.local(v)
	}
}

// param: a parameter's (selected) sources are those of the matching argument. asAddr: the parameter is a pointer and the
// pointee's field is wanted.
func (w *deepWalker) param(x *ssa.Parameter, sel []int, ctx *deepCtx, depth int, asAddr bool) {
	f := x.Parent()
	idx := -1
	for i, q := range f.Params {
		if q == x {
			idx = i
		}
	}
	if idx < 0 {
		return
	}
	if b, ok := w.o.Bind[x]; ok && b != ssa.Value(x) {
		if asAddr {
			w.addr(b, sel, ctx, depth+1)
		} else {
			w.val(b, sel, ctx, depth+1)
		}
		return
	}
	follow := func(call ssa.CallInstruction, up *deepCtx) {
		args := CallArgs(call)
		if idx >= len(args) {
			return
		}
		a := args[idx]
		if asAddr {
			// only pointers to carriers built by the caller are followed; a long-lived object (receiver, shared
			// structure) is a leaf: its fields are the sources
			switch Unwrap(a).(type) {
			case *ssa.Alloc, *ssa.Call, *ssa.Extract, *ssa.Parameter, *ssa.Phi, *ssa.FreeVar:
				w.val(a, sel, up, depth+1)
			}
			return
		}
		w.val(a, sel, up, depth+1)
	}
	if ctx != nil && CalleeFn(ctx.call) == f {
		follow(ctx.call, ctx.up)
		return
	}
	if f.Parent() != nil {
		// a closure: only its direct calls (a local helper `respond := func(…)`, called by name) are known call sites
		if len(w.callers[f]) == 0 {
			w.s.LeafParams[x] = true
		}
		for _, call := range w.callers[f] {
			follow(call, nil)
		}
		return
	}
	if len(sel) == 0 && !asAddr {
		// an unselected parameter is itself the interesting leaf for most rules; callers are followed only for
		// unexported helpers (an exported entry point's parameter is an input of the component)
		if obj, _ := f.Object().(*types.Func); (obj == nil || obj.Exported()) && !w.o.Heap {
			w.s.LeafParams[x] = true
			return
		}
	}
	if len(w.callers[f]) == 0 {
		w.s.LeafParams[x] = true
	}
	for _, call := range w.callers[f] {
		follow(call, nil)
	}
}

// call: result #ri of a call, field-selected.
func (w *deepWalker) call(x *ssa.Call, ri int, sel []int, ctx *deepCtx, depth int) {
	w.s.CallIns[x] = true
	if obj := CalleeObj(x); obj != nil {
		w.s.Calls[obj] = true
	}
	if r, ok := w.o.Rets[x]; ok && ri < len(r) {
		if obj := CalleeObj(x); obj != nil {
			w.s.Followed[obj] = true
		}
		w.val(r[ri], sel, ctx, depth+1)
		if len(sel) == 0 {
			for _, a := range CallArgs(x) {
				w.val(a, nil, ctx, depth+1)
			}
		}
		return
	}
	cf := CalleeFn(x)
	if cf != nil && cf.Blocks != nil && cf.Pkg != nil && IsRepoPkg(cf.Pkg.Pkg.Path()) && len(cf.Blocks) <= 40 {
		nctx := &deepCtx{call: x, up: ctx}
		any := false
		ForEachInstr(cf, func(in ssa.Instruction) {
			if r, ok := in.(*ssa.Return); ok && ri < len(r.Results) {
				any = true
				w.val(r.Results[ri], sel, nctx, depth+1)
			}
		})
		if any {
			if obj := CalleeObj(x); obj != nil {
				w.s.Followed[obj] = true
			}
			if len(sel) == 0 {
				// an unselected result may also depend on the arguments through effects the return slice does not show
				// (a digest fed by Write calls): the arguments stay sources
				for _, a := range CallArgs(x) {
					w.val(a, nil, ctx, depth+1)
				}
			}
			return
		}
	}
	// external or dynamic callee: the result derives from the arguments
	for _, a := range CallArgs(x) {
		w.val(a, nil, ctx, depth+1)
	}
	switch x.Call.Value.(type) {
	case *ssa.Function, *ssa.Builtin, nil:
	default:
		if !x.Call.IsInvoke() {
			w.val(x.Call.Value, nil, ctx, depth+1)
		}
	}
}

// addr: the sources of what is stored at (*a).sel.
func (w *deepWalker) addr(a ssa.Value, sel []int, ctx *deepCtx, depth int) {
	if a == nil || depth > 40 || !w.visit("a", a, sel, ctx) {
		return
	}
	switch x := a.(type) {
	case *ssa.FieldAddr:
		if fv := fieldVar(x.X.Type(), x.Field); fv != nil {
			w.s.Fields[fv] = true
		}
		w.addr(x.X, push(x.Field, sel), ctx, depth+1)
	case *ssa.Alloc:
		w.s.Allocs[x] = true
		w.allocStores(x, x, sel, ctx, depth)
	case *ssa.Parameter:
		w.s.Params[x] = true
		w.param(x, sel, ctx, depth, true)
		w.heap(x.Type(), sel, depth)
	case *ssa.FreeVar:
		if b := ClosureBinding(x); b != nil {
			w.addr(b, sel, ctx, depth+1)
		}
	case *ssa.UnOp:
		// a pointer loaded from somewhere (pxy.cfg): a long-lived object; record the path, stop
		w.local(a)
		w.heap(x.Type(), sel, depth)
	case *ssa.Call, *ssa.Extract, *ssa.Phi:
		// pointer produced by a call (constructor returning *T): the pointee's field
		w.val(a, sel, ctx, depth+1)
	case *ssa.IndexAddr:
		w.local(a)
	default:
		w.local(a)
	}
}

// allocStores: the values stored into (*root).sel, looking at stores through address `at` (root or a field address of it)
// with the remaining selector sel.
func (w *deepWalker) allocStores(root *ssa.Alloc, at ssa.Value, sel []int, ctx *deepCtx, depth int) {
	refs := at.Referrers()
	if refs == nil {
		return
	}
	for _, r := range *refs {
		switch u := r.(type) {
		case *ssa.Store:
			if u.Addr == at {
				// whole store at this level: the remaining selection applies to the stored value
				w.val(u.Val, sel, ctx, depth+1)
			}
		case *ssa.FieldAddr:
			if u.X != at {
				continue
			}
			if len(sel) == 0 {
				// everything stored anywhere inside is a source of the whole
				w.allocStores(root, u, nil, ctx, depth+1)
			} else if u.Field == sel[0] {
				w.allocStores(root, u, sel[1:], ctx, depth+1)
			}
		case *ssa.IndexAddr:
			if u.X == at {
				w.allocStores(root, u, nil, ctx, depth+1)
			}
		}
	}
}
