package engine

import (
	"fmt"
	"go/token"
	"go/types"
	"os"
	"strings"

	"golang.org/x/tools/go/ssa"
)

// Inline exploration of small repository callees.
//
// When a path executes a static call to a small, non-recursive function of the analysed module, the callee's own
// paths (to its returns) are explored once and cached; the caller's path then forks into one state per callee path,
// taking over that path's branch literals (parameters replaced by the arguments), its events (the rule's tagging
// function is applied to the callee's effectful instructions) and the resolved return values (later uses of the call's
// results resolve to what the callee returned on that path). A guard, a cleanup or a step that was extracted into a
// helper function therefore stays visible to the rules exactly as if it were still written in place.

type calleePath struct {
	lits   []Lit
	instrs []ssa.Instruction // effectful instructions in execution order
	rets   []ssa.Value
}

var (
	inlineCache  = map[*ssa.Function][]calleePath{}
	inlineFailed = map[*ssa.Function]bool{}
	inlineActive = map[*ssa.Function]bool{}
)

const maxInlinePaths = 12

func inlinable(f *ssa.Function) bool { return inlinableFn(f, false) }

// inlinableFn: closures are expanded only when called directly through their MakeClosure (a local helper such as
// `fail := func() (T, error) {…}`), where the bindings of their free variables are known.
func inlinableFn(f *ssa.Function, closure bool) bool {
	if f == nil || f.Blocks == nil || f.Pkg == nil || (f.Parent() != nil) != closure {
		return false
	}
	pp := f.Pkg.Pkg.Path()
	if !IsRepoPkg(pp) {
		return false
	}
	// logging, metrics and version helpers carry no guards and would only multiply states
	for _, skip := range []string{"/pkg/util/xlog", "/pkg/util/log", "/pkg/util/version", "/server/metrics", "/pkg/metrics", "/pkg/util/metric"} {
		if strings.HasSuffix(pp, skip) || strings.Contains(pp, skip+"/") {
			return false
		}
	}
	n := 0
	for _, b := range f.Blocks {
		n += len(b.Instrs)
	}
	return n <= 160
}

func calleePaths(f *ssa.Function) []calleePath {
	if inlineFailed[f] || inlineActive[f] {
		return nil
	}
	if ps, ok := inlineCache[f]; ok {
		return ps
	}
	inlineActive[f] = true
	defer delete(inlineActive, f)
	q := &PathQuery{Fn: f, Sink: IsReturn, MaxStates: 4000, depth: 1, NoSummaries: true,
		Event: func(in ssa.Instruction) string {
			switch in.(type) {
			case *ssa.DebugRef, *ssa.Phi, *ssa.Jump, *ssa.If, *ssa.Return:
				return ""
			}
			return "i" // every instruction a rule's tagging function may care about (receives, ranges, lookups, …)
		}}
	states, err := q.Run()
	if err != nil || len(states) == 0 || len(states) > maxInlinePaths {
		inlineFailed[f] = true
		return nil
	}
	var out []calleePath
	for _, st := range states {
		cp := calleePath{lits: st.Lits}
		for _, e := range st.Events {
			cp.instrs = append(cp.instrs, e.Instr)
		}
		r := st.Sink.(*ssa.Return)
		for _, v := range r.Results {
			cp.rets = append(cp.rets, st.Resolve(v))
		}
		out = append(out, cp)
	}
	inlineCache[f] = out
	return out
}

// inlineCall returns the forked successor states for an inlinable call, or nil when the call is not expanded.
func (q *PathQuery) inlineCall(st *PathState, call *ssa.Call) []*PathState {
	return q.inlineCommon(st, call, call)
}

// inlineDefers expands, at the function's RunDefers, the deferred closures and small repository functions whose defer
// statement lies on the path (last deferred first): a clean-up written as `defer func() { if err != nil { … } }()`
// is judged with the value the captured variable holds when the function returns.
func (q *PathQuery) inlineDefers(st *PathState, cur *ssa.BasicBlock) []*PathState {
	var ds []*ssa.Defer
	seen := map[int]bool{}
	for _, bi := range append(append([]int{}, st.Blocks...), cur.Index) {
		if seen[bi] || bi < 0 || bi >= len(q.Fn.Blocks) {
			continue
		}
		seen[bi] = true
		b := q.Fn.Blocks[bi]
		for _, in := range b.Instrs {
			if d, ok := in.(*ssa.Defer); ok {
				ds = append(ds, d)
			}
		}
	}
	if len(ds) == 0 {
		return nil
	}
	states := []*PathState{st}
	expanded := false
	for i := len(ds) - 1; i >= 0; i-- {
		var next []*PathState
		for _, s := range states {
			if forks := q.inlineCommon(s, ds[i], nil); forks != nil {
				expanded = true
				next = append(next, forks...)
			} else {
				next = append(next, s)
			}
		}
		states = next
		if len(states) > 256 {
			return nil
		}
	}
	if !expanded {
		return nil
	}
	return states
}

// DeferExpanded reports whether a path query over d's function expands d's callee at the function's RunDefers (so that
// a rule may leave the judgement of a deferred clean-up to the events of the expanded body instead of the defer site).
func DeferExpanded(d *ssa.Defer) bool {
	f := CalleeFn(d)
	if f == nil || f == d.Parent() {
		return false
	}
	_, direct := d.Call.Value.(*ssa.MakeClosure)
	if !(inlinable(f) || direct && inlinableFn(f, true)) {
		return false
	}
	return calleePaths(f) != nil
}

func (q *PathQuery) inlineCommon(st *PathState, call ssa.CallInstruction, retKey *ssa.Call) []*PathState {
	f := CalleeFn(call)
	mc, direct := call.Common().Value.(*ssa.MakeClosure)
	if os.Getenv("FRPSA_DEBUG_INLINE") != "" {
		fmt.Fprintf(os.Stderr, "inline? %v callee=%v direct=%v value=%T\n", call, f, direct, call.Common().Value)
	}
	if f == q.Fn || !(inlinable(f) || direct && inlinableFn(f, true)) {
		return nil
	}
	paths := calleePaths(f)
	if os.Getenv("FRPSA_DEBUG_INLINE") != "" && direct {
		fmt.Fprintf(os.Stderr, "  paths=%d inlinable=%v failed=%v\n", len(paths), inlinableFn(f, true), inlineFailed[f])
	}
	if paths == nil {
		return nil
	}
	// bind parameters to the (resolved) arguments
	args := call.Common().Args
	bind := make(map[*ssa.Parameter]ssa.Value, len(st.bind)+len(f.Params))
	for k, v := range st.bind {
		bind[k] = v
	}
	for i, pr := range f.Params {
		if i < len(args) {
			bind[pr] = st.Resolve(args[i])
		}
	}
	subst := func(v ssa.Value) ssa.Value {
		if pr, ok := v.(*ssa.Parameter); ok {
			if b, ok := bind[pr]; ok {
				return b
			}
		}
		if fv, ok := v.(*ssa.FreeVar); ok && direct {
			for i, x := range f.FreeVars {
				if x == fv && i < len(mc.Bindings) {
					return mc.Bindings[i]
				}
			}
		}
		// a load through a pointer parameter bound to one of the caller's cells (`defer rollback(&err)`)
		if u, ok := v.(*ssa.UnOp); ok && u.Op == token.MUL {
			if pr, ok := u.X.(*ssa.Parameter); ok {
				if al, ok := bind[pr].(*ssa.Alloc); ok {
					if cv, ok := st.mem[al]; ok {
						return cv
					}
				}
			}
		}
		// a load of a variable captured by reference: what the caller's cell holds at the call
		if u, ok := v.(*ssa.UnOp); ok && u.Op == token.MUL && direct {
			if fv, ok := u.X.(*ssa.FreeVar); ok {
				for i, x := range f.FreeVars {
					if x == fv && i < len(mc.Bindings) {
						if al, ok := mc.Bindings[i].(*ssa.Alloc); ok {
							if cv, ok := st.mem[al]; ok {
								return cv
							}
						}
					}
				}
			}
		}
		return v
	}
	var out []*PathState
	for pi, cp := range paths {
		lits := append([]Lit{}, st.Lits...)
		feasible := true
		for _, l := range cp.lits {
			nl := Lit{Op: l.Op, X: subst(l.X), Y: subst(l.Y), Val: l.Val, At: l.At}
			dup := false
			if os.Getenv("FRPSA_DEBUG_INLINE") != "" && direct {
				fmt.Fprintf(os.Stderr, "  lit %v(%T) == %v : %v  [was %v] mem=%d\n", nl.X, nl.X, nl.Y, nl.Val, l.X, len(st.mem))
			}
			if nl.Op == token.EQL && IsNilConst(nl.Y) && nl.X != l.X {
				if isNil, known := st.NilFact(nl.X); known {
					if isNil != nl.Val {
						feasible = false
						break
					}
					dup = true
				}
			}
			for _, e := range lits {
				if sameTest(e, nl) {
					if e.Val != nl.Val {
						feasible = false
					}
					dup = true
					break
				}
			}
			if !feasible {
				break
			}
			if !dup {
				lits = append(lits, nl)
			}
		}
		if !feasible {
			continue
		}
		evs := st.Events
		if q.Event != nil && (st.armed || q.EventsBeforeFrom) {
			for _, in := range cp.instrs {
				tag := q.Event(in)
				if tag != "" {
					evs = addEvent(evs, Event{in, tag})
				}
				for _, t := range syncClosureTags(in, q.Event) {
					evs = addEvent(evs, Event{in, t})
				}
				// a helper called by the helper (one more level): what it does on every path
				if c2, ok := in.(*ssa.Call); ok && tag == "" && !q.NoSummaries {
					for _, e := range mustEvents(c2, q.Event, 0) {
						evs = addEvent(evs, e)
					}
				}
			}
		}
		rets := make(map[*ssa.Call][]ssa.Value, len(st.rets)+1)
		for k, v := range st.rets {
			rets[k] = v
		}
		rv := make([]ssa.Value, len(cp.rets))
		for i, v := range cp.rets {
			rv[i] = subst(v)
		}
		if retKey != nil {
			rets[retKey] = rv
		}
		ns := &PathState{Lits: lits, Events: evs, phi: st.phi, mem: st.mem, loads: st.loads, rets: rets, bind: bind,
			inl: st.inl + fmt.Sprintf("%p:%d;", call, pi), armed: st.armed, ArmedAt: st.ArmedAt}
		out = append(out, ns)
	}
	if len(out) == 0 {
		return nil
	}
	return out
}

// CallerAgree evaluates a path fact at every call site of the unexported function f (an extracted helper): the fact is
// known for f's entry when every path to every call site, in every function of f's package, yields the same known
// value. It is how a guard that stayed in the caller is credited to a store that moved into a helper.
func CallerAgree(p *Prog, f *ssa.Function, keepLoopFacts bool, pred func(*PathState) (bool, bool)) (bool, bool) {
	obj, _ := f.Object().(*types.Func)
	if obj == nil || obj.Exported() || f.Parent() != nil {
		return false, false
	}
	sites := 0
	var val bool
	for _, g := range p.RepoFuncs() {
		if g.Pkg != f.Pkg || g == f {
			continue
		}
		for _, call := range CallsTo(g, obj) {
			q := &PathQuery{Fn: g, Sink: Is(call), KeepLoopFacts: keepLoopFacts}
			states, err := q.Run()
			if err != nil || len(states) == 0 {
				return false, false
			}
			for _, st := range states {
				v, k := pred(st)
				if !k {
					return false, false
				}
				if sites > 0 && v != val {
					return false, false
				}
				val = v
				sites++
			}
		}
	}
	return val, sites > 0
}
