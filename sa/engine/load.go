// Package engine holds the shared analysis machinery of frpsa: loading /repo's current working tree into
// type-checked SSA form, symbolic lookup of anchors, and the analysis primitives the rules are built on.
package engine

import (
	"fmt"
	"go/ast"
	"go/token"
	"go/types"
	"os"
	"sort"
	"strings"

	"golang.org/x/tools/go/packages"
	"golang.org/x/tools/go/ssa"
	"golang.org/x/tools/go/ssa/ssautil"
)

// ModPath is the module path of the analysed repository.
const ModPath = "github.com/fatedier/frp"

// Patterns are the product packages (./test/... is the unpinned e2e harness, not product code).
var Patterns = []string{"./cmd/...", "./client/...", "./server/...", "./pkg/..."}

// LoadOpts selects what is loaded.
type LoadOpts struct {
	Dir      string            // repository root (default /repo)
	Tags     string            // build tags ("" = default configuration)
	Patterns []string          // default Patterns
	Deps     bool              // load dependency syntax/bodies too (thorough)
	Overlay  map[string][]byte // in-memory file replacements (variant self-test)
}

// Prog is a loaded, type-checked program in SSA form.
type Prog struct {
	Opts      LoadOpts
	Fset      *token.FileSet
	Pkgs      []*packages.Package          // repo packages (roots)
	ByPath    map[string]*packages.Package // all packages seen, by import path
	SSA       *ssa.Program
	SSAPkgs   map[string]*ssa.Package // by import path (repo packages; with Deps all)
	funcs     []*ssa.Function         // every repo function incl. anonymous ones, sorted by position
	byDecl    map[*types.Func]*ssa.Function
	implCache map[*types.Func][]*ssa.Function
}

// Load type-checks the repository's current working tree and builds SSA for the repo packages.
// Any load or type error is returned as an error: a check must fail rather than pass on a partial view.
func Load(o LoadOpts) (*Prog, error) {
	if o.Dir == "" {
		o.Dir = "/repo"
	}
	if len(o.Patterns) == 0 {
		o.Patterns = Patterns
	}
	mode := packages.NeedName | packages.NeedFiles | packages.NeedCompiledGoFiles | packages.NeedImports |
		packages.NeedTypes | packages.NeedTypesSizes | packages.NeedSyntax | packages.NeedTypesInfo | packages.NeedModule
	if o.Deps {
		mode |= packages.NeedDeps
	}
	env := []string{}
	for _, e := range os.Environ() {
		if strings.HasPrefix(e, "GOWORK=") || strings.HasPrefix(e, "GOFLAGS=") || strings.HasPrefix(e, "GOPROXY=") ||
			strings.HasPrefix(e, "GOSUMDB=") || strings.HasPrefix(e, "GOTOOLCHAIN=") {
			continue
		}
		env = append(env, e)
	}
	env = append(env, "GOWORK=off", "GOFLAGS=-mod=mod", "GOPROXY=off", "GOSUMDB=off", "GOTOOLCHAIN=local")
	cfg := &packages.Config{Mode: mode, Dir: o.Dir, Env: env, Fset: token.NewFileSet(), Overlay: o.Overlay}
	if o.Tags != "" {
		cfg.BuildFlags = []string{"-tags=" + o.Tags}
	}
	roots, err := packages.Load(cfg, o.Patterns...)
	if err != nil {
		return nil, fmt.Errorf("packages.Load: %w", err)
	}
	if len(roots) == 0 {
		return nil, fmt.Errorf("no packages loaded from %s", o.Dir)
	}
	p := &Prog{Opts: o, Fset: cfg.Fset, Pkgs: roots, ByPath: map[string]*packages.Package{}, SSAPkgs: map[string]*ssa.Package{}, byDecl: map[*types.Func]*ssa.Function{}}
	var errs []string
	packages.Visit(roots, nil, func(pk *packages.Package) {
		p.ByPath[pk.PkgPath] = pk
		if !strings.HasPrefix(pk.PkgPath, ModPath) {
			return
		}
		for _, e := range pk.Errors {
			errs = append(errs, e.Error())
		}
	})
	if len(errs) > 0 {
		sort.Strings(errs)
		if len(errs) > 10 {
			errs = errs[:10]
		}
		return nil, fmt.Errorf("type-check/load errors: %s", strings.Join(errs, "; "))
	}
	sort.Slice(p.Pkgs, func(i, j int) bool { return p.Pkgs[i].PkgPath < p.Pkgs[j].PkgPath })
	var ssaPkgs []*ssa.Package
	if o.Deps {
		p.SSA, ssaPkgs = ssautil.AllPackages(roots, ssa.InstantiateGenerics)
		_ = ssaPkgs
		for _, sp := range p.SSA.AllPackages() {
			p.SSAPkgs[sp.Pkg.Path()] = sp
		}
	} else {
		p.SSA, ssaPkgs = ssautil.Packages(roots, ssa.InstantiateGenerics)
		for i, sp := range ssaPkgs {
			if sp == nil {
				return nil, fmt.Errorf("no SSA package for %s", roots[i].PkgPath)
			}
			p.SSAPkgs[sp.Pkg.Path()] = sp
		}
	}
	p.SSA.Build()
	p.collectFuncs()
	return p, nil
}

func (p *Prog) collectFuncs() {
	seen := map[*ssa.Function]bool{}
	var add func(f *ssa.Function)
	add = func(f *ssa.Function) {
		if f == nil || seen[f] {
			return
		}
		seen[f] = true
		if f.Blocks != nil {
			p.funcs = append(p.funcs, f)
		}
		for _, a := range f.AnonFuncs {
			add(a)
		}
	}
	for _, pk := range p.Pkgs {
		sp := p.SSAPkgs[pk.PkgPath]
		if sp == nil {
			continue
		}
		for _, m := range sp.Members {
			switch m := m.(type) {
			case *ssa.Function:
				add(m)
			case *ssa.Type:
				for _, t := range []types.Type{m.Type(), types.NewPointer(m.Type())} {
					ms := p.SSA.MethodSets.MethodSet(t)
					for i := 0; i < ms.Len(); i++ {
						fn := p.SSA.MethodValue(ms.At(i))
						if fn != nil && fn.Pkg == sp && fn.Synthetic == "" {
							add(fn)
						}
					}
				}
			}
		}
	}
	sort.Slice(p.funcs, func(i, j int) bool {
		a, b := p.Fset.Position(p.funcs[i].Pos()), p.Fset.Position(p.funcs[j].Pos())
		if a.Filename != b.Filename {
			return a.Filename < b.Filename
		}
		if a.Offset != b.Offset {
			return a.Offset < b.Offset
		}
		return p.funcs[i].String() < p.funcs[j].String()
	})
	for _, f := range p.funcs {
		if o, ok := f.Object().(*types.Func); ok && o != nil {
			p.byDecl[o] = f
		}
	}
}

// RepoFuncs returns every function with a body defined in the repo packages (methods, closures included).
func (p *Prog) RepoFuncs() []*ssa.Function { return p.funcs }

// FuncOf returns the SSA function of a declared function object (nil if it has no body in the loaded set).
func (p *Prog) FuncOf(o *types.Func) *ssa.Function {
	if o == nil {
		return nil
	}
	if f := p.byDecl[o]; f != nil {
		return f
	}
	return p.SSA.FuncValue(o)
}

// Pkg returns the repo package with import path ModPath+"/"+rel (rel may also be a full import path).
func (p *Prog) Pkg(rel string) *packages.Package {
	if pk := p.ByPath[rel]; pk != nil {
		return pk
	}
	return p.ByPath[ModPath+"/"+rel]
}

// Obj looks up a package-level object, e.g. Obj("server", "Control").
func (p *Prog) Obj(pkg, name string) types.Object {
	pk := p.Pkg(pkg)
	if pk == nil || pk.Types == nil {
		return nil
	}
	return pk.Types.Scope().Lookup(name)
}

// Named returns the named type pkg.name, or nil.
func (p *Prog) Named(pkg, name string) *types.Named {
	o := p.Obj(pkg, name)
	if o == nil {
		return nil
	}
	n, _ := types.Unalias(o.Type()).(*types.Named)
	return n
}

// Field returns the field object pkg.typ.field (searching embedded structs one level), or nil.
func (p *Prog) Field(pkg, typ, field string) *types.Var {
	n := p.Named(pkg, typ)
	if n == nil {
		return nil
	}
	st, _ := n.Underlying().(*types.Struct)
	if st == nil {
		return nil
	}
	for i := 0; i < st.NumFields(); i++ {
		if st.Field(i).Name() == field {
			return st.Field(i)
		}
	}
	return nil
}

// FuncFound is called for every successfully resolved function anchor (used to write the golden signature table);
// FuncRenamed is asked when an anchor's name no longer exists (re-identification of a renamed function by its
// signature among the names that are new in its scope). Both are installed by package rules.
var (
	FuncFound   func(p *Prog, pkg, typ, name string, f *types.Func)
	FuncRenamed func(p *Prog, pkg, typ, name string) *types.Func
)

// ScopeFuncs lists the functions of a scope: the methods of pkg.typ (declared and interface methods), or the
// package-level functions of pkg when typ is empty.
func (p *Prog) ScopeFuncs(pkg, typ string) []*types.Func {
	var out []*types.Func
	if typ == "" {
		pk := p.Pkg(pkg)
		if pk == nil || pk.Types == nil {
			return nil
		}
		sc := pk.Types.Scope()
		for _, nm := range sc.Names() {
			if f, ok := sc.Lookup(nm).(*types.Func); ok {
				out = append(out, f)
			}
		}
		return out
	}
	n := p.Named(pkg, typ)
	if n == nil {
		return nil
	}
	for i := 0; i < n.NumMethods(); i++ {
		out = append(out, n.Method(i))
	}
	if it, ok := n.Underlying().(*types.Interface); ok {
		for i := 0; i < it.NumMethods(); i++ {
			out = append(out, it.Method(i))
		}
	}
	return out
}

// MethodObj returns the method object of pkg.typ (pointer or value receiver) named name.
func (p *Prog) MethodObj(pkg, typ, name string) *types.Func {
	for _, m := range p.ScopeFuncs(pkg, typ) {
		if m.Name() == name {
			if FuncFound != nil {
				FuncFound(p, pkg, typ, name, m)
			}
			return m
		}
	}
	if FuncRenamed != nil && p.Named(pkg, typ) != nil {
		return FuncRenamed(p, pkg, typ, name)
	}
	return nil
}

// FuncObj returns the package-level function object pkg.name.
func (p *Prog) FuncObj(pkg, name string) *types.Func {
	f, _ := p.Obj(pkg, name).(*types.Func)
	if f != nil {
		if FuncFound != nil {
			FuncFound(p, pkg, "", name, f)
		}
		return f
	}
	if FuncRenamed != nil && p.Pkg(pkg) != nil {
		return FuncRenamed(p, pkg, "", name)
	}
	return f
}

// Fn resolves a symbolic function name to its SSA function:
//
//	"server.RegisterX"            package-level function
//	"server.Control.RegisterX"    method (value or pointer receiver)
//	"pkg/util/vhost.Muxer.handle" package given by repo-relative path
//	append "$1", "$2"… for the n-th anonymous function (in source order), nested: "$1$2"
func (p *Prog) Fn(sym string) *ssa.Function {
	anon := ""
	if i := strings.Index(sym, "$"); i >= 0 {
		sym, anon = sym[:i], sym[i:]
	}
	// package part is everything up to the last '/' plus the first dot-separated element after it
	slash := strings.LastIndex(sym, "/")
	rest := sym[slash+1:]
	parts := strings.Split(rest, ".")
	pkg := sym[:slash+1] + parts[0]
	var f *ssa.Function
	switch len(parts) {
	case 2:
		f = p.FuncOf(p.FuncObj(pkg, parts[1]))
	case 3:
		f = p.FuncOf(p.MethodObj(pkg, parts[1], parts[2]))
	}
	for f != nil && anon != "" {
		anon = anon[1:]
		j := strings.Index(anon, "$")
		num := anon
		if j >= 0 {
			num, anon = anon[:j], anon[j:]
		} else {
			anon = ""
		}
		n := 0
		fmt.Sscanf(num, "%d", &n)
		if n < 1 || n > len(f.AnonFuncs) {
			return nil
		}
		f = f.AnonFuncs[n-1]
	}
	return f
}

// Pos renders a position relative to the repository root.
func (p *Prog) Pos(pos token.Pos) string {
	if !pos.IsValid() {
		return "-"
	}
	ps := p.Fset.Position(pos)
	fn := strings.TrimPrefix(ps.Filename, p.Opts.Dir+"/")
	return fmt.Sprintf("%s:%d", fn, ps.Line)
}

// FuncName renders a stable symbolic name for a function: pkgrel.(Recv).Name[$n].
func (p *Prog) FuncName(f *ssa.Function) string {
	if f == nil {
		return "<nil>"
	}
	if f.Parent() != nil {
		par := f.Parent()
		for i, a := range par.AnonFuncs {
			if a == f {
				return fmt.Sprintf("%s$%d", p.FuncName(par), i+1)
			}
		}
		return p.FuncName(par) + "$?"
	}
	pk := ""
	if f.Pkg != nil {
		pk = strings.TrimPrefix(f.Pkg.Pkg.Path(), ModPath+"/")
	} else if o := f.Object(); o != nil && o.Pkg() != nil {
		pk = strings.TrimPrefix(o.Pkg().Path(), ModPath+"/")
	}
	if f.Signature != nil && f.Signature.Recv() != nil {
		t := f.Signature.Recv().Type()
		if pt, ok := t.(*types.Pointer); ok {
			t = pt.Elem()
		}
		if n, ok := types.Unalias(t).(*types.Named); ok {
			return fmt.Sprintf("%s.%s.%s", pk, n.Obj().Name(), f.Name())
		}
	}
	return pk + "." + f.Name()
}

// IsRepoPkg reports whether the package path belongs to the analysed module.
func IsRepoPkg(path string) bool { return strings.HasPrefix(path, ModPath) }

// FileOf returns the AST file and package containing pos.
func (p *Prog) FileOf(pos token.Pos) (*ast.File, *packages.Package) {
	for _, pk := range p.Pkgs {
		for _, f := range pk.Syntax {
			if f.FileStart <= pos && pos <= f.FileEnd {
				return f, pk
			}
		}
	}
	return nil, nil
}

// Stats summarises what was loaded, for evidence.
func (p *Prog) Stats() (pkgs, funcs int) { return len(p.Pkgs), len(p.funcs) }
