package engine

import (
	"go/types"
	"sort"

	"golang.org/x/tools/go/ssa"
)

// P7 — lock-held analysis. Locks are identified by the mutex *field* (types.Var) they are selected from
// (type-based identity: "the mu of a Controller"), in write (W) or read (R) mode. A forward must-analysis
// computes, for every instruction, the set of locks held on every path to it. `defer mu.Unlock()` does not
// release within the function (the lock is held until the function returns). Closures that are invoked
// synchronously at a known site (immediately called, passed to errors.PanicToError / sync.Once.Do) and
// unexported functions all of whose static call sites hold a lock inherit that lock at entry (requires-lock
// summary, iterated to a fixpoint).

// LockMode is R or W.
type LockMode int

const (
	LockR LockMode = 1
	LockW LockMode = 2
)

// LockSet maps mutex field to the strongest mode held.
type LockSet map[*types.Var]LockMode

func (s LockSet) clone() LockSet {
	o := make(LockSet, len(s))
	for k, v := range s {
		o[k] = v
	}
	return o
}

func meet(a, b LockSet) LockSet {
	o := LockSet{}
	for k, va := range a {
		if vb, ok := b[k]; ok {
			if vb < va {
				va = vb
			}
			o[k] = va
		}
	}
	return o
}

func equalSets(a, b LockSet) bool {
	if len(a) != len(b) {
		return false
	}
	for k, v := range a {
		if b[k] != v {
			return false
		}
	}
	return true
}

// Names renders the set for reports.
func (s LockSet) Names() []string {
	var out []string
	for k, m := range s {
		n := k.Name()
		if m == LockR {
			n += "(R)"
		}
		out = append(out, n)
	}
	sort.Strings(out)
	return out
}

// MutexOp classifies a call instruction as a mutex operation on a struct field.
// op is one of "Lock","Unlock","RLock","RUnlock"; ok=false otherwise.
func MutexOp(in ssa.Instruction) (field *types.Var, op string, ok bool) {
	call, isCall := in.(ssa.CallInstruction)
	if !isCall {
		return nil, "", false
	}
	o := CalleeObj(call)
	if o == nil || o.Pkg() == nil || o.Pkg().Path() != "sync" {
		return nil, "", false
	}
	switch o.Name() {
	case "Lock", "Unlock", "RLock", "RUnlock":
	default:
		return nil, "", false
	}
	sig, _ := o.Type().(*types.Signature)
	if sig == nil || sig.Recv() == nil {
		return nil, "", false
	}
	rn := NamedOf(sig.Recv().Type())
	if rn == nil || (rn.Obj().Name() != "Mutex" && rn.Obj().Name() != "RWMutex") {
		return nil, "", false
	}
	args := CallArgs(call)
	if len(args) == 0 {
		return nil, "", false
	}
	fv, _ := LoadedField(args[0])
	if fv == nil {
		return nil, "", false
	}
	return fv, o.Name(), true
}

// LockInfo is the result of the analysis over a program.
type LockInfo struct {
	p      *Prog
	in     map[*ssa.BasicBlock]LockSet
	entry  map[*ssa.Function]LockSet
	syncAt map[*ssa.Function][]ssa.Instruction // sites that run a closure synchronously
}

// AnalyzeLocks runs the analysis over all repo functions.
func AnalyzeLocks(p *Prog) *LockInfo {
	li := &LockInfo{p: p, in: map[*ssa.BasicBlock]LockSet{}, entry: map[*ssa.Function]LockSet{}, syncAt: map[*ssa.Function][]ssa.Instruction{}}
	funcs := p.RepoFuncs()
	// static call sites per function (direct calls only; go/defer excluded for inheritance)
	callers := map[*ssa.Function][]ssa.Instruction{}
	addrTaken := map[*ssa.Function]bool{}
	for _, f := range funcs {
		ForEachInstr(f, func(in ssa.Instruction) {
			// closures / functions used as values
			for _, op := range in.Operands(nil) {
				switch v := (*op).(type) {
				case *ssa.Function:
					if c, ok := in.(ssa.CallInstruction); ok && c.Common().Value == v {
						continue
					}
					addrTaken[v] = true
				case *ssa.MakeClosure:
					_ = v
				}
			}
			call, ok := in.(*ssa.Call)
			if !ok {
				return
			}
			if cf := CalleeFn(call); cf != nil && cf.Blocks != nil {
				callers[cf] = append(callers[cf], in)
			}
			// closures passed to synchronous runners
			if o := CalleeObj(call); o != nil && o.Pkg() != nil {
				full := o.Pkg().Path() + "." + o.Name()
				if full == "github.com/fatedier/golib/errors.PanicToError" || (o.Pkg().Path() == "sync" && o.Name() == "Do") {
					for _, a := range call.Call.Args {
						if mc, ok := a.(*ssa.MakeClosure); ok {
							if cf, ok := mc.Fn.(*ssa.Function); ok {
								callers[cf] = append(callers[cf], in)
								li.syncAt[cf] = append(li.syncAt[cf], in)
							}
						}
					}
				}
			}
		})
	}
	inherits := func(f *ssa.Function) bool {
		if len(callers[f]) == 0 {
			return false
		}
		if f.Parent() != nil {
			// a closure: inherits only if every creation site is a synchronous call site recorded above
			n := 0
			ForEachInstr(f.Parent(), func(in ssa.Instruction) {
				if mc, ok := in.(*ssa.MakeClosure); ok && mc.Fn == f {
					n++
				}
			})
			// each MakeClosure must be consumed by a recorded caller instruction
			used := 0
			for _, site := range callers[f] {
				for _, op := range site.Operands(nil) {
					if mc, ok := (*op).(*ssa.MakeClosure); ok && mc.Fn == f {
						used++
					}
				}
			}
			return n > 0 && used >= n
		}
		if addrTaken[f] {
			return false
		}
		o := f.Object()
		return o != nil && !o.Exported()
	}
	for round := 0; round < 4; round++ {
		changed := false
		for _, f := range funcs {
			li.analyzeFunc(f)
		}
		for _, f := range funcs {
			if !inherits(f) {
				continue
			}
			var e LockSet
			for i, site := range callers[f] {
				h := li.HeldAt(site)
				if i == 0 {
					e = h.clone()
				} else {
					e = meet(e, h)
				}
			}
			if !equalSets(e, li.entry[f]) {
				li.entry[f] = e
				changed = true
			}
		}
		if !changed {
			break
		}
	}
	return li
}

func (li *LockInfo) analyzeFunc(f *ssa.Function) {
	if len(f.Blocks) == 0 {
		return
	}
	entry := li.entry[f]
	if entry == nil {
		entry = LockSet{}
	}
	out := map[*ssa.BasicBlock]LockSet{}
	inSet := map[*ssa.BasicBlock]LockSet{f.Blocks[0]: entry.clone()}
	work := []*ssa.BasicBlock{f.Blocks[0]}
	seen := map[*ssa.BasicBlock]bool{}
	for len(work) > 0 {
		b := work[0]
		work = work[1:]
		cur := inSet[b].clone()
		for _, in := range b.Instrs {
			if _, isDefer := in.(*ssa.Defer); isDefer {
				continue
			}
			if _, isGo := in.(*ssa.Go); isGo {
				continue
			}
			applyLockOp(cur, in)
		}
		if prev, ok := out[b]; ok && equalSets(prev, cur) && seen[b] {
			continue
		}
		seen[b] = true
		out[b] = cur
		for _, s := range b.Succs {
			if old, ok := inSet[s]; ok {
				m := meet(old, cur)
				if !equalSets(m, old) {
					inSet[s] = m
					work = append(work, s)
				}
			} else {
				inSet[s] = cur.clone()
				work = append(work, s)
			}
		}
	}
	for b, s := range inSet {
		li.in[b] = s
	}
}

func applyLockOp(cur LockSet, in ssa.Instruction) {
	fv, op, ok := MutexOp(in)
	if !ok {
		return
	}
	switch op {
	case "Lock":
		cur[fv] = LockW
	case "RLock":
		if cur[fv] < LockR {
			cur[fv] = LockR
		}
	case "Unlock", "RUnlock":
		delete(cur, fv)
	}
}

// HeldAt returns the locks held on every path just before the instruction executes.
func (li *LockInfo) HeldAt(in ssa.Instruction) LockSet {
	b := in.Block()
	if b == nil {
		return LockSet{}
	}
	s, ok := li.in[b]
	if !ok {
		return LockSet{}
	}
	cur := s.clone()
	for _, x := range b.Instrs {
		if x == in {
			break
		}
		if _, isDefer := x.(*ssa.Defer); isDefer {
			continue
		}
		if _, isGo := x.(*ssa.Go); isGo {
			continue
		}
		applyLockOp(cur, x)
	}
	return cur
}

// EntryLocks returns the requires-lock summary of f.
func (li *LockInfo) EntryLocks(f *ssa.Function) LockSet {
	if e := li.entry[f]; e != nil {
		return e
	}
	return LockSet{}
}

// ---- lock order ----

// LockEdge says: while `From` is held (on every path to Site), `To` is acquired, at Site directly or inside the
// callee Via.
type LockEdge struct {
	From, To *types.Var
	Site     ssa.Instruction
	Via      *ssa.Function
}

// LockOrder returns the acquisition-order edges of the program. Locks are identified by struct field (all instances of
// a type share one node); self edges are dropped. Held sets are must-sets, so every edge is real on some execution
// that reaches its site.
func (li *LockInfo) LockOrder() []LockEdge {
	acq := map[*ssa.Function]map[*types.Var]bool{}
	var acquires func(f *ssa.Function, depth int) map[*types.Var]bool
	acquires = func(f *ssa.Function, depth int) map[*types.Var]bool {
		if m, ok := acq[f]; ok {
			return m
		}
		m := map[*types.Var]bool{}
		acq[f] = m // cycles see the partial set
		if f == nil || f.Blocks == nil || depth > 6 {
			return m
		}
		ForEachInstr(f, func(in ssa.Instruction) {
			if _, isGo := in.(*ssa.Go); isGo {
				return
			}
			if fv, op, ok := MutexOp(in); ok && (op == "Lock" || op == "RLock") {
				m[fv] = true
				return
			}
			if call, ok := in.(ssa.CallInstruction); ok {
				if cf := CalleeFn(call); cf != nil && cf.Pkg != nil && IsRepoPkg(cf.Pkg.Pkg.Path()) {
					for k := range acquires(cf, depth+1) {
						m[k] = true
					}
				}
				// closures passed to a synchronous runner (PanicToError, Once.Do) or called directly
				for _, a := range call.Common().Args {
					if mc, ok := a.(*ssa.MakeClosure); ok {
						if cf, ok := mc.Fn.(*ssa.Function); ok {
							for k := range acquires(cf, depth+1) {
								m[k] = true
							}
						}
					}
				}
			}
		})
		return m
	}
	var out []LockEdge
	for _, f := range li.p.RepoFuncs() {
		ForEachInstr(f, func(in ssa.Instruction) {
			if _, isGo := in.(*ssa.Go); isGo {
				return
			}
			if _, isDefer := in.(*ssa.Defer); isDefer {
				return // runs at exit, with the exit's lock set; the deferred callee's own body is analysed as a function
			}
			held := li.HeldAt(in)
			if len(held) == 0 {
				return
			}
			if fv, op, ok := MutexOp(in); ok {
				if op == "Lock" || op == "RLock" {
					for h := range held {
						if h != fv {
							out = append(out, LockEdge{From: h, To: fv, Site: in})
						}
					}
				}
				return
			}
			call, ok := in.(ssa.CallInstruction)
			if !ok {
				return
			}
			cf := CalleeFn(call)
			if cf == nil || cf.Pkg == nil || !IsRepoPkg(cf.Pkg.Pkg.Path()) {
				return
			}
			for k := range acquires(cf, 0) {
				for h := range held {
					if h != k {
						out = append(out, LockEdge{From: h, To: k, Site: in, Via: cf})
					}
				}
			}
		})
	}
	return out
}
