package engine

import (
	"fmt"
	"go/constant"
	"go/token"
	"go/types"
	"os"
	"sort"
	"strings"

	"golang.org/x/tools/go/ssa"
)

// P1/P2/P3 — path-sensitive exploration of one function's SSA control-flow graph.
//
// A query walks every feasible acyclic-modulo-state path from a start point to a set of sink instructions.
// Along a path it records (a) branch literals: the condition of every If taken, with phi nodes resolved to the
// operand that flows in on this path, and negations/!= normalised away; (b) events: instructions the rule
// asked to see, in last-occurrence order. Paths whose literals contradict each other (same comparison with
// opposite outcome, constant conditions, nil-tests of values that cannot be nil) are pruned. The walk is a
// reachability search in the product of the CFG with the (finite) set of literal/event sets, so it terminates
// and visits each distinct state once; exceeding MaxStates yields an error (the rule reports UNDECIDED).

// Lit is one branch fact along a path.
type Lit struct {
	Op   token.Token // token.EQL for (in)equality tests (Val false means "!="), token.ILLEGAL for a boolean atom X, else the ordering operator
	X, Y ssa.Value   // resolved operands (Y nil for atoms)
	Val  bool        // outcome on this path
	At   *ssa.If
}

func (l Lit) String() string {
	switch {
	case l.Op == token.ILLEGAL:
		if l.Val {
			return Describe(l.X)
		}
		return "!" + Describe(l.X)
	case l.Op == token.EQL:
		op := "=="
		if !l.Val {
			op = "!="
		}
		return Describe(l.X) + " " + op + " " + Describe(l.Y)
	default:
		s := Describe(l.X) + " " + l.Op.String() + " " + Describe(l.Y)
		if !l.Val {
			return "!(" + s + ")"
		}
		return s
	}
}

// Event is an instruction of interest met on a path.
type Event struct {
	Instr ssa.Instruction
	Tag   string
}

// PathState is what is known at a point of one path.
type PathState struct {
	Lits   []Lit
	Events []Event
	Blocks []int // witness: block indices walked
	phi    map[*ssa.Phi]ssa.Value
	mem    map[*ssa.Alloc]ssa.Value // last value stored into tracked local cells on this path
	loads  map[*ssa.UnOp]ssa.Value  // value each executed load of a tracked cell observed on this path
	Sink   ssa.Instruction
	rets   map[*ssa.Call][]ssa.Value    // resolved results of calls whose callee was explored inline on this path
	bind   map[*ssa.Parameter]ssa.Value // parameters of inlined callees bound to the caller's arguments
	inl    string                       // which callee path was taken at each inlined call (part of the state key)
	armed  bool                         // the From instruction has been passed (always true when the query has no From)
	// ArmedAt is the index into Blocks of the block containing From (0 without From).
	ArmedAt int
}

// Resolve maps a value to what it denotes on this path (phi nodes replaced by the incoming operand).
func (s *PathState) Resolve(v ssa.Value) ssa.Value {
	for i := 0; i < 32; i++ {
		switch x := v.(type) {
		case *ssa.Parameter:
			if r, ok := s.bind[x]; ok && r != v {
				v = r
				continue
			}
			return v
		case *ssa.Phi:
			r, ok := s.phi[x]
			if !ok || r == v {
				return v
			}
			v = r
		case *ssa.UnOp:
			// load of a tracked local cell (captured variable, named or defer-spilled result)
			if x.Op != token.MUL {
				return v
			}
			al, ok := x.X.(*ssa.Alloc)
			if !ok {
				return v
			}
			// the value this very load observed when it executed on the path; for loads the path has not
			// executed (or executed before the cell was known) fall back to the cell's current content
			r, ok := s.loads[x]
			if !ok {
				r, ok = s.mem[al]
			}
			if !ok || r == v {
				return v
			}
			v = r
		default:
			return v
		}
	}
	return v
}

// Returned: when the callee of the call that produced v was explored inline on this path, the value the callee
// returned for that result on this path (nil otherwise). Call results themselves stay opaque for Resolve so that
// rules can keep matching on the callee.
func (s *PathState) Returned(v ssa.Value) ssa.Value {
	switch x := v.(type) {
	case *ssa.Call:
		if r, ok := s.rets[x]; ok && len(r) == 1 {
			return r[0]
		}
	case *ssa.Extract:
		if c, ok := x.Tuple.(*ssa.Call); ok {
			if r, ok := s.rets[c]; ok && x.Index < len(r) {
				return r[x.Index]
			}
		}
	}
	return nil
}

// CellValue returns the value last stored into a tracked local cell on this path (nil if unknown).
func (s *PathState) CellValue(al *ssa.Alloc) ssa.Value { return s.mem[al] }

// HasEvent reports whether an event with the tag occurred on the path.
func (s *PathState) HasEvent(tag string) bool {
	for _, e := range s.Events {
		if e.Tag == tag {
			return true
		}
	}
	return false
}

// EventIndex returns the position of the last event with that tag, or -1.
func (s *PathState) EventIndex(tag string) int {
	for i := len(s.Events) - 1; i >= 0; i-- {
		if s.Events[i].Tag == tag {
			return i
		}
	}
	return -1
}

// IsNil: does the path know whether a value matched by m is nil? (known=false when no literal talks about it)
func (s *PathState) IsNil(m func(ssa.Value) bool) (isNil, known bool) {
	for _, l := range s.Lits {
		if l.Op != token.EQL {
			continue
		}
		if IsNilConst(l.Y) && m(l.X) {
			return l.Val, true
		}
		if IsNilConst(l.X) && m(l.Y) {
			return l.Val, true
		}
	}
	return false, false
}

// NilFact: is v nil on this path? v is resolved through phis, tracked cells and the returns of callees that were explored
// inline (a local `fail()` helper, an extracted constructor); constants, freshly built values and built errors answer
// for themselves, otherwise the path's literals about the value (or about the call that produced it) decide.
func (s *PathState) NilFact(v ssa.Value) (isNil, known bool) {
	for i := 0; i < 8; i++ {
		v = s.Resolve(v)
		r := s.Returned(v)
		if r == nil || r == v {
			break
		}
		if n, k := s.IsNil(func(x ssa.Value) bool { return x == v }); k {
			return n, true
		}
		v = r
	}
	if IsNilConst(v) {
		return true, true
	}
	if neverNil(v) {
		return false, true
	}
	return s.IsNil(func(x ssa.Value) bool { return x == v })
}

// Truth: outcome of a boolean atom matched by m on this path.
func (s *PathState) Truth(m func(ssa.Value) bool) (val, known bool) {
	for _, l := range s.Lits {
		if l.Op == token.ILLEGAL && m(l.X) {
			return l.Val, true
		}
	}
	return false, false
}

// Equal: outcome of an (in)equality test between values matched by mx and my (either order).
func (s *PathState) Equal(mx, my func(ssa.Value) bool) (eq, known bool) {
	for _, l := range s.Lits {
		if l.Op != token.EQL {
			continue
		}
		if (mx(l.X) && my(l.Y)) || (mx(l.Y) && my(l.X)) {
			return l.Val, true
		}
	}
	return false, false
}

// Compare finds an ordering literal (<, <=, >, >=) whose operands match; it returns the operator as if the
// literal were true (negated outcomes are flipped: !(a < b) is reported as a >= b) and whether mx matched X.
func (s *PathState) Compare(mx, my func(ssa.Value) bool) (op token.Token, xFirst, known bool) {
	for _, l := range s.Lits {
		switch l.Op {
		case token.LSS, token.LEQ, token.GTR, token.GEQ:
		default:
			continue
		}
		o := l.Op
		if !l.Val {
			o = negateOrd(o)
		}
		if mx(l.X) && my(l.Y) {
			return o, true, true
		}
		if mx(l.Y) && my(l.X) {
			return o, false, true
		}
	}
	return 0, false, false
}

func negateOrd(o token.Token) token.Token {
	switch o {
	case token.LSS:
		return token.GEQ
	case token.LEQ:
		return token.GTR
	case token.GTR:
		return token.LEQ
	case token.GEQ:
		return token.LSS
	}
	return o
}

// Ordered calls f for every ordering literal of the path, normalised as if true (x op y) and also in flipped
// orientation (y op' x); it returns true as soon as f does. Negated outcomes are rewritten (!(a > b) is a <= b).
func (s *PathState) Ordered(f func(x ssa.Value, op token.Token, y ssa.Value) bool) bool {
	for _, l := range s.Lits {
		switch l.Op {
		case token.LSS, token.LEQ, token.GTR, token.GEQ:
		default:
			continue
		}
		op := l.Op
		if !l.Val {
			op = negateOrd(op)
		}
		if f(l.X, op, l.Y) {
			return true
		}
		var fl token.Token
		switch op {
		case token.LSS:
			fl = token.GTR
		case token.LEQ:
			fl = token.GEQ
		case token.GTR:
			fl = token.LSS
		case token.GEQ:
			fl = token.LEQ
		}
		if f(l.Y, fl, l.X) {
			return true
		}
	}
	return false
}

// LitStrings renders the literals for reports.
func (s *PathState) LitStrings() []string {
	var out []string
	for _, l := range s.Lits {
		out = append(out, l.String())
	}
	return out
}

// Witness renders the path as block indices.
func (s *PathState) Witness() string {
	var b []string
	for _, i := range s.Blocks {
		b = append(b, fmt.Sprint(i))
	}
	return "blocks " + strings.Join(b, ">")
}

// PathQuery describes one exploration.
type PathQuery struct {
	Fn                *ssa.Function
	From              ssa.Instruction              // sinks, cuts and events count only after this instruction was passed (nil: from entry); facts are collected from the function entry either way
	EventsBeforeFrom  bool                         // also record events met before From
	Sink              func(ssa.Instruction) bool   // a path ends (and is recorded) when it reaches such an instruction
	Event             func(ssa.Instruction) string // tag instructions of interest ("" = ignore)
	Relevant          func(cond ssa.Value) bool    // which branch conditions are recorded (nil: all)
	Cut               func(ssa.Instruction) bool   // a path silently ends at such an instruction (not recorded)
	Track             []ssa.Value                  // values whose per-path resolution the rule will ask for (their phis join the state key)
	NoSummaries       bool                         // do not expand literals about helper results into the helper's own guards
	NoInline          bool                         // do not explore small repo callees inline
	depth             int
	ContinueAfterSink bool // record the state at a sink and keep walking (default: the path ends at the sink)
	KeepLoopFacts     bool // do not forget loop-local facts on back edges (for single-iteration queries)
	MaxStates         int  // default 200000
	Steps             int  // out: number of (block,state) pairs visited
}

type pstate struct {
	blk  *ssa.BasicBlock
	idx  int // instruction index to start at
	st   *PathState
	from *ssa.BasicBlock
}

// Run explores and returns the recorded states at sinks. Inline exploration of helpers is tried first under a
// small state budget; if that budget is exceeded the query is repeated without inlining under the full budget.
func (q *PathQuery) Run() ([]*PathState, error) {
	if q.NoInline || q.depth > 0 || os.Getenv("FRPSA_NOINLINE") == "1" {
		q.NoInline = true
		return q.run()
	}
	full := q.MaxStates
	q.MaxStates = 6000
	states, err := q.run()
	if err == nil {
		return states, nil
	}
	q.MaxStates = full
	q.NoInline = true
	q.Steps = 0
	return q.run()
}

func (q *PathQuery) run() ([]*PathState, error) {
	fn := q.Fn
	if fn == nil || len(fn.Blocks) == 0 {
		return nil, fmt.Errorf("no function body")
	}
	if q.MaxStates == 0 {
		q.MaxStates = 200000
	}
	start := pstate{blk: fn.Blocks[0], idx: 0, st: &PathState{phi: map[*ssa.Phi]ssa.Value{}, armed: q.From == nil}}
	if q.From != nil {
		if b := q.From.Block(); b == nil || b.Parent() != fn {
			return nil, fmt.Errorf("start instruction not in function")
		}
	}
	condPhis := relevantPhis(fn)
	cells := classifyCells(fn)
	for _, v := range q.Track {
		markPhis(condPhis, v, 0)
	}
	visited := map[string]bool{}
	var out []*PathState
	stack := []pstate{start}
	for len(stack) > 0 {
		cur := stack[len(stack)-1]
		stack = stack[:len(stack)-1]
		key := stateKey(cur.blk, cur.idx, cur.st, condPhis)
		if visited[key] {
			continue
		}
		visited[key] = true
		q.Steps++
		if len(visited) > q.MaxStates {
			return out, fmt.Errorf("path exploration exceeded %d states in %s", q.MaxStates, fn)
		}
		st := cur.st
		st = &PathState{Lits: st.Lits, Events: st.Events, Blocks: append(append([]int{}, st.Blocks...), cur.blk.Index), phi: st.phi, mem: st.mem, loads: st.loads, rets: st.rets, bind: st.bind, inl: st.inl, armed: st.armed, ArmedAt: st.ArmedAt}
		ended := false
		for i := cur.idx; i < len(cur.blk.Instrs); i++ {
			in := cur.blk.Instrs[i]
			if st.armed && q.Sink != nil && q.Sink(in) {
				rec := *st
				rec.Sink = in
				out = append(out, &rec)
				if !q.ContinueAfterSink || IsReturn(in) {
					ended = true
					break
				}
			}
			if st.armed && q.Cut != nil && q.Cut(in) {
				ended = true
				break
			}
			tagged := false
			if q.Event != nil && (st.armed || q.EventsBeforeFrom) {
				if tag := q.Event(in); tag != "" {
					st.Events = addEvent(st.Events, Event{in, tag})
					tagged = true
				}
				for _, t := range syncClosureTags(in, q.Event) {
					st.Events = addEvent(st.Events, Event{in, t})
				}
			}
			wasArmed := st.armed
			if !st.armed && in == q.From {
				st.armed = true
				st.ArmedAt = len(st.Blocks) - 1
			}
			if call, ok := in.(*ssa.Call); ok && !q.NoInline && q.depth == 0 {
				if forks := q.inlineCall(st, call); forks != nil {
					for _, ns := range forks {
						ns.Blocks = st.Blocks
						stack = append(stack, pstate{blk: cur.blk, idx: i + 1, st: ns})
					}
					ended = true
					break
				}
			}
			if _, ok := in.(*ssa.RunDefers); ok && q.depth == 0 {
				if forks := q.inlineDefers(st, cur.blk); forks != nil {
					for _, ns := range forks {
						ns.Blocks = st.Blocks
						stack = append(stack, pstate{blk: cur.blk, idx: i + 1, st: ns})
					}
					ended = true
					break
				}
			}
			// not explored inline: the events that every path of the callee passes are events of the call (added once —
			// an inlined callee contributes its events itself)
			if q.Event != nil && !tagged && (wasArmed || q.EventsBeforeFrom) {
				if call, ok := in.(*ssa.Call); ok && !q.NoSummaries {
					for _, e := range mustEvents(call, q.Event, 0) {
						st.Events = addEvent(st.Events, e)
					}
				}
			}
			switch x := in.(type) {
			case *ssa.UnOp:
				if x.Op == token.MUL {
					if al, ok := x.X.(*ssa.Alloc); ok && cells[al] != cellNone {
						if cur, ok := st.mem[al]; ok {
							nl := make(map[*ssa.UnOp]ssa.Value, len(st.loads)+1)
							for k, v := range st.loads {
								nl[k] = v
							}
							nl[x] = cur
							st.loads = nl
						} else if _, had := st.loads[x]; had {
							nl := make(map[*ssa.UnOp]ssa.Value, len(st.loads))
							for k, v := range st.loads {
								if k != x {
									nl[k] = v
								}
							}
							st.loads = nl
						}
					}
				}
			case *ssa.Alloc:
				// a fresh cell holds its zero value: nil for nillable element types
				if cells[x] != cellNone && nillable(Deref(x.Type())) {
					nm := make(map[*ssa.Alloc]ssa.Value, len(st.mem)+1)
					for k, v := range st.mem {
						nm[k] = v
					}
					nm[x] = ssa.NewConst(nil, Deref(x.Type()))
					st.mem = nm
				} else if cells[x] != cellNone {
					// … and 0 / "" / false for basic element types (a named result that no path has assigned yet)
					if z := zeroConst(Deref(x.Type())); z != nil {
						nm := make(map[*ssa.Alloc]ssa.Value, len(st.mem)+1)
						for k, v := range st.mem {
							nm[k] = v
						}
						nm[x] = z
						st.mem = nm
					}
				}
			case *ssa.Store:
				if al, ok := x.Addr.(*ssa.Alloc); ok && cells[al] != cellNone {
					nm := make(map[*ssa.Alloc]ssa.Value, len(st.mem)+1)
					for k, v := range st.mem {
						nm[k] = v
					}
					nm[al] = st.Resolve(x.Val)
					st.mem = nm
				}
			case *ssa.RunDefers, *ssa.Call, *ssa.Go, *ssa.Defer:
				// cells written by a closure may change whenever foreign code runs
				if len(st.mem) > 0 {
					var nm map[*ssa.Alloc]ssa.Value
					for k := range st.mem {
						if cells[k] == cellVolatile {
							if nm == nil {
								nm = make(map[*ssa.Alloc]ssa.Value, len(st.mem))
								for k2, v2 := range st.mem {
									nm[k2] = v2
								}
							}
							delete(nm, k)
						}
					}
					if nm != nil {
						st.mem = nm
					}
				}
			}
		}
		if ended {
			continue
		}
		term := cur.blk.Instrs[len(cur.blk.Instrs)-1]
		switch t := term.(type) {
		case *ssa.If:
			for bi, succ := range cur.blk.Succs {
				outcome := bi == 0
				ns, ok := q.assume(st, t, outcome)
				if !ok {
					continue
				}
				stack = append(stack, q.enter(cur.blk, succ, ns))
			}
		default:
			for _, succ := range cur.blk.Succs {
				stack = append(stack, q.enter(cur.blk, succ, st))
			}
		}
	}
	sort.SliceStable(out, func(i, j int) bool { return len(out[i].Blocks) < len(out[j].Blocks) })
	return out, nil
}

func addEvent(evs []Event, e Event) []Event {
	out := make([]Event, 0, len(evs)+1)
	for _, x := range evs {
		if x.Instr != e.Instr || x.Tag != e.Tag {
			out = append(out, x)
		}
	}
	return append(out, e)
}

// enter moves along edge from→to: resolves to's phis (parallel assignment) and forgets loop-local facts on back edges.
func (q *PathQuery) enter(from, to *ssa.BasicBlock, st *PathState) pstate {
	ns := &PathState{Lits: st.Lits, Events: st.Events, Blocks: st.Blocks, phi: st.phi, mem: st.mem, loads: st.loads, rets: st.rets, bind: st.bind, inl: st.inl, armed: st.armed, ArmedAt: st.ArmedAt}
	predIdx := -1
	for i, p := range to.Preds {
		if p == from {
			predIdx = i
			break
		}
	}
	var phis []*ssa.Phi
	for _, in := range to.Instrs {
		p, ok := in.(*ssa.Phi)
		if !ok {
			break
		}
		phis = append(phis, p)
	}
	backEdge := to.Dominates(from)
	if len(phis) > 0 || backEdge {
		nm := make(map[*ssa.Phi]ssa.Value, len(st.phi)+len(phis))
		for k, v := range st.phi {
			nm[k] = v
		}
		if predIdx >= 0 {
			for _, p := range phis {
				nm[p] = st.Resolve(p.Edges[predIdx])
			}
		}
		ns.phi = nm
	}
	if backEdge && !q.KeepLoopFacts {
		// facts about values computed inside the loop belong to the previous iteration
		var keep []Lit
		for _, l := range st.Lits {
			if definedUnder(l.X, to) || definedUnder(l.Y, to) {
				continue
			}
			keep = append(keep, l)
		}
		ns.Lits = keep
	}
	return pstate{blk: to, idx: 0, st: ns, from: from}
}

func definedUnder(v ssa.Value, header *ssa.BasicBlock) bool {
	if v == nil {
		return false
	}
	in, ok := v.(ssa.Instruction)
	if !ok {
		return false
	}
	b := in.Block()
	if b == nil {
		return false
	}
	if header.Dominates(b) {
		return true
	}
	// a comparison of loop-local operands is loop-local too
	switch x := v.(type) {
	case *ssa.BinOp:
		return definedUnder(x.X, header) || definedUnder(x.Y, header)
	case *ssa.UnOp:
		return definedUnder(x.X, header)
	}
	return false
}

// assume adds the literal for taking the given outcome of an If; ok=false if the path becomes infeasible.
func (q *PathQuery) assume(st *PathState, t *ssa.If, outcome bool) (*PathState, bool) {
	cond := st.Resolve(t.Cond)
	// strip negations; bounded, because a flag that is toggled in a loop (`in = !in`) resolves through its phi to its
	// own negation again and again
	for i := 0; i < 8; i++ {
		u, ok := cond.(*ssa.UnOp)
		if !ok || u.Op != token.NOT {
			break
		}
		cond = st.Resolve(u.X)
		outcome = !outcome
	}
	if b, ok := ConstBool(cond); ok {
		if b != outcome {
			return nil, false
		}
		return st, true
	}
	lit := Lit{Op: token.ILLEGAL, X: cond, Val: outcome, At: t}
	if bo, ok := cond.(*ssa.BinOp); ok {
		x, y := st.Resolve(bo.X), st.Resolve(bo.Y)
		switch bo.Op {
		case token.EQL:
			lit = Lit{Op: token.EQL, X: x, Y: y, Val: outcome, At: t}
		case token.NEQ:
			lit = Lit{Op: token.EQL, X: x, Y: y, Val: !outcome, At: t}
		case token.LSS, token.LEQ, token.GTR, token.GEQ:
			lit = Lit{Op: bo.Op, X: x, Y: y, Val: outcome, At: t}
		}
		if lit.Op == token.EQL {
			// decide trivially known comparisons
			if known, eq := knownEquality(lit.X, lit.Y); known {
				if eq != lit.Val {
					return nil, false
				}
				_, cx := lit.X.(*ssa.Const)
				_, cy := lit.Y.(*ssa.Const)
				if cx && cy {
					return st, true
				}
				// a value that is never nil was tested against nil: the outcome is fixed, but the literal is still
				// recorded — rules ask whether a result was examined on the path
			}
		}
	}
	// len(m)==0 ⊢ no key is present: a successful comma-ok lookup in a map known empty is infeasible
	if lit.Op == token.ILLEGAL && lit.Val {
		if ex, ok := lit.X.(*ssa.Extract); ok && ex.Index == 1 {
			if lk, ok := ex.Tuple.(*ssa.Lookup); ok && lk.CommaOk {
				for _, l := range st.Lits {
					if m := emptyMapOf(l); m != nil && SameExpr(m, lk.X) {
						return nil, false
					}
				}
			}
		}
	}
	// contradiction with an earlier literal about the same test
	for _, l := range st.Lits {
		if sameTest(l, lit) {
			if l.Val != lit.Val {
				return nil, false
			}
			return st, true // already known
		}
	}
	if q.Relevant != nil && !q.Relevant(t.Cond) && !q.Relevant(cond) {
		return st, true
	}
	nl := append(append([]Lit{}, st.Lits...), lit)
	// the callee of this call result was explored inline: the literal also holds for what the callee returned on this
	// path — prune the combination if that is impossible, otherwise record it too
	mirror := func(v ssa.Value) ssa.Value {
		if r := st.Returned(v); r != nil {
			return r
		}
		return v
	}
	if mx := mirror(lit.X); mx != lit.X || (lit.Y != nil && mirror(lit.Y) != lit.Y) {
		my := lit.Y
		if lit.Y != nil {
			my = mirror(lit.Y)
		}
		ml := Lit{Op: lit.Op, X: mx, Y: my, Val: lit.Val, At: lit.At}
		// a boolean helper that returns a comparison: normalise exactly like a branch condition
		if ml.Op == token.ILLEGAL {
			for {
				u, ok := ml.X.(*ssa.UnOp)
				if !ok || u.Op != token.NOT {
					break
				}
				ml.X, ml.Val = u.X, !ml.Val
			}
			if bo, ok := ml.X.(*ssa.BinOp); ok {
				switch bo.Op {
				case token.EQL:
					ml = Lit{Op: token.EQL, X: bo.X, Y: bo.Y, Val: ml.Val, At: lit.At}
				case token.NEQ:
					ml = Lit{Op: token.EQL, X: bo.X, Y: bo.Y, Val: !ml.Val, At: lit.At}
				case token.LSS, token.LEQ, token.GTR, token.GEQ:
					ml = Lit{Op: bo.Op, X: bo.X, Y: bo.Y, Val: ml.Val, At: lit.At}
				}
			}
		}
		switch ml.Op {
		case token.ILLEGAL:
			if b, ok := ConstBool(ml.X); ok && b != ml.Val {
				return nil, false
			}
		case token.EQL:
			if known, eq := knownEquality(ml.X, ml.Y); known && eq != ml.Val {
				return nil, false
			}
			if IsNilConst(ml.Y) && (isErrorCtor(ml.X) || isSentinelError(ml.X)) && ml.Val {
				return nil, false
			}
		}
		dup := false
		for _, l := range nl {
			if sameTest(l, ml) {
				if l.Val != ml.Val {
					return nil, false
				}
				dup = true
			}
		}
		if !dup {
			if _, isConst := ml.X.(*ssa.Const); !isConst {
				nl = append(nl, ml)
			}
		}
	}
	if !q.NoSummaries {
		for _, il := range impliedByLit(lit) {
			dup := false
			for _, l := range nl {
				if sameTest(l, il) {
					dup = true
					break
				}
			}
			if !dup {
				nl = append(nl, il)
			}
		}
	}
	ns := &PathState{Lits: nl, Events: st.Events, Blocks: st.Blocks, phi: st.phi, mem: st.mem, loads: st.loads, rets: st.rets, bind: st.bind, inl: st.inl, armed: st.armed, ArmedAt: st.ArmedAt}
	return ns, true
}

func sameTest(a, b Lit) bool {
	if a.Op != b.Op {
		return false
	}
	if a.X == b.X && a.Y == b.Y {
		return true
	}
	if a.Op == token.EQL && a.X == b.Y && a.Y == b.X {
		return true
	}
	// two distinct nil constants / equal constants compare equal
	if sameConst(a.X, b.X) && a.Y == b.Y || sameConst(a.Y, b.Y) && a.X == b.X {
		return true
	}
	return false
}

func sameConst(a, b ssa.Value) bool {
	ca, ok1 := a.(*ssa.Const)
	cb, ok2 := b.(*ssa.Const)
	if !ok1 || !ok2 {
		return false
	}
	if ca.Value == nil || cb.Value == nil {
		return ca.Value == nil && cb.Value == nil
	}
	return ca.Value.ExactString() == cb.Value.ExactString()
}

// knownEquality decides x==y when both are constants, or one is nil and the other a value that is never nil.
func knownEquality(x, y ssa.Value) (known, eq bool) {
	cx, okx := x.(*ssa.Const)
	cy, oky := y.(*ssa.Const)
	if okx && oky {
		if cx.Value == nil || cy.Value == nil {
			return true, cx.Value == nil && cy.Value == nil
		}
		return true, cx.Value.ExactString() == cy.Value.ExactString()
	}
	if okx && cx.Value == nil && neverNil(y) {
		return true, false
	}
	if oky && cy.Value == nil && neverNil(x) {
		return true, false
	}
	return false, false
}

func neverNil(v ssa.Value) bool {
	switch x := v.(type) {
	case *ssa.Alloc, *ssa.MakeClosure, *ssa.MakeMap, *ssa.MakeChan, *ssa.MakeSlice, *ssa.Function, *ssa.FieldAddr, *ssa.IndexAddr:
		return true
	case *ssa.MakeInterface:
		_ = x
		return true // an interface holding a typed value is non-nil
	case *ssa.Call:
		return isErrorCtor(x) // fmt.Errorf / errors.New
	case *ssa.UnOp:
		return isSentinelError(x) // a package-level Err… variable
	}
	return false
}

// relevantPhis: phis that (transitively) feed a branch condition; only these are part of the state key.
func relevantPhis(fn *ssa.Function) map[*ssa.Phi]bool {
	out := map[*ssa.Phi]bool{}
	for _, b := range fn.Blocks {
		if len(b.Instrs) == 0 {
			continue
		}
		if t, ok := b.Instrs[len(b.Instrs)-1].(*ssa.If); ok {
			markPhis(out, t.Cond, 0)
		}
	}
	return out
}

func markPhis(out map[*ssa.Phi]bool, v ssa.Value, d int) {
	if d > 8 || v == nil {
		return
	}
	switch x := v.(type) {
	case *ssa.Phi:
		if out[x] {
			return
		}
		out[x] = true
		for _, e := range x.Edges {
			markPhis(out, e, d+1)
		}
	case *ssa.BinOp:
		markPhis(out, x.X, d+1)
		markPhis(out, x.Y, d+1)
	case *ssa.UnOp:
		markPhis(out, x.X, d+1)
	case *ssa.Extract:
		markPhis(out, x.Tuple, d+1)
	case *ssa.FieldAddr:
		markPhis(out, x.X, d+1)
	case *ssa.Field:
		markPhis(out, x.X, d+1)
	case *ssa.MakeInterface:
		markPhis(out, x.X, d+1)
	case *ssa.ChangeType:
		markPhis(out, x.X, d+1)
	case *ssa.TypeAssert:
		markPhis(out, x.X, d+1)
	}
}

func stateKey(b *ssa.BasicBlock, idx int, st *PathState, condPhis map[*ssa.Phi]bool) string {
	var sb strings.Builder
	fmt.Fprintf(&sb, "%d.%d.%v|", b.Index, idx, st.armed)
	lits := make([]string, 0, len(st.Lits))
	for _, l := range st.Lits {
		lits = append(lits, fmt.Sprintf("%d:%p:%p:%v", l.Op, l.X, l.Y, l.Val))
	}
	sort.Strings(lits)
	sb.WriteString(strings.Join(lits, ","))
	sb.WriteString("|")
	for _, e := range st.Events {
		fmt.Fprintf(&sb, "%p%s,", e.Instr, e.Tag)
	}
	sb.WriteString("|")
	var ph []string
	for p, v := range st.phi {
		if condPhis[p] {
			ph = append(ph, fmt.Sprintf("%p=%p", p, v))
		}
	}
	sort.Strings(ph)
	sb.WriteString(strings.Join(ph, ","))
	sb.WriteString("|")
	var ms []string
	for a, v := range st.mem {
		ms = append(ms, fmt.Sprintf("%p=%p", a, v))
	}
	sort.Strings(ms)
	sb.WriteString(strings.Join(ms, ","))
	sb.WriteString("|")
	var ls []string
	for l, v := range st.loads {
		ls = append(ls, fmt.Sprintf("%p=%p", l, v))
	}
	sort.Strings(ls)
	sb.WriteString(strings.Join(ls, ","))
	sb.WriteString("|")
	sb.WriteString(st.inl)
	return sb.String()
}

// ---- common matchers ----

// ResultOf matches values that are the result (or a component) of a call to one of objs (conversions stripped).
func ResultOf(match func(c *ssa.Call) bool) func(ssa.Value) bool {
	return func(v ssa.Value) bool {
		c, _ := ResultOfCall(Unwrap(v))
		return c != nil && match(c)
	}
}

// IsReturn is a sink predicate for Return instructions.
func IsReturn(in ssa.Instruction) bool { _, ok := in.(*ssa.Return); return ok }

// Is returns a predicate matching exactly one instruction.
func Is(target ssa.Instruction) func(ssa.Instruction) bool {
	return func(in ssa.Instruction) bool { return in == target }
}

// ---- tracked local cells ----

type cellKind int

const (
	cellNone     cellKind = iota // address escapes: not tracked
	cellStable                   // only stored/loaded here (closures may read it)
	cellVolatile                 // some closure writes it: forgotten whenever foreign code runs
)

// classifyCells finds the local allocations whose content the path search can follow: scalar/pointer/interface
// cells that are only stored to and loaded from directly, or captured by closures.
func classifyCells(fn *ssa.Function) map[*ssa.Alloc]cellKind {
	out := map[*ssa.Alloc]cellKind{}
	for _, b := range fn.Blocks {
		for _, in := range b.Instrs {
			al, ok := in.(*ssa.Alloc)
			if !ok {
				continue
			}
			kind := cellStable
			refs := al.Referrers()
			if refs == nil {
				continue
			}
			for _, r := range *refs {
				switch x := r.(type) {
				case *ssa.Store:
					if x.Addr != al {
						kind = cellNone // the address itself is stored somewhere
					}
				case *ssa.UnOp:
					if x.Op != token.MUL {
						kind = cellNone
					}
				case *ssa.DebugRef:
				case *ssa.MakeClosure:
					if kind != cellNone && closureWrites(x, al) {
						kind = cellVolatile
					}
				case *ssa.Defer:
					// `defer f(&x)`: the callee sees the cell only when the function exits; inside the body the
					// cell behaves like any other local (a deferred rollback that inspects the named error result)
					if cf := CalleeFn(x); cf == nil || cf.Blocks == nil || paramStored(cf, x, al) {
						kind = cellNone
					}
				default:
					kind = cellNone
				}
				if kind == cellNone {
					break
				}
			}
			out[al] = kind
		}
	}
	return out
}

// closureWrites: does the closure (or a nested one) store through the free variable bound to al?
func closureWrites(mc *ssa.MakeClosure, al *ssa.Alloc) bool {
	fn, ok := mc.Fn.(*ssa.Function)
	if !ok {
		return true
	}
	for i, b := range mc.Bindings {
		if b != al || i >= len(fn.FreeVars) {
			continue
		}
		if freeVarWritten(fn, fn.FreeVars[i], 0) {
			return true
		}
	}
	return false
}

func freeVarWritten(fn *ssa.Function, fv *ssa.FreeVar, depth int) bool {
	if depth > 4 {
		return true
	}
	refs := fv.Referrers()
	if refs == nil {
		return false
	}
	for _, r := range *refs {
		switch x := r.(type) {
		case *ssa.Store:
			if x.Addr == fv {
				return true
			}
		case *ssa.UnOp, *ssa.DebugRef:
		case *ssa.MakeClosure:
			inner, ok := x.Fn.(*ssa.Function)
			if !ok {
				return true
			}
			for i, b := range x.Bindings {
				if b == fv && i < len(inner.FreeVars) && freeVarWritten(inner, inner.FreeVars[i], depth+1) {
					return true
				}
			}
		default:
			return true
		}
	}
	return false
}

func nillable(t types.Type) bool {
	switch t.Underlying().(type) {
	case *types.Pointer, *types.Interface, *types.Map, *types.Slice, *types.Chan, *types.Signature:
		return true
	}
	return false
}

// emptyMapOf: if the literal states len(m) == 0 (as true), returns m.
func emptyMapOf(l Lit) ssa.Value {
	if l.Op != token.EQL || !l.Val {
		return nil
	}
	x, y := l.X, l.Y
	if _, isC := x.(*ssa.Const); isC {
		x, y = y, x
	}
	lc, ok := x.(*ssa.Call)
	if !ok {
		return nil
	}
	if b, ok := lc.Call.Value.(*ssa.Builtin); !ok || b.Name() != "len" {
		return nil
	}
	if z, ok := ConstInt(y); !ok || z != 0 {
		return nil
	}
	if _, isMap := lc.Call.Args[0].Type().Underlying().(*types.Map); !isMap {
		return nil
	}
	return lc.Call.Args[0]
}

// paramStored: the deferred callee keeps the address it receives (stores it somewhere or passes it on) instead of only
// reading / writing through it.
func paramStored(cf *ssa.Function, d *ssa.Defer, al *ssa.Alloc) bool {
	for i, a := range d.Call.Args {
		if a != ssa.Value(al) || i >= len(cf.Params) {
			continue
		}
		refs := cf.Params[i].Referrers()
		if refs == nil {
			continue
		}
		for _, r := range *refs {
			switch x := r.(type) {
			case *ssa.UnOp:
				if x.Op != token.MUL {
					return true
				}
			case *ssa.Store:
				if x.Addr != ssa.Value(cf.Params[i]) {
					return true
				}
			case *ssa.DebugRef:
			default:
				return true
			}
		}
	}
	return false
}

// zeroConst returns the zero value of a basic type as a constant (nil for other types).
func zeroConst(t types.Type) *ssa.Const {
	b, ok := t.Underlying().(*types.Basic)
	if !ok {
		return nil
	}
	switch {
	case b.Info()&types.IsInteger != 0:
		return ssa.NewConst(constant.MakeInt64(0), t)
	case b.Info()&types.IsString != 0:
		return ssa.NewConst(constant.MakeString(""), t)
	case b.Info()&types.IsBoolean != 0:
		return ssa.NewConst(constant.MakeBool(false), t)
	}
	return nil
}
