package engine

import (
	"go/token"
	"go/types"
	"sort"
	"strings"

	"golang.org/x/tools/go/ssa"
)

// P4 — value provenance: a field-sensitive backward slice inside one function (closures reach their
// enclosing function through free-variable bindings; optionally one call level is stitched).

// Sources is what a value depends on.
type Sources struct {
	Params  map[*ssa.Parameter]bool
	Fields  map[*types.Var]bool  // struct fields loaded
	Calls   map[*types.Func]bool // declared callees whose result flows in
	CallIns map[*ssa.Call]bool   // the call instructions themselves
	Consts  map[string]bool      // constant literals (exact string)
	Globals map[*ssa.Global]bool
	Allocs  map[*ssa.Alloc]bool
	Values  map[ssa.Value]bool // every value visited
	Opaque  []ssa.Value        // values the slice could not look through
	// Followed (deep provenance only): repository callees whose returned values were followed instead of their arguments
	Followed map[*types.Func]bool
	// LeafParams (deep provenance only): parameters at which the walk stopped (inputs of the component: exported entry
	// points, dynamically invoked closures, functions without known callers)
	LeafParams map[*ssa.Parameter]bool
}

// UnfollowedCalls: the callees whose result is a source in its own right (not looked through).
func (s *Sources) UnfollowedCalls() []*types.Func {
	var out []*types.Func
	for f := range s.Calls {
		if !s.Followed[f] {
			out = append(out, f)
		}
	}
	return out
}

func newSources() *Sources {
	return &Sources{Params: map[*ssa.Parameter]bool{}, Fields: map[*types.Var]bool{}, Calls: map[*types.Func]bool{}, CallIns: map[*ssa.Call]bool{},
		Consts: map[string]bool{}, Globals: map[*ssa.Global]bool{}, Allocs: map[*ssa.Alloc]bool{}, Values: map[ssa.Value]bool{}, Followed: map[*types.Func]bool{}, LeafParams: map[*ssa.Parameter]bool{}}
}

// ProvOpts tunes the slice.
type ProvOpts struct {
	// ThroughCalls: follow the arguments (and receiver) of calls whose result flows in. Default true for
	// pure-looking helpers; set StopAt to keep a call opaque.
	StopAt func(c *ssa.Call) bool
	// NoArgs: do not follow call arguments at all (only record the callee).
	NoArgs bool
	// IntoCallee: for static callees with a body in the repo, also slice the callee's returned values,
	// mapping its parameters back to the actual arguments (one level).
	IntoCallee bool
	Prog       *Prog
}

// Provenance computes the sources of v.
func Provenance(v ssa.Value, o ProvOpts) *Sources {
	s := newSources()
	provWalk(v, s, o, 0, nil)
	return s
}

func provWalk(v ssa.Value, s *Sources, o ProvOpts, depth int, paramMap map[*ssa.Parameter]ssa.Value) {
	if v == nil || s.Values[v] || depth > 60 {
		return
	}
	s.Values[v] = true
	switch x := v.(type) {
	case *ssa.Const:
		if x.Value == nil {
			s.Consts["nil"] = true
		} else {
			s.Consts[x.Value.ExactString()] = true
		}
	case *ssa.Parameter:
		if paramMap != nil {
			if a, ok := paramMap[x]; ok {
				provWalk(a, s, o, depth+1, nil)
				return
			}
		}
		s.Params[x] = true
	case *ssa.FreeVar:
		// resolve through the MakeClosure that binds it
		fn := x.Parent()
		bound := false
		if fn != nil && fn.Parent() != nil {
			idx := -1
			for i, fv := range fn.FreeVars {
				if fv == x {
					idx = i
				}
			}
			ForEachInstr(fn.Parent(), func(in ssa.Instruction) {
				if mc, ok := in.(*ssa.MakeClosure); ok && mc.Fn == fn && idx >= 0 && idx < len(mc.Bindings) {
					bound = true
					provWalk(mc.Bindings[idx], s, o, depth+1, paramMap)
				}
			})
		}
		if !bound {
			s.Opaque = append(s.Opaque, v)
		}
	case *ssa.Global:
		s.Globals[x] = true
	case *ssa.Function, *ssa.Builtin:
	case *ssa.Alloc:
		s.Allocs[x] = true
		// follow everything stored into the allocation (whole-object and field stores)
		for _, st := range storesInto(x) {
			provWalk(st, s, o, depth+1, paramMap)
		}
	case *ssa.UnOp:
		if x.Op == token.MUL {
			// load: field-sensitive when loading through a FieldAddr of a local allocation
			if fa, ok := x.X.(*ssa.FieldAddr); ok {
				fv := fieldVar(fa.X.Type(), fa.Field)
				if fv != nil {
					s.Fields[fv] = true
				}
				if base, ok := allocRoot(fa.X); ok {
					found := false
					for _, st := range fieldStores(base, fa.Field) {
						found = true
						provWalk(st, s, o, depth+1, paramMap)
					}
					if found {
						return
					}
				}
				provWalk(fa.X, s, o, depth+1, paramMap)
				return
			}
		}
		provWalk(x.X, s, o, depth+1, paramMap)
	case *ssa.FieldAddr:
		if fv := fieldVar(x.X.Type(), x.Field); fv != nil {
			s.Fields[fv] = true
		}
		provWalk(x.X, s, o, depth+1, paramMap)
	case *ssa.Field:
		if fv := fieldVar(x.X.Type(), x.Field); fv != nil {
			s.Fields[fv] = true
		}
		provWalk(x.X, s, o, depth+1, paramMap)
	case *ssa.Phi:
		for _, e := range x.Edges {
			provWalk(e, s, o, depth+1, paramMap)
		}
	case *ssa.Extract:
		provWalk(x.Tuple, s, o, depth+1, paramMap)
	case *ssa.Call:
		s.CallIns[x] = true
		if obj := CalleeObj(x); obj != nil {
			s.Calls[obj] = true
		}
		if o.StopAt != nil && o.StopAt(x) {
			return
		}
		if o.IntoCallee && o.Prog != nil {
			if cf := CalleeFn(x); cf != nil && cf.Blocks != nil && cf.Pkg != nil && IsRepoPkg(cf.Pkg.Pkg.Path()) {
				pm := map[*ssa.Parameter]ssa.Value{}
				args := x.Call.Args
				for i, p := range cf.Params {
					if i < len(args) {
						pm[p] = args[i]
					}
				}
				ForEachInstr(cf, func(in ssa.Instruction) {
					if r, ok := in.(*ssa.Return); ok {
						for _, rv := range r.Results {
							sub := newSources()
							provWalk(rv, sub, ProvOpts{Prog: o.Prog, NoArgs: o.NoArgs}, depth+1, nil)
							s.merge(sub, pm, o, depth)
						}
					}
				})
				return
			}
		}
		if !o.NoArgs {
			for _, a := range CallArgs(x) {
				provWalk(a, s, o, depth+1, paramMap)
			}
			switch x.Call.Value.(type) {
			case *ssa.Function, *ssa.Builtin, nil:
			default:
				// closure or function-valued field / variable: the callee value is part of the provenance
				if !x.Call.IsInvoke() {
					provWalk(x.Call.Value, s, o, depth+1, paramMap)
				}
			}
		}
	case *ssa.MakeClosure:
		for _, b := range x.Bindings {
			provWalk(b, s, o, depth+1, paramMap)
		}
	case *ssa.BinOp:
		provWalk(x.X, s, o, depth+1, paramMap)
		provWalk(x.Y, s, o, depth+1, paramMap)
	case *ssa.MakeInterface:
		provWalk(x.X, s, o, depth+1, paramMap)
	case *ssa.ChangeType:
		provWalk(x.X, s, o, depth+1, paramMap)
	case *ssa.ChangeInterface:
		provWalk(x.X, s, o, depth+1, paramMap)
	case *ssa.Convert:
		provWalk(x.X, s, o, depth+1, paramMap)
	case *ssa.MultiConvert:
		provWalk(x.X, s, o, depth+1, paramMap)
	case *ssa.SliceToArrayPointer:
		provWalk(x.X, s, o, depth+1, paramMap)
	case *ssa.TypeAssert:
		provWalk(x.X, s, o, depth+1, paramMap)
	case *ssa.Slice:
		provWalk(x.X, s, o, depth+1, paramMap)
		provWalk(x.Low, s, o, depth+1, paramMap)
		provWalk(x.High, s, o, depth+1, paramMap)
	case *ssa.IndexAddr:
		provWalk(x.X, s, o, depth+1, paramMap)
	case *ssa.Index:
		provWalk(x.X, s, o, depth+1, paramMap)
	case *ssa.Lookup:
		provWalk(x.X, s, o, depth+1, paramMap)
		provWalk(x.Index, s, o, depth+1, paramMap)
	case *ssa.Range:
		provWalk(x.X, s, o, depth+1, paramMap)
	case *ssa.Next:
		provWalk(x.Iter, s, o, depth+1, paramMap)
	case *ssa.MakeMap, *ssa.MakeChan, *ssa.MakeSlice:
	case *ssa.Select:
		for _, st := range x.States {
			provWalk(st.Chan, s, o, depth+1, paramMap)
		}
	default:
		s.Opaque = append(s.Opaque, v)
	}
}

func (s *Sources) merge(sub *Sources, pm map[*ssa.Parameter]ssa.Value, o ProvOpts, depth int) {
	for p := range sub.Params {
		if a, ok := pm[p]; ok {
			provWalk(a, s, o, depth+1, nil)
		}
	}
	for k := range sub.Fields {
		s.Fields[k] = true
	}
	for k := range sub.Calls {
		s.Calls[k] = true
	}
	for k := range sub.CallIns {
		s.CallIns[k] = true
	}
	for k := range sub.Consts {
		s.Consts[k] = true
	}
	for k := range sub.Globals {
		s.Globals[k] = true
	}
}

// allocRoot: is v (possibly through field selections) rooted in a local allocation?
func allocRoot(v ssa.Value) (*ssa.Alloc, bool) {
	a, ok := v.(*ssa.Alloc)
	return a, ok
}

// storesInto returns the values stored into an allocation: whole-object stores and stores into any of its fields / elements.
func storesInto(a *ssa.Alloc) []ssa.Value {
	var out []ssa.Value
	seen := map[ssa.Value]bool{}
	var visit func(addr ssa.Value, d int)
	visit = func(addr ssa.Value, d int) {
		if d > 6 || seen[addr] {
			return
		}
		seen[addr] = true
		refs := addr.Referrers()
		if refs == nil {
			return
		}
		for _, r := range *refs {
			switch x := r.(type) {
			case *ssa.Store:
				if x.Addr == addr {
					out = append(out, x.Val)
				}
			case *ssa.FieldAddr:
				if x.X == addr {
					visit(x, d+1)
				}
			case *ssa.IndexAddr:
				if x.X == addr {
					visit(x, d+1)
				}
			}
		}
	}
	visit(a, 0)
	return out
}

// fieldStores returns the values stored into field idx of allocation a.
func fieldStores(a *ssa.Alloc, idx int) []ssa.Value {
	var out []ssa.Value
	refs := a.Referrers()
	if refs == nil {
		return nil
	}
	for _, r := range *refs {
		fa, ok := r.(*ssa.FieldAddr)
		if !ok || fa.X != a || fa.Field != idx {
			continue
		}
		if fr := fa.Referrers(); fr != nil {
			for _, u := range *fr {
				if st, ok := u.(*ssa.Store); ok && st.Addr == fa {
					out = append(out, st.Val)
				}
			}
		}
	}
	return out
}

// HasField reports whether the field object is among the sources.
func (s *Sources) HasField(f *types.Var) bool { return f != nil && s.Fields[f] }

// HasCall reports whether a call to obj flows in.
func (s *Sources) HasCall(obj *types.Func) bool {
	for k := range s.Calls {
		if SameFunc(k, obj) {
			return true
		}
	}
	return false
}

// HasParam reports whether a parameter with that name flows in.
func (s *Sources) HasParam(name string) bool {
	for p := range s.Params {
		if p.Name() == name {
			return true
		}
	}
	return false
}

// Summary renders the sources compactly for reports.
func (s *Sources) Summary() string {
	var parts []string
	var ps, fs, cs, ks []string
	for p := range s.Params {
		ps = append(ps, p.Name())
	}
	for f := range s.Fields {
		fs = append(fs, f.Name())
	}
	for c := range s.Calls {
		cs = append(cs, c.Name())
	}
	for k := range s.Consts {
		if len(k) > 24 {
			k = k[:24] + "…"
		}
		ks = append(ks, k)
	}
	sort.Strings(ps)
	sort.Strings(fs)
	sort.Strings(cs)
	sort.Strings(ks)
	if len(ps) > 0 {
		parts = append(parts, "params{"+strings.Join(ps, ",")+"}")
	}
	if len(fs) > 0 {
		parts = append(parts, "fields{"+strings.Join(fs, ",")+"}")
	}
	if len(cs) > 0 {
		parts = append(parts, "calls{"+strings.Join(cs, ",")+"}")
	}
	if len(ks) > 0 {
		parts = append(parts, "consts{"+strings.Join(ks, ",")+"}")
	}
	return strings.Join(parts, " ")
}
