package engine

import (
	"bufio"
	"encoding/json"
	"fmt"
	"go/token"
	"golang.org/x/tools/go/ssa"
	"os"
	"path/filepath"
	"regexp"
	"sort"
	"strings"
	"time"
)

// Verdict of one obligation.
type Verdict string

const (
	Holds     Verdict = "HOLDS"
	Violated  Verdict = "VIOLATED"
	Undecided Verdict = "UNDECIDED"
)

// Obligation is one rule instance with its verdict.
type Obligation struct {
	Key     string   `json:"key"` // <prop>.<rule>@<construct>
	Verdict Verdict  `json:"verdict"`
	Pos     string   `json:"pos"`
	Msg     string   `json:"msg"`
	Facts   []string `json:"facts,omitempty"` // what the decision inspected (paths, sources, sites)
	Steps   int      `json:"steps"`           // number of path/dataflow steps or constructs inspected
	Known   string   `json:"known_finding,omitempty"`
}

// Ctx collects the obligations of one property run.
type Ctx struct {
	P        *Prog
	Prop     string
	Tier     string
	rule     string
	Obls     []*Obligation
	ruleDocs map[string]string
	floors   map[string][2]int // rule -> (instances, floor)
	notes    []string
	evals    int
	Partial  bool // a secondary build configuration: anchors may legitimately be absent, floors are not enforced
}

func NewCtx(p *Prog, prop, tier string) *Ctx {
	activeProg = p
	return &Ctx{P: p, Prop: prop, Tier: tier, ruleDocs: map[string]string{}, floors: map[string][2]int{}}
}

// Rule starts a rule; doc states what it decides (printed into evidence).
func (c *Ctx) Rule(id, doc string) {
	c.rule = id
	c.ruleDocs[id] = doc
}

func (c *Ctx) key(construct string) string { return c.Prop + "." + c.rule + "@" + construct }

func (c *Ctx) add(v Verdict, construct string, pos token.Pos, steps int, facts []string, format string, args ...any) *Obligation {
	o := &Obligation{Key: c.key(construct), Verdict: v, Pos: c.P.Pos(pos), Msg: fmt.Sprintf(format, args...), Facts: facts, Steps: steps}
	c.Obls = append(c.Obls, o)
	c.evals++
	if os.Getenv("FRPSA_DUMP") != "" {
		fmt.Fprintf(os.Stderr, "OBL %v %s at %s\n", v, o.Key, o.Pos)
	}
	return o
}

// Hold records a discharged obligation.
func (c *Ctx) Hold(construct string, pos token.Pos, steps int, facts []string, format string, args ...any) {
	c.add(Holds, construct, pos, steps, facts, format, args...)
}

// Violate records a violated obligation.
func (c *Ctx) Violate(construct string, pos token.Pos, facts []string, format string, args ...any) {
	c.add(Violated, construct, pos, 1, facts, format, args...)
}

// Undecide records an obligation the rule could not decide (counts as failure).
func (c *Ctx) Undecide(construct string, pos token.Pos, format string, args ...any) {
	c.add(Undecided, construct, pos, 0, nil, format, args...)
}

// Check records Hold or Violate depending on ok.
func (c *Ctx) Check(ok bool, construct string, pos token.Pos, steps int, facts []string, format string, args ...any) bool {
	if ok {
		c.add(Holds, construct, pos, steps, facts, format, args...)
	} else {
		c.add(Violated, construct, pos, steps, facts, format, args...)
	}
	return ok
}

// Missing records an anchor the rule could not find. In the primary configuration that is UNDECIDED (failure);
// in a secondary build configuration (files excluded by tags) it is dropped.
func (c *Ctx) Missing(construct string, format string, args ...any) {
	if c.Partial {
		return
	}
	c.add(Undecided, construct, token.NoPos, 0, nil, "anchor missing: "+format, args...)
}

// MergeConfig compares the obligations of a secondary configuration with this (primary) one: an obligation
// present in both must have the same verdict; a non-holding obligation only present in the secondary one is added.
func (c *Ctx) MergeConfig(o *Ctx, name string) int {
	idx := map[string]*Obligation{}
	for _, x := range c.Obls {
		idx[x.Key] = x
	}
	n := 0
	for _, x := range o.Obls {
		if strings.HasSuffix(x.Key, "@floor") {
			continue
		}
		n++
		c.evals++
		if y, ok := idx[x.Key]; ok {
			if y.Verdict == x.Verdict {
				continue
			}
			if y.Verdict == Holds {
				z := *x
				z.Key = x.Key + "[tags=" + name + "]"
				z.Msg = "holds in the default configuration but not with -tags " + name + ": " + x.Msg
				c.Obls = append(c.Obls, &z)
			}
			continue
		}
		if x.Verdict != Holds {
			z := *x
			z.Key = x.Key + "[tags=" + name + "]"
			c.Obls = append(c.Obls, &z)
		}
	}
	return n
}

// Floor asserts that the current rule saw at least floor instances; fewer is a vacuity violation.
func (c *Ctx) Floor(instances, floor int) {
	c.floors[c.rule] = [2]int{instances, floor}
	if instances < floor && !c.Partial {
		c.add(Violated, "floor", token.NoPos, 1, nil, "vacuous: rule matched %d instance(s), floor confirmed by reading is %d (anchor moved or rule no longer sees the code)", instances, floor)
	}
}

// Note adds a free-text remark to the evidence.
func (c *Ctx) Note(format string, args ...any) {
	c.notes = append(c.notes, fmt.Sprintf(format, args...))
}

// ---- known findings ----

// Finding is a line of known_findings.txt.
type Finding struct {
	Kind string // finding | fixed
	Prop string
	Key  string // for finding: rule@construct (without property prefix)
	Text string
}

var kfLine = regexp.MustCompile(`^(finding|fixed):\s+property=(C\d+)\s+(.*)$`)

// LoadFindings parses /verif/known_findings.txt (absent file = none).
func LoadFindings(path string) ([]Finding, error) {
	f, err := os.Open(path)
	if err != nil {
		if os.IsNotExist(err) {
			return nil, nil
		}
		return nil, err
	}
	defer f.Close()
	var out []Finding
	sc := bufio.NewScanner(f)
	sc.Buffer(make([]byte, 1<<20), 1<<20)
	for sc.Scan() {
		line := strings.TrimSpace(sc.Text())
		if line == "" || strings.HasPrefix(line, "#") {
			continue
		}
		m := kfLine.FindStringSubmatch(line)
		if m == nil {
			return nil, fmt.Errorf("known_findings: unparsable line %q", line)
		}
		fd := Finding{Kind: m[1], Prop: m[2], Text: m[3]}
		if fd.Kind == "finding" {
			rest := strings.Fields(m[3])
			if len(rest) == 0 || !strings.HasPrefix(rest[0], "key=") {
				return nil, fmt.Errorf("known_findings: finding without key=: %q", line)
			}
			fd.Key = strings.TrimPrefix(rest[0], "key=")
			fd.Text = strings.TrimSpace(strings.TrimPrefix(m[3], rest[0]))
		}
		out = append(out, fd)
	}
	return out, sc.Err()
}

// ---- finishing a run ----

// Evidence mirrors EVIDENCE.schema.json.
type Evidence struct {
	PropertyID  string         `json:"property_id"`
	Tier        string         `json:"tier"`
	Seed        int            `json:"seed"`
	Level       string         `json:"level"`
	Coverage    map[string]any `json:"coverage"`
	Assumptions []string       `json:"assumptions"`
	WallS       float64        `json:"wall_s"`
	Violations  int            `json:"violations"`
}

var keySan = regexp.MustCompile(`[^A-Za-z0-9._@$-]+`)

// Finish prints the report, writes evidence and violation files, and returns the process exit code.
func (c *Ctx) Finish(verifDir string, start time.Time, seed int, explanation string, assumptions []string, extra map[string]any) int {
	findings, ferr := LoadFindings(filepath.Join(verifDir, "known_findings.txt"))
	known := map[string]Finding{}
	for _, f := range findings {
		if f.Kind == "finding" && f.Prop == c.Prop {
			known[c.Prop+"."+f.Key] = f
		}
	}
	sort.SliceStable(c.Obls, func(i, j int) bool { return c.Obls[i].Key < c.Obls[j].Key })
	vdir := filepath.Join(verifDir, "evidence", "violations")
	os.MkdirAll(vdir, 0o755)
	// remove stale violation files of this property
	if old, _ := filepath.Glob(filepath.Join(vdir, c.Prop+".*.json")); old != nil {
		for _, f := range old {
			os.Remove(f)
		}
	}
	exit := 0
	if ferr != nil {
		fmt.Printf("ERROR %v\n", ferr)
		fmt.Printf("VIOLATION property=%s replay=%s\n", c.Prop, "known_findings.txt")
		exit = 1
	}
	nviol, nheld, nontriv, nknown := 0, 0, map[string]bool{}, 0
	usedKnown := map[string]bool{}
	var samples []any
	perRule := map[string]int{}
	for _, o := range c.Obls {
		rule := o.Key[len(c.Prop)+1:]
		if i := strings.Index(rule, "@"); i >= 0 {
			rule = rule[:i]
		}
		perRule[rule]++
		switch o.Verdict {
		case Holds:
			nheld++
			if o.Steps > 0 {
				nontriv[o.Key] = true
			}
		default:
			if kf, ok := known[o.Key]; ok {
				o.Known = kf.Text
				usedKnown[o.Key] = true
				nknown++
				fmt.Printf("KNOWN-FINDING: property=%s %s [%s at %s: %s]\n", c.Prop, kf.Text, o.Key, o.Pos, o.Msg)
				continue
			}
			nviol++
			exit = 1
			path := filepath.Join(vdir, keySan.ReplaceAllString(o.Key, "_")+".json")
			b, _ := json.MarshalIndent(map[string]any{"property": c.Prop, "obligation": o, "rule_doc": c.ruleDocs[ruleOf(o.Key, c.Prop)], "repo": c.P.Opts.Dir, "tags": c.P.Opts.Tags}, "", " ")
			os.WriteFile(path, b, 0o644)
			rel, _ := filepath.Rel(verifDir, path)
			fmt.Printf("%s %s at %s: %s\n", o.Verdict, o.Key, o.Pos, o.Msg)
			for _, f := range o.Facts {
				fmt.Printf("    %s\n", f)
			}
			fmt.Printf("VIOLATION property=%s replay=%s\n", c.Prop, rel)
		}
	}
	// a listed finding that no longer reproduces is reported (not an alarm): the list should be updated
	for k, f := range known {
		if !usedKnown[k] {
			fmt.Printf("NOTE: known finding %s (%s) did not reproduce on this tree\n", k, f.Text)
		}
	}
	// samples: up to 3 obligations per rule, with facts
	cnt := map[string]int{}
	for _, o := range c.Obls {
		r := ruleOf(o.Key, c.Prop)
		if cnt[r] < 3 {
			cnt[r]++
			samples = append(samples, o)
		}
	}
	rules := []map[string]any{}
	var rids []string
	for r := range c.ruleDocs {
		rids = append(rids, r)
	}
	sort.Strings(rids)
	for _, r := range rids {
		m := map[string]any{"rule": r, "decides": c.ruleDocs[r], "obligations": perRule[r]}
		if fl, ok := c.floors[r]; ok {
			m["instances"], m["floor"] = fl[0], fl[1]
		}
		rules = append(rules, m)
	}
	np, nf := c.P.Stats()
	cov := map[string]any{
		"explanation":         explanation,
		"evaluations":         c.evals,
		"distinct_nontrivial": len(nontriv),
		"rule":                "obligations are enumerated from the type-checked program: one per (rule, construct) where the construct is discovered semantically (call sites of an API, implementations of an interface, entries of a table, fields of a type) or is a named protocol entry point; an obligation is non-trivial when deciding it inspected at least one matching construct and at least one path, dataflow or table step (steps>0); keys are unique per construct, so the count is of distinct obligations",
		"obligations":         len(c.Obls),
		"discharged":          nheld,
		"known_findings":      nknown,
		"samples":             samples,
		"rules":               rules,
		"packages":            np,
		"functions_analysed":  nf,
		"build_config":        map[string]any{"dir": c.P.Opts.Dir, "tags": c.P.Opts.Tags, "deps_bodies": c.P.Opts.Deps},
		"exhaustive":          false,
		"notes":               c.notes,
		"all_obligations":     obligationIndex(c.Obls),
	}
	for k, v := range extra {
		cov[k] = v
	}
	ev := Evidence{PropertyID: c.Prop, Tier: c.Tier, Seed: seed, Level: "other", Coverage: cov, Assumptions: assumptions,
		WallS: time.Since(start).Seconds(), Violations: nviol}
	b, _ := json.MarshalIndent(ev, "", " ")
	os.MkdirAll(filepath.Join(verifDir, "evidence"), 0o755)
	if err := os.WriteFile(filepath.Join(verifDir, "evidence", c.Prop+".json"), append(b, '\n'), 0o644); err != nil {
		fmt.Printf("ERROR writing evidence: %v\n", err)
		exit = 1
	}
	fmt.Printf("%s %s: %d obligations, %d hold, %d known finding(s), %d violation(s); %d packages, %d functions; %.1fs\n",
		c.Prop, c.Tier, len(c.Obls), nheld, nknown, nviol, np, nf, time.Since(start).Seconds())
	return exit
}

func ruleOf(key, prop string) string {
	r := strings.TrimPrefix(key, prop+".")
	if i := strings.Index(r, "@"); i >= 0 {
		r = r[:i]
	}
	return r
}

func obligationIndex(obls []*Obligation) []string {
	out := make([]string, 0, len(obls))
	for _, o := range obls {
		out = append(out, fmt.Sprintf("%s %s %s", o.Verdict, o.Key, o.Pos))
	}
	return out
}

// PathCheck is the common shape of a path rule: every path of Fn (from From, or entry) that reaches a Sink
// must satisfy Pred (which returns "" when satisfied, else the reason).
type PathCheck struct {
	Fn               *ssa.Function
	From             ssa.Instruction
	Sink             func(ssa.Instruction) bool
	Event            func(ssa.Instruction) string
	Cut              func(ssa.Instruction) bool
	Track            []ssa.Value
	Relevant         func(ssa.Value) bool
	Pred             func(*PathState) string
	KeepLoopFacts    bool
	EventsBeforeFrom bool
	MinPaths         int // at least this many paths must reach a sink (default 1): a sink that is never reached is a vacuous rule
}

// QuietPaths evaluates a PathCheck without recording an obligation: "" when every path satisfies the predicate, else the
// first objection (or the reason the paths could not be enumerated).
func QuietPaths(pc PathCheck) string {
	q := &PathQuery{Fn: pc.Fn, From: pc.From, Sink: pc.Sink, Event: pc.Event, Cut: pc.Cut, Track: pc.Track, Relevant: pc.Relevant, KeepLoopFacts: pc.KeepLoopFacts, EventsBeforeFrom: pc.EventsBeforeFrom}
	states, err := q.Run()
	if err != nil {
		return err.Error()
	}
	for _, st := range states {
		if why := pc.Pred(st); why != "" {
			return why
		}
	}
	return ""
}

// AllPaths evaluates a PathCheck as one obligation.
func (c *Ctx) AllPaths(construct string, pc PathCheck, okFormat string, args ...any) bool {
	if pc.Fn == nil {
		return false
	}
	q := &PathQuery{Fn: pc.Fn, From: pc.From, Sink: pc.Sink, Event: pc.Event, Cut: pc.Cut, Track: pc.Track, Relevant: pc.Relevant, KeepLoopFacts: pc.KeepLoopFacts, EventsBeforeFrom: pc.EventsBeforeFrom}
	states, err := q.Run()
	if err != nil {
		c.Undecide(construct, pc.Fn.Pos(), "%v", err)
		return false
	}
	min := pc.MinPaths
	if min == 0 {
		min = 1
	}
	if len(states) < min {
		c.Undecide(construct, pc.Fn.Pos(), "no path of %s reaches the sink (anchor missing or unreachable): the rule would pass vacuously", c.P.FuncName(pc.Fn))
		return false
	}
	for _, st := range states {
		if why := pc.Pred(st); why != "" {
			pos := pc.Fn.Pos()
			if st.Sink != nil && st.Sink.Pos().IsValid() {
				pos = st.Sink.Pos()
			}
			facts := []string{"function " + c.P.FuncName(pc.Fn), "path: " + st.Witness(), "branch facts on this path: " + strings.Join(st.LitStrings(), " ; ")}
			var evs []string
			for _, e := range st.Events {
				evs = append(evs, e.Tag)
			}
			if len(evs) > 0 {
				facts = append(facts, "events on this path: "+strings.Join(evs, " > "))
			}
			c.Violate(construct, pos, facts, "%s", why)
			return false
		}
	}
	facts := []string{fmt.Sprintf("function %s: %d path state(s) reach the sink, %d (block,state) pairs explored", c.P.FuncName(pc.Fn), len(states), q.Steps)}
	if len(states) > 0 {
		facts = append(facts, "shortest path facts: "+strings.Join(states[0].LitStrings(), " ; "))
	}
	c.Hold(construct, pc.Fn.Pos(), q.Steps, facts, okFormat, args...)
	return true
}
