package engine

import (
	"fmt"
	"go/constant"
	"go/token"
	"go/types"
	"strings"

	"golang.org/x/tools/go/ssa"
)

// CalleeObj returns the declared function or interface method a call resolves to by type information
// (nil for calls of function values that are not statically known).
func CalleeObj(c ssa.CallInstruction) *types.Func {
	cc := c.Common()
	if cc.IsInvoke() {
		return cc.Method
	}
	switch v := cc.Value.(type) {
	case *ssa.Function:
		if o, ok := v.Object().(*types.Func); ok {
			return o
		}
		// instantiation of a generic
		if v.Origin() != nil {
			if o, ok := v.Origin().Object().(*types.Func); ok {
				return o
			}
		}
	case *ssa.MakeClosure:
		// bound method value: x.M used as a function
		if fn, ok := v.Fn.(*ssa.Function); ok && fn.Synthetic != "" && strings.Contains(fn.Synthetic, "bound method") {
			if o, ok := fn.Object().(*types.Func); ok {
				return o
			}
		}
	}
	return nil
}

// CalleeFn returns the SSA function statically called (closure literals and bound closures included), or nil.
func CalleeFn(c ssa.CallInstruction) *ssa.Function {
	cc := c.Common()
	if cc.IsInvoke() {
		return nil
	}
	switch v := cc.Value.(type) {
	case *ssa.Function:
		return v
	case *ssa.MakeClosure:
		fn, _ := v.Fn.(*ssa.Function)
		return fn
	}
	return nil
}

// SameFunc compares function objects modulo generic instantiation.
func SameFunc(a, b *types.Func) bool {
	if a == nil || b == nil {
		return false
	}
	if a == b || a.Origin() == b.Origin() {
		return true
	}
	// a method of an interface that this module declares and that exactly one of its types implements denotes that
	// type's method (an unexported interface extracted in front of one collaborator changes no call's target)
	ca, cb := soleImpl(a), soleImpl(b)
	return ca != nil && cb != nil && (ca == cb || ca.Origin() == cb.Origin())
}

var activeProg *Prog

// soleImpl: f itself for a concrete method or function; for a method of a module-declared interface with exactly one
// implementing type in the module, that type's method.
func soleImpl(f *types.Func) *types.Func {
	sig, _ := f.Type().(*types.Signature)
	if sig == nil || sig.Recv() == nil {
		return f
	}
	if _, isIface := sig.Recv().Type().Underlying().(*types.Interface); !isIface {
		return f
	}
	p := activeProg
	if p == nil || f.Pkg() == nil || !IsRepoPkg(f.Pkg().Path()) {
		return f
	}
	impls := p.Implementations(f)
	if len(impls) != 1 {
		return f
	}
	if o, ok := impls[0].Object().(*types.Func); ok {
		return o
	}
	return f
}

// IsCallTo reports whether instr is a call (call/go/defer) resolving to one of objs.
func IsCallTo(instr ssa.Instruction, objs ...*types.Func) bool {
	c, ok := instr.(ssa.CallInstruction)
	if !ok {
		return false
	}
	o := CalleeObj(c)
	for _, x := range objs {
		if SameFunc(o, x) {
			return true
		}
	}
	return false
}

// ForEachInstr visits every instruction of fn in block order.
func ForEachInstr(fn *ssa.Function, f func(ssa.Instruction)) {
	if fn == nil {
		return
	}
	for _, b := range fn.Blocks {
		for _, in := range b.Instrs {
			f(in)
		}
	}
}

// CallsTo returns all call instructions in fn resolving to one of objs.
func CallsTo(fn *ssa.Function, objs ...*types.Func) []ssa.CallInstruction {
	var out []ssa.CallInstruction
	ForEachInstr(fn, func(in ssa.Instruction) {
		if IsCallTo(in, objs...) {
			out = append(out, in.(ssa.CallInstruction))
		}
	})
	return out
}

// CallsToVia returns the calls in fn that reach one of objs directly or through a helper: a statically called
// function of the same package (no closures) that itself contains such a call (up to three helper levels). The
// returned instructions are always instructions of fn, so they can serve as the sink of a path query over fn; with
// callee inlining the helper's own branches and events are part of the explored paths.
func CallsToVia(fn *ssa.Function, objs ...*types.Func) []ssa.CallInstruction {
	var out []ssa.CallInstruction
	ForEachInstr(fn, func(in ssa.Instruction) {
		call, ok := in.(ssa.CallInstruction)
		if !ok {
			return
		}
		if IsCallTo(in, objs...) {
			out = append(out, call)
			return
		}
		if cf := CalleeFn(call); cf != nil && cf.Pkg == fn.Pkg && cf != fn && fnReaches(cf, 3, map[*ssa.Function]bool{fn: true}, objs...) {
			out = append(out, call)
		}
	})
	return out
}

func fnReaches(f *ssa.Function, depth int, seen map[*ssa.Function]bool, objs ...*types.Func) bool {
	if f == nil || f.Blocks == nil || seen[f] || depth == 0 {
		return false
	}
	seen[f] = true
	hit := false
	ForEachInstr(f, func(in ssa.Instruction) {
		if hit {
			return
		}
		if IsCallTo(in, objs...) {
			hit = true
			return
		}
		if call, ok := in.(ssa.CallInstruction); ok {
			if cf := CalleeFn(call); cf != nil && cf.Pkg == f.Pkg && fnReaches(cf, depth-1, seen, objs...) {
				hit = true
			}
		}
	})
	return hit
}

// HostsOf returns fn and the same-package helpers reachable from it (statically, up to three levels) that contain a
// direct call to one of objs: the functions in which a rule about that call has to be evaluated.
func HostsOf(fn *ssa.Function, objs ...*types.Func) []*ssa.Function {
	var out []*ssa.Function
	seen := map[*ssa.Function]bool{}
	var walk func(f *ssa.Function, depth int)
	walk = func(f *ssa.Function, depth int) {
		if f == nil || f.Blocks == nil || seen[f] || depth < 0 {
			return
		}
		seen[f] = true
		if len(CallsTo(f, objs...)) > 0 {
			out = append(out, f)
		}
		ForEachInstr(f, func(in ssa.Instruction) {
			if call, ok := in.(ssa.CallInstruction); ok {
				if cf := CalleeFn(call); cf != nil && cf.Pkg == f.Pkg {
					walk(cf, depth-1)
				}
			}
		})
	}
	walk(fn, 3)
	return out
}

// HostsOfDeep is HostsOf where the call may also sit in a closure of the host.
func HostsOfDeep(fn *ssa.Function, objs ...*types.Func) []*ssa.Function {
	var out []*ssa.Function
	seen := map[*ssa.Function]bool{}
	var walk func(f *ssa.Function, depth int)
	walk = func(f *ssa.Function, depth int) {
		if f == nil || f.Blocks == nil || seen[f] || depth < 0 {
			return
		}
		seen[f] = true
		if len(CallsToDeep(f, objs...)) > 0 {
			out = append(out, f)
		}
		ForEachInstr(f, func(in ssa.Instruction) {
			if call, ok := in.(ssa.CallInstruction); ok {
				if cf := CalleeFn(call); cf != nil && cf.Pkg == f.Pkg && cf.Parent() == nil {
					walk(cf, depth-1)
				}
			}
		})
	}
	walk(fn, 3)
	return out
}

// CallsToDeep is CallsTo over fn and all its (nested) anonymous functions.
func CallsToDeep(fn *ssa.Function, objs ...*types.Func) []ssa.CallInstruction {
	if fn == nil {
		return nil
	}
	out := CallsTo(fn, objs...)
	for _, a := range fn.AnonFuncs {
		out = append(out, CallsToDeep(a, objs...)...)
	}
	return out
}

// CallArgs returns the argument list of a call with the receiver first for method calls (both
// static method calls and interface invokes).
func CallArgs(c ssa.CallInstruction) []ssa.Value {
	cc := c.Common()
	if cc.IsInvoke() {
		return append([]ssa.Value{cc.Value}, cc.Args...)
	}
	if mc, ok := cc.Value.(*ssa.MakeClosure); ok {
		if fn, ok := mc.Fn.(*ssa.Function); ok && strings.Contains(fn.Synthetic, "bound method") && len(mc.Bindings) == 1 {
			return append([]ssa.Value{mc.Bindings[0]}, cc.Args...)
		}
	}
	return cc.Args
}

// LoadedField: if v is (a load of) a struct field selection, returns the field object and the base value.
func LoadedField(v ssa.Value) (*types.Var, ssa.Value) {
	switch x := v.(type) {
	case *ssa.UnOp:
		if x.Op == token.MUL {
			if fa, ok := x.X.(*ssa.FieldAddr); ok {
				return fieldVar(fa.X.Type(), fa.Field), fa.X
			}
		}
	case *ssa.Field:
		return fieldVar(x.X.Type(), x.Field), x.X
	case *ssa.FieldAddr:
		return fieldVar(x.X.Type(), x.Field), x.X
	}
	return nil, nil
}

func fieldVar(t types.Type, idx int) *types.Var {
	if p, ok := t.Underlying().(*types.Pointer); ok {
		t = p.Elem()
	}
	st, ok := t.Underlying().(*types.Struct)
	if !ok || idx >= st.NumFields() {
		return nil
	}
	return st.Field(idx)
}

// FieldPath returns the chain of field objects selected from a root value, e.g. pxy.cfg.Transport.UseEncryption
// yields root=pxy, [cfg, Transport, UseEncryption]. Loads, embedded-pointer hops and conversions are skipped.
func FieldPath(v ssa.Value) (root ssa.Value, path []*types.Var) {
	for {
		switch x := v.(type) {
		case *ssa.UnOp:
			if x.Op == token.MUL {
				v = x.X
				continue
			}
		case *ssa.FieldAddr:
			path = append([]*types.Var{fieldVar(x.X.Type(), x.Field)}, path...)
			v = x.X
			continue
		case *ssa.Field:
			path = append([]*types.Var{fieldVar(x.X.Type(), x.Field)}, path...)
			v = x.X
			continue
		case *ssa.ChangeType:
			v = x.X
			continue
		case *ssa.Convert:
			v = x.X
			continue
		}
		return v, path
	}
}

// PathString renders a field path as a.b.c.
func PathString(path []*types.Var) string {
	var s []string
	for _, f := range path {
		if f == nil {
			s = append(s, "?")
		} else {
			s = append(s, f.Name())
		}
	}
	return strings.Join(s, ".")
}

// ConstString returns the string value of a constant SSA value.
func ConstString(v ssa.Value) (string, bool) {
	c, ok := v.(*ssa.Const)
	if !ok || c.Value == nil || c.Value.Kind() != constant.String {
		return "", false
	}
	return constant.StringVal(c.Value), true
}

// ConstInt returns the integer value of a constant SSA value.
func ConstInt(v ssa.Value) (int64, bool) {
	c, ok := v.(*ssa.Const)
	if !ok || c.Value == nil {
		return 0, false
	}
	if c.Value.Kind() != constant.Int {
		return 0, false
	}
	n, ok := constant.Int64Val(c.Value)
	return n, ok
}

// ConstBool returns the boolean value of a constant SSA value.
func ConstBool(v ssa.Value) (bool, bool) {
	c, ok := v.(*ssa.Const)
	if !ok || c.Value == nil || c.Value.Kind() != constant.Bool {
		return false, false
	}
	return constant.BoolVal(c.Value), true
}

// IsNilConst reports whether v is the nil constant.
func IsNilConst(v ssa.Value) bool {
	c, ok := v.(*ssa.Const)
	return ok && c.Value == nil
}

// Describe renders a short human-readable description of a value for reports.
func Describe(v ssa.Value) string {
	return describe(v, 0)
}

func describe(v ssa.Value, d int) string {
	if v == nil {
		return "<nil>"
	}
	if d > 6 {
		return "…"
	}
	switch x := v.(type) {
	case *ssa.Const:
		if x.Value == nil {
			return "nil"
		}
		return x.Value.ExactString()
	case *ssa.Parameter:
		return x.Name()
	case *ssa.FreeVar:
		return x.Name()
	case *ssa.Global:
		return x.Name()
	case *ssa.Function:
		return x.Name()
	case *ssa.Alloc:
		if x.Comment != "" {
			return x.Comment
		}
		return "alloc"
	case *ssa.UnOp:
		if x.Op == token.MUL {
			return describe(x.X, d+1)
		}
		return x.Op.String() + describe(x.X, d+1)
	case *ssa.FieldAddr:
		f := fieldVar(x.X.Type(), x.Field)
		n := "?"
		if f != nil {
			n = f.Name()
		}
		return describe(x.X, d+1) + "." + n
	case *ssa.Field:
		f := fieldVar(x.X.Type(), x.Field)
		n := "?"
		if f != nil {
			n = f.Name()
		}
		return describe(x.X, d+1) + "." + n
	case *ssa.Call:
		name := "call"
		if o := CalleeObj(x); o != nil {
			name = o.Name()
		} else if b, ok := x.Call.Value.(*ssa.Builtin); ok {
			name = b.Name()
		}
		var as []string
		for _, a := range CallArgs(x) {
			as = append(as, describe(a, d+2))
		}
		return name + "(" + strings.Join(as, ", ") + ")"
	case *ssa.Extract:
		return fmt.Sprintf("%s#%d", describe(x.Tuple, d+1), x.Index)
	case *ssa.BinOp:
		return "(" + describe(x.X, d+1) + " " + x.Op.String() + " " + describe(x.Y, d+1) + ")"
	case *ssa.Phi:
		if x.Comment != "" {
			return "phi(" + x.Comment + ")"
		}
		return "phi"
	case *ssa.MakeInterface:
		return describe(x.X, d+1)
	case *ssa.ChangeType:
		return describe(x.X, d+1)
	case *ssa.Convert:
		return describe(x.X, d+1)
	case *ssa.ChangeInterface:
		return describe(x.X, d+1)
	case *ssa.TypeAssert:
		return describe(x.X, d+1) + ".(" + types.TypeString(x.AssertedType, func(p *types.Package) string { return p.Name() }) + ")"
	case *ssa.Lookup:
		return describe(x.X, d+1) + "[" + describe(x.Index, d+1) + "]"
	case *ssa.IndexAddr:
		return describe(x.X, d+1) + "[" + describe(x.Index, d+1) + "]"
	case *ssa.Index:
		return describe(x.X, d+1) + "[" + describe(x.Index, d+1) + "]"
	case *ssa.Slice:
		return describe(x.X, d+1) + "[:]"
	case *ssa.MakeClosure:
		return "closure " + x.Fn.Name()
	}
	return v.Name()
}

// Unwrap strips interface/type conversions that do not change the underlying value.
func Unwrap(v ssa.Value) ssa.Value {
	for {
		switch x := v.(type) {
		case *ssa.MakeInterface:
			v = x.X
		case *ssa.ChangeType:
			v = x.X
		case *ssa.ChangeInterface:
			v = x.X
		case *ssa.Convert:
			v = x.X
		default:
			return v
		}
	}
}

// ResultOfCall: if v is the result (or an extracted component) of a call, returns the call and the index
// (-1 for a single-result call).
func ResultOfCall(v ssa.Value) (*ssa.Call, int) {
	switch x := v.(type) {
	case *ssa.Call:
		return x, -1
	case *ssa.Extract:
		if c, ok := x.Tuple.(*ssa.Call); ok {
			return c, x.Index
		}
	}
	return nil, 0
}

// Deref returns the pointee type or t itself.
func Deref(t types.Type) types.Type {
	if p, ok := t.Underlying().(*types.Pointer); ok {
		return p.Elem()
	}
	return t
}

// NamedOf returns the named type behind t (through one pointer), or nil.
func NamedOf(t types.Type) *types.Named {
	n, _ := types.Unalias(Deref(t)).(*types.Named)
	return n
}

// IsNamed reports whether t (through one pointer) is the named type pkgpath.name.
func IsNamed(t types.Type, pkgpath, name string) bool {
	n := NamedOf(t)
	return n != nil && n.Obj().Name() == name && n.Obj().Pkg() != nil && n.Obj().Pkg().Path() == pkgpath
}

// SameValue reports whether two SSA values denote the same run-time value: identical, or both loads of one
// local cell that is stored exactly once (a captured parameter or variable).
func SameValue(a, b ssa.Value) bool {
	a, b = Unwrap(a), Unwrap(b)
	if a == b {
		return a != nil
	}
	return cellOf(a) != nil && cellOf(a) == cellOf(b)
}

// cellOf: if v is (a load of) a single-assignment local cell, the cell's identity (the stored value), else nil.
func cellOf(v ssa.Value) ssa.Value {
	u, ok := v.(*ssa.UnOp)
	if !ok || u.Op != token.MUL {
		// the stored value itself identifies its cell too
		return singleCellValue(v)
	}
	var addr ssa.Value = u.X
	switch addr.(type) {
	case *ssa.Alloc, *ssa.FreeVar:
	default:
		return nil
	}
	if fv, ok := addr.(*ssa.FreeVar); ok {
		// resolve the free variable to the enclosing function's cell
		fn := fv.Parent()
		if fn == nil || fn.Parent() == nil {
			return nil
		}
		idx := -1
		for i, x := range fn.FreeVars {
			if x == fv {
				idx = i
			}
		}
		var bound ssa.Value
		ForEachInstr(fn.Parent(), func(in ssa.Instruction) {
			if mc, ok := in.(*ssa.MakeClosure); ok && mc.Fn == fn && idx >= 0 && idx < len(mc.Bindings) {
				bound = mc.Bindings[idx]
			}
		})
		if bound == nil {
			return nil
		}
		addr = bound
	}
	al, ok := addr.(*ssa.Alloc)
	if !ok {
		return nil
	}
	var stored []ssa.Value
	if refs := al.Referrers(); refs != nil {
		for _, r := range *refs {
			if st, ok := r.(*ssa.Store); ok && st.Addr == al {
				stored = append(stored, st.Val)
			}
		}
	}
	if len(stored) != 1 {
		return nil
	}
	return stored[0]
}

func singleCellValue(v ssa.Value) ssa.Value {
	switch v.(type) {
	case *ssa.Parameter:
		return v
	}
	return nil
}

// LoopHeader returns the innermost loop header block (a block with a back edge) that dominates b, or nil.
func LoopHeader(b *ssa.BasicBlock) *ssa.BasicBlock {
	var header *ssa.BasicBlock
	for _, h := range b.Parent().Blocks {
		if !h.Dominates(b) {
			continue
		}
		isHeader := false
		for _, pr := range h.Preds {
			if h.Dominates(pr) {
				isHeader = true
			}
		}
		if !isHeader {
			continue
		}
		// b must be inside the loop: some back-edge source is reachable from b without leaving through h
		if !reaches(b, h) {
			continue
		}
		if header == nil || header.Dominates(h) {
			header = h
		}
	}
	return header
}

// reaches: can control flow from a reach b (following successors)?
func reaches(a, b *ssa.BasicBlock) bool {
	seen := map[*ssa.BasicBlock]bool{}
	var walk func(x *ssa.BasicBlock) bool
	walk = func(x *ssa.BasicBlock) bool {
		for _, s := range x.Succs {
			if s == b {
				return true
			}
			if !seen[s] {
				seen[s] = true
				if walk(s) {
					return true
				}
			}
		}
		return false
	}
	return walk(a)
}

// LoopBound: the upper bound B of a counting loop `for i := …; i < B; …` or `for i := range B` whose head is h. The classic
// form tests `i < B` in the head; the range-over-int form (go/ssa "rangeint") tests `0 < B` before the loop and
// `i+1 < B` at the back edge. ok=false for any other loop.
func LoopBound(h *ssa.BasicBlock) (bound ssa.Value, ok bool) {
	if h == nil || len(h.Instrs) == 0 {
		return nil, false
	}
	if t, isIf := h.Instrs[len(h.Instrs)-1].(*ssa.If); isIf {
		if bo, isBin := t.Cond.(*ssa.BinOp); isBin && bo.Op == token.LSS {
			return bo.Y, true
		}
	}
	for _, p := range h.Preds {
		if !h.Dominates(p) || len(p.Instrs) == 0 {
			continue // not a back edge
		}
		t, isIf := p.Instrs[len(p.Instrs)-1].(*ssa.If)
		if !isIf || len(p.Succs) == 0 || p.Succs[0] != h {
			continue
		}
		if bo, isBin := t.Cond.(*ssa.BinOp); isBin && bo.Op == token.LSS {
			return bo.Y, true
		}
	}
	return nil, false
}

// InstrReaches: can control flow from instruction a (after it executed) reach instruction b?
func InstrReaches(a, b ssa.Instruction) bool {
	if a.Block() == b.Block() {
		ia, ib := -1, -1
		for i, in := range a.Block().Instrs {
			if in == a {
				ia = i
			}
			if in == b {
				ib = i
			}
		}
		if ia < ib {
			return true
		}
	}
	return reaches(a.Block(), b.Block())
}

// ClosureBinding resolves a free variable of an anonymous function to the value bound at its MakeClosure site.
func ClosureBinding(fv *ssa.FreeVar) ssa.Value {
	fn := fv.Parent()
	if fn == nil || fn.Parent() == nil {
		return nil
	}
	idx := -1
	for i, x := range fn.FreeVars {
		if x == fv {
			idx = i
		}
	}
	var bound ssa.Value
	ForEachInstr(fn.Parent(), func(in ssa.Instruction) {
		if mc, ok := in.(*ssa.MakeClosure); ok && mc.Fn == fn && idx >= 0 && idx < len(mc.Bindings) {
			bound = mc.Bindings[idx]
		}
	})
	return bound
}

// SameExpr reports structural equality of two SSA values: the same value, equal constants, or the same
// pure expression over structurally equal operands (field selections, loads, conversions, extracts of one call).
// Memory effects between the two evaluations are ignored (used inside lock-protected functions for keys).
func SameExpr(a, b ssa.Value) bool {
	return sameExpr(a, b, 0)
}

func sameExpr(a, b ssa.Value, d int) bool {
	if a == nil || b == nil || d > 10 {
		return false
	}
	a, b = Unwrap(a), Unwrap(b)
	if a == b {
		return true
	}
	if cellOf(a) != nil && cellOf(a) == cellOf(b) {
		return true
	}
	switch x := a.(type) {
	case *ssa.Const:
		return sameConst(a, b)
	case *ssa.UnOp:
		y, ok := b.(*ssa.UnOp)
		return ok && x.Op == y.Op && sameExpr(x.X, y.X, d+1)
	case *ssa.FieldAddr:
		y, ok := b.(*ssa.FieldAddr)
		return ok && x.Field == y.Field && sameExpr(x.X, y.X, d+1)
	case *ssa.Field:
		y, ok := b.(*ssa.Field)
		return ok && x.Field == y.Field && sameExpr(x.X, y.X, d+1)
	case *ssa.Extract:
		y, ok := b.(*ssa.Extract)
		return ok && x.Index == y.Index && x.Tuple == y.Tuple
	case *ssa.BinOp:
		y, ok := b.(*ssa.BinOp)
		return ok && x.Op == y.Op && sameExpr(x.X, y.X, d+1) && sameExpr(x.Y, y.Y, d+1)
	case *ssa.Call:
		// two calls of the same pure getter (body: return recv.field) on the same receiver
		y, ok := b.(*ssa.Call)
		if !ok {
			return false
		}
		fx, fy := CalleeFn(x), CalleeFn(y)
		if fx == nil || fx != fy || !isPureGetter(fx) || len(x.Call.Args) != len(y.Call.Args) {
			return false
		}
		for i := range x.Call.Args {
			if !sameExpr(x.Call.Args[i], y.Call.Args[i], d+1) {
				return false
			}
		}
		return true
	}
	return false
}

// isPureGetter: the function only loads fields of its parameters and returns them.
func isPureGetter(f *ssa.Function) bool {
	if f == nil || len(f.Blocks) != 1 {
		return false
	}
	for _, in := range f.Blocks[0].Instrs {
		switch x := in.(type) {
		case *ssa.FieldAddr, *ssa.Field, *ssa.Return, *ssa.DebugRef:
		case *ssa.UnOp:
			if x.Op != token.MUL {
				return false
			}
		default:
			return false
		}
	}
	return true
}

// Implementations returns the repo functions that can be the target of an interface method call (CHA restricted
// to the analysed module's types).
func (p *Prog) Implementations(m *types.Func) []*ssa.Function {
	if p.implCache == nil {
		p.implCache = map[*types.Func][]*ssa.Function{}
	}
	if r, ok := p.implCache[m]; ok {
		return r
	}
	var out []*ssa.Function
	sig, _ := m.Type().(*types.Signature)
	if sig == nil || sig.Recv() == nil {
		p.implCache[m] = nil
		return nil
	}
	iface, _ := sig.Recv().Type().Underlying().(*types.Interface)
	if iface == nil {
		p.implCache[m] = nil
		return nil
	}
	for _, pk := range p.Pkgs {
		if pk.Types == nil {
			continue
		}
		for _, name := range pk.Types.Scope().Names() {
			tn, ok := pk.Types.Scope().Lookup(name).(*types.TypeName)
			if !ok {
				continue
			}
			n, ok := tn.Type().(*types.Named)
			if !ok || types.IsInterface(n) {
				continue
			}
			for _, t := range []types.Type{n, types.NewPointer(n)} {
				if !types.Implements(t, iface) {
					continue
				}
				sel := p.SSA.MethodSets.MethodSet(t).Lookup(m.Pkg(), m.Name())
				if sel == nil {
					continue
				}
				if fn := p.SSA.MethodValue(sel); fn != nil {
					// unwrap promoted-method wrappers to the declared method
					if o, ok := sel.Obj().(*types.Func); ok {
						if df := p.FuncOf(o); df != nil {
							fn = df
						}
					}
					out = append(out, fn)
				}
				break
			}
		}
	}
	p.implCache[m] = out
	return out
}

// GlobalConstants returns, for the package-level variables of a repo package that are initialised with a constant
// in the package initialiser and never assigned anywhere else in the module, their constant value ("effectively
// constant" variables such as `var DetectMode1 = 1`).
func (p *Prog) GlobalConstants(pkgPath string) map[*ssa.Global]*ssa.Const {
	sp := p.SSAPkgs[pkgPath]
	out := map[*ssa.Global]*ssa.Const{}
	if sp == nil {
		return out
	}
	stores := map[*ssa.Global]int{}
	for _, f := range p.RepoFuncs() {
		isInit := f.Pkg == sp && f.Name() == "init" && f.Parent() == nil
		ForEachInstr(f, func(in ssa.Instruction) {
			st, ok := in.(*ssa.Store)
			if !ok {
				return
			}
			g, ok := st.Addr.(*ssa.Global)
			if !ok || g.Pkg != sp {
				return
			}
			stores[g]++
			if c, ok := st.Val.(*ssa.Const); ok && isInit {
				out[g] = c
			}
		})
	}
	if init := sp.Func("init"); init != nil {
		ForEachInstr(init, func(in ssa.Instruction) {
			st, ok := in.(*ssa.Store)
			if !ok {
				return
			}
			g, ok := st.Addr.(*ssa.Global)
			if !ok || g.Pkg != sp {
				return
			}
			if _, seen := stores[g]; !seen {
				stores[g]++
				if c, ok := st.Val.(*ssa.Const); ok {
					out[g] = c
				}
			}
		})
	}
	for g := range out {
		if stores[g] != 1 {
			delete(out, g)
		}
	}
	return out
}
