package engine

import (
	"go/token"
	"go/types"

	"golang.org/x/tools/go/ssa"
)

// Guard summaries: when a branch literal is about the result of a small repo function ("helper returned nil",
// "helper returned true"), the literals that hold on *every* path of the helper producing that outcome are added to
// the caller's path state. Extract-function refactorings of a guard therefore keep the guard visible to the rules
// (matchers look at callees and fields of the literal's operands, which are the helper's own SSA values).
//
// Must-event summaries: an instruction of a directly called repo function that is executed on every path of that
// function (its block dominates every return) contributes its event tag at the call site.

type outcome int

const (
	outNil outcome = iota
	outNonNil
	outTrue
	outFalse
)

type sumKey struct {
	fn  *ssa.Function
	idx int
	out outcome
}

var (
	sumCache  = map[sumKey][]Lit{}
	sumActive = map[*ssa.Function]bool{}
)

func summarizable(f *ssa.Function) bool {
	if f == nil || f.Blocks == nil || f.Pkg == nil || !IsRepoPkg(f.Pkg.Pkg.Path()) {
		return false
	}
	n := 0
	for _, b := range f.Blocks {
		n += len(b.Instrs)
	}
	return n <= 400
}

// outcomeLits returns the literals common to all paths of f whose result #idx (or the single result for idx<0) has
// the given outcome. ok=false when f cannot be summarised or no path has that outcome.
func outcomeLits(f *ssa.Function, idx int, out outcome) ([]Lit, bool) {
	if !summarizable(f) || sumActive[f] {
		return nil, false
	}
	key := sumKey{f, idx, out}
	if l, ok := sumCache[key]; ok {
		return l, l != nil
	}
	sumActive[f] = true
	defer delete(sumActive, f)
	q := &PathQuery{Fn: f, Sink: IsReturn, MaxStates: 20000}
	states, err := q.Run()
	if err != nil {
		sumCache[key] = nil
		return nil, false
	}
	var common []Lit
	first := true
	for _, st := range states {
		r := st.Sink.(*ssa.Return)
		i := idx
		if i < 0 {
			i = 0
		}
		if i >= len(r.Results) {
			continue
		}
		v := st.Resolve(r.Results[i])
		var implied *Lit
		match := false
		switch out {
		case outNil, outNonNil:
			if IsNilConst(v) {
				match = out == outNil
			} else if isNil, known := st.IsNil(func(x ssa.Value) bool { return x == v }); known {
				match = isNil == (out == outNil)
			} else if neverNil(v) || isErrorCtor(v) || isSentinelError(v) {
				match = out == outNonNil
			} else {
				// unknown: the value itself carries the outcome
				match = true
				implied = &Lit{Op: token.EQL, X: v, Y: ssa.NewConst(nil, v.Type()), Val: out == outNil}
			}
		case outTrue, outFalse:
			if b, ok := ConstBool(v); ok {
				match = b == (out == outTrue)
			} else {
				match = true
				implied = &Lit{Op: token.ILLEGAL, X: v, Val: out == outTrue}
			}
		}
		if !match {
			continue
		}
		lits := st.Lits
		if implied != nil {
			lits = append(append([]Lit{}, lits...), *implied)
		}
		if first {
			common = append([]Lit{}, lits...)
			first = false
			continue
		}
		var keep []Lit
		for _, c := range common {
			for _, l := range lits {
				if sameTest(c, l) && c.Val == l.Val {
					keep = append(keep, c)
					break
				}
			}
		}
		common = keep
	}
	if first {
		sumCache[key] = nil
		return nil, false
	}
	if common == nil {
		common = []Lit{}
	}
	sumCache[key] = common
	return common, true
}

func isErrorCtor(v ssa.Value) bool {
	c, ok := v.(*ssa.Call)
	if !ok {
		return false
	}
	o := CalleeObj(c)
	if o == nil || o.Pkg() == nil {
		return false
	}
	full := o.Pkg().Path() + "." + o.Name()
	return full == "fmt.Errorf" || full == "errors.New"
}

// impliedByLit returns the helper literals implied by a caller literal about a call result.
func impliedByLit(l Lit) []Lit {
	var v ssa.Value
	var out outcome
	switch {
	case l.Op == token.EQL && IsNilConst(l.Y):
		v = l.X
		out = outNonNil
		if l.Val {
			out = outNil
		}
	case l.Op == token.EQL && IsNilConst(l.X):
		v = l.Y
		out = outNonNil
		if l.Val {
			out = outNil
		}
	case l.Op == token.ILLEGAL:
		v = l.X
		out = outFalse
		if l.Val {
			out = outTrue
		}
	default:
		return nil
	}
	call, idx := ResultOfCall(Unwrap(v))
	if call == nil {
		return nil
	}
	f := CalleeFn(call)
	if f == nil || f.Parent() != nil && false {
		return nil
	}
	// only error / bool typed results
	var rt types.Type
	if idx < 0 {
		rt = call.Type()
	} else if tup, ok := call.Type().(*types.Tuple); ok && idx < tup.Len() {
		rt = tup.At(idx).Type()
	}
	if rt == nil {
		return nil
	}
	isErr := types.Identical(rt, types.Universe.Lookup("error").Type())
	b, isBasic := rt.Underlying().(*types.Basic)
	isBool := isBasic && b.Kind() == types.Bool
	if (out == outNil || out == outNonNil) && !isErr {
		return nil
	}
	if (out == outTrue || out == outFalse) && !isBool {
		return nil
	}
	lits, ok := outcomeLits(f, idx, out)
	if !ok {
		return nil
	}
	return lits
}

// mustEvents returns the event tags of instructions that execute on every path of the directly called repo function.
func mustEvents(call ssa.CallInstruction, tag func(ssa.Instruction) string, depth int) []Event {
	f := CalleeFn(call)
	if f == nil {
		return nil
	}
	// a local helper closure called directly (`abort := func(…) {…}; abort(…)`) is summarised like a named helper
	_, direct := call.Common().Value.(*ssa.MakeClosure)
	if !(summarizable(f) || direct && f.Parent() != nil && f.Blocks != nil) || depth > 1 || (f.Parent() != nil && !direct) {
		return nil
	}
	var rets []*ssa.BasicBlock
	for _, b := range f.Blocks {
		if len(b.Instrs) > 0 {
			if _, ok := b.Instrs[len(b.Instrs)-1].(*ssa.Return); ok {
				rets = append(rets, b)
			}
		}
	}
	if len(rets) == 0 {
		return nil
	}
	var out []Event
	for _, b := range f.Blocks {
		all := true
		for _, r := range rets {
			if !b.Dominates(r) {
				all = false
			}
		}
		if !all {
			continue
		}
		for _, in := range b.Instrs {
			if t := tag(in); t != "" {
				out = append(out, Event{Instr: call, Tag: t})
			}
			for _, t := range syncClosureTags(in, tag) {
				out = append(out, Event{Instr: call, Tag: t})
			}
		}
	}
	return out
}

// SyncRunClosure: the closure literal that a library runner executes before it returns — sync.Once.Do (by the time Do
// returns the closure has run, now or earlier) and golib errors.PanicToError — or nil.
func SyncRunClosure(in ssa.Instruction) *ssa.Function {
	call, ok := in.(*ssa.Call)
	if !ok {
		return nil
	}
	o := CalleeObj(call)
	if o == nil || o.Pkg() == nil {
		return nil
	}
	full := o.Pkg().Path() + "." + o.Name()
	if !(full == "github.com/fatedier/golib/errors.PanicToError" || (o.Pkg().Path() == "sync" && o.Name() == "Do")) {
		return nil
	}
	for _, a := range call.Call.Args {
		if mc, ok := a.(*ssa.MakeClosure); ok {
			if cf, ok := mc.Fn.(*ssa.Function); ok {
				return cf
			}
		}
	}
	return nil
}

// syncClosureTags: the tags of the instructions that execute on every path of a synchronously run closure literal.
func syncClosureTags(in ssa.Instruction, tag func(ssa.Instruction) string) []string {
	cf := SyncRunClosure(in)
	if cf == nil || len(cf.Blocks) == 0 {
		return nil
	}
	var rets []*ssa.BasicBlock
	for _, b := range cf.Blocks {
		if len(b.Instrs) > 0 {
			if _, ok := b.Instrs[len(b.Instrs)-1].(*ssa.Return); ok {
				rets = append(rets, b)
			}
		}
	}
	var out []string
	for _, b := range cf.Blocks {
		all := len(rets) > 0
		for _, r := range rets {
			if !b.Dominates(r) {
				all = false
			}
		}
		if !all {
			continue
		}
		for _, x := range b.Instrs {
			if t := tag(x); t != "" {
				out = append(out, t)
			}
		}
	}
	return out
}

// isSentinelError: a load of a package-level error variable that the package initialiser sets to errors.New /
// fmt.Errorf and nothing else stores to (ErrXxx sentinels) — never nil.
// IsSentinelError reports whether v loads a package-level error variable initialised with errors.New / fmt.Errorf.
func IsSentinelError(v ssa.Value) bool { return isSentinelError(v) }

func isSentinelError(v ssa.Value) bool {
	u, ok := v.(*ssa.UnOp)
	if !ok || u.Op != token.MUL {
		return false
	}
	g, ok := u.X.(*ssa.Global)
	if !ok || g.Pkg == nil {
		return false
	}
	init := g.Pkg.Func("init")
	if init == nil {
		return false
	}
	okInit := false
	ForEachInstr(init, func(in ssa.Instruction) {
		if st, ok := in.(*ssa.Store); ok && st.Addr == ssa.Value(g) {
			okInit = isErrorCtor(st.Val)
		}
	})
	return okInit
}
