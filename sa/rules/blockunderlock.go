package rules

import (
	"fmt"
	"go/token"
	"go/types"
	"sort"
	"strings"

	"golang.org/x/tools/go/ssa"

	"frpsa/engine"
)

// ---- no waiting for a peer while a mutex is held ----
//
// A goroutine that waits for somebody else (a channel hand-over without a default, a sleep, a dial, the function value
// another component registered — CreateConnFn waits up to userConnTimeout for a work connection) while it holds a
// struct's mutex makes every other user of that struct wait too; with an RWMutex one queued writer is enough to stall
// all readers. The rule enumerates, per function, the operations that can wait and that execute while a mutex field is
// held on every path (explicit Unlock before the operation releases; a deferred Unlock does not), following static
// callees, the module's implementations of invoked interface methods and synchronously run closures.

type blockSite struct {
	in  ssa.Instruction
	why string
}

type blockInfo struct {
	p    *engine.Prog
	memo map[*ssa.Function]*string
	// recvOf: when a function's reason to wait is a receive from a struct-field channel, that field (a caller that
	// closed the channel beforehand is draining, not waiting)
	recvOf map[*ssa.Function]*types.Var
}

// waitsDirect classifies one instruction as an operation that may wait for another goroutine or for the network.
func (bi *blockInfo) waitsDirect(in ssa.Instruction) string {
	switch x := in.(type) {
	case *ssa.Send:
		return "channel send"
	case *ssa.Select:
		if x.Blocking {
			return "select without default"
		}
	case *ssa.UnOp:
		if x.Op == token.ARROW {
			return "channel receive"
		}
	case *ssa.Call:
		if o := engine.CalleeObj(x); o != nil && o.Pkg() != nil {
			full := o.Pkg().Path() + "." + o.Name()
			switch full {
			case "time.Sleep":
				return full
			}
			if o.Pkg().Path() == "sync" && o.Name() == "Wait" {
				return "sync Wait"
			}
			switch o.Name() {
			case "Dial", "DialContext", "DialTimeout":
				if !engine.IsRepoPkg(o.Pkg().Path()) {
					return full
				}
			}
		}
	}
	return ""
}

// waits: does f (or what it synchronously runs, 4 levels) contain a waiting operation? Returns a description or "".
func (bi *blockInfo) waits(f *ssa.Function, depth int) string {
	if f == nil || len(f.Blocks) == 0 || depth > 4 {
		return ""
	}
	if r, ok := bi.memo[f]; ok {
		if r == nil {
			return "" // in progress (recursion)
		}
		return *r
	}
	bi.memo[f] = nil
	res := ""
	closedHere := map[*types.Var]bool{}
	engine.ForEachInstr(f, func(in ssa.Instruction) {
		if call, ok := in.(*ssa.Call); ok {
			if b, ok := call.Call.Value.(*ssa.Builtin); ok && b.Name() == "close" {
				if fv, _ := engine.LoadedField(call.Call.Args[0]); fv != nil {
					closedHere[fv] = true
				}
			}
		}
	})
	engine.ForEachInstr(f, func(in ssa.Instruction) {
		if res != "" {
			return
		}
		if _, isGo := in.(*ssa.Go); isGo {
			return
		}
		if _, isDefer := in.(*ssa.Defer); isDefer {
			return
		}
		if w := bi.waitsDirect(in); w != "" {
			if u, ok := in.(*ssa.UnOp); ok {
				if fv, _ := engine.LoadedField(u.X); fv != nil {
					if closedHere[fv] {
						return // draining a channel this function has closed
					}
					if bi.recvOf == nil {
						bi.recvOf = map[*ssa.Function]*types.Var{}
					}
					bi.recvOf[f] = fv
				}
			}
			res = w + " in " + bi.p.FuncName(f)
			return
		}
		if call, ok := in.(*ssa.Call); ok {
			if w := bi.calleeWaits(call, depth+1); w != "" {
				res = w
			}
		}
	})
	bi.memo[f] = &res
	return res
}

// calleeWaits: what a call may wait for, through static callees, closures handed to synchronous runners and the
// module's implementations of an invoked interface method; "" when nothing is found.
func (bi *blockInfo) calleeWaits(call *ssa.Call, depth int) string {
	p := bi.p
	if cf := engine.CalleeFn(call); cf != nil {
		if cf.Pkg != nil && engine.IsRepoPkg(cf.Pkg.Pkg.Path()) || cf.Parent() != nil {
			return bi.waits(cf, depth)
		}
		// library function given closures it runs synchronously (PanicToError, Once.Do, lo helpers)
		for _, a := range call.Call.Args {
			if mc, ok := a.(*ssa.MakeClosure); ok {
				if f2, ok := mc.Fn.(*ssa.Function); ok {
					if w := bi.waits(f2, depth); w != "" {
						return w
					}
				}
			}
		}
		return ""
	}
	if call.Call.IsInvoke() {
		o := call.Call.Method
		if o != nil && o.Pkg() != nil && engine.IsRepoPkg(o.Pkg().Path()) {
			for _, impl := range p.Implementations(o) {
				if w := bi.waits(impl, depth); w != "" {
					return w
				}
			}
		}
		return ""
	}
	return ""
}

// dynamicCall: a call through a function value whose target the analysis cannot name (a registered callback).
func dynamicCall(call *ssa.Call) bool {
	if call.Call.IsInvoke() || engine.CalleeFn(call) != nil {
		return false
	}
	if _, isB := call.Call.Value.(*ssa.Builtin); isB {
		return false
	}
	return true
}

// confirmedWaitsUnderLock: the sites of the confirmed tree where a mutex is deliberately held across a wait (read and
// confirmed one by one); anything else that can wait while a mutex is held is reported.
var confirmedWaitsUnderLock = []struct{ fn, lock, kind, reason string }{
	{"client.Service.loopLoginUntilSuccess", "ctlMu", "time.Sleep", "the old control is closed gracefully while ctlMu keeps a concurrent stop/reload from seeing a half-replaced control; bounded by the grace period"},
	{"client.Service.stop", "ctlMu", "time.Sleep", "GracefulClose sleeps for the bounded grace period under ctlMu by design (shutdown)"},
	{"client/proxy.Wrapper.checkWorker", "mu", "function value", "the start/close event is handed to the manager's handler under the wrapper lock so that phase and announced event cannot be reordered; the handler only queues a message"},
	{"client/proxy.Wrapper.close", "mu", "function value", "as checkWorker: the close event is announced in the phase it was decided in"},
}

func waitKind(why string) string {
	switch {
	case strings.HasPrefix(why, "call through a function value"):
		return "function value"
	case strings.Contains(why, " in "):
		return why[:strings.Index(why, " in ")]
	}
	return why
}

// checkNoWaitUnderLock (C16.R23, shared with C02.R12 and C10.R18).
func checkNoWaitUnderLock(c *engine.Ctx, li *engine.LockInfo, rule string) {
	c.Rule(rule, "no operation that can wait for another goroutine or for the network — a channel send/receive or select without default, time.Sleep, a dial, sync Wait, a call through a registered function value (CreateConnFn waits for a work connection) — executes while a struct's mutex is held on every path to it (an explicit Unlock before it releases, a deferred Unlock does not), directly or inside statically resolved callees, the module's implementations of invoked interface methods and synchronously run closures; the confirmed deliberate sites are tabled with their reason")
	p := c.P
	allowed := map[*ssa.Function]int{}
	for i, e := range confirmedWaitsUnderLock {
		var f *ssa.Function
		if e.fn == "client.Service.loopLoginUntilSuccess" {
			f = clientLoginLoop(c) // found by what it does (it builds and runs the controls), whatever it is called
		} else {
			f = fn(c, e.fn)
		}
		if f != nil {
			allowed[f] = i
		}
	}
	bi := &blockInfo{p: p, memo: map[*ssa.Function]*string{}}
	n, tabled := 0, 0
	for _, f := range p.RepoFuncs() {
		f := f
		closedHere := map[*types.Var]bool{}
		engine.ForEachInstr(f, func(in ssa.Instruction) {
			if call, ok := in.(*ssa.Call); ok {
				if b, ok := call.Call.Value.(*ssa.Builtin); ok && b.Name() == "close" {
					if fv, _ := engine.LoadedField(call.Call.Args[0]); fv != nil {
						closedHere[fv] = true
					}
				}
			}
		})
		engine.ForEachInstr(f, func(in ssa.Instruction) {
			if _, isGo := in.(*ssa.Go); isGo {
				return
			}
			if _, isDefer := in.(*ssa.Defer); isDefer {
				return
			}
			why := bi.waitsDirect(in)
			if u, ok := in.(*ssa.UnOp); ok && why != "" {
				// draining a channel this function has closed does not wait
				if fv, _ := engine.LoadedField(u.X); fv != nil && closedHere[fv] {
					return
				}
			}
			if call, ok := in.(*ssa.Call); ok && why == "" {
				if dynamicCall(call) {
					if isNeverWaitingFuncType(call.Call.Value.Type()) {
						return
					}
					why = "call through a function value of type " + typeShort(call.Call.Value.Type())
				} else {
					why = bi.calleeWaits(call, 1)
					if cf := engine.CalleeFn(call); cf != nil && strings.HasPrefix(why, "channel receive") {
						if fv := bi.recvOf[cf]; fv != nil && closedHere[fv] {
							return // the helper drains a channel this function closed before calling it
						}
					}
				}
			}
			if why == "" {
				return
			}
			held := li.HeldAt(in)
			if len(held) == 0 {
				return
			}
			n++
			names := held.Names()
			sort.Strings(names)
			kind := waitKind(why)
			// the function the site belongs to: closures count for the function that contains them
			owner := f
			for owner.Parent() != nil {
				owner = owner.Parent()
			}
			key := p.FuncName(f) + ">holds-" + strings.Join(names, "+") + ">" + strings.ReplaceAll(kind, " ", "-")
			// a step split out of a tabled function (an unexported helper only tabled functions call) stands for it
			if _, ok := allowed[owner]; !ok {
				if o, isFn := owner.Object().(*types.Func); isFn && !o.Exported() {
					var callersOf []*ssa.Function
					for _, g := range p.RepoFuncs() {
						if len(engine.CallsTo(g, o)) > 0 {
							r := g
							for r.Parent() != nil {
								r = r.Parent()
							}
							callersOf = append(callersOf, r)
						}
					}
					same := len(callersOf) > 0
					for _, g := range callersOf {
						if _, ok := allowed[g]; !ok || allowed[g] != allowed[callersOf[0]] {
							same = false
						}
					}
					if same {
						owner = callersOf[0]
					}
				}
			}
			if i, ok := allowed[owner]; ok {
				e := confirmedWaitsUnderLock[i]
				if kind == e.kind && len(names) == 1 && strings.HasSuffix(names[0], e.lock) {
					tabled++
					c.Hold(key, in.Pos(), 1, []string{"confirmed: " + e.reason}, "deliberate wait under %s (%s)", e.lock, why)
					return
				}
			}
			c.Violate(key, in.Pos(), []string{"waits: " + why, "held on every path: " + strings.Join(names, ", ")},
				"%s while %s is held: everybody who needs that mutex (with an RWMutex: every reader, once one writer queues) waits as long as this operation does", why, strings.Join(names, ", "))
		})
	}
	c.Floor(tabled, 2)
	_ = fmt.Sprint
}

// isNeverWaitingFuncType: function values that never wait for a peer (context.CancelFunc).
func isNeverWaitingFuncType(t types.Type) bool {
	if n, ok := t.(*types.Named); ok && n.Obj().Pkg() != nil {
		return n.Obj().Pkg().Path() == "context" && (n.Obj().Name() == "CancelFunc" || n.Obj().Name() == "CancelCauseFunc")
	}
	return false
}
