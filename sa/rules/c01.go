package rules

import (
	"fmt"
	"go/token"
	"go/types"
	"os"
	"strings"

	"golang.org/x/tools/go/ssa"

	"frpsa/engine"
)

func init() {
	Registry["C01"] = &Property{
		Title:       "TCP-class tunnels are byte-transparent end to end and never cross-wired",
		Run:         runC01,
		Explanation: "Decides structural necessary conditions of byte transparency: (R1) every wrapper-stack builder applies encryption exactly under UseEncryption and compression exactly under UseCompression, with encryption next to the wire, every later consumer of the wire stream receiving all layers applied so far, the limiter's reader and writer wrapping the same stream with one bucket, and the key class agreeing with the peer; (R2) the limiter's writer loop waits for exactly the bytes it then writes, writes p[:end] and continues with p[end:] for the same end, accumulates every partial count, and end never exceeds the burst; the reader clips its buffer to the burst and waits for exactly the bytes read; (R3) a limiter is created only for a positive limit and only on the side named by bandwidthLimitMode, with rate and burst from the configured quantity; (R4) functions that sniff bytes from a shared connection hand on the replaying half (tabled exceptions: custom TLS byte, non-passthrough CONNECT); (R5) StartWorkConn names the proxy and carries the caller's addresses, and the client dispatches on that name (closing on a miss); (R6) the proxy-protocol header is built from the StartWorkConn addresses and written before the streams are joined, only when configured; (R7) user and work connections are closed on every exit; (R8) a pooled compression codec is recycled only by defer or after the join. Also (R9) duplicate route detection is case-insensitive (shared with C06.R3/R4: a host claimed twice cross-wires two proxies). (R10) closing a QUIC-backed connection finishes the send side (Stream.Close) on every path and never resets it (no CancelWrite anywhere in the product code): a reset discards data the peer has not read yet. Not decided: byte equality through AES-CFB, snappy, yamux, kcp, quic, websocket and TLS; eventual delivery; bounded closing time; the numeric bandwidth bound (arithmetic of x/time/rate).",
		Assumptions: commonAssumptions,
	}
}

func runC01(c *engine.Ctx) {
	checkStacks(c, "R1")
	checkLimiterLoops(c, "R2")
	checkLimiterCreation(c, "R3")
	checkSniffReplay(c, "R4")
	checkDispatchByName(c, "R5")
	checkProxyProtocol(c, "R6")
	checkJoinClosure(c, "R7")
	checkRecycle(c, "R8")
	checkRouterDuplicates(c, "R9")
	checkGracefulClose(c, "R10")
	checkWrapperCloseFns(c, "R11") // shared with C10.R12: closing the limiter wrapper must close the tunnel stream
	checkDeadlineDisarm(c, "R12")
	checkHandOverFlags(c, "R13")
	checkFreshLookup(c, "R14") // shared with C06.R13: a connection is bridged to the listener the registry names now
	checkMuxPriorities(c, "R15")
	checkThrowawayBufio(c, "R16")     // shared with C16.R22: a read-ahead reader that is dropped swallows the head of the stream
	checkInWorkConnDispatch(c, "R17") // shared with C19.R3: a work connection that is not dispatched is closed (its user would hang)
}

// checkMuxPriorities (R15): on the shared bind port golib's mux asks its sub-listeners in ascending priority and gives
// the connection to the first whose matcher accepts the first bytes. The frp-TLS sub-listener's matcher accepts the custom
// head byte and also 0x16 — the first byte of every TLS ClientHello — "only when the vhost https port is not the bind
// port": it relies on the HTTPS vhost sub-listener being asked first. So every sub-listener whose matcher accepts 0x16 must
// be registered with a priority number greater than that of every ListenHTTPS registration.
func checkMuxPriorities(c *engine.Ctx, rule string) {
	c.Rule(rule, "server: every mux sub-listener whose matcher accepts the TLS record byte 0x16 has a priority number greater than every ListenHTTPS registration (the vhost HTTPS listener sees TLS connections first)")
	p := c.P
	var muxListen, muxHTTPS *types.Func
	for path, pk := range p.ByPath {
		if strings.HasSuffix(path, "golib/net/mux") && pk.Types != nil {
			if n, _ := pk.Types.Scope().Lookup("Mux").(*types.TypeName); n != nil {
				if named, ok := n.Type().(*types.Named); ok {
					for i := 0; i < named.NumMethods(); i++ {
						switch named.Method(i).Name() {
						case "Listen":
							muxListen = named.Method(i)
						case "ListenHTTPS":
							muxHTTPS = named.Method(i)
						}
					}
				}
			}
		}
	}
	if muxListen == nil || muxHTTPS == nil {
		c.Missing("golib/net/mux.Mux", "mux methods not found")
		return
	}
	constInt := func(v ssa.Value) (int64, bool) {
		if z, ok := engine.ConstInt(v); ok {
			return z, true
		}
		src := engine.DeepSources(p, v)
		if len(src.Consts) == 1 && len(src.Calls) == 0 && len(src.Fields) == 0 {
			for k := range src.Consts {
				var z int64
				if _, err := fmt.Sscanf(k, "%d", &z); err == nil {
					return z, true
				}
			}
		}
		return 0, false
	}
	var httpsPrio, tlsPrio []int64
	undecided := ""
	var pos token.Pos
	acceptsTLSByte := func(fnv ssa.Value) bool {
		f := funcValueOf(p, fnv)
		if f == nil {
			return false
		}
		hit := false
		engine.ForEachInstr(f, func(in ssa.Instruction) {
			if bo, ok := in.(*ssa.BinOp); ok && bo.Op == token.EQL {
				for _, o := range []ssa.Value{bo.X, bo.Y} {
					if z, ok := engine.ConstInt(o); ok && z == 0x16 {
						hit = true
					}
				}
			}
		})
		return hit
	}
	for _, f := range p.RepoFuncs() {
		if f.Pkg == nil || !strings.HasSuffix(f.Pkg.Pkg.Path(), "/server") {
			continue
		}
		engine.ForEachInstr(f, func(in ssa.Instruction) {
			switch x := in.(type) {
			case *ssa.Call:
				o := engine.CalleeObj(x)
				args := engine.CallArgs(x)
				switch {
				case engine.SameFunc(o, muxHTTPS) && len(args) >= 2:
					if z, ok := constInt(args[1]); ok {
						httpsPrio = append(httpsPrio, z)
					} else {
						undecided = "the priority of a ListenHTTPS registration is not a constant"
					}
					pos = in.Pos()
				case engine.SameFunc(o, muxListen) && len(args) >= 4:
					if acceptsTLSByte(args[3]) {
						if z, ok := constInt(args[1]); ok {
							tlsPrio = append(tlsPrio, z)
						} else {
							undecided = "the priority of the TLS sub-listener is not a constant"
						}
						pos = in.Pos()
					}
				}
			case *ssa.MakeClosure:
				// ListenHTTPS used as a method value and handed to a helper that calls it with the priority
				bf, _ := x.Fn.(*ssa.Function)
				if bf == nil || bf.Synthetic == "" || !engine.SameFunc(bf.Object().(*types.Func), muxHTTPS) {
					return
				}
				found := false
				for _, r := range *x.Referrers() {
					call, ok := r.(ssa.CallInstruction)
					if !ok {
						continue
					}
					cf := engine.CalleeFn(call)
					if cf == nil {
						continue
					}
					for i, a := range engine.CallArgs(call) {
						if a != ssa.Value(x) || i >= len(cf.Params) {
							continue
						}
						pr := cf.Params[i]
						engine.ForEachInstr(cf, func(y ssa.Instruction) {
							if c2, ok := y.(*ssa.Call); ok && c2.Call.Value == ssa.Value(pr) && len(c2.Call.Args) >= 1 {
								if z, ok := constInt(c2.Call.Args[0]); ok {
									httpsPrio = append(httpsPrio, z)
									found = true
								}
							}
						})
					}
				}
				if !found {
					undecided = "ListenHTTPS is used as a function value whose priority argument cannot be found"
				}
				pos = in.Pos()
			}
		})
	}
	key := "server>mux-priorities"
	switch {
	case undecided != "":
		c.Undecide(key, pos, "%s", undecided)
	case len(httpsPrio) == 0 || len(tlsPrio) == 0:
		c.Undecide(key, pos, "expected a ListenHTTPS registration and a sub-listener accepting 0x16 (found %d and %d)", len(httpsPrio), len(tlsPrio))
	default:
		okAll := true
		for _, t := range tlsPrio {
			for _, h := range httpsPrio {
				if t <= h {
					okAll = false
				}
			}
		}
		c.Check(okAll, key, pos, len(httpsPrio)+len(tlsPrio), []string{fmt.Sprintf("ListenHTTPS priorities %v, 0x16-accepting listener priorities %v", httpsPrio, tlsPrio)},
			"the HTTPS vhost sub-listener is asked before the frp-TLS sub-listener")
	}
	c.Floor(len(httpsPrio)+len(tlsPrio), 2)
}

// ---- R2 ----

func checkLimiterLoops(c *engine.Ctx, rule string) {
	c.Rule(rule, "limit.Writer.Write waits for `end` tokens, writes p[:end], continues with p[end:], adds every partial count to n, and end <= Burst(); limit.Reader.Read clips p to Burst() before reading and waits for exactly the n bytes read")
	n := 0
	if f := fn(c, "pkg/util/limit.Writer.Write"); f != nil {
		n++
		var wait, write *ssa.Call
		engine.ForEachInstr(f, func(in ssa.Instruction) {
			if call, ok := in.(*ssa.Call); ok {
				o := engine.CalleeObj(call)
				if o == nil {
					return
				}
				switch o.Name() {
				case "WaitN":
					wait = call
				case "Write":
					write = call
				}
			}
		})
		var bad []string
		if wait == nil || write == nil {
			bad = append(bad, "WaitN or the underlying Write not found")
		} else {
			waitN := wait.Call.Args[len(wait.Call.Args)-1]
			wargs := engine.CallArgs(write)
			sl, ok := wargs[len(wargs)-1].(*ssa.Slice)
			if !ok || sl.Low != nil || sl.High == nil {
				bad = append(bad, "the written chunk is not p[:end]")
			} else {
				if !engine.SameValue(sl.High, waitN) {
					bad = append(bad, "tokens waited for ("+engine.Describe(waitN)+") differ from the chunk length written ("+engine.Describe(sl.High)+")")
				}
				// remainder: a slice p[end:] of the same base with the same end
				remOK := false
				engine.ForEachInstr(f, func(in ssa.Instruction) {
					if s2, ok := in.(*ssa.Slice); ok && s2 != sl && s2.Low != nil && s2.High == nil && engine.SameValue(s2.Low, sl.High) && engine.SameValue(s2.X, sl.X) {
						remOK = true
					}
				})
				if !remOK {
					bad = append(bad, "the remainder is not p[end:] for the same end: bytes are dropped or repeated at the split")
				}
				// wait precedes write in the same iteration
				if !(wait.Block().Dominates(write.Block())) {
					bad = append(bad, "the write is not dominated by the token wait")
				}
				// end <= burst: end is phi(len(p), b) under b < len(p)
				if ph, ok := sl.High.(*ssa.Phi); ok {
					okB := false
					for _, e := range ph.Edges {
						if cl, ok := e.(*ssa.Call); ok {
							if o := engine.CalleeObj(cl); o != nil && o.Name() == "Burst" {
								okB = true
							}
						}
					}
					if !okB {
						bad = append(bad, "the chunk length is not clipped to Burst()")
					}
				} else {
					bad = append(bad, "the chunk length is not min(len(p), Burst())")
				}
			}
			// accumulation: the returned n on exits after a write includes the partial count: n = n + nn
			accOK := false
			engine.ForEachInstr(f, func(in ssa.Instruction) {
				if bo, ok := in.(*ssa.BinOp); ok && bo.Op == token.ADD {
					if cl, i := engine.ResultOfCall(bo.Y); cl == write && i == 0 {
						accOK = true
					}
					if cl, i := engine.ResultOfCall(bo.X); cl == write && i == 0 {
						accOK = true
					}
				}
			})
			if !accOK {
				bad = append(bad, "the partial write count is not added to the returned total: a split Write reports a short write")
			}
			// the accumulated value is what is returned
			retOK := true
			engine.ForEachInstr(f, func(in ssa.Instruction) {
				if r, ok := in.(*ssa.Return); ok {
					if cl, i := engine.ResultOfCall(r.Results[0]); cl == write && i == 0 {
						retOK = false
					}
					if u, ok := r.Results[0].(*ssa.UnOp); ok {
						// named result cell: every store to it must be the accumulation (or its initial zero)
						if al, ok := u.X.(*ssa.Alloc); ok {
							if refs := al.Referrers(); refs != nil {
								for _, rr := range *refs {
									if st, ok := rr.(*ssa.Store); ok && st.Addr == ssa.Value(al) {
										if cl, i := engine.ResultOfCall(st.Val); cl == write && i == 0 {
											retOK = false
										}
									}
								}
							}
						}
					}
				}
			})
			if !retOK {
				bad = append(bad, "the returned count is the last chunk's count, not the accumulated total")
			}
		}
		c.Check(len(bad) == 0, "pkg/util/limit.Writer.Write", f.Pos(), 6, nil, "writer loop is lossless and paced (%s)", strings.Join(bad, "; "))
	}
	if f := fn(c, "pkg/util/limit.Reader.Read"); f != nil {
		n++
		var wait, read, burst *ssa.Call
		engine.ForEachInstr(f, func(in ssa.Instruction) {
			if call, ok := in.(*ssa.Call); ok {
				o := engine.CalleeObj(call)
				if o == nil {
					return
				}
				switch o.Name() {
				case "WaitN":
					wait = call
				case "Read":
					read = call
				case "Burst":
					burst = call
				}
			}
		})
		var bad []string
		if wait == nil || read == nil || burst == nil {
			bad = append(bad, "Burst, Read or WaitN not found: the read buffer is not clipped to the burst (WaitN fails for n > burst and the tunnel is torn down mid-stream)")
		} else {
			// the buffer passed to Read is p or p[:b] with b = Burst() under b < len(p)
			rargs := engine.CallArgs(read)
			buf := rargs[len(rargs)-1]
			clipped := false
			if ph, ok := buf.(*ssa.Phi); ok {
				for _, e := range ph.Edges {
					if sl, ok := e.(*ssa.Slice); ok && sl.High != nil && engine.SameValue(sl.High, burst) {
						clipped = true
					}
				}
			}
			if !clipped {
				bad = append(bad, "the read buffer is not clipped to Burst(): a read larger than the burst makes WaitN fail and aborts the stream")
			}
			wn := wait.Call.Args[len(wait.Call.Args)-1]
			if cl, i := engine.ResultOfCall(wn); !(cl == read && i == 0) {
				bad = append(bad, "tokens waited for are not the number of bytes read")
			}
		}
		c.Check(len(bad) == 0, "pkg/util/limit.Reader.Read", f.Pos(), 4, nil, "reader is clipped and paced (%s)", strings.Join(bad, "; "))
	}
	c.Floor(n, 2)
}

// ---- R3 ----

func checkLimiterCreation(c *engine.Ctx, rule string) {
	p := c.P
	c.Rule(rule, "rate.NewLimiter is called only for limitBytes > 0 and BandwidthLimitMode equal to this side's constant; rate and burst both derive from BandwidthLimit.Bytes()")
	n := 0
	for _, side := range []struct{ sym, mode string }{{"server/proxy.NewProxy", "server"}, {"client/proxy.NewProxy", "client"}} {
		f := fn(c, side.sym)
		if f == nil {
			continue
		}
		modeF := field(c, "pkg/config/v1", "ProxyTransport", "BandwidthLimitMode")
		engine.ForEachInstr(f, func(in ssa.Instruction) {
			call, ok := in.(*ssa.Call)
			if !ok {
				return
			}
			o := engine.CalleeObj(call)
			if o == nil || o.Name() != "NewLimiter" {
				return
			}
			n++
			c.AllPaths(side.sym+">limiter", engine.PathCheck{Fn: f, Sink: engine.Is(in), Pred: func(st *engine.PathState) string {
				eq, k := st.Equal(loadOfField(modeF), func(v ssa.Value) bool { s, ok := engine.ConstString(v); return ok && s == side.mode })
				if !(k && eq) {
					return "a limiter is created on the " + side.mode + " side without BandwidthLimitMode == \"" + side.mode + "\": both sides (or the wrong side) throttle"
				}
				pos := false
				for _, l := range st.Lits {
					if l.Op == token.GTR && l.Val {
						if z, ok := engine.ConstInt(l.Y); ok && z == 0 {
							if cl, _ := engine.ResultOfCall(l.X); cl != nil && engine.CalleeObj(cl) != nil && engine.CalleeObj(cl).Name() == "Bytes" {
								pos = true
							}
						}
					}
				}
				if !pos {
					return "a limiter is created without a positive configured limit"
				}
				for _, a := range call.Call.Args {
					src := engine.Provenance(a, engine.ProvOpts{})
					okB := false
					for k := range src.Calls {
						if k.Name() == "Bytes" {
							okB = true
						}
					}
					if !okB {
						return "rate or burst does not derive from BandwidthLimit.Bytes()"
					}
				}
				return ""
			}}, "limiter only for this side's mode and a positive limit")
		})
	}
	// the validator accepts exactly the spellings the two sides compare with: it tests the raw field (both NewProxy
	// functions compare the raw string with == "client" / == "server"; a validator that normalises first lets
	// "Server" through and then neither side throttles)
	if modeF := p.Field("pkg/config/v1", "ProxyTransport", "BandwidthLimitMode"); modeF != nil {
		for _, f := range p.RepoFuncs() {
			if f.Pkg == nil || !strings.HasSuffix(f.Pkg.Pkg.Path(), "/pkg/config/v1/validation") {
				continue
			}
			engine.ForEachInstr(f, func(in ssa.Instruction) {
				call, ok := in.(*ssa.Call)
				if !ok || !isSlicesContains(call) {
					return
				}
				arg := call.Call.Args[len(call.Call.Args)-1]
				src := engine.Provenance(arg, engine.ProvOpts{})
				if !src.HasField(modeF) {
					return
				}
				n++
				lf, _ := engine.LoadedField(engine.Unwrap(arg))
				c.Check(lf == modeF && len(src.Calls) == 0, p.FuncName(f)+">mode-validated-as-compared", call.Pos(), 1, []string{"tested value: " + engine.Describe(arg)},
					"the validator tests the raw BandwidthLimitMode, the same string the limiter sides compare")
			})
		}
	}
	c.Floor(n, 3)
}

// ---- R4 ----

func checkSniffReplay(c *engine.Ctx, rule string) {
	p := c.P
	c.Rule(rule, "where bytes are read from the reader half of a shared connection, the connection handed on is the replaying half, except the two intentionally consuming paths (custom TLS head byte; non-passthrough CONNECT)")
	n := 0
	for _, f := range p.RepoFuncs() {
		var shared *ssa.Call
		engine.ForEachInstr(f, func(in ssa.Instruction) {
			if call, ok := in.(*ssa.Call); ok && calleeIs(call, "golib/net", "NewSharedConn", "NewSharedConnSize") {
				shared = call
			}
		})
		if shared == nil {
			continue
		}
		n++
		name := p.FuncName(f)
		raw := shared.Call.Args[0]
		// every returned / forwarded connection value
		q := &engine.PathQuery{Fn: f, From: shared, ContinueAfterSink: true, Sink: func(in ssa.Instruction) bool {
			switch x := in.(type) {
			case *ssa.Return:
				return true
			case *ssa.Call:
				if o := engine.CalleeObj(x); o != nil && (o.Name() == "PutConn" || o.Name() == "Server" && o.Pkg() != nil && o.Pkg().Path() == "crypto/tls") {
					return true
				}
			}
			return false
		}}
		states, err := q.Run()
		if err != nil {
			c.Undecide(name, f.Pos(), "%v", err)
			continue
		}
		bad := ""
		for _, st := range states {
			var outs []ssa.Value
			switch x := st.Sink.(type) {
			case *ssa.Return:
				// error exits hand nothing on
				errExit := false
				for _, r := range x.Results {
					if types.Identical(r.Type(), types.Universe.Lookup("error").Type()) {
						ev := st.Resolve(r)
						if !engine.IsNilConst(ev) {
							if isNil, known := st.IsNil(func(v ssa.Value) bool { return v == ev }); !(known && isNil) {
								errExit = true
							}
						}
					}
				}
				if errExit {
					continue
				}
				for _, r := range x.Results {
					if isStreamType(r.Type()) {
						outs = append(outs, r)
					}
				}
			case *ssa.Call:
				if len(x.Call.Args) > 0 {
					outs = append(outs, x.Call.Args[len(x.Call.Args)-1])
					if o := engine.CalleeObj(x); o != nil && o.Name() == "Server" {
						outs = []ssa.Value{x.Call.Args[0]}
					}
				}
			}
			for _, o := range outs {
				v := engine.Unwrap(st.Resolve(o))
				if engine.IsNilConst(v) {
					continue
				}
				src := engine.Provenance(v, engine.ProvOpts{})
				fromShared := src.CallIns[shared]
				usesRaw := engine.SameValue(v, raw)
				if fromShared && !usesRaw {
					continue
				}
				if usesRaw {
					// tabled exceptions
					if strings.HasSuffix(name, "CheckAndEnableTLSServerConnWithTimeout") {
						// custom TLS head byte 0x17 was consumed on purpose
						okEx := false
						for _, l := range st.Lits {
							if l.Op == token.EQL && l.Val {
								if k, ok := engine.ConstInt(l.Y); ok && k == 0x17 {
									okEx = true
								}
							}
						}
						if g := gconstByte(c, l17(st)); g {
							okEx = true
						}
						if okEx {
							continue
						}
					}
					if f == c.P.Fn("pkg/util/tcpmux.HTTPConnectTCPMuxer.getHostFromHTTPConnect") {
						// non-passthrough CONNECT: the request is answered by the muxer, its bytes are not replayed
						if v, k := st.Truth(func(x ssa.Value) bool {
							f, _ := engine.LoadedField(x)
							return f != nil && f == c.P.Field("pkg/util/tcpmux", "HTTPConnectTCPMuxer", "passthrough")
						}); k && !v {
							continue
						}
					}
					bad = "the raw connection (whose first bytes were consumed while sniffing) is handed on at " + p.Pos(posOf(st.Sink)) + " instead of the replaying shared connection"
				}
			}
		}
		c.Check(bad == "", name, shared.Pos(), q.Steps, nil, "sniffed bytes are replayed to the next reader (%s)", bad)
	}
	c.Floor(n, 4)
}

// helpers for the custom-TLS-byte exception: the head byte may be compared against a package variable
func l17(st *engine.PathState) []engine.Lit { return st.Lits }

func gconstByte(c *engine.Ctx, lits []engine.Lit) bool {
	gc := c.P.GlobalConstants(engine.ModPath + "/pkg/util/net")
	for _, l := range lits {
		if l.Op != token.EQL || !l.Val {
			continue
		}
		for _, v := range []ssa.Value{l.X, l.Y} {
			v = engine.Unwrap(v)
			if u, ok := v.(*ssa.UnOp); ok {
				if g, ok := u.X.(*ssa.Global); ok {
					if k, ok := gc[g]; ok {
						if z, ok := engine.ConstInt(k); ok && z == 0x17 {
							return true
						}
					}
				}
			}
			if k, ok := engine.ConstInt(v); ok && k == 0x17 {
				return true
			}
		}
	}
	return false
}

// ---- R5 ----

func checkDispatchByName(c *engine.Ctx, rule string) {
	c.Rule(rule, "the client dispatches a work connection to the proxy named in StartWorkConn and closes it when no such proxy exists; the server announces the proxy's own name and the caller's addresses")
	n := 0
	if f := fn(c, "client.Control.handleReqWorkConn"); f != nil {
		hw := method(c, "client/proxy", "Manager", "HandleWorkConn")
		nameF := field(c, "pkg/msg", "StartWorkConn", "ProxyName")
		for _, call := range engine.CallsTo(f, hw) {
			n++
			src := engine.Provenance(engine.CallArgs(call)[1], engine.ProvOpts{})
			c.Check(src.HasField(nameF), "client.Control.handleReqWorkConn>by-name", call.Pos(), 2, nil, "dispatch key is StartWorkConn.ProxyName")
		}
	}
	if f := fn(c, "client/proxy.Manager.HandleWorkConn"); f != nil {
		n++
		inWC := method(c, "client/proxy", "Wrapper", "InWorkConn")
		c.AllPaths("client/proxy.Manager.HandleWorkConn", engine.PathCheck{Fn: f, Sink: engine.IsReturn,
			Event: func(in ssa.Instruction) string {
				if engine.IsCallTo(in, inWC) {
					return "dispatch"
				}
				return closeOfParam("workConn")(in)
			},
			Pred: func(st *engine.PathState) string {
				found, k := st.Truth(func(v ssa.Value) bool {
					ex, ok := v.(*ssa.Extract)
					if !ok || ex.Index != 1 {
						return false
					}
					lk, ok := ex.Tuple.(*ssa.Lookup)
					return ok && isParam("name")(lk.Index)
				})
				if !k {
					return "the proxy table is not consulted by name"
				}
				if found && !st.HasEvent("dispatch") {
					return "a work connection for an existing proxy is not dispatched"
				}
				if !found && !st.HasEvent("close") {
					return "a work connection naming an unknown proxy is left open"
				}
				if found {
					// the wrapper that receives it is the looked-up one
				}
				return ""
			}}, "dispatch to the named proxy, close on a miss")
	}
	c.Floor(n, 2)
}

// ---- R6 ----

func checkProxyProtocol(c *engine.Ctx, rule string) {
	c.Rule(rule, "HandleTCPWorkConnection: the proxy-protocol header's source and destination come from the StartWorkConn address fields, it is built only when ProxyProtocolVersion is set, and it is written to the local connection before the streams are joined")
	f := fn(c, "client/proxy.BaseProxy.HandleTCPWorkConnection")
	if f == nil {
		return
	}
	n := 0
	var writeTo, join *ssa.Call
	// the work-connection handler may have been split into steps: the step that writes the header and joins, and the step
	// that builds the header, are found by what they do (among the functions of the package)
	entry := f
	for _, g := range allFuncsOfPkg(entry.Pkg) {
		var w, j *ssa.Call
		engine.ForEachInstr(g, func(in ssa.Instruction) {
			if call, ok := in.(*ssa.Call); ok {
				if o := engine.CalleeObj(call); o != nil {
					if o.Name() == "WriteTo" && o.Pkg() != nil && strings.Contains(o.Pkg().Path(), "proxyproto") {
						w = call
					}
				}
				if calleeIs(call, "golib/io", "Join") {
					j = call
				}
			}
		})
		if w != nil && j != nil && (g == entry || fnReachesFn(entry, g)) {
			writeTo, join, f = w, j, g
		}
	}
	if writeTo == nil || join == nil {
		c.Undecide("client/proxy.BaseProxy.HandleTCPWorkConnection>header", entry.Pos(), "header write or join not found")
		return
	}
	hdrRecv := engine.CallArgs(writeTo)[0]
	n++
	c.AllPaths("client/proxy.BaseProxy.HandleTCPWorkConnection>header-before-join", engine.PathCheck{Fn: f, Sink: engine.Is(join),
		Event: func(in ssa.Instruction) string {
			if in == ssa.Instruction(writeTo) {
				return "header"
			}
			return ""
		},
		Pred: func(st *engine.PathState) string {
			hdrF := "ProxyProtocolHeader"
			isNil, k := st.IsNil(func(v ssa.Value) bool {
				if f, _ := engine.LoadedField(v); f != nil && f.Name() == hdrF {
					return true
				}
				return engine.SameExpr(v, hdrRecv) // the header as this step received it (a parameter after a split)
			})
			if !k {
				return "the join is reached without testing whether a proxy-protocol header is pending"
			}
			if !isNil && !st.HasEvent("header") {
				return "a proxy-protocol header was built but is not written before the join"
			}
			if !isNil {
				if v, kk := st.IsNil(func(v ssa.Value) bool { cl, i := engine.ResultOfCall(v); return cl == writeTo && i == 1 }); !(kk && v) {
					return "the join proceeds although writing the header failed"
				}
			}
			return ""
		}}, "header written (successfully) before the join")
	// the header's addresses and the version gate
	var hdrAlloc *ssa.Alloc
	for _, g := range allFuncsOfPkg(entry.Pkg) {
		if !(g == entry || fnReachesFn(entry, g)) {
			continue
		}
		engine.ForEachInstr(g, func(in ssa.Instruction) {
			if al, ok := in.(*ssa.Alloc); ok && al.Heap {
				if nn := engine.NamedOf(al.Type()); nn != nil && nn.Obj().Name() == "Header" && nn.Obj().Pkg() != nil && strings.Contains(nn.Obj().Pkg().Path(), "proxyproto") {
					hdrAlloc, f = al, g
				}
			}
		})
	}
	if hdrAlloc == nil {
		c.Undecide("client/proxy.BaseProxy.HandleTCPWorkConnection>header-fields", entry.Pos(), "header literal not found")
		return
	}
	n++
	c.AllPaths("client/proxy.BaseProxy.HandleTCPWorkConnection>header-gate", engine.PathCheck{Fn: f, Sink: engine.Is(hdrAlloc), Pred: func(st *engine.PathState) string {
		eq, k := st.Equal(func(v ssa.Value) bool {
			f, _ := engine.LoadedField(v)
			return f != nil && f.Name() == "ProxyProtocolVersion"
		}, func(v ssa.Value) bool { s, ok := engine.ConstString(v); return ok && s == "" })
		if !(k && !eq) {
			return "a proxy-protocol header is built although none is configured: bytes are injected into the stream"
		}
		return ""
	}}, "header only when configured")
	n++
	okSrc, okDst := false, false
	for _, fld := range []struct {
		name string
		want []string
		ok   *bool
	}{{"SourceAddr", []string{"SrcAddr", "SrcPort"}, &okSrc}, {"DestinationAddr", []string{"DstAddr", "DstPort"}, &okDst}} {
		var hv *types.Var
		if st, ok := engine.Deref(hdrAlloc.Type()).Underlying().(*types.Struct); ok {
			for i := 0; i < st.NumFields(); i++ {
				if st.Field(i).Name() == fld.name {
					hv = st.Field(i)
				}
			}
		}
		for _, sv := range nameStores(hdrAlloc, hv) {
			src := engine.Provenance(sv, engine.ProvOpts{})
			all := true
			for _, w := range fld.want {
				found := false
				for fv := range src.Fields {
					if fv.Name() == w {
						found = true
					}
				}
				if !found {
					all = false
				}
			}
			*fld.ok = all
		}
	}
	c.Check(okSrc && okDst, "client/proxy.BaseProxy.HandleTCPWorkConnection>header-fields", hdrAlloc.Pos(), 4, nil, "header source from SrcAddr/SrcPort (%v), destination from DstAddr/DstPort (%v)", okSrc, okDst)
	c.Floor(n, 3)
}

// ---- R7 ----

func checkJoinClosure(c *engine.Ctx, rule string) {
	c.Rule(rule, "server handleUserTCPConnection defers closing the user and the work connection; client HandleTCPWorkConnection closes the work connection on every exit that does not join or hand it to a plugin")
	n := 0
	if f := fn(c, "server/proxy.BaseProxy.handleUserTCPConnection"); f != nil {
		getWC := method(c, "server/proxy", "BaseProxy", "GetWorkConnFromPool")
		n++
		c.AllPaths("server/proxy.BaseProxy.handleUserTCPConnection", engine.PathCheck{Fn: f, Sink: engine.IsReturn,
			Event: func(in ssa.Instruction) string {
				if d, ok := in.(*ssa.Defer); ok && isCloserClose(d) {
					if isParam("userConn")(engine.Unwrap(engine.CallArgs(d)[0])) {
						return "defer-close-user"
					}
					if cl, i := engine.ResultOfCall(engine.Unwrap(engine.CallArgs(d)[0])); cl != nil && i == 0 && engine.SameFunc(engine.CalleeObj(cl), getWC) {
						return "defer-close-work"
					}
				}
				if engine.IsCallTo(in, getWC) {
					return "take"
				}
				return ""
			},
			Pred: func(st *engine.PathState) string {
				if !st.HasEvent("defer-close-user") {
					return "an exit leaves the user connection open"
				}
				if st.HasEvent("take") {
					if isNil, known := st.IsNil(extractOf(getWC, 1)); known && isNil && !st.HasEvent("defer-close-work") {
						return "a taken work connection is not closed on this exit"
					}
				}
				return ""
			}}, "both ends closed on every exit")
	}
	if f := fn(c, "client/proxy.BaseProxy.HandleTCPWorkConnection"); f != nil {
		n++
		c.AllPaths("client/proxy.BaseProxy.HandleTCPWorkConnection", engine.PathCheck{Fn: f, Sink: engine.IsReturn,
			Event: func(in ssa.Instruction) string {
				call, ok := in.(ssa.CallInstruction)
				if !ok {
					return ""
				}
				if cl, ok := in.(*ssa.Call); ok && calleeIs(cl, "golib/io", "Join") {
					return "join"
				}
				if o := engine.CalleeObj(call); o != nil && o.Name() == "Handle" {
					return "plugin"
				}
				return closeOfParam("workConn")(in)
			},
			Pred: func(st *engine.PathState) string {
				if os.Getenv("FRPSA_DEBUG_C01") != "" {
					fmt.Fprintf(os.Stderr, "C01R7 exit %s events=%v\n", c.P.Pos(posOf(st.Sink)), st.Events)
				}
				if !(st.HasEvent("join") || st.HasEvent("plugin") || st.HasEvent("close")) {
					return "an exit of HandleTCPWorkConnection neither joins, hands off nor closes the work connection: the user's connection on the server side hangs"
				}
				return ""
			}}, "work connection joined, handed to the plugin, or closed")
	}
	c.Floor(n, 2)
}

// ---- R8 ----

func checkRecycle(c *engine.Ctx, rule string) {
	p := c.P
	c.Rule(rule, "the recycle function returned by WithCompressionFromPool is invoked only through defer or after the join: a codec returned to the pool while the stream is in use corrupts another connection")
	n := 0
	for _, f := range p.RepoFuncs() {
		engine.ForEachInstr(f, func(in ssa.Instruction) {
			call, ok := in.(*ssa.Call)
			if !ok || !calleeIs(call, "golib/io", "WithCompressionFromPool") {
				return
			}
			n++
			name := p.FuncName(f)
			var join *ssa.Call
			engine.ForEachInstr(f, func(x ssa.Instruction) {
				if cl, ok := x.(*ssa.Call); ok && calleeIs(cl, "golib/io", "Join") {
					join = cl
				}
			})
			bad := ""
			// uses of the recycle func: Extract #1 (possibly stored in a cell)
			q := &engine.PathQuery{Fn: f, From: call, ContinueAfterSink: true, Sink: func(x ssa.Instruction) bool {
				cc, ok := x.(*ssa.Call)
				if !ok || cc.Call.IsInvoke() {
					return false
				}
				switch cc.Call.Value.(type) {
				case *ssa.Function, *ssa.Builtin, *ssa.MakeClosure:
					return false
				}
				return true
			}, Event: func(x ssa.Instruction) string {
				if join != nil && x == ssa.Instruction(join) {
					return "join"
				}
				return ""
			}}
			states, err := q.Run()
			if err != nil {
				c.Undecide(name+">recycle", call.Pos(), "%v", err)
				return
			}
			for _, st := range states {
				cc := st.Sink.(*ssa.Call)
				fv := st.Resolve(cc.Call.Value)
				if cl, i := engine.ResultOfCall(fv); cl == call && i == 1 {
					if !st.HasEvent("join") {
						bad = "the pooled codec is recycled at " + p.Pos(cc.Pos()) + " before the streams are joined"
					}
				}
			}
			// a deferred recycle runs at *every* exit: that is only right when every exit is behind the join. A function
			// that can hand the stream to someone who keeps using it after the function returned (a client plugin's
			// Handle, a listener hand-off) must not defer it.
			deferred := false
			engine.ForEachInstr(f, func(x ssa.Instruction) {
				d, ok := x.(*ssa.Defer)
				if !ok {
					return
				}
				v := d.Call.Value
				if u, ok := v.(*ssa.UnOp); ok && u.Op == token.MUL {
					// deferred through a cell: any store of the recycle func into it
					if al, ok := u.X.(*ssa.Alloc); ok && al.Referrers() != nil {
						for _, r := range *al.Referrers() {
							if st, ok := r.(*ssa.Store); ok {
								if cl, i := engine.ResultOfCall(st.Val); cl == call && i == 1 {
									deferred = true
								}
							}
						}
					}
				}
				if cl, i := engine.ResultOfCall(v); cl == call && i == 1 {
					deferred = true
				}
			})
			if deferred && bad == "" {
				engine.ForEachInstr(f, func(x ssa.Instruction) {
					ci, ok := x.(ssa.CallInstruction)
					if !ok {
						return
					}
					if o := engine.CalleeObj(ci); o != nil && o.Name() == "PutConn" && o.Pkg() != nil && strings.HasSuffix(o.Pkg().Path(), "/pkg/util/net") {
						bad = "the recycle function is deferred, but the function hands the stream to a listener at " + p.Pos(ci.Pos()) + " and returns while the stream is still in use: the codec goes back to the pool in use and the next compressed stream is cross-wired with this one"
						return
					}
					if !ci.Common().IsInvoke() || ci.Common().Method.Name() != "Handle" {
						return
					}
					if pk := ci.Common().Method.Pkg(); pk == nil || !strings.HasSuffix(pk.Path(), "/pkg/plugin/client") {
						return
					}
					bad = "the recycle function is deferred, but the function also hands the stream to a client plugin at " + p.Pos(ci.Pos()) + " (Handle returns while the plugin keeps using the connection): the codec goes back to the pool in use and the next compressed connection is cross-wired with this one"
				})
			}
			c.Check(bad == "", name+">recycle", call.Pos(), len(states)+1, nil, "recycle only via defer or after the join (%s)", bad)
		})
	}
	c.Floor(n, 3)
}

// ---- R9 ----

func checkRouterDuplicates(c *engine.Ctx, rule string) {
	p := c.P
	c.Rule(rule, "a host can be claimed by one proxy only: Routers.Add tests for duplicates with the lower-cased host and writes only when none exists")
	add := fn(c, "pkg/util/vhost.Routers.Add")
	existObj := p.MethodObj("pkg/util/vhost", "Routers", "exist")
	if add == nil {
		return
	}
	dupOf := routerDuplicateVerdict(c, add)
	n := 0
	lowered := func(v ssa.Value) bool {
		src := engine.Provenance(v, engine.ProvOpts{})
		for k := range src.Calls {
			if k.Pkg() != nil && k.Pkg().Path() == "strings" && k.Name() == "ToLower" {
				return true
			}
		}
		return false
	}
	var existCalls []ssa.CallInstruction
	if existObj != nil {
		existCalls = engine.CallsTo(add, existObj)
	}
	for _, call := range existCalls {
		n++
		c.Check(lowered(engine.CallArgs(call)[1]), "pkg/util/vhost.Routers.Add>exist-arg", call.Pos(), 1, nil, "duplicate test uses the lower-cased host (App.Example.com vs app.example.com would otherwise both register and be cross-wired)")
	}
	engine.ForEachInstr(add, func(in ssa.Instruction) {
		mu, ok := in.(*ssa.MapUpdate)
		if !ok {
			return
		}
		n++
		c.AllPaths("pkg/util/vhost.Routers.Add>write", engine.PathCheck{Fn: add, Sink: engine.Is(mu), KeepLoopFacts: true, Pred: func(st *engine.PathState) string {
			if v, k := dupOf(st); !(k && !v) {
				return "a route is written although a route for the same host, location and user exists"
			}
			return ""
		}}, "write only for a new triple")
	})
	c.Floor(n, 1)
}

// ---- R10 ----

// checkGracefulClose: "the peer receives the complete stream followed by end-of-stream". For the QUIC transport the
// stream adapter's Close must finish the send side (Stream.Close sends FIN after the buffered data) and nothing in the
// product code may reset it (CancelWrite drops unread data at the peer). CancelRead is the positive control of the
// matcher: it is called by the adapter today, so a matcher that sees no quic stream method call at all is broken.
func checkGracefulClose(c *engine.Ctx, rule string) {
	c.Rule(rule, "QUIC stream adapter: Close calls the stream's Close and CancelRead on every path; no product function calls CancelWrite on a quic stream (a reset discards data the peer has not read)")
	p := c.P
	isQuicMethod := func(in ssa.Instruction, name string) bool {
		call, ok := in.(ssa.CallInstruction)
		if !ok {
			return false
		}
		cc := call.Common()
		var recv types.Type
		mname := ""
		if cc.IsInvoke() {
			recv, mname = cc.Value.Type(), cc.Method.Name()
		} else if o := engine.CalleeObj(call); o != nil {
			if sig, ok := o.Type().(*types.Signature); ok && sig.Recv() != nil {
				recv, mname = sig.Recv().Type(), o.Name()
			}
		}
		if mname != name || recv == nil {
			return false
		}
		n := engine.NamedOf(recv)
		return n != nil && n.Obj().Pkg() != nil && strings.HasSuffix(n.Obj().Pkg().Path(), "quic-go")
	}
	cancelRead, n := 0, 0
	for _, f := range p.RepoFuncs() {
		engine.ForEachInstr(f, func(in ssa.Instruction) {
			if isQuicMethod(in, "CancelRead") {
				cancelRead++
			}
			if isQuicMethod(in, "CancelWrite") {
				c.Violate(p.FuncName(f)+">CancelWrite", in.Pos(), nil, "the send side of a QUIC stream is reset: data the peer has not read yet is discarded instead of being delivered before end-of-stream")
			}
		})
	}
	n++
	c.Check(cancelRead >= 1, "quic-stream-method-matcher", token.NoPos, cancelRead, nil, "positive control: the matcher sees the adapter's CancelRead call (%d)", cancelRead)
	// the adapter: any repo type that embeds a quic stream and defines its own Close (found by shape, not by name)
	for _, cl := range p.RepoFuncs() {
		if cl.Name() != "Close" || cl.Parent() != nil || cl.Signature.Recv() == nil {
			continue
		}
		st, ok := engine.Deref(cl.Signature.Recv().Type()).Underlying().(*types.Struct)
		if !ok {
			continue
		}
		embeds := false
		for i := 0; i < st.NumFields(); i++ {
			if fv := st.Field(i); fv.Embedded() {
				if nn := engine.NamedOf(fv.Type()); nn != nil && nn.Obj().Pkg() != nil && strings.HasSuffix(nn.Obj().Pkg().Path(), "quic-go") && nn.Obj().Name() == "Stream" {
					embeds = true
				}
			}
		}
		if !embeds {
			continue
		}
		n++
		c.AllPaths(p.FuncName(cl), engine.PathCheck{Fn: cl, Sink: engine.IsReturn,
			Event: func(in ssa.Instruction) string {
				if isQuicMethod(in, "Close") {
					return "fin"
				}
				if isQuicMethod(in, "CancelRead") {
					return "cancel-read"
				}
				return ""
			},
			Pred: func(st *engine.PathState) string {
				if !st.HasEvent("fin") {
					return "Close returns without finishing the QUIC stream: the peer never sees end-of-stream"
				}
				if !st.HasEvent("cancel-read") {
					return "Close returns without aborting the receive side: quic's Stream.Close only closes the send side, so a goroutine blocked in Read on this connection (the control's reader after a heartbeat timeout) is never woken and the session is not torn down"
				}
				return ""
			}}, "Stream.Close and CancelRead on every path")
	}
	c.Floor(n, 2)
}

// ---- R12 ----

// checkDeadlineDisarm: a function that arms a connection's deadline for both directions (SetDeadline with a real time)
// and later clears it must clear both directions again: clearing only the read half leaves a write deadline ticking,
// and every write towards the user fails once it has passed (long-lived https / tcpmux connections are cut).
func checkDeadlineDisarm(c *engine.Ctx, rule string) {
	c.Rule(rule, "where a connection's deadline is armed with SetDeadline(t) and cleared again in the same function, it is cleared for both directions (SetDeadline(zero), or both SetReadDeadline(zero) and SetWriteDeadline(zero)) on every path that hands the connection on")
	p := c.P
	n := 0
	isZeroTime := func(v ssa.Value) bool {
		// time.Time{} literal: a zero-valued struct (load of a fresh alloc / zero const)
		switch x := engine.Unwrap(v).(type) {
		case *ssa.Const:
			return true
		case *ssa.UnOp:
			if al, ok := x.X.(*ssa.Alloc); ok {
				stored := false
				if al.Referrers() != nil {
					for _, r := range *al.Referrers() {
						if _, ok := r.(*ssa.Store); ok {
							stored = true
						}
						if _, ok := r.(*ssa.FieldAddr); ok {
							stored = true
						}
					}
				}
				return !stored
			}
		}
		return false
	}
	deadlineCall := func(in ssa.Instruction) (name string, zero bool) {
		call, ok := in.(ssa.CallInstruction)
		if !ok {
			return "", false
		}
		nm := ""
		if call.Common().IsInvoke() {
			nm = call.Common().Method.Name()
		} else if o := engine.CalleeObj(call); o != nil {
			nm = o.Name()
		}
		switch nm {
		case "SetDeadline", "SetReadDeadline", "SetWriteDeadline":
			args := call.Common().Args
			if len(args) == 0 {
				return "", false
			}
			return nm, isZeroTime(args[len(args)-1])
		}
		return "", false
	}
	for _, f := range p.RepoFuncs() {
		if f.Pkg == nil || !(strings.HasSuffix(f.Pkg.Pkg.Path(), "/pkg/util/vhost") || strings.HasSuffix(f.Pkg.Pkg.Path(), "/pkg/util/net") || strings.HasSuffix(f.Pkg.Pkg.Path(), "/pkg/util/tcpmux") || strings.HasSuffix(f.Pkg.Pkg.Path(), "/server")) {
			continue
		}
		arms, clears := 0, 0
		engine.ForEachInstr(f, func(in ssa.Instruction) {
			if nm, z := deadlineCall(in); nm == "SetDeadline" && !z {
				arms++
			} else if nm != "" && z {
				clears++
			}
		})
		if arms == 0 || clears == 0 {
			continue
		}
		n++
		f := f
		c.AllPaths(p.FuncName(f)+">deadline-cleared", engine.PathCheck{Fn: f, Sink: engine.IsReturn,
			Event: func(in ssa.Instruction) string {
				nm, z := deadlineCall(in)
				switch {
				case nm == "SetDeadline" && !z:
					return "arm"
				case nm == "SetDeadline" && z:
					return "clear-both"
				case nm == "SetReadDeadline" && z:
					return "clear-read"
				case nm == "SetWriteDeadline" && z:
					return "clear-write"
				}
				return ""
			},
			Pred: func(st *engine.PathState) string {
				if !st.HasEvent("arm") {
					return ""
				}
				a := st.EventIndex("arm")
				both := st.HasEvent("clear-both") && st.EventIndex("clear-both") > a
				rd := st.HasEvent("clear-read") && st.EventIndex("clear-read") > a
				wr := st.HasEvent("clear-write") && st.EventIndex("clear-write") > a
				if rd != wr && !both {
					return "the deadline armed for both directions is cleared for one direction only: the other keeps ticking and cuts the connection when it expires"
				}
				return ""
			}}, "a cleared deadline is cleared for both directions")
	}
	c.Floor(n, 1)
}

// ---- R13 ----

// checkHandOverFlags: the idiom `handedOver := false; defer func() { if !handedOver { conn.Close() } }()` keeps a
// connection open past the function only when somebody else took it over. The flag may therefore become true only on
// paths where the hand-over call (the repo function that received that connection and returned an error value) was
// found to have succeeded; setting it first and merely logging a failed hand-over leaves the connection open for good.
func checkHandOverFlags(c *engine.Ctx, rule string) {
	c.Rule(rule, "a bool that suppresses a deferred Close of a connection is set only on paths where the call that took the connection over returned a nil error")
	p := c.P
	n := 0
	for _, f := range p.RepoFuncs() {
		if f.Pkg == nil || f.Parent() != nil {
			continue
		}
		f := f
		// deferred closures of f that close something under a test of a captured bool cell
		engine.ForEachInstr(f, func(in ssa.Instruction) {
			d, ok := in.(*ssa.Defer)
			if !ok {
				return
			}
			mc, ok := d.Call.Value.(*ssa.MakeClosure)
			if !ok {
				return
			}
			cf, _ := mc.Fn.(*ssa.Function)
			if cf == nil {
				return
			}
			// the closure: if !*flag { x.Close() }
			var flag *ssa.Alloc
			var closed ssa.Value
			for i, b := range mc.Bindings {
				al, ok := b.(*ssa.Alloc)
				if !ok || i >= len(cf.FreeVars) {
					continue
				}
				if bt, ok := engine.Deref(al.Type()).Underlying().(*types.Basic); !ok || bt.Kind() != types.Bool {
					continue
				}
				// is the free var tested by an If?
				tested := false
				if refs := cf.FreeVars[i].Referrers(); refs != nil {
					for _, r := range *refs {
						if u, ok := r.(*ssa.UnOp); ok && u.Referrers() != nil {
							for _, rr := range *u.Referrers() {
								if _, isIf := rr.(*ssa.If); isIf {
									tested = true
								}
								if un, ok := rr.(*ssa.UnOp); ok && un.Op == token.NOT {
									tested = true
								}
							}
						}
					}
				}
				if tested {
					flag = al
				}
			}
			if flag == nil {
				return
			}
			engine.ForEachInstr(cf, func(x ssa.Instruction) {
				if cc, ok := x.(ssa.CallInstruction); ok && isCloserClose(cc) {
					closed = engine.CallArgs(cc)[0]
				}
			})
			if closed == nil {
				return
			}
			// what is closed: a captured variable of f (parameter cell or parameter)
			var conn ssa.Value
			if u, ok := closed.(*ssa.UnOp); ok {
				closed = u.X
			}
			if fv, ok := closed.(*ssa.FreeVar); ok {
				conn = engine.ClosureBinding(fv)
			}
			if conn == nil {
				return
			}
			sameConn := func(v ssa.Value) bool {
				v = engine.Unwrap(v)
				if v == conn {
					return true
				}
				if u, ok := v.(*ssa.UnOp); ok && u.X == conn {
					return true
				}
				if al, ok := conn.(*ssa.Alloc); ok {
					// the parameter spilled into this cell
					if pr, ok := v.(*ssa.Parameter); ok && al.Comment == pr.Name() {
						return true
					}
				}
				return false
			}
			// stores of true into the flag
			engine.ForEachInstr(f, func(x ssa.Instruction) {
				st, ok := x.(*ssa.Store)
				if !ok || st.Addr != ssa.Value(flag) {
					return
				}
				if b, ok := engine.ConstBool(st.Val); !ok || !b {
					return
				}
				n++
				c.AllPaths(fmt.Sprintf("%s>hand-over-flag#%d", p.FuncName(f), n), engine.PathCheck{Fn: f, Sink: engine.Is(x), Pred: func(ps *engine.PathState) string {
					// some call that received the connection and whose error result was found nil
					for _, l := range ps.Lits {
						if l.Op != token.EQL || !l.Val {
							continue
						}
						a, b := l.X, l.Y
						if engine.IsNilConst(a) {
							a, b = b, a
						}
						if !engine.IsNilConst(b) {
							continue
						}
						cl, _ := engine.ResultOfCall(a)
						if cl == nil {
							continue
						}
						for _, arg := range engine.CallArgs(cl) {
							if sameConn(arg) {
								return ""
							}
						}
					}
					// or the function keeps using the connection itself afterwards (no hand-over at all on this path):
					// a join / copy that consumes it counts as well
					return "the flag that stops the deferred Close is set on a path where no call that took the connection over was found to have succeeded: if the hand-over failed, nobody closes the connection"
				}}, "hand-over flag only after a successful hand-over")
			})
		})
	}
	c.Floor(n, 1)
}
