package rules

import (
	"fmt"
	"go/token"
	"go/types"
	"sort"
	"strings"

	"golang.org/x/tools/go/ssa"

	"frpsa/engine"
)

func init() {
	Registry["C02"] = &Property{
		Title:       "HTTP proxying preserves requests and responses apart from declared rewrites",
		Run:         runC02,
		Explanation: "Decides the write frame of the HTTP glue code: (R1) each of the five Rewrite hooks (vhost reverse proxy and the http2http, http2https, https2http, https2https plugins) mutates the outbound request only in the declared ways: X-Forwarded-* headers copied as whole value lists from the inbound header of the same name and/or SetXForwarded(), URL scheme (constant), URL host, Host only under a non-empty rewrite setting and from it, and Header.Set only while ranging over the configured request headers; any other store or mutating call on the request is a violation; (R2) ModifyResponse only sets the configured response headers and returns nil; (R3) the error handler answers 504 exactly for timeout network errors and 404 with the not-found page otherwise, and the transport's response-header timeout comes from the option; (R4) the connection-pool key covers the whole route (shared with C06.R10 / C07.R1b); (R5) the two request-context keys are stored and asserted with the same types; (R6) the CONNECT handler hijacks, answers the not-found response and closes on a failed backend connection, and writes the request before joining; (R7) the work connection used as HTTP transport has a mirrored wrapper stack and lossless limiter loops (shared with C01.R1/R2). Not decided: what net/http and httputil do (framing, chunking, keep-alive, Upgrade, h2c), body byte equality, bounded answer time.",
		Assumptions: commonAssumptions,
	}
}

// rewriteFrame collects the mutations a Rewrite closure performs on the outbound request.
type frameItem struct {
	what string
	ok   bool
	why  string
	pos  token.Pos
}

func analyseRewrite(c *engine.Ctx, f *ssa.Function) []frameItem {
	var items []frameItem
	pr := f.Params[len(f.Params)-1] // r *httputil.ProxyRequest
	isOut := func(v ssa.Value) bool {
		src := engine.Provenance(v, engine.ProvOpts{NoArgs: true})
		for fv := range src.Fields {
			if fv.Name() == "Out" && fv.Pkg() != nil && strings.HasSuffix(fv.Pkg().Path(), "httputil") {
				return src.Params[pr]
			}
		}
		return false
	}
	isIn := func(v ssa.Value) bool {
		src := engine.Provenance(v, engine.ProvOpts{NoArgs: true})
		for fv := range src.Fields {
			if fv.Name() == "In" && fv.Pkg() != nil && strings.HasSuffix(fv.Pkg().Path(), "httputil") {
				return src.Params[pr]
			}
		}
		return false
	}
	cfgString := func(v ssa.Value, names ...string) bool {
		fv, _ := engine.LoadedField(engine.Unwrap(v))
		if fv == nil {
			return false
		}
		for _, n := range names {
			if fv.Name() == n {
				return true
			}
		}
		return false
	}
	engine.ForEachInstr(f, func(in ssa.Instruction) {
		switch x := in.(type) {
		case *ssa.MapUpdate:
			// Out.Header[K] = In.Header[K]
			if !isOut(x.Map) {
				return
			}
			k, isC := engine.ConstString(x.Key)
			it := frameItem{what: "Header[" + k + "] = …", pos: in.Pos()}
			lk, isLk := x.Value.(*ssa.Lookup)
			switch {
			case !isC || !strings.HasPrefix(k, "X-Forwarded-"):
				it.why = "a header other than X-Forwarded-* is overwritten"
			case !isLk || !isIn(lk.X):
				it.why = "the value is not the inbound request's header value list"
			default:
				k2, _ := engine.ConstString(lk.Index)
				if k2 != k {
					it.why = "copied from a different header (" + k2 + ")"
				} else {
					it.ok = true
				}
			}
			items = append(items, it)
		case *ssa.Store:
			fv, base := engine.LoadedField(x.Addr)
			if fv == nil || base == nil {
				return
			}
			root, path := engine.FieldPath(x.Addr)
			_ = root
			ps := engine.PathString(path)
			if !isOut(base) && !strings.Contains(ps, "Out") {
				// stores into other objects (route info, locals)
				if fv.Pkg() != nil && (fv.Pkg().Path() == "net/http" || fv.Pkg().Path() == "net/url") {
					// a request/URL field reached through a local alias of r.Out
					src := engine.Provenance(base, engine.ProvOpts{NoArgs: true})
					out := false
					for f2 := range src.Fields {
						if f2.Name() == "Out" {
							out = true
						}
					}
					if !out {
						return
					}
				} else {
					return
				}
			}
			it := frameItem{what: fv.Name() + " = " + engine.Describe(x.Val), pos: in.Pos()}
			switch fv.Name() {
			case "Scheme":
				s, isC := engine.ConstString(x.Val)
				it.ok = isC && (s == "http" || s == "https")
				it.why = "scheme is not a constant http/https"
			case "Host":
				if fv.Pkg() != nil && fv.Pkg().Path() == "net/url" {
					it.ok = true // target / pool key (R4 decides what it must cover)
				} else {
					// req.Host: only from the rewrite setting, under a non-empty test — or the inbound request's own Host
					// put back (Out.Host = In.Host, which changes nothing)
					it.ok = cfgString(x.Val, "RewriteHost", "HostHeaderRewrite")
					it.why = "Host is overwritten with something other than the configured rewrite value"
					if hf, base := engine.LoadedField(x.Val); !it.ok && hf != nil && hf.Name() == "Host" && base != nil {
						if inF, b2 := engine.LoadedField(base); inF != nil && inF.Name() == "In" && b2 == ssa.Value(pr) {
							it.ok = true
							items = append(items, it)
							return
						}
					}
					if it.ok {
						q := &engine.PathQuery{Fn: f, Sink: engine.Is(in)}
						states, err := q.Run()
						if err != nil || len(states) == 0 {
							it.ok = false
						}
						for _, st := range states {
							eq, k := st.Equal(func(v ssa.Value) bool { return cfgString(v, "RewriteHost", "HostHeaderRewrite") }, func(v ssa.Value) bool { s, ok := engine.ConstString(v); return ok && s == "" })
							if !(k && !eq) {
								it.ok = false
								it.why = "Host is rewritten even when no rewrite is configured"
							}
						}
					}
				}
			default:
				it.why = "the request field " + fv.Name() + " is modified (method, path, query and body must pass unchanged)"
			}
			items = append(items, it)
		case *ssa.Call:
			o := engine.CalleeObj(x)
			if o == nil {
				return
			}
			args := engine.CallArgs(x)
			switch {
			case o.Name() == "SetXForwarded" && len(args) > 0 && args[0] == ssa.Value(pr):
				items = append(items, frameItem{what: "SetXForwarded()", ok: true, pos: in.Pos()})
			case o.Name() == "SetURL" && len(args) > 0 && args[0] == ssa.Value(pr):
				// httputil: "SetURL rewrites the outbound Host header to match the target's host" (it clears Out.Host);
				// the user's Host survives only when the hook puts it back right afterwards (Out.Host = In.Host)
				restored := false
				blk := in.Block()
				after := false
				for _, y := range blk.Instrs {
					if y == in {
						after = true
						continue
					}
					st, ok := y.(*ssa.Store)
					if !after || !ok {
						continue
					}
					if fv, _ := engine.LoadedField(st.Addr); fv == nil || fv.Name() != "Host" || fv.Pkg() == nil || fv.Pkg().Path() != "net/http" {
						continue
					}
					vs := engine.Provenance(st.Val, engine.ProvOpts{NoArgs: true})
					for fv := range vs.Fields {
						if fv.Name() == "In" {
							restored = true
						}
					}
				}
				items = append(items, frameItem{what: "SetURL()", ok: restored, pos: in.Pos(),
					why: "ProxyRequest.SetURL clears the outbound Host (the backend then receives the target address as Host) and the hook does not restore Out.Host from In.Host right after it"})
			case o.Pkg() != nil && o.Pkg().Path() == "net/http" && (o.Name() == "Set" || o.Name() == "Add" || o.Name() == "Del") && len(args) > 0:
				// Header mutation on the outbound request?
				src := engine.Provenance(args[0], engine.ProvOpts{NoArgs: true})
				onOut := false
				for fv := range src.Fields {
					if fv.Name() == "Out" {
						onOut = true
					}
				}
				if !onOut {
					return
				}
				it := frameItem{what: "Header." + o.Name() + "(" + engine.Describe(args[1]) + ", …)", pos: in.Pos()}
				if o.Name() != "Set" {
					it.why = "headers are deleted or appended"
				} else {
					// key and value come from ranging over the configured header map
					ks := engine.Provenance(args[1], engine.ProvOpts{NoArgs: true})
					vs := engine.Provenance(args[2], engine.ProvOpts{NoArgs: true})
					fromRange := func(s *engine.Sources) bool {
						for v := range s.Values {
							if nx, ok := v.(*ssa.Next); ok {
								if r, ok := nx.Iter.(*ssa.Range); ok {
									rs := engine.Provenance(r.X, engine.ProvOpts{NoArgs: true})
									for fv := range rs.Fields {
										if fv.Name() == "Headers" || fv.Name() == "Set" || fv.Name() == "RequestHeaders" {
											return true
										}
									}
								}
							}
						}
						return false
					}
					it.ok = fromRange(ks) && fromRange(vs)
					it.why = "a header is set that does not come from the configured request headers (e.g. a constant name, or a single value taken with Get)"
				}
				items = append(items, it)
			}
		}
	})
	return items
}

func runC02(c *engine.Ctx) {
	p := c.P

	// ---- R1 ----
	c.Rule("R1", "write frame of the five Rewrite hooks: only X-Forwarded-* list copies / SetXForwarded, URL.Scheme (constant), URL.Host, Host under a non-empty rewrite setting, and Header.Set from the configured request headers")
	var hooks []*ssa.Function
	for _, f := range p.RepoFuncs() {
		// a Rewrite hook: a closure, or a method used as the hook (func(*httputil.ProxyRequest) after the receiver)
		up := userParams(f)
		if len(up) != 1 || (f.Parent() == nil && f.Signature.Recv() == nil) {
			continue
		}
		if n := engine.NamedOf(up[0].Type()); n != nil && n.Obj().Name() == "ProxyRequest" {
			hooks = append(hooks, f)
		}
	}
	for _, f := range hooks {
		name := p.FuncName(f)
		items := analyseRewrite(c, f)
		var frame, bad []string
		for _, it := range items {
			frame = append(frame, it.what)
			if !it.ok {
				bad = append(bad, it.what+" at "+p.Pos(it.pos)+": "+it.why)
			}
		}
		sort.Strings(frame)
		c.Check(len(bad) == 0 && len(items) >= 3, name, f.Pos(), len(items), []string{"frame: " + strings.Join(frame, " | ")}, "the hook changes only the declared parts of the request (%s)", strings.Join(bad, "; "))
	}
	c.Floor(len(hooks), 5)

	// ---- R2 ----
	c.Rule("R2", "ModifyResponse only sets headers from RouteConfig.ResponseHeaders and returns nil")
	ctor := fn(c, "pkg/util/vhost.NewHTTPReverseProxy")
	n := 0
	if ctor != nil {
		for _, f := range allAnon(ctor) {
			if up := userParams(f); len(up) != 1 || !engine.IsNamed(up[0].Type(), "net/http", "Response") {
				continue
			}
			n++
			var bad []string
			engine.ForEachInstr(f, func(in ssa.Instruction) {
				switch x := in.(type) {
				case *ssa.Store:
					if fv, _ := engine.LoadedField(x.Addr); fv != nil && fv.Pkg() != nil && fv.Pkg().Path() == "net/http" {
						bad = append(bad, "response field "+fv.Name()+" is overwritten")
					}
				case *ssa.MapUpdate:
					bad = append(bad, "a response header list is overwritten directly")
				case *ssa.Call:
					o := engine.CalleeObj(x)
					if o == nil || o.Pkg() == nil || o.Pkg().Path() != "net/http" {
						return
					}
					switch o.Name() {
					case "Set":
						args := engine.CallArgs(x)
						ks := engine.Provenance(args[1], engine.ProvOpts{NoArgs: true})
						okc := false
						for v := range ks.Values {
							if nx, ok := v.(*ssa.Next); ok {
								if r, ok := nx.Iter.(*ssa.Range); ok {
									rs := engine.Provenance(r.X, engine.ProvOpts{NoArgs: true})
									for fv := range rs.Fields {
										if fv.Name() == "ResponseHeaders" {
											okc = true
										}
									}
								}
							}
						}
						if !okc {
							bad = append(bad, "a response header is set that is not a configured response header")
						}
					case "Del", "Add", "Write", "WriteHeader":
						bad = append(bad, "response is mutated by "+o.Name())
					}
				case *ssa.Return:
					if !engine.IsNilConst(x.Results[0]) {
						bad = append(bad, "ModifyResponse can fail the response")
					}
				}
			})
			c.Check(len(bad) == 0, p.FuncName(f), f.Pos(), 3, nil, "response is passed through with only the configured headers set (%s)", strings.Join(bad, "; "))
		}
	}
	c.Floor(n, 1)

	// ---- R3 ----
	c.Rule("R3", "ErrorHandler: 504 exactly for net.Error with Timeout()==true, otherwise 404 plus the not-found page; the transport's ResponseHeaderTimeout derives from the option")
	n = 0
	if ctor != nil {
		for _, f := range allAnon(ctor) {
			if up := userParams(f); len(up) != 3 || !types.Identical(up[2].Type(), types.Universe.Lookup("error").Type()) {
				continue
			}
			n++
			c.AllPaths(p.FuncName(f), engine.PathCheck{Fn: f, Sink: engine.IsReturn,
				Event: func(in ssa.Instruction) string {
					call, ok := in.(ssa.CallInstruction)
					if !ok {
						return ""
					}
					o := engine.CalleeObj(call)
					if o == nil {
						return ""
					}
					if o.Name() == "WriteHeader" {
						if k, ok := engine.ConstInt(engine.CallArgs(call)[1]); ok {
							return fmt.Sprintf("status-%d", k)
						}
						return "status-?"
					}
					if o.Name() == "Write" {
						src := engine.Provenance(engine.CallArgs(call)[1], engine.ProvOpts{})
						for k := range src.Calls {
							if engine.SameFunc(k, c.P.FuncObj("pkg/util/vhost", "getNotFoundPageContent")) {
								return "not-found-page"
							}
						}
					}
					return ""
				},
				Pred: func(st *engine.PathState) string {
					timeout, known := st.Truth(func(v ssa.Value) bool {
						cl, _ := engine.ResultOfCall(v)
						return cl != nil && cl.Call.IsInvoke() && cl.Call.Method.Name() == "Timeout"
					})
					is504 := st.HasEvent("status-504")
					is404 := st.HasEvent("status-404")
					if is504 && !(known && timeout) {
						return "504 is answered for an error that was not found to be a timeout"
					}
					if known && timeout && !is504 {
						return "a timeout is not answered with 504"
					}
					if !is504 && !(is404 && st.HasEvent("not-found-page")) {
						return "a non-timeout failure is not answered with 404 and the not-found page"
					}
					if is504 && is404 {
						return "two status lines are written"
					}
					return ""
				}}, "timeout ⇒ 504, otherwise 404 + page")
		}
		// transport timeout
		n++
		okTO := false
		engine.ForEachInstr(ctor, func(in ssa.Instruction) {
			if st, ok := in.(*ssa.Store); ok {
				if fv, _ := engine.LoadedField(st.Addr); fv != nil && fv.Name() == "ResponseHeaderTimeout" && fv.Pkg() != nil && fv.Pkg().Path() == "net/http" {
					src := engine.Provenance(st.Val, engine.ProvOpts{})
					for f2 := range src.Fields {
						if f2 == c.P.Field("pkg/util/vhost", "HTTPReverseProxy", "responseHeaderTimeout") || f2.Name() == "responseHeaderTimeout" || f2.Name() == "ResponseHeaderTimeoutS" {
							okTO = true
						}
					}
				}
			}
		})
		c.Check(okTO, "pkg/util/vhost.NewHTTPReverseProxy>response-header-timeout", ctor.Pos(), 1, nil, "the backend's response-header timeout is the configured one")
	}
	c.Floor(n, 2)

	// ---- R4 ----
	checkPoolKey(c, "R4")

	// ---- R5 ----
	c.Rule("R5", "each request-context key is stored with the same static type that every reader asserts")
	n = 0
	for _, keyName := range []string{"RouteInfoKey", "RouteConfigKey"} {
		stored := map[string]bool{}
		asserted := map[string]bool{}
		for _, f := range p.RepoFuncs() {
			if f.Pkg == nil || !strings.HasSuffix(f.Pkg.Pkg.Path(), "/pkg/util/vhost") {
				continue
			}
			engine.ForEachInstr(f, func(in ssa.Instruction) {
				call, ok := in.(*ssa.Call)
				if !ok {
					return
				}
				o := engine.CalleeObj(call)
				if o == nil {
					return
				}
				usesKey := func(v ssa.Value) bool {
					src := engine.Provenance(v, engine.ProvOpts{NoArgs: true})
					for k := range src.Consts {
						if strings.Contains(k, "\"") {
							// key constants are typed strings: compare by value of the named constant
							if kc, ok := p.Obj("pkg/util/vhost", keyName).(*types.Const); ok && kc.Val().ExactString() == k {
								return true
							}
						}
					}
					return false
				}
				if o.Pkg() != nil && o.Pkg().Path() == "context" && o.Name() == "WithValue" && usesKey(call.Call.Args[1]) {
					if mi, ok := call.Call.Args[2].(*ssa.MakeInterface); ok {
						stored[typeShort(mi.X.Type())] = true
					}
				}
				if o.Name() == "Value" && call.Call.IsInvoke() && len(call.Call.Args) == 1 && usesKey(call.Call.Args[0]) {
					if refs := call.Referrers(); refs != nil {
						for _, r := range *refs {
							if ta, ok := r.(*ssa.TypeAssert); ok {
								asserted[typeShort(ta.AssertedType)] = true
							}
						}
					}
				}
			})
		}
		n++
		same := len(stored) == 1 && len(asserted) == 1
		for k := range stored {
			if !asserted[k] {
				same = false
			}
		}
		c.Check(same, "pkg/util/vhost."+keyName, token.NoPos, len(stored)+len(asserted), []string{fmt.Sprintf("stored as %v, asserted as %v", keysOf(stored), keysOf(asserted))}, "context value for %s has one type on both sides (a mismatch panics the request goroutine)", keyName)
	}
	c.Floor(n, 2)

	// ---- R6 ----
	checkConnectHandler(c, "R6")

	// ---- R7 ----
	checkStacks(c, "R7")
	checkLimiterLoops(c, "R7b")

	// ---- R8 misdirected-request guard of the https2* plugins ----
	c.Rule("R8", "the https2http / https2https handlers answer 421 only when the TLS server name is present and differs from the request host (a request without SNI, e.g. to an IP literal, is forwarded)")
	n8 := 0
	canon := funcObj(c, "pkg/util/http", "CanonicalHost")
	for _, f := range c.P.RepoFuncs() {
		if f.Pkg == nil || !strings.HasSuffix(f.Pkg.Pkg.Path(), "/pkg/plugin/client") || canon == nil {
			continue
		}
		engine.ForEachInstr(f, func(in ssa.Instruction) {
			call, ok := in.(ssa.CallInstruction)
			if !ok {
				return
			}
			is421 := false
			for _, a := range call.Common().Args {
				if k, ok := engine.ConstInt(a); ok && k == 421 {
					is421 = true
				}
			}
			if !is421 {
				return
			}
			n8++
			canonOf := func(fieldName string) func(ssa.Value) bool {
				return func(v ssa.Value) bool {
					cl, i := engine.ResultOfCall(v)
					if cl == nil || i != 0 || !engine.SameFunc(engine.CalleeObj(cl), canon) {
						return false
					}
					src := engine.Provenance(cl.Call.Args[0], engine.ProvOpts{})
					for fv := range src.Fields {
						if fv.Name() == fieldName {
							return true
						}
					}
					return false
				}
			}
			empty := func(v ssa.Value) bool { s, ok := engine.ConstString(v); return ok && s == "" }
			c.AllPaths(c.P.FuncName(f)+">421", engine.PathCheck{Fn: f, Sink: engine.Is(in), Pred: func(st *engine.PathState) string {
				if eq, k := st.Equal(canonOf("ServerName"), empty); !(k && !eq) {
					return "421 is answered on a path where the TLS server name was not found non-empty: clients that send no SNI are refused instead of forwarded"
				}
				if eq, k := st.Equal(canonOf("ServerName"), canonOf("Host")); !(k && !eq) {
					return "421 is answered on a path where the server name was not found different from the request host"
				}
				return ""
			}}, "421 only for a present, mismatching server name")
		})
	}
	c.Floor(n8, 1) // the two plugins may share one guard

	// ---- R9 pooled codec recycling (shared with C01.R8): the http2http plugin family keeps the connection after Handle returns ----
	checkRecycle(c, "R9")

	// ---- R10 the error answer always has a body ----
	c.Rule("R10", "getNotFoundPageContent returns the built-in page on every path where the custom page could not be read")
	if f := fn(c, "pkg/util/vhost.getNotFoundPageContent"); f != nil {
		var track []ssa.Value
		engine.ForEachInstr(f, func(in ssa.Instruction) {
			if r, ok := in.(*ssa.Return); ok {
				track = append(track, r.Results...)
			}
		})
		c.AllPaths("pkg/util/vhost.getNotFoundPageContent", engine.PathCheck{Fn: f, Sink: engine.IsReturn, Track: track, Pred: func(st *engine.PathState) string {
			r := st.Sink.(*ssa.Return)
			v := st.Resolve(r.Results[0])
			src := engine.Provenance(v, engine.ProvOpts{})
			fromFile := false
			for k := range src.Calls {
				if k.Pkg() != nil && k.Pkg().Path() == "os" && k.Name() == "ReadFile" {
					fromFile = true
				}
			}
			if !fromFile {
				if len(src.Consts) == 0 && len(src.Globals) == 0 {
					return "the returned page is neither the file's content nor the built-in page"
				}
				return ""
			}
			isNil, known := st.IsNil(func(x ssa.Value) bool {
				cl, i := engine.ResultOfCall(x)
				if cl == nil || i != 1 {
					return false
				}
				o := engine.CalleeObj(cl)
				return o != nil && o.Name() == "ReadFile"
			})
			if !(known && isNil) {
				return "the content read from the custom page file is returned on a path where reading it was not found to have succeeded: a missing file yields an empty error page"
			}
			return ""
		}}, "file content only after a successful read, otherwise the built-in page")
		c.Floor(1, 1)
	}

	// ---- R11 the CONNECT handler can hijack what it is given (shared with C16.R21) ----
	c16ImpossibleAssert(c, "R11", "pkg/util/vhost", "pkg/plugin/client", "pkg/util/http")

	// ---- R12 one request waiting for its backend does not hold a lock the other requests need (shared with C16.R23) ----
	checkNoWaitUnderLock(c, engine.AnalyzeLocks(c.P), "R12")

	// ---- R13 ----
	checkRequestUntouchedOutsideHooks(c, "R13")

	// ---- R14 the route table and the slices stored in it are read under the router lock (shared with C16.R1): a lookup that
	// walks a location list while a registration re-sorts it misses the catch-all route — no header rewrite, not-found page ----
	c16MapsRule(c, engine.AnalyzeLocks(c.P), "R14")
}

func keysOf(m map[string]bool) []string {
	var out []string
	for k := range m {
		out = append(out, k)
	}
	sort.Strings(out)
	return out
}

// checkRequestUntouchedOutsideHooks (R13): between the listener and the reverse proxy's Rewrite hook the request is only
// read — the serving path (pkg/util/vhost and the http-facing client plugins, outside the hooks R1 frames) never stores
// into a field of the *http.Request it forwards (Body, ContentLength, Method, URL, Header, …). A body swapped for a
// buffered, length-limited copy silently truncates uploads whose length is not declared.
func checkRequestUntouchedOutsideHooks(c *engine.Ctx, rule string) {
	c.Rule(rule, "outside the Rewrite hooks, no function of pkg/util/vhost or pkg/plugin/client stores into a field of an *http.Request (Body, GetBody, ContentLength, Method, URL, Host, Header…): method, target, headers and body pass to the hook as they came")
	p := c.P
	n, stores := 0, 0
	for _, f := range p.RepoFuncs() {
		if f.Pkg == nil {
			continue
		}
		pp := f.Pkg.Pkg.Path()
		if pp != engine.ModPath+"/pkg/util/vhost" && pp != engine.ModPath+"/pkg/plugin/client" {
			continue
		}
		n++
		// Rewrite hooks are framed by R1
		isHook := false
		for g := f; g != nil; g = g.Parent() {
			if up := userParams(g); len(up) == 1 {
				if nn := engine.NamedOf(up[0].Type()); nn != nil && nn.Obj().Name() == "ProxyRequest" {
					isHook = true
				}
			}
		}
		if isHook {
			continue
		}
		f := f
		engine.ForEachInstr(f, func(in ssa.Instruction) {
			// header edits on a request that was handed in (Header.Del / Set / Add)
			if call, ok := in.(*ssa.Call); ok {
				// (the forward-proxy plugin http_proxy strips hop-by-hop headers from the request it re-issues itself: only the
				// vhost serving path, where the check and the route selection read the headers, is in scope)
				if o := engine.CalleeObj(call); pp == engine.ModPath+"/pkg/util/vhost" && o != nil && o.Pkg() != nil && o.Pkg().Path() == "net/http" && (o.Name() == "Del" || o.Name() == "Set" || o.Name() == "Add") {
					if a := engine.CallArgs(call); len(a) > 0 && engine.IsNamed(a[0].Type(), "net/http", "Header") {
						onReq, own, isReqHeader := false, false, false
						if hf, base := engine.LoadedField(engine.Unwrap(a[0])); hf != nil && hf.Name() == "Header" && base != nil && engine.IsNamed(base.Type(), "net/http", "Request") {
							onReq, isReqHeader = true, true
							bsrc := engine.Provenance(base, engine.ProvOpts{NoArgs: true})
							for o2 := range bsrc.Calls {
								if o2.Pkg() != nil && o2.Pkg().Path() == "net/http" && strings.HasPrefix(o2.Name(), "NewRequest") {
									own = true
								}
							}
							for v := range bsrc.Values {
								if _, isAl := v.(*ssa.Alloc); isAl && len(bsrc.Params) == 0 {
									own = true
								}
							}
						}
						if onReq && isReqHeader && !own {
							stores++
							c.Violate(fmt.Sprintf("%s>request.Header.%s", p.FuncName(f), o.Name()), in.Pos(), nil,
								"a header of the forwarded request is edited (%s) outside the Rewrite hook: the credential check and the route selection both read the request's headers, an edit between them makes them disagree", o.Name())
						}
					}
				}
				return
			}
			st, ok := in.(*ssa.Store)
			if !ok {
				return
			}
			fa, ok := st.Addr.(*ssa.FieldAddr)
			if !ok || !engine.IsNamed(fa.X.Type(), "net/http", "Request") {
				return
			}
			if _, local := fa.X.(*ssa.Alloc); local {
				return // a request this function builds itself
			}
			// requests made by http.NewRequest* here are this function's own
			if src := engine.Provenance(fa.X, engine.ProvOpts{NoArgs: true}); len(src.Params) == 0 && len(src.Fields) == 0 {
				ownReq := false
				for o := range src.Calls {
					if o.Pkg() != nil && o.Pkg().Path() == "net/http" && strings.HasPrefix(o.Name(), "NewRequest") {
						ownReq = true
					}
				}
				if ownReq {
					return
				}
			}
			fname := engine.Deref(fa.X.Type()).Underlying().(*types.Struct).Field(fa.Field).Name()
			if s, isC := engine.ConstString(st.Val); fname == "RequestURI" && isC && s == "" {
				return // net/http demands an empty RequestURI on a request that is sent as a client request
			}
			stores++
			c.Violate(fmt.Sprintf("%s>request.%s", p.FuncName(f), fname), in.Pos(), nil,
				"the forwarded request's %s is overwritten before the Rewrite hook sees it (only the hooks may change a request, and only as R1 frames it)", fname)
		})
	}
	c.Check(n >= 10, "request-untouched:scope", token.NoPos, n, nil, "positive control: %d functions of the serving packages examined, %d stores into a request found", n, stores)
}

// checkConnectHandler (C02.R6, shared as C11.R17): every exit of the CONNECT handler either hands both connections to the
// join or answers and closes the hijacked client connection.
func checkConnectHandler(c *engine.Ctx, rule string) {
	c.Rule(rule, "connectHandler: hijack; on a failed backend connection answer the not-found response and close the client; on success write the request to the backend before joining")
	if f := fn(c, "pkg/util/vhost.HTTPReverseProxy.connectHandler"); f != nil {
		createConn := method(c, "pkg/util/vhost", "HTTPReverseProxy", "CreateConnection")
		c.AllPaths("pkg/util/vhost.HTTPReverseProxy.connectHandler", engine.PathCheck{Fn: f, Sink: engine.IsReturn,
			Event: func(in ssa.Instruction) string {
				call, ok := in.(ssa.CallInstruction)
				if !ok {
					return ""
				}
				if cl, ok := in.(*ssa.Call); ok && calleeIs(cl, "golib/io", "Join") {
					return "join"
				}
				if g, ok := in.(*ssa.Go); ok {
					if o := engine.CalleeObj(g); o != nil && o.Name() == "Join" {
						return "join"
					}
				}
				o := engine.CalleeObj(call)
				if o == nil {
					return ""
				}
				switch o.Name() {
				case "Hijack":
					return "hijack"
				case "NotFoundResponse":
					return "not-found"
				case "Close":
					// the hijacked client connection, or something else (the backend connection)?
					if a := engine.CallArgs(call); len(a) > 0 {
						src := engine.Provenance(a[0], engine.ProvOpts{NoArgs: true})
						for o2 := range src.Calls {
							if o2.Name() == "Hijack" {
								return "close"
							}
						}
					}
					return "close-backend"
				case "Write":
					if o.Pkg() != nil && o.Pkg().Path() == "net/http" && len(engine.CallArgs(call)) == 2 {
						if engine.IsNamed(engine.CallArgs(call)[0].Type(), "net/http", "Request") {
							return "request-written"
						}
					}
				}
				return ""
			},
			Pred: func(st *engine.PathState) string {
				isNil, known := st.IsNil(extractOf(createConn, 1))
				if !known {
					return "" // exits before the backend connection is attempted (hijack failures)
				}
				if !st.HasEvent("hijack") {
					return "the tunnel is set up without hijacking the client connection"
				}
				if !isNil {
					if !st.HasEvent("not-found") || !st.HasEvent("close") {
						return "a failed backend connection is not answered with the not-found response and a closed client connection (the user hangs)"
					}
					return ""
				}
				if !st.HasEvent("join") {
					// the tunnel is given up after the backend connection was obtained (the request could not be written):
					// the hijacked client connection must not be left open without a peer
					if !st.HasEvent("close") {
						return "the handler returns without joining and without closing the hijacked client connection: the user hangs"
					}
					return ""
				}
				if !(st.HasEvent("request-written") && st.EventIndex("request-written") < st.EventIndex("join")) {
					return "the CONNECT request is not written to the backend before the streams are joined"
				}
				return ""
			}}, "CONNECT path is complete")
		c.Floor(1, 1)
	}
}
