package rules

import (
	"fmt"
	"go/token"
	"go/types"
	"os"
	"sort"
	"strings"

	"golang.org/x/tools/go/ssa"

	"frpsa/engine"
)

func init() {
	Registry["C03"] = &Property{
		Title:       "UDP tunnels preserve datagram payloads, boundaries and reply addressing",
		Run:         runC03,
		Explanation: "Decides structural necessary conditions of datagram integrity: (R1) every msg.UDPPacket built in the repository takes its Content from base64.StdEncoding.EncodeToString (an immutable copy of the reusable read buffer) and GetContent decodes with the same encoding; pooled read buffers flow only into NewUDPPacket; (R2) a message whose address is sent on a channel from inside a loop is allocated inside that loop (queued packets never alias one another); (R3) reply addressing: the forwarder looks up, inserts and deletes its connection map under one key expression (the packet's RemoteAddr), hands that address to the reply writer, and ForwardUserConn writes each reply to the packet's own RemoteAddr and tags outbound packets with the address ReadFromUDP returned; (R4) a context that is cancelled inside a loop is created inside that loop (a replaced work connection gets a live context, not the cancelled one of its predecessor); (R5) enqueueing on the proxy's datagram channels is non-blocking (select with default) so overload drops instead of stalling; (R6) the datagram channels have one guarded close site and their senders are recover-protected (shared with C16.R3). Not decided: arrival at light load, behaviour across work-connection replacement beyond R4, the frame-size vs packet-size interplay.",
		Assumptions: commonAssumptions,
	}
}

func runC03(c *engine.Ctx) {
	p := c.P
	udpPkt := p.Named("pkg/msg", "UDPPacket")
	contentF := field(c, "pkg/msg", "UDPPacket", "Content")
	if udpPkt == nil || contentF == nil {
		return
	}

	// ---- R1 ----
	c.Rule("R1", "every msg.UDPPacket literal sets Content from base64.StdEncoding.EncodeToString; GetContent decodes with base64.StdEncoding; slices of reusable read buffers are passed only to NewUDPPacket")
	n := 0
	isB64 := func(call *ssa.Call, name string) bool {
		o := engine.CalleeObj(call)
		if o == nil || o.Pkg() == nil || o.Pkg().Path() != "encoding/base64" || o.Name() != name {
			return false
		}
		src := engine.Provenance(engine.CallArgs(call)[0], engine.ProvOpts{NoArgs: true})
		for g := range src.Globals {
			if g.Name() == "StdEncoding" {
				return true
			}
		}
		return false
	}
	// a packet is built either by NewUDPPacket(buf, laddr, raddr) or by a literal whose Content is
	// EncodeToString(buf); both forms are one "packet site" with a payload and a remote address
	type pktSite struct {
		pos     token.Pos
		payload ssa.Value
		raddr   ssa.Value
	}
	newPktFn := p.FuncObj("pkg/proto/udp", "NewUDPPacket")
	remoteFld := p.Field("pkg/msg", "UDPPacket", "RemoteAddr")
	pktSites := func(g *ssa.Function) []pktSite {
		var out []pktSite
		engine.ForEachInstr(g, func(in ssa.Instruction) {
			switch x := in.(type) {
			case *ssa.Call:
				if newPktFn != nil && engine.SameFunc(engine.CalleeObj(x), newPktFn) {
					a := engine.CallArgs(x)
					out = append(out, pktSite{x.Pos(), a[0], a[2]})
				}
			case *ssa.Alloc:
				if engine.NamedOf(x.Type()) != udpPkt || remoteFld == nil {
					return
				}
				cs := nameStores(x, contentF)
				rs := nameStores(x, remoteFld)
				if len(cs) != 1 {
					return
				}
				cl, _ := engine.ResultOfCall(cs[0])
				if cl == nil || !isB64(cl, "EncodeToString") {
					return
				}
				ps := pktSite{pos: x.Pos(), payload: cl.Call.Args[len(cl.Call.Args)-1]}
				if len(rs) == 1 {
					ps.raddr = rs[0]
				}
				out = append(out, ps)
			}
		})
		return out
	}
	// decoded: the value is the payload decoded from a packet (GetContent(pkt) or DecodeString(pkt.Content))
	decoded := func(v ssa.Value) bool {
		src := engine.Provenance(v, engine.ProvOpts{})
		if gc := p.FuncObj("pkg/proto/udp", "GetContent"); gc != nil && src.HasCall(gc) {
			return true
		}
		for cv := range src.CallIns {
			if isB64(cv, "DecodeString") {
				if lf, _ := engine.LoadedField(cv.Call.Args[len(cv.Call.Args)-1]); lf == contentF {
					return true
				}
			}
		}
		return false
	}
	for _, f := range p.RepoFuncs() {
		engine.ForEachInstr(f, func(in ssa.Instruction) {
			al, ok := in.(*ssa.Alloc)
			if !ok || engine.NamedOf(al.Type()) != udpPkt {
				return
			}
			stores := nameStores(al, contentF)
			if len(stores) == 0 {
				return // decoded into (ReadMsgInto target) or zero value
			}
			n++
			okEnc := true
			for _, sv := range stores {
				cl, _ := engine.ResultOfCall(sv)
				if cl == nil || !isB64(cl, "EncodeToString") {
					okEnc = false
				}
			}
			c.Check(okEnc, fmt.Sprintf("%s>UDPPacket.Content#%d", p.FuncName(f), n), al.Pos(), len(stores), nil, "Content is the base64 copy of the payload (not a reference to a reusable buffer)")
		})
	}
	if f := p.Fn("pkg/proto/udp.GetContent"); f != nil && f.Blocks != nil { // optional helper: call sites may decode directly
		n++
		okDec := false
		engine.ForEachInstr(f, func(in ssa.Instruction) {
			if call, ok := in.(*ssa.Call); ok && isB64(call, "DecodeString") {
				if lf, _ := engine.LoadedField(call.Call.Args[len(call.Call.Args)-1]); lf == contentF {
					okDec = true
				}
			}
		})
		c.Check(okDec, "pkg/proto/udp.GetContent", f.Pos(), 1, nil, "GetContent decodes Content with the same encoding object")
	}
	// read buffers: values returned by pool.GetBuf are sliced only into NewUDPPacket (or read into)
	newPkt := funcObj(c, "pkg/proto/udp", "NewUDPPacket")
	for _, f := range p.RepoFuncs() {
		engine.ForEachInstr(f, func(in ssa.Instruction) {
			call, ok := in.(*ssa.Call)
			if !ok || !calleeIs(call, "golib/pool", "GetBuf") {
				return
			}
			if fp := f.Pkg; fp == nil || !(strings.HasSuffix(fp.Pkg.Path(), "/pkg/proto/udp") || strings.HasSuffix(fp.Pkg.Path(), "/client/proxy") || strings.HasSuffix(fp.Pkg.Path(), "/client/visitor") || strings.HasSuffix(fp.Pkg.Path(), "/server/proxy")) {
				return // other users of the buffer pool (kcp/udp listeners, nat-hole probing) are not part of the udp tunnel path
			}
			// only loops that read datagrams
			reads := false
			if refs := call.Referrers(); refs != nil {
				for _, r := range *refs {
					if cc, ok := r.(ssa.CallInstruction); ok {
						if _, _, _, isRd := udpRead(cc); isRd {
							reads = true
						}
					}
				}
			}
			if !reads {
				return
			}
			n++
			bad := ""
			if refs := call.Referrers(); refs != nil {
				for _, r := range *refs {
					sl, ok := r.(*ssa.Slice)
					if !ok {
						continue
					}
					if sr := sl.Referrers(); sr != nil {
						for _, u := range *sr {
							cc, ok := u.(ssa.CallInstruction)
							if ok && engine.SameFunc(engine.CalleeObj(cc), newPkt) {
								continue
							}
							if cv, isCall := u.(*ssa.Call); isCall && isB64(cv, "EncodeToString") {
								continue // copied into a fresh string: the packet-literal form of NewUDPPacket
							}
							if _, isDbg := u.(*ssa.DebugRef); isDbg {
								continue
							}
							bad = "a slice of the reusable read buffer flows into " + fmt.Sprintf("%T", u) + " at " + p.Pos(u.Pos())
						}
					}
				}
			}
			c.Check(bad == "", fmt.Sprintf("%s>read-buffer#%d", p.FuncName(f), n), call.Pos(), 2, nil, "slices of the pooled read buffer are only copied into packets (%s)", bad)
		})
	}
	c.Floor(n, 4)

	// ---- R2 ----
	c.Rule("R2", "a heap object whose address is sent on a channel from inside a loop is allocated inside that loop")
	n = 0
	for _, f := range p.RepoFuncs() {
		if f.Pkg == nil {
			continue
		}
		pp := f.Pkg.Pkg.Path()
		if !(strings.Contains(pp, "/client/") || strings.Contains(pp, "/server/") || strings.Contains(pp, "/pkg/proto/")) {
			continue
		}
		checkSent := func(site ssa.Instruction, sent ssa.Value, siteFn *ssa.Function) {
			// resolve captured variables to the allocation in the enclosing function
			v := engine.Unwrap(sent)
			allocFn := siteFn
			siteInParent := site
			for i := 0; i < 3; i++ {
				fv, ok := v.(*ssa.FreeVar)
				if !ok {
					break
				}
				b := engine.ClosureBinding(fv)
				if b == nil {
					return
				}
				// the closure's creation site stands for the send site in the parent
				parent := allocFn.Parent()
				var mcSite ssa.Instruction
				engine.ForEachInstr(parent, func(x ssa.Instruction) {
					if mc, ok := x.(*ssa.MakeClosure); ok && mc.Fn == allocFn {
						mcSite = x
					}
				})
				if mcSite == nil {
					return
				}
				v, allocFn, siteInParent = b, parent, mcSite
			}
			al, ok := v.(*ssa.Alloc)
			if !ok || !al.Heap {
				return
			}
			if _, isStruct := engine.Deref(al.Type()).Underlying().(*types.Struct); !isStruct {
				return
			}
			h := engine.LoopHeader(siteInParent.Block())
			if h == nil {
				return
			}
			n++
			inside := h.Dominates(al.Block())
			c.Check(inside, fmt.Sprintf("%s>sent-object#%d", p.FuncName(allocFn), n), al.Pos(), 2, []string{"sent at " + p.Pos(posOf(site))},
				"the object sent on the channel is allocated per loop iteration (a single object reused across iterations makes queued messages alias: payloads and reply addresses of different datagrams overwrite each other)")
		}
		engine.ForEachInstr(f, func(in ssa.Instruction) {
			switch x := in.(type) {
			case *ssa.Send:
				checkSent(in, x.X, f)
			case *ssa.Select:
				for _, st := range x.States {
					if st.Dir == types.SendOnly {
						checkSent(in, st.Send, f)
					}
				}
			}
		})
	}
	c.Floor(n, 2)

	// ---- R3 ----
	c.Rule("R3", "reply addressing: Forwarder uses one key expression (RemoteAddr.String()) for lookup, insert and delete of its connection map and gives the reply writer the packet's RemoteAddr; ForwardUserConn writes replies to the packet's RemoteAddr and tags outbound packets with ReadFromUDP's address")
	n = 0
	remoteF := field(c, "pkg/msg", "UDPPacket", "RemoteAddr")
	if f := fn(c, "pkg/proto/udp.Forwarder"); f != nil && remoteF != nil {
		var keys []ssa.Value
		var poss []token.Pos
		// the map is accessed in Forwarder, its closures, and any same-package helper that is handed the map; a key
		// that is the helper's parameter stands for the argument at the call site
		type scoped struct {
			g    *ssa.Function
			bind map[*ssa.Parameter]ssa.Value
		}
		var scope []scoped
		seenFn := map[*ssa.Function]bool{}
		for _, g := range append([]*ssa.Function{f}, lexicalAnon(f)...) { // helpers are added below, with their bindings
			scope = append(scope, scoped{g, nil})
			seenFn[g] = true
		}
		for i := 0; i < len(scope) && i < 16; i++ {
			engine.ForEachInstr(scope[i].g, func(in ssa.Instruction) {
				call, ok := in.(ssa.CallInstruction)
				if !ok {
					return
				}
				cf := engine.CalleeFn(call)
				if cf == nil || cf.Blocks == nil || cf.Pkg != f.Pkg || seenFn[cf] {
					return
				}
				hasMap := false
				for _, a := range call.Common().Args {
					if _, isMap := a.Type().Underlying().(*types.Map); isMap {
						hasMap = true
					}
				}
				if !hasMap {
					return
				}
				seenFn[cf] = true
				b := map[*ssa.Parameter]ssa.Value{}
				for k, pr := range cf.Params {
					if k < len(call.Common().Args) {
						a := call.Common().Args[k]
						if ap, ok := engine.Unwrap(a).(*ssa.Parameter); ok && scope[i].bind != nil {
							if r, ok := scope[i].bind[ap]; ok {
								a = r
							}
						}
						b[pr] = a
					}
				}
				scope = append(scope, scoped{cf, b})
			})
		}
		addKey := func(sc scoped, k ssa.Value, pos token.Pos) {
			if pr, ok := engine.Unwrap(k).(*ssa.Parameter); ok && sc.bind != nil {
				if r, ok := sc.bind[pr]; ok {
					k = r
				}
			}
			keys = append(keys, k)
			poss = append(poss, pos)
		}
		for _, sc := range scope {
			engine.ForEachInstr(sc.g, func(in ssa.Instruction) {
				switch x := in.(type) {
				case *ssa.Lookup:
					if _, isMap := x.X.Type().Underlying().(*types.Map); isMap {
						addKey(sc, x.Index, x.Pos())
					}
				case *ssa.MapUpdate:
					addKey(sc, x.Key, x.Pos())
				case ssa.CallInstruction:
					if b, ok := x.Common().Value.(*ssa.Builtin); ok && b.Name() == "delete" {
						addKey(sc, x.Common().Args[1], in.Pos())
					}
				}
			})
		}
		n++
		okKeys := len(keys) >= 3
		allBind := map[*ssa.Parameter]ssa.Value{}
		for _, sc := range scope {
			for pr, a := range sc.bind {
				allBind[pr] = a
			}
		}
		// closures of the forwarder that are called (or started with `go`) through the local variable that holds them
		for _, sc := range scope {
			engine.ForEachInstr(sc.g, func(in ssa.Instruction) {
				call, ok := in.(ssa.CallInstruction)
				if !ok || call.Common().IsInvoke() || engine.CalleeFn(call) != nil {
					return
				}
				mc, ok := capturedOrigin(call.Common().Value).(*ssa.MakeClosure)
				if !ok {
					return
				}
				cf, ok := mc.Fn.(*ssa.Function)
				if !ok {
					return
				}
				for k, pr := range cf.Params {
					if k < len(call.Common().Args) {
						allBind[pr] = call.Common().Args[k]
					}
				}
			})
		}
		for _, k := range keys {
			src := engine.Provenance(k, engine.ProvOpts{})
			strCall := false
			hasRemote, hasRaddr := src.HasField(remoteF), src.HasParam("raddr")
			for o := range src.Calls {
				if o.Name() == "String" {
					strCall = true
				}
			}
			// a key handed to the writer as a parameter (the address formatted once by the caller)
			for pr := range src.Params {
				if b, isStr := pr.Type().Underlying().(*types.Basic); !isStr || b.Kind() != types.String {
					continue // only a key that is itself handed in as a string
				}
				if a, ok := allBind[pr]; ok {
					s2 := engine.Provenance(a, engine.ProvOpts{})
					for o := range s2.Calls {
						if o.Name() == "String" {
							strCall = true
						}
					}
					hasRemote = hasRemote || s2.HasField(remoteF)
					hasRaddr = hasRaddr || s2.HasParam("raddr")
				}
			}
			// the key is <something>.RemoteAddr.String() or the writer's raddr.String()
			if !(strCall && (hasRemote || hasRaddr)) {
				okKeys = false
			}
		}
		c.Check(okKeys, "pkg/proto/udp.Forwarder>map-keys", f.Pos(), len(keys), nil, "all %d accesses of the per-user connection map use the user's RemoteAddr.String() as key", len(keys))
		// the writer goroutine is started with the packet's RemoteAddr and tags replies with it
		n++
		okWriter := false
		for _, g := range append([]*ssa.Function{f}, allAnon(f)...) {
			engine.ForEachInstr(g, func(in ssa.Instruction) {
				gg, ok := in.(*ssa.Go)
				if !ok {
					return
				}
				for _, a := range gg.Call.Args {
					if lf, _ := engine.LoadedField(a); lf == remoteF {
						okWriter = true
					}
				}
			})
		}
		c.Check(okWriter, "pkg/proto/udp.Forwarder>writer-address", f.Pos(), 1, nil, "the per-user reply reader is started with that user's RemoteAddr")
		for _, g := range allAnon(f) {
			for _, ps := range pktSites(g) {
				n++
				c.Check(ps.raddr != nil && isParam("raddr")(engine.Unwrap(ps.raddr)), "pkg/proto/udp.Forwarder>reply-tag", ps.pos, 1, nil, "replies are tagged with the address of the user whose datagram opened this backend socket")
			}
		}
	}
	if f := fn(c, "pkg/proto/udp.ForwardUserConn"); f != nil && remoteF != nil {
		for _, g := range append([]*ssa.Function{f}, allAnon(f)...) {
			engine.ForEachInstr(g, func(in ssa.Instruction) {
				call, ok := in.(*ssa.Call)
				if !ok {
					return
				}
				o := engine.CalleeObj(call)
				if o == nil {
					return
				}
				switch o.Name() {
				case "WriteToUDP":
					n++
					args := engine.CallArgs(call)
					lf, _ := engine.LoadedField(args[2])
					c.Check(lf == remoteF && decoded(args[1]), "pkg/proto/udp.ForwardUserConn>reply-to", call.Pos(), 2, nil,
						"each reply is written, with exactly its decoded content, to the RemoteAddr carried by that packet")
				}
			})
			for _, ps := range pktSites(g) {
				n++
				var cl *ssa.Call
				i := -1
				if ps.raddr != nil {
					cl, i = engine.ResultOfCall(ps.raddr)
				}
				okAddr := false
				wantN := 0
				if cl != nil {
					if nI, aI, _, isRd := udpRead(cl); isRd && i == aI {
						okAddr, wantN = true, nI
					}
				}
				sl, isSl := ps.payload.(*ssa.Slice)
				okLen := false
				if isSl && sl.High != nil {
					if c2, i2 := engine.ResultOfCall(sl.High); c2 == cl && i2 == wantN && sl.Low == nil {
						okLen = true
					}
				}
				c.Check(okAddr && okLen, "pkg/proto/udp.ForwardUserConn>outbound-tag", ps.pos, 2, nil,
					"an outbound packet carries buf[:n] and the source address of the very ReadFromUDP that produced it (addr ok=%v, length ok=%v)", okAddr, okLen)
			}
		}
	}
	c.Floor(n, 5)

	// ---- R4 ----
	c.Rule("R4", "a cancel function that is called (not deferred) inside a loop belongs to a context created inside that loop")
	n = 0
	for _, f := range p.RepoFuncs() {
		engine.ForEachInstr(f, func(in ssa.Instruction) {
			call, ok := in.(*ssa.Call)
			if !ok || call.Call.IsInvoke() {
				return
			}
			// callee value is Extract #1 of context.WithCancel/WithTimeout/WithDeadline (possibly via a cell)
			v := call.Call.Value
			for i := 0; i < 3; i++ {
				if u, ok := v.(*ssa.UnOp); ok && u.Op == token.MUL {
					if al, ok := u.X.(*ssa.Alloc); ok {
						var stored []ssa.Value
						if refs := al.Referrers(); refs != nil {
							for _, r := range *refs {
								if st, ok := r.(*ssa.Store); ok && st.Addr == ssa.Value(al) {
									stored = append(stored, st.Val)
								}
							}
						}
						if len(stored) == 1 {
							v = stored[0]
							continue
						}
					}
				}
				break
			}
			ex, ok := v.(*ssa.Extract)
			if !ok || ex.Index != 1 {
				return
			}
			mk, ok := ex.Tuple.(*ssa.Call)
			if !ok {
				return
			}
			o := engine.CalleeObj(mk)
			if o == nil || o.Pkg() == nil || o.Pkg().Path() != "context" || !strings.HasPrefix(o.Name(), "With") {
				return
			}
			h := engine.LoopHeader(call.Block())
			if h == nil {
				return
			}
			n++
			inside := h.Dominates(mk.Block())
			c.Check(inside, fmt.Sprintf("%s>cancel-in-loop#%d", p.FuncName(f), n), call.Pos(), 2, []string{"context created at " + p.Pos(mk.Pos())},
				"the context cancelled in this loop iteration was created in this iteration (a context created once outside is already cancelled for every later iteration: the goroutines started for a replacement work connection exit at once)")
		})
	}
	c.Floor(n, 1)

	// ---- R5 ----
	c.Rule("R5", "datagrams are enqueued on the proxies' channels with a non-blocking select (drop under overload, never stall the reader)")
	n = 0
	for _, sym := range []string{"pkg/proto/udp.ForwardUserConn", "pkg/proto/udp.Forwarder"} {
		f := fn(c, sym)
		if f == nil {
			continue
		}
		for _, g := range append([]*ssa.Function{f}, allAnon(f)...) {
			engine.ForEachInstr(g, func(in ssa.Instruction) {
				switch x := in.(type) {
				case *ssa.Send:
					n++
					c.Violate(fmt.Sprintf("%s>enqueue#%d", p.FuncName(g), n), in.Pos(), nil, "a datagram is enqueued with a blocking send: a slow consumer stalls the socket reader")
				case *ssa.Select:
					for _, st := range x.States {
						if st.Dir == types.SendOnly {
							n++
							c.Check(!x.Blocking, fmt.Sprintf("%s>enqueue#%d", p.FuncName(g), n), in.Pos(), 1, nil, "enqueue is select{case ch<-m: default:}")
						}
					}
				}
			})
		}
	}
	c.Floor(n, 2)

	// ---- R6 ----
	li := engine.AnalyzeLocks(p)
	c16ChannelsPrefixed(c, li, "R6")

	// ---- R8 the datagram read loops end only on an error ----
	c.Rule("R8", "after a datagram was read, the read loops of ForwardUserConn / Forwarder return only when the read (or the recovered enqueue) reported an error: a zero-length or otherwise unusual datagram must not end the forwarding for every user")
	n8 := 0
	for _, sym := range []string{"pkg/proto/udp.ForwardUserConn", "pkg/proto/udp.Forwarder"} {
		f := fn(c, sym)
		if f == nil {
			continue
		}
		for _, g := range append([]*ssa.Function{f}, allAnon(f)...) {
			g := g
			engine.ForEachInstr(g, func(in ssa.Instruction) {
				call, ok := in.(*ssa.Call)
				if !ok {
					return
				}
				o := engine.CalleeObj(call)
				if o == nil || engine.LoopHeader(call.Block()) == nil {
					return
				}
				tup, ok := call.Type().(*types.Tuple)
				if !ok {
					return
				}
				errIdx := tup.Len() - 1
				if _, _, eI, isRd := udpRead(call); isRd {
					errIdx = eI
				} else if o.Name() != "Read" {
					return
				}
				n8++
				c.AllPaths(fmt.Sprintf("%s>read-loop-exit", p.FuncName(g)), engine.PathCheck{Fn: g, From: call, KeepLoopFacts: true,
					Sink: func(x ssa.Instruction) bool { return engine.IsReturn(x) || x == ssa.Instruction(call) },
					Pred: func(st *engine.PathState) string {
						if !engine.IsReturn(st.Sink) {
							return ""
						}
						// some error value was found non-nil on this path (the read's, or the recovered send's)
						for _, l := range st.Lits {
							if l.Op != token.EQL || l.Val {
								continue
							}
							x, y := l.X, l.Y
							if engine.IsNilConst(x) {
								x, y = y, x
							}
							if !engine.IsNilConst(y) {
								continue
							}
							if types.Identical(x.Type(), types.Universe.Lookup("error").Type()) {
								if cl, i := engine.ResultOfCall(x); cl != nil && (cl != call || i == errIdx) {
									return ""
								}
							}
						}
						return "the read loop returns on a path where no error was reported: one unusual datagram (for instance an empty one) ends the forwarding for all users"
					}}, "the loop ends only on an error")
			})
		}
	}
	c.Floor(n8, 2)

	// ---- R9 a close signal somebody waits for ----
	c.Rule("R9", "a channel that a function creates and (a goroutine of it) closes is also received from by another goroutine of that function: a per-connection close signal nobody waits on leaves the peer goroutine parked on a dead connection")
	n9 := 0
	for _, f := range p.RepoFuncs() {
		if f.Pkg == nil || !(strings.HasSuffix(f.Pkg.Pkg.Path(), "/client/visitor") || strings.HasSuffix(f.Pkg.Pkg.Path(), "/client/proxy") || strings.HasSuffix(f.Pkg.Pkg.Path(), "/server/proxy") || strings.HasSuffix(f.Pkg.Pkg.Path(), "/pkg/proto/udp")) {
			continue
		}
		f := f
		engine.ForEachInstr(f, func(in ssa.Instruction) {
			mk, ok := in.(*ssa.MakeChan)
			if !ok {
				return
			}
			closed, received, escapes := false, false, false
			var visit func(v ssa.Value, d int)
			seen := map[ssa.Value]bool{}
			visit = func(v ssa.Value, d int) {
				if seen[v] || d > 6 || v.Referrers() == nil {
					return
				}
				seen[v] = true
				for _, r := range *v.Referrers() {
					switch x := r.(type) {
					case *ssa.Store:
						if x.Val == v {
							if al, ok := x.Addr.(*ssa.Alloc); ok {
								visit(al, d+1) // the cell; loads of it below
							} else {
								escapes = true
							}
						}
					case *ssa.UnOp:
						if x.Op == token.ARROW {
							received = true
						} else if x.Op == token.MUL {
							visit(x, d+1)
						}
					case *ssa.Select:
						for _, stt := range x.States {
							if stt.Chan == v && stt.Dir == types.RecvOnly {
								received = true
							}
						}
					case *ssa.MakeClosure:
						if cf, ok := x.Fn.(*ssa.Function); ok {
							for i, b := range x.Bindings {
								if b == v && i < len(cf.FreeVars) {
									visit(cf.FreeVars[i], d+1)
								}
							}
						}
					case *ssa.ChangeType:
						visit(x, d+1)
					case *ssa.MakeInterface, *ssa.Return, *ssa.Send, *ssa.MapUpdate:
						escapes = true
					case ssa.CallInstruction:
						if b, ok := x.Common().Value.(*ssa.Builtin); ok && b.Name() == "close" {
							closed = true
						} else if _, isB := x.Common().Value.(*ssa.Builtin); !isB {
							// passed to a function: follow into a repo callee's parameter
							if cf := engine.CalleeFn(x); cf != nil && cf.Blocks != nil {
								for i, a := range x.Common().Args {
									if a == v && i < len(cf.Params) {
										visit(cf.Params[i], d+1)
									}
								}
								if mc, ok := x.Common().Value.(*ssa.MakeClosure); ok {
									_ = mc
								}
							} else {
								escapes = true
							}
						}
					case *ssa.Range:
						received = true
					}
				}
			}
			visit(mk, 0)
			if !closed || escapes {
				return
			}
			n9++
			c.Check(received, fmt.Sprintf("%s>close-signal#%d", p.FuncName(f), n9), mk.Pos(), len(seen), nil,
				"the channel created here is closed as a signal and some goroutine receives from it")
		})
	}
	// the same signal written with a cancellable context: WithCancel created here, cancelled somewhere in the function's
	// family, and its Done() channel received from somewhere in the family
	for _, f := range p.RepoFuncs() {
		if f.Parent() != nil || f.Pkg == nil || !(strings.HasSuffix(f.Pkg.Pkg.Path(), "/client/visitor") || strings.HasSuffix(f.Pkg.Pkg.Path(), "/client/proxy") || strings.HasSuffix(f.Pkg.Pkg.Path(), "/server/proxy") || strings.HasSuffix(f.Pkg.Pkg.Path(), "/pkg/proto/udp")) {
			continue
		}
		family := append([]*ssa.Function{f}, lexicalAnon(f)...)
		if len(family) < 2 {
			continue
		}
		made, cancelled, waited := false, false, false
		for _, g := range family {
			engine.ForEachInstr(g, func(in ssa.Instruction) {
				call, ok := in.(ssa.CallInstruction)
				if !ok {
					return
				}
				if o := engine.CalleeObj(call); o != nil && o.Pkg() != nil && o.Pkg().Path() == "context" && o.Name() == "WithCancel" {
					if g == f {
						made = true
					}
				}
				if call.Common().IsInvoke() && call.Common().Method.Name() == "Done" && engine.IsNamed(call.Common().Value.Type(), "context", "Context") {
					if v := call.Value(); v != nil && v.Referrers() != nil {
						for _, r := range *v.Referrers() {
							switch x := r.(type) {
							case *ssa.Select:
								waited = true
							case *ssa.UnOp:
								if x.Op == token.ARROW {
									waited = true
								}
							}
						}
					}
				}
				if !call.Common().IsInvoke() && engine.CalleeFn(call) == nil {
					if engine.IsNamed(call.Common().Value.Type(), "context", "CancelFunc") {
						cancelled = true
					}
				}
			})
		}
		if made && cancelled {
			n9++
			c.Check(waited, fmt.Sprintf("%s>close-signal-ctx", p.FuncName(f)), f.Pos(), 3, nil,
				"the cancellable context created here is cancelled as a signal and some goroutine of the function waits on its Done()")
		}
	}
	c.Floor(n9, 1)

	// ---- R7 wrapper stacks (shared with C01.R1 / C05.R5) ----
	checkStacks(c, "R7")

	// ---- R10 both ends get the configured packet size from a legacy file too (shared with C18.R14) ----
	checkLegacyConversion(c, "R10")
	checkDeadlineRearmed(c, "R12")
	checkNoResend(c, "R13")
	// ---- R14 the per-user socket table of the client-side forwarder is shared with its reply pumps (shared with C16.R30) ----
	checkLocalGuardedMaps(c, "R14")
	checkFullBufferVerdict(c, "R15")

	// ---- R11 a failed write retires the work connection ----
	c.Rule("R11", "server udp proxy: the goroutine that writes user datagrams to the work connection closes that connection when a write fails — only the reader asks for a replacement, and it notices nothing as long as its own reads succeed")
	n11 := 0
	if run := fn(c, "server/proxy.UDPProxy.Run"); run != nil {
		writeMsg := funcObj(c, "pkg/msg", "WriteMsg")
		cands := allAnon(run)
		if ut := p.Named("server/proxy", "UDPProxy"); ut != nil { // the sender may be a method instead of a closure
			for _, mf := range methodsOf(p, ut) {
				if mf != run {
					cands = append(cands, mf)
					cands = append(cands, allAnon(mf)...)
				}
			}
		}
		sort.Slice(cands, func(i, j int) bool { return p.FuncName(cands[i]) < p.FuncName(cands[j]) })
		for _, g := range cands {
			g := g
			for _, w := range engine.CallsTo(g, writeMsg) {
				connArg := engine.Unwrap(engine.CallArgs(w)[0])
				if _, isParam := connArg.(*ssa.Parameter); !isParam {
					continue // not the sender goroutine's own connection
				}
				n11++
				wv := w.Value()
				c.AllPaths(fmt.Sprintf("%s>write-error-closes", p.FuncName(g)), engine.PathCheck{Fn: g, From: w, KeepLoopFacts: true,
					Sink: func(in ssa.Instruction) bool { return engine.IsReturn(in) || in == w.(ssa.Instruction) },
					Event: func(in ssa.Instruction) string {
						if cc, ok := in.(ssa.CallInstruction); ok {
							if o := engine.CalleeObj(cc); o != nil && o.Name() == "Close" {
								if a := engine.CallArgs(cc); len(a) > 0 && engine.SameValue(engine.Unwrap(a[0]), connArg) {
									return "close"
								}
							}
						}
						return ""
					},
					Pred: func(st *engine.PathState) string {
						isNil, known := st.IsNil(func(v ssa.Value) bool { return wv != nil && v == wv })
						if known && !isNil && !st.HasEvent("close") {
							return "the write to the work connection failed and the connection is left open: the reader keeps it alive, it is never replaced and every later datagram towards the backend is dropped"
						}
						return ""
					}}, "write error ⇒ work connection closed")
			}
		}
	}
	c.Floor(n11, 1)
}

// checkDeadlineRearmed (R12): an idle timeout on a datagram socket is a deadline that is pushed forward before every
// read. Armed once in front of the read loop it is an absolute lifetime: after that many seconds every read fails, however
// busy the socket is, and the replies of a long-lived flow are dropped.
func checkDeadlineRearmed(c *engine.Ctx, rule string) {
	c.Rule(rule, "where a read deadline derived from time.Now() guards reads that sit in a loop, the deadline call is re-executed in that loop (it lies on the way from one read to the next)")
	p := c.P
	n := 0
	isRead := func(call ssa.CallInstruction) bool {
		o := engine.CalleeObj(call)
		if o == nil {
			return false
		}
		switch o.Name() {
		case "Read", "ReadFromUDP", "ReadFrom", "ReadMsgUDP":
			return true
		case "ReadMsg", "ReadMsgInto": // pkg/msg: the connection is the first argument
			return o.Pkg() != nil && strings.HasSuffix(o.Pkg().Path(), "/pkg/msg")
		}
		return false
	}
	for _, f := range p.RepoFuncs() {
		if f.Pkg == nil {
			continue
		}
		rel := strings.TrimPrefix(f.Pkg.Pkg.Path(), engine.ModPath+"/")
		if !(rel == "pkg/proto/udp" || rel == "server/proxy" || rel == "client/proxy" || rel == "client/visitor" || rel == "pkg/nathole") {
			continue
		}
		var deadlines, reads []ssa.CallInstruction
		engine.ForEachInstr(f, func(in ssa.Instruction) {
			call, ok := in.(ssa.CallInstruction)
			if !ok {
				return
			}
			if _, isDefer := in.(*ssa.Defer); isDefer {
				return
			}
			o := engine.CalleeObj(call)
			if o == nil {
				return
			}
			if o.Name() == "SetReadDeadline" || o.Name() == "SetDeadline" {
				args := engine.CallArgs(call)
				src := engine.Provenance(args[len(args)-1], engine.ProvOpts{})
				for k := range src.Calls {
					if k.Pkg() != nil && k.Pkg().Path() == "time" && k.Name() == "Now" {
						deadlines = append(deadlines, call)
					}
				}
			}
			if isRead(call) {
				reads = append(reads, call)
			}
		})
		if os.Getenv("FRPSA_DEBUG_C03") != "" && (len(deadlines) > 0) {
			fmt.Fprintf(os.Stderr, "C03R12 %s deadlines=%d reads=%d\n", p.FuncName(f), len(deadlines), len(reads))
		}
		rootOf := func(v ssa.Value) ssa.Value { // the connection behind promoted methods and interface conversions
			v = engine.Unwrap(v)
			if mi, ok := v.(*ssa.MakeInterface); ok {
				v = engine.Unwrap(mi.X)
			}
			r, _ := engine.FieldPath(v)
			return r
		}
		for _, d := range deadlines {
			dr := rootOf(engine.CallArgs(d)[0])
			for _, r := range reads {
				rr := rootOf(engine.CallArgs(r)[0])
				if os.Getenv("FRPSA_DEBUG_C03") != "" {
					fmt.Fprintf(os.Stderr, "   pair %s | %s same=%v d->r=%v r->r=%v\n", engine.Describe(dr), engine.Describe(rr), dr == rr || engine.SameExpr(dr, rr), engine.InstrReaches(d, r), engine.InstrReaches(r, r))
				}
				if !(dr == rr || engine.SameExpr(dr, rr)) {
					continue
				}
				if !engine.InstrReaches(d, r) || !engine.InstrReaches(r, r) {
					continue // not guarding this read, or the read is not in a loop
				}
				n++
				c.Check(engine.InstrReaches(r, d), fmt.Sprintf("%s>deadline-rearmed#%d", p.FuncName(f), n), d.Pos(), 2, nil,
					"the read deadline is pushed forward before every read of the loop (armed once it is an absolute lifetime of the socket)")
			}
		}
	}
	c.Floor(n, 2)
}

// checkNoResend (R13): the sudp visitor's dispatcher hands the datagram that triggered a connection to the worker, which
// sends it. When the worker returns (the visitor connection died) the next worker must start from a datagram taken from
// the send queue after that — a datagram kept across iterations is delivered twice.
func checkNoResend(c *engine.Ctx, rule string) {
	c.Rule(rule, "SUDPVisitor.dispatcher: between two hand-overs to worker a new datagram is received from sendCh (the one already handed over is never handed over again)")
	f := fn(c, "client/visitor.SUDPVisitor.dispatcher")
	worker := method(c, "client/visitor", "SUDPVisitor", "worker")
	sendF := field(c, "client/visitor", "SUDPVisitor", "sendCh")
	if f == nil || worker == nil || sendF == nil {
		return
	}
	n := 0
	for _, wc := range engine.CallsTo(f, worker) {
		wc := wc
		n++
		c.AllPaths("client/visitor.SUDPVisitor.dispatcher>no-resend", engine.PathCheck{Fn: f, From: wc, KeepLoopFacts: true,
			Sink: func(in ssa.Instruction) bool { return engine.IsReturn(in) || in == ssa.Instruction(wc) },
			Event: func(in ssa.Instruction) string {
				switch x := in.(type) {
				case *ssa.UnOp:
					if x.Op == token.ARROW {
						if lf, _ := engine.LoadedField(x.X); lf == sendF {
							return "received"
						}
					}
				case *ssa.Select:
					for _, s := range x.States {
						if s.Dir == types.RecvOnly {
							if lf, _ := engine.LoadedField(s.Chan); lf == sendF {
								return "received"
							}
						}
					}
				}
				return ""
			},
			Pred: func(st *engine.PathState) string {
				if engine.IsReturn(st.Sink) {
					return ""
				}
				if !st.HasEvent("received") {
					return "the worker is started again without a datagram having been taken from sendCh since the last hand-over: the previous datagram is sent a second time"
				}
				return ""
			}}, "a fresh datagram per hand-over")
	}
	c.Floor(n, 1)
}

// udpRead classifies a call as a datagram read and says which results are the length, the source address and the error:
// ReadFromUDP / ReadFrom themselves, or a small repository helper that performs exactly one such read into the buffer it
// is given and returns the read's own results (possibly with extra verdicts such as "oversized" in between).
func udpRead(call ssa.CallInstruction) (nIdx, addrIdx, errIdx int, ok bool) {
	o := engine.CalleeObj(call)
	if o == nil {
		return 0, 0, 0, false
	}
	if o.Name() == "ReadFromUDP" || o.Name() == "ReadFrom" {
		return 0, 1, 2, true
	}
	cf := engine.CalleeFn(call)
	if cf == nil || len(cf.Blocks) == 0 || cf.Pkg == nil || !engine.IsRepoPkg(cf.Pkg.Pkg.Path()) {
		return 0, 0, 0, false
	}
	var inner *ssa.Call
	cnt := 0
	engine.ForEachInstr(cf, func(in ssa.Instruction) {
		if c2, isCall := in.(*ssa.Call); isCall {
			if o2 := engine.CalleeObj(c2); o2 != nil && (o2.Name() == "ReadFromUDP" || o2.Name() == "ReadFrom") {
				inner = c2
				cnt++
			}
		}
	})
	if cnt != 1 {
		return 0, 0, 0, false
	}
	nIdx, addrIdx, errIdx = -1, -1, -1
	engine.ForEachInstr(cf, func(in ssa.Instruction) {
		r, isRet := in.(*ssa.Return)
		if !isRet {
			return
		}
		for i := range r.Results {
			if cl, j := engine.ResultOfCall(engine.Unwrap(spilledResult(r, i))); cl == inner {
				switch j {
				case 0:
					nIdx = i
				case 1:
					addrIdx = i
				case 2:
					errIdx = i
				}
			}
		}
	})
	if nIdx < 0 || errIdx < 0 {
		return 0, 0, 0, false
	}
	return nIdx, addrIdx, errIdx, true
}

// checkFullBufferVerdict (R15): a read that fills its whole buffer may have been cut off, so a forwarder that drops
// "n == len(buf)" datagrams as oversized must read into a buffer LARGER than the largest datagram it accepts — one spare
// byte tells a datagram of exactly the configured packet size from a longer one. Every buffer handed to a read whose
// length result is compared with the buffer's length comes from GetBuf(size + k), k ≥ 1.
func checkFullBufferVerdict(c *engine.Ctx, rule string) {
	c.Rule(rule, "in the udp tunnel path, wherever the length returned by a datagram read is compared with the length of the buffer it was read into (an 'oversized' verdict), the buffer was obtained with pool.GetBuf(size + k) with a constant k ≥ 1 at every call site: a datagram of exactly the configured size is not mistaken for a truncated one")
	p := c.P
	n := 0
	for _, f := range p.RepoFuncs() {
		if f.Pkg == nil || !(strings.HasSuffix(f.Pkg.Pkg.Path(), "/pkg/proto/udp") || strings.HasSuffix(f.Pkg.Pkg.Path(), "/client/proxy") || strings.HasSuffix(f.Pkg.Pkg.Path(), "/client/visitor") || strings.HasSuffix(f.Pkg.Pkg.Path(), "/server/proxy")) {
			continue
		}
		f := f
		engine.ForEachInstr(f, func(in ssa.Instruction) {
			call, ok := in.(*ssa.Call)
			if !ok {
				return
			}
			nIdx, _, _, isRd := udpRead(call)
			if !isRd {
				return
			}
			// the buffer operand and the function in which n is compared with len(buffer)
			var bufArg ssa.Value
			compared := false
			lenOf := func(v ssa.Value, buf ssa.Value) bool {
				lc, ok := engine.Unwrap(v).(*ssa.Call)
				if !ok {
					return false
				}
				b, ok := lc.Call.Value.(*ssa.Builtin)
				return ok && b.Name() == "len" && (lc.Call.Args[0] == buf || engine.SameExpr(lc.Call.Args[0], buf))
			}
			scan := func(g *ssa.Function, rd *ssa.Call, rdN int, buf ssa.Value) {
				engine.ForEachInstr(g, func(x ssa.Instruction) {
					bo, ok := x.(*ssa.BinOp)
					if !ok || (bo.Op != token.EQL && bo.Op != token.GEQ && bo.Op != token.NEQ && bo.Op != token.LSS) {
						return
					}
					isN := func(v ssa.Value) bool { cl, i := engine.ResultOfCall(engine.Unwrap(v)); return cl == rd && i == rdN }
					if (isN(bo.X) && lenOf(bo.Y, buf)) || (isN(bo.Y) && lenOf(bo.X, buf)) {
						compared = true
					}
				})
			}
			if cf := engine.CalleeFn(call); cf != nil && len(cf.Blocks) > 0 {
				// a wrapper: the comparison sits inside, on its buffer parameter
				var inner *ssa.Call
				engine.ForEachInstr(cf, func(x ssa.Instruction) {
					if c2, ok := x.(*ssa.Call); ok {
						if _, _, _, r := udpRead(c2); r && (engine.CalleeFn(c2) == nil || len(engine.CalleeFn(c2).Blocks) == 0) {
							inner = c2
						}
					}
				})
				if inner == nil {
					return
				}
				ia := engine.CallArgs(inner)
				if len(ia) < 2 {
					return
				}
				scan(cf, inner, 0, ia[1])
				if pr, ok := ia[1].(*ssa.Parameter); ok {
					for i, q := range cf.Params {
						if q == pr && i < len(call.Call.Args) {
							bufArg = call.Call.Args[i]
						}
					}
				}
			} else {
				a := engine.CallArgs(call)
				if len(a) < 2 {
					return
				}
				bufArg = a[1]
				if _, isParam := bufArg.(*ssa.Parameter); isParam {
					return // a wrapper's own read: judged at the wrapper's call sites
				}
				scan(f, call, nIdx, bufArg)
			}
			if !compared || bufArg == nil {
				return
			}
			n++
			spare := false
			src := engine.Provenance(bufArg, engine.ProvOpts{})
			for cl := range src.CallIns {
				if calleeIs(cl, "golib/pool", "GetBuf") {
					if bo, ok := engine.Unwrap(cl.Call.Args[0]).(*ssa.BinOp); ok && bo.Op == token.ADD {
						if k, ok := engine.ConstInt(bo.Y); ok && k >= 1 {
							spare = true
						}
						if k, ok := engine.ConstInt(bo.X); ok && k >= 1 {
							spare = true
						}
					}
				}
			}
			c.Check(spare, p.FuncName(f)+">full-buffer-verdict", call.Pos(), 2, nil,
				"the buffer of a read whose result is judged by 'n == len(buf)' has a spare byte beyond the configured packet size (otherwise a datagram of exactly that size is dropped as oversized)")
		})
	}
	_ = n
}
