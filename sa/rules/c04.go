package rules

import (
	"fmt"
	"go/token"
	"go/types"
	"os"
	"sort"
	"strings"

	"golang.org/x/tools/go/ssa"

	"frpsa/engine"
)

func init() {
	Registry["C04"] = &Property{
		Title:       "No session, proxy or work connection without valid client credentials",
		Run:         runC04,
		Explanation: "Decides structural necessary conditions of C04 on the SSA form of /repo: (R1) in Service.RegisterControl every path to NewControl / ControlManager.Add / Control.Start / metrics NewClient carries the fact VerifyLogin(loginMsg)==nil for the very message the session is built from; (R2) the always-pass verifier is used in exactly one place, under internal ∧ ClientSpec.AlwaysAuthPass, every network listener passes internal=false, and AlwaysAuthPass is only ever set from the ssh gateway's own authentication flag; (R3) a work connection reaches the pool only on paths where the run id was found, the plugin chain returned nil and VerifyNewWorkConn returned nil, every refusal returns non-nil and handleConnection closes the connection on non-nil; (R4) lastPing is refreshed only after VerifyPing==nil; (R5) every `return nil` of every Verifier method of every implementation is justified by a successful constant-time key comparison / OIDC verification or by the scope not being enabled; (R6) refusing exits of RegisterControl happen before any session state is created. Not decided: resource exhaustion by many attempts, correctness of the OIDC library, md5/constant-time primitives.",
		Assumptions: commonAssumptions,
	}
}

func runC04(c *engine.Ctx) {
	p := c.P
	verifyLogin := method(c, "pkg/auth", "Verifier", "VerifyLogin")
	verifyPing := method(c, "pkg/auth", "Verifier", "VerifyPing")
	verifyWork := method(c, "pkg/auth", "Verifier", "VerifyNewWorkConn")
	newControl := funcObj(c, "server", "NewControl")
	cmAdd := method(c, "server", "ControlManager", "Add")
	ctlStart := method(c, "server", "Control", "Start")
	regCtl := fn(c, "server.Service.RegisterControl")
	if verifyLogin == nil || verifyPing == nil || verifyWork == nil || newControl == nil || cmAdd == nil || ctlStart == nil || regCtl == nil {
		return
	}

	// ---- R1 login gate ----
	c.Rule("R1", "in Service.RegisterControl every path to a session-creating call carries VerifyLogin(loginMsg)==nil, for the same message the control is built from")
	n := 0
	sinks := map[string]*types.Func{"NewControl": newControl, "ControlManager.Add": cmAdd, "Control.Start": ctlStart}
	if nc := p.MethodObj("server/metrics", "ServerMetrics", "NewClient"); nc != nil {
		sinks["metrics.NewClient"] = nc
	}
	var names []string
	for k := range sinks {
		names = append(names, k)
	}
	sort.Strings(names)
	for _, name := range names {
		obj := sinks[name]
		calls := engine.CallsToVia(regCtl, obj) // directly or through a same-package helper
		if len(calls) == 0 {
			if name == "metrics.NewClient" {
				continue
			}
			c.Undecide("server.Service.RegisterControl>"+name, regCtl.Pos(), "RegisterControl no longer calls %s: cannot locate the session-creating step", name)
			continue
		}
		for _, call := range calls {
			n++
			call := call
			c.AllPaths("server.Service.RegisterControl>"+name, engine.PathCheck{
				Fn: regCtl, Sink: engine.Is(call),
				Pred: func(st *engine.PathState) string {
					isNil, known := st.IsNil(resultOf(verifyLogin))
					if !known || !isNil {
						return fmt.Sprintf("%s is reachable on a path where VerifyLogin did not return nil (a login can create session state without proving the credential)", name)
					}
					return ""
				},
			}, "%s only after VerifyLogin(loginMsg)==nil", name)
		}
	}
	// same message verified and used
	for _, vc := range engine.CallsTo(regCtl, verifyLogin) {
		for _, nc := range engine.CallsTo(regCtl, newControl) {
			n++
			va := engine.CallArgs(vc)
			na := engine.CallArgs(nc)
			var verified, used ssa.Value
			if len(va) >= 2 {
				verified = va[1]
			}
			_ = na
			for _, a := range argsOfType(nc, func(t types.Type) bool { return engine.IsNamed(t, engine.ModPath+"/pkg/msg", "Login") }) {
				used = a
			}
			c.Check(verified != nil && engine.SameValue(verified, used), "server.Service.RegisterControl>same-message", nc.Pos(), 2,
				[]string{"verified: " + engine.Describe(verified), "used: " + engine.Describe(used)},
				"the *msg.Login passed to NewControl is the SSA value that was passed to VerifyLogin")
		}
	}
	c.Floor(n, 4)

	// ---- R2 bypass only for the internal listener ----
	c.Rule("R2", "auth.AlwaysPassVerifier is referenced in exactly one function, on paths where internal ∧ loginMsg.ClientSpec.AlwaysAuthPass holds")
	always, _ := p.Obj("pkg/auth", "AlwaysPassVerifier").(*types.Var)
	alwaysField := field(c, "pkg/msg", "ClientSpec", "AlwaysAuthPass")
	if always == nil {
		c.Missing("pkg/auth.AlwaysPassVerifier", "global not found")
	}
	uses := 0
	if always != nil && alwaysField != nil {
		for _, f := range p.RepoFuncs() {
			if f.Pkg != nil && f.Pkg.Pkg.Path() == engine.ModPath+"/pkg/auth" && f.Name() == "init" {
				continue
			}
			engine.ForEachInstr(f, func(in ssa.Instruction) {
				for _, op := range in.Operands(nil) {
					g, ok := (*op).(*ssa.Global)
					if !ok || g.Object() != always {
						continue
					}
					uses++
					name := p.FuncName(f)
					// the bool parameter that stands for "internal": RegisterControl's own, or — when the selection was
					// extracted into an unexported helper — the helper parameter that every call site feeds with it
					internalParam := func(v ssa.Value) bool { return isParam("internal")(v) }
					if f != regCtl {
						fo, _ := f.Object().(*types.Func)
						var sites []ssa.CallInstruction
						foreign := false
						if fo != nil && !fo.Exported() && f.Parent() == nil {
							for _, g := range p.RepoFuncs() {
								for _, cs := range engine.CallsTo(g, fo) {
									if g != regCtl {
										foreign = true
									}
									sites = append(sites, cs)
								}
							}
						}
						if fo == nil || fo.Exported() || len(sites) == 0 || foreign {
							c.Violate(name, in.Pos(), nil, "auth.AlwaysPassVerifier is used outside Service.RegisterControl (and not in a private helper called only from it): a second place can exempt a peer from the credential check")
							continue
						}
						internalParam = func(v ssa.Value) bool {
							pr, ok := v.(*ssa.Parameter)
							if !ok {
								return false
							}
							idx := -1
							for i, q := range f.Params {
								if q == pr {
									idx = i
								}
							}
							if idx < 0 {
								return false
							}
							for _, cs := range sites {
								args := engine.CallArgs(cs)
								if idx >= len(args) || !isParam("internal")(engine.Unwrap(args[idx])) {
									return false
								}
							}
							return true
						}
					}
					c.AllPaths(name, engine.PathCheck{Fn: f, Sink: engine.Is(in), Pred: func(st *engine.PathState) string {
						v1, k1 := st.Truth(internalParam)
						v2, k2 := st.Truth(loadOfField(alwaysField))
						if !(k1 && v1) {
							return "the always-pass verifier is selected on a path that does not require internal==true (a network peer could be exempted)"
						}
						if !(k2 && v2) {
							return "the always-pass verifier is selected on a path that does not require ClientSpec.AlwaysAuthPass"
						}
						return ""
					}}, "always-pass verifier selected only under internal ∧ ClientSpec.AlwaysAuthPass")
				}
			})
		}
	}
	c.Floor(uses, 1)

	c.Rule("R2d", "the verifier fields Service.authVerifier and Control.authVerifier are written only by their constructors, and the always-pass verifier never flows into a field or global (it stays a per-login local)")
	nst := 0
	for _, spec := range [][3]string{{"server", "Service", "NewService"}, {"server", "Control", "NewControl"}} {
		vf := field(c, spec[0], spec[1], "authVerifier")
		if vf == nil {
			continue
		}
		ctor := p.FuncObj(spec[0], spec[2])
		for _, f := range p.RepoFuncs() {
			engine.ForEachInstr(f, func(in ssa.Instruction) {
				st, ok := in.(*ssa.Store)
				if !ok {
					return
				}
				if fv, _ := engine.LoadedField(st.Addr); fv != vf {
					return
				}
				nst++
				root := f
				for root.Parent() != nil {
					root = root.Parent()
				}
				c.Check(root.Object() == ctor, spec[1]+".authVerifier<-"+p.FuncName(f), in.Pos(), 1, nil,
					"%s.authVerifier is assigned only in %s (a later assignment would change the verifier for every subsequent peer)", spec[1], spec[2])
			})
		}
	}
	if always != nil {
		for _, f := range p.RepoFuncs() {
			engine.ForEachInstr(f, func(in ssa.Instruction) {
				st, ok := in.(*ssa.Store)
				if !ok {
					return
				}
				if _, isLocal := st.Addr.(*ssa.Alloc); isLocal {
					return
				}
				if root, _ := engine.FieldPath(st.Addr); root != nil {
					if _, fresh := engine.Unwrap(root).(*ssa.Alloc); fresh {
						return // a field of an object built here (a per-session parameter carrier), not shared state
					}
				}
				src := engine.Provenance(st.Val, engine.ProvOpts{NoArgs: true})
				for g := range src.Globals {
					if g.Object() == always {
						nst++
						c.Violate("always-pass-stored@"+p.FuncName(f), in.Pos(), []string{"stored into " + engine.Describe(st.Addr)},
							"the always-pass verifier is stored into shared state: after one exempted login every later peer is exempted")
					}
				}
			})
		}
	}
	c.Floor(nst, 2)

	c.Rule("R2b", "every call of HandleListener/handleConnection passes internal=false, except the in-process ssh-tunnel listener; handleConnection forwards its own flag unchanged")
	handleListener := method(c, "server", "Service", "HandleListener")
	handleConn := method(c, "server", "Service", "handleConnection")
	sshField := field(c, "server", "Service", "sshTunnelListener")
	sites := 0
	if handleListener != nil && handleConn != nil && sshField != nil {
		for _, f := range p.RepoFuncs() {
			for _, call := range engine.CallsTo(f, handleListener, handleConn) {
				sites++
				args := engine.CallArgs(call)
				internalArg := args[len(args)-1]
				key := fmt.Sprintf("%s>%s#%d", p.FuncName(f), engine.CalleeObj(call).Name(), sites)
				if b, ok := engine.ConstBool(internalArg); ok {
					if !b {
						c.Hold(key, call.Pos(), 1, []string{"internal=false"}, "network listener path passes internal=false")
						continue
					}
					// internal=true: the listener must be the in-process one
					src := engine.Provenance(args[1], engine.ProvOpts{})
					c.Check(src.HasField(sshField), key, call.Pos(), len(src.Values), []string{"listener: " + src.Summary()},
						"internal=true is passed only together with the in-process ssh tunnel listener (found: %s)", engine.Describe(args[1]))
					continue
				}
				// a non-constant flag must be HandleListener's own parameter, forwarded unchanged
				// (through the parameters of unexported helpers the accept loop was split into, if any)
				src := engine.DeepSources(p, internalArg)
				ok := len(src.Calls) == 0 && len(src.Fields) == 0 && len(src.Consts) == 0 && len(src.Globals) == 0
				fromListener := false
				for pr := range src.Params {
					host := pr.Parent()
					for host.Parent() != nil {
						host = host.Parent()
					}
					ho, _ := host.Object().(*types.Func)
					switch {
					case ho != nil && engine.SameFunc(ho, handleListener) && pr == pr.Parent().Params[len(pr.Parent().Params)-1]:
						fromListener = true
					case ho != nil && !ho.Exported() && host.Pkg == f.Pkg:
						// a helper's parameter: resolved to its callers' arguments above
					default:
						ok = false
					}
				}
				ok = ok && fromListener
				c.Check(ok, key, call.Pos(), len(src.Values), []string{"internal argument: " + src.Summary()},
					"non-constant internal flag is HandleListener's own parameter forwarded unchanged")
			}
		}
	}
	c.Floor(sites, 4)

	c.Rule("R2c", "ClientSpec.AlwaysAuthPass is only ever set inside pkg/ssh, from the gateway's own client-authentication flag (never a constant, never from a peer message)")
	stores := 0
	noClientAuth := (*types.Var)(nil)
	if sc := p.Named("pkg/ssh", "TunnelServer"); sc != nil {
		// the field of golang.org/x/crypto/ssh.ServerConfig
		if pk := p.ByPath["golang.org/x/crypto/ssh"]; pk != nil && pk.Types != nil {
			if o := pk.Types.Scope().Lookup("ServerConfig"); o != nil {
				if st, ok := o.Type().Underlying().(*types.Struct); ok {
					for i := 0; i < st.NumFields(); i++ {
						if st.Field(i).Name() == "NoClientAuth" {
							noClientAuth = st.Field(i)
						}
					}
				}
			}
		}
	}
	if alwaysField != nil {
		for _, f := range p.RepoFuncs() {
			engine.ForEachInstr(f, func(in ssa.Instruction) {
				st, ok := in.(*ssa.Store)
				if !ok {
					return
				}
				fv, _ := engine.LoadedField(st.Addr)
				if fv != alwaysField {
					return
				}
				stores++
				name := p.FuncName(f)
				src := engine.Provenance(st.Val, engine.ProvOpts{})
				inSSH := f.Pkg != nil && f.Pkg.Pkg.Path() == engine.ModPath+"/pkg/ssh"
				ok2 := inSSH && noClientAuth != nil && src.HasField(noClientAuth)
				c.Check(ok2, name, in.Pos(), len(src.Values), []string{"stored value: " + src.Summary()},
					"AlwaysAuthPass is derived from ssh.ServerConfig.NoClientAuth inside pkg/ssh")
			})
		}
	}
	c.Floor(stores, 1)

	// ---- R3 work-connection gate ----
	c.Rule("R3", "Control.RegisterWorkConn is reached from Service.RegisterWorkConn only when the run id was found, the plugin chain returned nil and VerifyNewWorkConn returned nil; refusals return non-nil and handleConnection closes the connection on non-nil")
	svcReg := fn(c, "server.Service.RegisterWorkConn")
	ctlReg := method(c, "server", "Control", "RegisterWorkConn")
	getByID := method(c, "server", "ControlManager", "GetByID")
	plugWork := method(c, "pkg/plugin/server", "Manager", "NewWorkConn")
	n = 0
	if svcReg != nil && ctlReg != nil && getByID != nil && plugWork != nil {
		calls := engine.CallsTo(svcReg, ctlReg)
		if len(calls) == 0 {
			c.Undecide("server.Service.RegisterWorkConn>pool-insert", svcReg.Pos(), "no call to Control.RegisterWorkConn found")
		}
		for _, call := range calls {
			n++
			c.AllPaths("server.Service.RegisterWorkConn>pool-insert", engine.PathCheck{Fn: svcReg, Sink: engine.Is(call), Pred: func(st *engine.PathState) string {
				if v, k := st.Truth(extractOf(getByID, 1)); !(k && v) {
					return "the pool insert is reachable without a successful run-id lookup"
				}
				if v, k := st.IsNil(extractOf(plugWork, 1)); !(k && v) {
					return "the pool insert is reachable on a path where the NewWorkConn plugin chain did not return nil"
				}
				if v, k := st.IsNil(resultOf(verifyWork)); !(k && v) {
					return "the pool insert is reachable on a path where VerifyNewWorkConn did not return nil"
				}
				return ""
			}}, "pool insert only after run-id lookup, plugin accept and VerifyNewWorkConn==nil")
			// the verified message is the plugin's returned content
			for _, host := range engine.HostsOf(svcReg, verifyWork) { // RegisterWorkConn itself or a helper split out of it
				for _, vc := range engine.CallsTo(host, verifyWork) {
					n++
					src := engine.Provenance(engine.CallArgs(vc)[1], engine.ProvOpts{NoArgs: true})
					c.Check(src.HasCall(plugWork), "server.Service.RegisterWorkConn>verified-message", vc.Pos(), len(src.Values),
						[]string{"verified message: " + src.Summary()}, "VerifyNewWorkConn checks the message returned by the plugin chain")
				}
			}
		}
		// refusing exits are non-nil
		n++
		c.AllPaths("server.Service.RegisterWorkConn>refusal-nonnil", engine.PathCheck{Fn: svcReg, Sink: engine.IsReturn,
			Event: func(in ssa.Instruction) string {
				if engine.IsCallTo(in, ctlReg) {
					return "insert"
				}
				return ""
			},
			Pred: func(st *engine.PathState) string {
				if st.HasEvent("insert") {
					return ""
				}
				r := st.Sink.(*ssa.Return)
				if len(r.Results) != 1 || !nonNilOnPath(st, st.Resolve(r.Results[0])) {
					return "a refusing path of Service.RegisterWorkConn may return nil: the caller would keep the unverified connection open"
				}
				return ""
			}}, "every exit that did not insert returns a non-nil error")
	}
	svcRegObj := method(c, "server", "Service", "RegisterWorkConn")
	if svcRegObj != nil {
		// whichever function hands the connection to RegisterWorkConn (handleConnection on the confirmed tree, or a
		// helper split out of it) closes that very connection when the registration is refused
		hosts := 0
		for _, hc := range p.RepoFuncs() {
			hc := hc
			for _, call := range engine.CallsTo(hc, svcRegObj) {
				n++
				hosts++
				cv := call.Value()
				connArg := engine.Unwrap(engine.CallArgs(call)[1])
				c.AllPaths(p.FuncName(hc)+">close-on-refusal", engine.PathCheck{Fn: hc, From: call, Sink: engine.IsReturn,
					Event: func(in ssa.Instruction) string {
						cc, ok := in.(ssa.CallInstruction)
						if !ok {
							return ""
						}
						if o := engine.CalleeObj(cc); o == nil || o.Name() != "Close" {
							return ""
						}
						a := engine.CallArgs(cc)
						if len(a) > 0 && engine.SameValue(engine.Unwrap(a[0]), connArg) {
							return "close"
						}
						return ""
					},
					Pred: func(st *engine.PathState) string {
						isNil, known := st.IsNil(func(v ssa.Value) bool { return v == cv })
						if known && isNil {
							return ""
						}
						if !st.HasEvent("close") {
							return "after RegisterWorkConn returned an error (or unchecked) the connection is not closed on this path"
						}
						return ""
					}}, "connection closed whenever RegisterWorkConn returns non-nil")
			}
		}
		if hosts == 0 {
			c.Undecide("server.Service.RegisterWorkConn>caller", token.NoPos, "nothing calls Service.RegisterWorkConn any more")
		}
	}
	c.Floor(n, 4)

	// ---- R4 heartbeat gate ----
	checkHeartbeatGate(c, "R4")

	// ---- R5 verifier bodies ----
	c.Rule("R5", "every `return nil` of every method of every auth.Verifier implementation (except the always-pass one) is justified: token — constant-time equality of GetAuthKey(token, m.Timestamp) with m.PrivilegeKey, or (ping/work conn only) the scope is not enabled, with the scope constant of that message; OIDC — the token verifier returned nil error (and, after login, the subject is known)")
	checkVerifierBodies(c, verifyLogin, verifyPing, verifyWork)

	// ---- R6 no residue ----
	checkRefusalBeforeState(c, "R6")

	// ---- R8 the configured scopes are the enforced scopes ----
	checkValidationExact(c, "R8")

	// ---- R9 the session table consulted for every unauthenticated work/visitor connection is read under its lock
	// (shared with C16.R1): a lookup racing with a login aborts the whole process, i.e. disturbs every session ----
	c16MapsRule(c, engine.AnalyzeLocks(c.P), "R9")

	// ---- R10 ----
	checkSSHKeyTable(c, "R10")

	// ---- R11 refused attempts leave no counter slot behind (shared with C16.R29) ----
	checkCounterBalance(c, "R11")
	// ---- R12 a work connection that arrives while its session ends is refused, not stranded (shared with C10.R4 = C11.R8) ----
	c.Rule("R12", "Control.worker: the pool is closed before it is drained and before the proxies are closed, so that an offer arriving during the teardown is refused (recovered send) and closed by handleConnection")
	checkWorkerTeardown(c)
}

// extractOf matches component idx of the result tuple of a call to obj.
func extractOf(obj *types.Func, idx int) func(ssa.Value) bool {
	return func(v ssa.Value) bool {
		call, i := engine.ResultOfCall(engine.Unwrap(v))
		return call != nil && i == idx && engine.SameFunc(engine.CalleeObj(call), obj)
	}
}

// closeOfParam tags calls x.Close() where x is the named parameter (or a free variable with that name).
func closeOfParam(name string) func(ssa.Instruction) string {
	return func(in ssa.Instruction) string {
		call, ok := in.(ssa.CallInstruction)
		if !ok {
			return ""
		}
		o := engine.CalleeObj(call)
		if o == nil || o.Name() != "Close" {
			return ""
		}
		args := engine.CallArgs(call)
		if len(args) == 0 {
			return ""
		}
		a := engine.Unwrap(args[0])
		if isParam(name)(a) || isCellOfParam(a, name) {
			return "close"
		}
		// inside a local helper closure (`abort := func(...) { workConn.Close(); … }`): the captured parameter itself
		if fv, ok := a.(*ssa.FreeVar); ok && fv.Name() == name {
			if b := engine.ClosureBinding(fv); b != nil && isParam(name)(engine.Unwrap(b)) {
				return "close"
			}
		}
		return ""
	}
}

// definitelyNonNilError: the value is an error that cannot be nil (fmt.Errorf, errors.New, a typed value boxed into the interface).
func definitelyNonNilError(v ssa.Value) bool {
	switch x := v.(type) {
	case *ssa.MakeInterface:
		return true
	case *ssa.Call:
		if o := engine.CalleeObj(x); o != nil && o.Pkg() != nil {
			full := o.Pkg().Path() + "." + o.Name()
			switch full {
			case "fmt.Errorf", "errors.New":
				return true
			}
		}
	case *ssa.UnOp:
		// load of a package-level error variable (var ErrX = errors.New(...))
		if g, ok := x.X.(*ssa.Global); ok && strings.HasPrefix(g.Name(), "Err") {
			return true
		}
	}
	return false
}

func checkVerifierBodies(c *engine.Ctx, verifyLogin, verifyPing, verifyWork *types.Func) {
	p := c.P
	iface := p.Named("pkg/auth", "Verifier")
	if iface == nil {
		c.Missing("pkg/auth.Verifier", "interface not found")
		return
	}
	it := iface.Underlying().(*types.Interface)
	getAuthKey := funcObj(c, "pkg/util/util", "GetAuthKey")
	ctEq := funcObj(c, "pkg/util/util", "ConstantTimeEqString")
	tokVerify := method(c, "pkg/auth", "TokenVerifier", "Verify")
	if getAuthKey == nil || ctEq == nil || tokVerify == nil {
		return
	}
	scopeConst := map[string]string{"VerifyPing": "HeartBeats", "VerifyNewWorkConn": "NewWorkConns"}
	tsField := map[string][3]string{"VerifyLogin": {"pkg/msg", "Login", ""}, "VerifyPing": {"pkg/msg", "Ping", ""}, "VerifyNewWorkConn": {"pkg/msg", "NewWorkConn", ""}}
	count := 0
	pk := p.Pkg("pkg/auth")
	var impls []*types.Named
	for _, name := range pk.Types.Scope().Names() {
		tn, ok := pk.Types.Scope().Lookup(name).(*types.TypeName)
		if !ok {
			continue
		}
		n, ok := tn.Type().(*types.Named)
		if !ok || types.IsInterface(n) {
			continue
		}
		if types.Implements(types.NewPointer(n), it) || types.Implements(n, it) {
			impls = append(impls, n)
		}
	}
	// implementations outside pkg/auth would be a second way to pass: enumerate the whole repo
	for _, rp := range p.Pkgs {
		if rp == pk || rp.Types == nil {
			continue
		}
		for _, name := range rp.Types.Scope().Names() {
			tn, ok := rp.Types.Scope().Lookup(name).(*types.TypeName)
			if !ok {
				continue
			}
			n, ok := tn.Type().(*types.Named)
			if !ok || types.IsInterface(n) {
				continue
			}
			if types.Implements(types.NewPointer(n), it) {
				c.Violate(rp.PkgPath+"."+name, tn.Pos(), nil, "a type outside pkg/auth implements auth.Verifier: its verification logic is not covered by the confirmed instances")
			}
		}
	}
	for _, n := range impls {
		tname := n.Obj().Name()
		for _, mname := range []string{"VerifyLogin", "VerifyPing", "VerifyNewWorkConn"} {
			mo := p.MethodObj("pkg/auth", tname, mname)
			f := p.FuncOf(mo)
			if f == nil {
				continue
			}
			key := "pkg/auth." + tname + "." + mname
			if tname == "alwaysPass" {
				// the one intentionally vacuous verifier; its use is confined by R2
				c.Hold(key, f.Pos(), 1, nil, "always-pass verifier (use confined by C04.R2)")
				continue
			}
			count++
			msgT := tsField[mname]
			tsF := p.Field(msgT[0], msgT[1], "Timestamp")
			pkF := p.Field(msgT[0], msgT[1], "PrivilegeKey")
			verifyNilReturns(c, key, f, func(st *engine.PathState, depth int) string {
				return justifyNil(c, st, f, mname, scopeConst[mname], getAuthKey, ctEq, tokVerify, tsF, pkF)
			}, 0)
		}
	}
	c.Floor(count, 6)
}

// verifyNilReturns checks every return of f: nil constants need justification by just; call results delegate to a
// repo function that is checked recursively; anything else must be a definitely non-nil error.
func verifyNilReturns(c *engine.Ctx, key string, f *ssa.Function, just func(*engine.PathState, int) string, depth int) {
	c.AllPaths(key, engine.PathCheck{Fn: f, Sink: engine.IsReturn, Pred: func(st *engine.PathState) string {
		r := st.Sink.(*ssa.Return)
		if len(r.Results) == 0 {
			return "verifier method without result"
		}
		v := st.Resolve(r.Results[len(r.Results)-1])
		if engine.IsNilConst(v) {
			return just(st, depth)
		}
		if definitelyNonNilError(v) {
			return ""
		}
		if call, ok := v.(*ssa.Call); ok {
			cf := engine.CalleeFn(call)
			if cf != nil && cf.Blocks != nil && cf.Pkg == f.Pkg && depth < 2 {
				// delegated verdict: the helper's own nil returns must be justified by an OIDC verification
				sub := key + ">" + cf.Name()
				ok := true
				c2 := c
				q := &engine.PathQuery{Fn: cf, Sink: engine.IsReturn}
				states, err := q.Run()
				if err != nil {
					return "cannot explore delegated verifier " + sub
				}
				for _, s2 := range states {
					r2 := s2.Sink.(*ssa.Return)
					v2 := s2.Resolve(r2.Results[len(r2.Results)-1])
					if engine.IsNilConst(v2) {
						if why := justifyDelegated(c2, s2); why != "" {
							ok = false
							return "delegated verifier " + cf.Name() + ": " + why
						}
					} else if !definitelyNonNilError(v2) {
						return "delegated verifier " + cf.Name() + " returns an unclassified value"
					}
				}
				_ = ok
				return ""
			}
		}
		return "returns an error value the rule cannot classify as nil-with-justification or non-nil: " + engine.Describe(v)
	}}, "every nil return is justified by a successful verification or a disabled scope")
}

func justifyDelegated(c *engine.Ctx, st *engine.PathState) string {
	tokVerify := c.P.MethodObj("pkg/auth", "TokenVerifier", "Verify")
	if v, k := st.IsNil(extractOf(tokVerify, 1)); !(k && v) {
		return "returns nil without a successful OIDC token verification"
	}
	// the subject must be among those seen at login
	if v, k := st.Truth(func(v ssa.Value) bool {
		call, _ := engine.ResultOfCall(v)
		if call == nil {
			return false
		}
		o := engine.CalleeObj(call)
		return o != nil && o.Name() == "Contains" && o.Pkg() != nil && o.Pkg().Path() == "slices"
	}); !(k && v) {
		return "returns nil without requiring the token subject to be one seen at login"
	}
	return ""
}

func justifyNil(c *engine.Ctx, st *engine.PathState, f *ssa.Function, mname, scope string, getAuthKey, ctEq, tokVerify *types.Func, tsF, pkF *types.Var) string {
	// (a) OIDC login: verifier.Verify returned nil error
	if v, k := st.IsNil(extractOf(tokVerify, 1)); k && v {
		return ""
	}
	// (b) token: ConstantTimeEqString(GetAuthKey(token, m.Timestamp), m.PrivilegeKey) is true. The comparison may sit
	// in the method or in helpers explored inline (a key type with `matches`); the operands are identified by where they
	// come from: one derives from GetAuthKey over the configured token and this message's Timestamp, the other is this
	// message's PrivilegeKey.
	p := c.P
	throughHelpers := func(v ssa.Value) *ssa.Call {
		for i := 0; i < 4; i++ {
			if cl, _ := engine.ResultOfCall(v); cl != nil && engine.SameFunc(engine.CalleeObj(cl), ctEq) {
				return cl
			}
			if r := st.Returned(v); r != nil && r != v {
				v = st.Resolve(r)
				continue
			}
			break
		}
		return nil
	}
	isTokenField := func(fv *types.Var) bool {
		if fv.Pkg() == nil {
			return false
		}
		if strings.HasSuffix(fv.Pkg().Path(), "/pkg/config/v1") && fv.Name() == "Token" {
			return true
		}
		return strings.HasSuffix(fv.Pkg().Path(), "/pkg/auth") && strings.EqualFold(fv.Name(), "token")
	}
	okKey := false
	for _, l := range st.Lits {
		if l.Op != 0 || !l.Val {
			continue
		}
		call := throughHelpers(l.X)
		if call == nil || !engine.SameFunc(engine.CalleeObj(call), ctEq) || len(call.Call.Args) != 2 {
			continue
		}
		sa, sb := st.DeepSources(p, call.Call.Args[0], false), st.DeepSources(p, call.Call.Args[1], false)
		if os.Getenv("FRPSA_DEBUG_C04") != "" {
			fmt.Fprintf(os.Stderr, "C04 %s: a=%s | b=%s\n", mname, sa.Summary(), sb.Summary())
		}
		isKey := func(s *engine.Sources, arg ssa.Value) bool {
			if !s.HasCall(getAuthKey) || !s.HasField(tsF) {
				return false
			}
			for fv := range s.Fields {
				if isTokenField(fv) {
					return true
				}
			}
			// the secret may live in a wrapper type: where it was stored from decides (the configured Token)
			for fv := range st.DeepSources(p, arg, true).Fields {
				if isTokenField(fv) {
					return true
				}
			}
			return false
		}
		isPK := func(s *engine.Sources) bool { return s.HasField(pkF) && !s.HasCall(getAuthKey) }
		if (isKey(sa, call.Call.Args[0]) && isPK(sb)) || (isKey(sb, call.Call.Args[1]) && isPK(sa)) {
			okKey = true
		}
	}
	if okKey {
		return ""
	}
	// (c) scope not enabled (ping / work conn only), with the scope constant of this message: a membership test of the
	// configured additional scopes came out false. The test is slices.Contains, or a helper that is one (explored inline)
	// or that is a plain membership loop.
	if scope != "" {
		if os.Getenv("FRPSA_DEBUG_C04") != "" {
			for _, l := range st.Lits {
				fmt.Fprintf(os.Stderr, "C04 %s lit op=%v val=%v X=%s Y=%v ret=%v\n", mname, l.Op, l.Val, engine.Describe(l.X), l.Y, st.Returned(l.X))
			}
		}
		for _, l := range st.Lits {
			if l.Op != 0 || l.Val {
				continue
			}
			list, elem, ok := membershipTest(st, l.X)
			if !ok {
				continue
			}
			want, _ := c.P.Obj("pkg/config/v1", "AuthScope"+scope).(*types.Const)
			es := st.DeepSources(p, elem, false)
			constOK := want != nil && len(es.Consts) == 1 && es.Consts[want.Val().ExactString()]
			listOK := false
			for fv := range st.DeepSources(p, list, true).Fields {
				if fv.Pkg() == nil {
					continue
				}
				if strings.HasSuffix(fv.Pkg().Path(), "/pkg/auth") && fv.Name() == "additionalAuthScopes" ||
					strings.HasSuffix(fv.Pkg().Path(), "/pkg/config/v1") && fv.Name() == "AdditionalScopes" {
					listOK = true
				}
			}
			if constOK && listOK {
				return ""
			}
			return fmt.Sprintf("%s returns nil because a scope is absent, but the scope tested is not AuthScope%s of the configured additional scopes", mname, scope)
		}
	}
	return mname + " can return nil on a path with no successful key comparison, no successful OIDC verification and no disabled-scope test"
}

// checkHeartbeatGate (C04.R4, C14.R2): server-side liveness is refreshed only by verified heartbeats.
func checkHeartbeatGate(c *engine.Ctx, rule string) {
	p := c.P
	verifyPing := method(c, "pkg/auth", "Verifier", "VerifyPing")
	newControl := funcObj(c, "server", "NewControl")
	if verifyPing == nil || newControl == nil {
		return
	}
	n := 0
	c.Rule(rule, "Control.lastPing is refreshed in handlePing only after the Ping plugin chain and VerifyPing returned nil; the only other store is in the constructor")
	handlePing := fn(c, "server.Control.handlePing")
	lastPing := field(c, "server", "Control", "lastPing")
	plugPing := method(c, "pkg/plugin/server", "Manager", "Ping")
	n = 0
	if handlePing != nil && lastPing != nil && plugPing != nil {
		isStore := func(in ssa.Instruction) bool {
			call, ok := in.(ssa.CallInstruction)
			if !ok {
				return false
			}
			o := engine.CalleeObj(call)
			if o == nil || o.Name() != "Store" || o.Pkg() == nil || o.Pkg().Path() != "sync/atomic" {
				return false
			}
			args := engine.CallArgs(call)
			if len(args) == 0 {
				return false
			}
			fv, _ := engine.LoadedField(args[0])
			return fv == lastPing
		}
		var storeFns []string
		for _, f := range p.RepoFuncs() {
			engine.ForEachInstr(f, func(in ssa.Instruction) {
				if !isStore(in) {
					return
				}
				n++
				name := p.FuncName(f)
				storeFns = append(storeFns, name)
				switch {
				case f == handlePing:
					c.AllPaths(name, engine.PathCheck{Fn: f, Sink: engine.Is(in), Pred: func(st *engine.PathState) string {
						if v, k := st.IsNil(extractOf(plugPing, 1)); !(k && v) {
							return "liveness is refreshed on a path where the Ping plugin chain did not return nil"
						}
						if v, k := st.IsNil(resultOf(verifyPing)); !(k && v) {
							return "liveness is refreshed on a path where VerifyPing did not return nil (an unauthenticated heartbeat keeps the session alive)"
						}
						return ""
					}}, "lastPing refreshed only after VerifyPing==nil")
				case f.Object() == newControl:
					c.Hold(name, in.Pos(), 1, nil, "constructor initialises lastPing")
				default:
					c.Violate(name, in.Pos(), nil, "lastPing is refreshed outside handlePing/NewControl: liveness can be extended without a verified heartbeat")
				}
			})
		}
		sort.Strings(storeFns)
		c.Note("lastPing stores: %s", strings.Join(storeFns, ", "))
	}
	c.Floor(n, 2)

}

// membershipTest: is v the result of "list contains elem"? — slices.Contains / lo.Contains, a helper whose inlined return is
// such a call, or a repository function that is a plain membership loop over one parameter.
func membershipTest(st *engine.PathState, v ssa.Value) (list, elem ssa.Value, ok bool) {
	for i := 0; i < 4; i++ {
		call, _ := engine.ResultOfCall(v)
		if call == nil {
			return nil, nil, false
		}
		o := engine.CalleeObj(call)
		args := engine.CallArgs(call)
		if o != nil && o.Pkg() != nil && o.Name() == "Contains" && (o.Pkg().Path() == "slices" || strings.HasSuffix(o.Pkg().Path(), "samber/lo")) && len(args) == 2 {
			return args[0], args[1], true
		}
		if r := st.Returned(v); r != nil && r != v {
			if rc, _ := engine.ResultOfCall(st.Resolve(r)); rc != nil {
				v = st.Resolve(r)
				continue
			}
		}
		if cf := engine.CalleeFn(call); cf != nil {
			if li, ei, isLoop := membershipLoop(cf); isLoop && li < len(args) && ei < len(args) {
				return args[li], args[ei], true
			}
		}
		return nil, nil, false
	}
	return nil, nil, false
}

// membershipLoop recognises `for _, x := range p_i { if x == p_j { return true } }; return false` (in any loop spelling): no
// effects, boolean constant results, the single `return true` guarded by an equality between p_j and an element of p_i.
func membershipLoop(f *ssa.Function) (listIdx, elemIdx int, ok bool) {
	if f.Blocks == nil || f.Signature.Results().Len() != 1 {
		return 0, 0, false
	}
	var trues []*ssa.Return
	pure := true
	engine.ForEachInstr(f, func(in ssa.Instruction) {
		switch x := in.(type) {
		case *ssa.Store, *ssa.MapUpdate, *ssa.Send, *ssa.Go, *ssa.Defer, *ssa.Panic:
			pure = false
		case *ssa.Call:
			if b, isB := x.Call.Value.(*ssa.Builtin); !isB || b.Name() != "len" {
				pure = false
			}
		case *ssa.Return:
			b, isC := engine.ConstBool(x.Results[0])
			if !isC {
				pure = false
			} else if b {
				trues = append(trues, x)
			}
		}
	})
	if !pure || len(trues) != 1 {
		return 0, 0, false
	}
	blk := trues[0].Block()
	if len(blk.Preds) != 1 {
		return 0, 0, false
	}
	iff, isIf := blk.Preds[0].Instrs[len(blk.Preds[0].Instrs)-1].(*ssa.If)
	if !isIf || blk.Preds[0].Succs[0] != blk {
		return 0, 0, false
	}
	bo, isB := iff.Cond.(*ssa.BinOp)
	if !isB || bo.Op != token.EQL {
		return 0, 0, false
	}
	paramIdx := func(v ssa.Value) int {
		for i, pr := range f.Params {
			if v == ssa.Value(pr) {
				return i
			}
		}
		return -1
	}
	elemOf := func(v ssa.Value) int {
		src := engine.Provenance(v, engine.ProvOpts{})
		for pr := range src.Params {
			if _, isSlice := pr.Type().Underlying().(*types.Slice); isSlice {
				return paramIdx(pr)
			}
		}
		return -1
	}
	for _, pair := range [][2]ssa.Value{{bo.X, bo.Y}, {bo.Y, bo.X}} {
		if ei := paramIdx(pair[0]); ei >= 0 {
			if li := elemOf(pair[1]); li >= 0 && li != ei {
				return li, ei, true
			}
		}
	}
	return 0, 0, false
}

// checkSSHKeyTable (R10): on the ssh gateway, a successful public-key authentication *is* the credential check of the
// internal listener (the login that follows is exempted from the token). The callback accepts an offered key only when
// it was found in the table of authorised keys, and that table is built from the file within the very call — a table
// that outlives the call (filled again but never emptied) keeps accepting keys the operator has removed.
func checkSSHKeyTable(c *engine.Ctx, rule string) {
	c.Rule(rule, "ssh gateway: every accepting exit of ServerConfig.PublicKeyCallback lies on a path where a comma-ok lookup keyed by the offered key succeeded, in a map that was made during this call (by the callback or a function it calls) or cleared before it was filled")
	p := c.P
	n := 0
	for _, f := range p.RepoFuncs() {
		if f.Pkg == nil || f.Pkg.Pkg.Path() != engine.ModPath+"/pkg/ssh" {
			continue
		}
		engine.ForEachInstr(f, func(in ssa.Instruction) {
			st, ok := in.(*ssa.Store)
			if !ok {
				return
			}
			fv, _ := engine.LoadedField(st.Addr)
			if fv == nil || fv.Name() != "PublicKeyCallback" {
				return
			}
			cb := funcValueOf(p, st.Val)
			if cb == nil {
				c.Undecide(p.FuncName(f)+">PublicKeyCallback", in.Pos(), "the public-key callback is not a function the analysis can resolve")
				return
			}
			n++
			var keyParam *ssa.Parameter
			for _, pr := range cb.Params {
				if engine.IsNamed(pr.Type(), "golang.org/x/crypto/ssh", "PublicKey") {
					keyParam = pr
				}
			}
			c.AllPaths(p.FuncName(cb)+">accepts-listed-key", engine.PathCheck{Fn: cb, Sink: engine.IsReturn, Pred: func(ps *engine.PathState) string {
				r := ps.Sink.(*ssa.Return)
				if len(r.Results) != 2 {
					return ""
				}
				errRes := ps.Resolve(r.Results[1])
				if !engine.IsNilConst(errRes) {
					if isNil, known := ps.NilFact(errRes); !(known && isNil) {
						return "" // a refusing exit
					}
				}
				var table ssa.Value
				for _, l := range ps.Lits {
					if l.Op != token.ILLEGAL || !l.Val {
						continue
					}
					ex, ok := l.X.(*ssa.Extract)
					if !ok || ex.Index != 1 {
						continue
					}
					lk, ok := ex.Tuple.(*ssa.Lookup)
					if !ok || !lk.CommaOk {
						continue
					}
					if _, isMap := lk.X.Type().Underlying().(*types.Map); !isMap {
						continue
					}
					if keyParam != nil {
						if src := engine.Provenance(lk.Index, engine.ProvOpts{}); !src.Params[keyParam] {
							continue
						}
					}
					table = lk.X
				}
				if table == nil {
					return "the offered key is accepted on a path where it was not found in the table of authorised keys"
				}
				// the table is made within this call …
				src := engine.DeepSources(p, table)
				stale := ""
				made := 0
				for v := range src.Values {
					mm, ok := v.(*ssa.MakeMap)
					if !ok {
						continue
					}
					made++
					if par := mm.Parent(); par != cb && !fnReachesFn(cb, par) {
						stale = p.FuncName(par)
					}
				}
				if made == 0 {
					for g := range src.Globals {
						stale = "package variable " + g.Name()
					}
					for fv := range src.Fields {
						if _, isMap := fv.Type().Underlying().(*types.Map); isMap {
							stale = "field " + fv.Name()
						}
					}
				}
				if stale == "" {
					return ""
				}
				// … or emptied before it is filled
				cleared := false
				for _, g := range append([]*ssa.Function{cb}, allAnon(cb)...) {
					engine.ForEachInstr(g, func(x ssa.Instruction) {
						if call, ok := x.(*ssa.Call); ok {
							if b, ok := call.Call.Value.(*ssa.Builtin); ok && b.Name() == "clear" {
								cleared = true
							}
						}
					})
				}
				if cleared {
					return ""
				}
				return "the table of authorised keys outlives the call (made in " + stale + ") and is never emptied: a key removed from the file keeps authenticating until frps restarts"
			}}, "accepted ⇒ listed in the file as it is now")
		})
	}
	c.Floor(n, 1)
}

// checkRefusalBeforeState (C04.R6, shared as C14.R16): a login that RegisterControl refuses leaves nothing behind — every
// error exit precedes ControlManager.Add and Control.Start (an entry that was added and never started occupies its run
// id for ever: the client's next login waits for a control that will never finish closing).
func checkRefusalBeforeState(c *engine.Ctx, rule string) {
	regCtl := fn(c, "server.Service.RegisterControl")
	cmAdd := method(c, "server", "ControlManager", "Add")
	ctlStart := method(c, "server", "Control", "Start")
	c.Rule(rule, "refusing exits of Service.RegisterControl happen before any session state exists")
	if regCtl != nil {
		evObjs := map[*types.Func]string{cmAdd: "ControlManager.Add", ctlStart: "Control.Start"}
		c.AllPaths("server.Service.RegisterControl", engine.PathCheck{Fn: regCtl, Sink: engine.IsReturn,
			Event: func(in ssa.Instruction) string {
				if call, ok := in.(ssa.CallInstruction); ok {
					if o := engine.CalleeObj(call); o != nil {
						for k, v := range evObjs {
							if engine.SameFunc(o, k) {
								return v
							}
						}
					}
				}
				return ""
			},
			Pred: func(st *engine.PathState) string {
				r := st.Sink.(*ssa.Return)
				if len(r.Results) == 1 && engine.IsNilConst(st.Resolve(r.Results[0])) {
					if !st.HasEvent("ControlManager.Add") || !st.HasEvent("Control.Start") {
						return "RegisterControl returns success without having added and started the control"
					}
					return ""
				}
				if len(st.Events) > 0 {
					return "RegisterControl returns an error after session state was created (" + st.Events[0].Tag + "): a refused login leaves state behind"
				}
				return ""
			}}, "error exits precede ControlManager.Add/Control.Start; success exits follow both")
		c.Floor(1, 1)
	}

}
