package rules

import (
	"fmt"
	"go/token"
	"go/types"
	"strings"

	"golang.org/x/tools/go/ssa"

	"frpsa/engine"
)

func init() {
	Registry["C05"] = &Property{
		Title:       "Configured encryption really protects the wire; TLS identity rules are enforced",
		Run:         runC05,
		Explanation: "Decides structural necessary conditions: (R1) the server's first-byte sniffer returns a plaintext connection only when TLS is not forced, the accept loop passes the configured Force flag, closes and skips the connection on error, and a trusted CA forces TLS; (R2) the server TLS config requires and verifies client certificates (exactly tls.RequireAndVerifyClientCert, with the CA pool) whenever a CA is given; the client config skips verification only without a CA, uses the CA pool and the given server name; (R3) in realConnect every dial with TLS enabled carries the built TLS config (tcp/websocket/wss branches), TLS is enabled by the flag or by protocol wss, and the QUIC path always builds a TLS config; (R4) both ends build the control channel on a crypto stream keyed by the token exactly under their 'encrypted' flag (server: not internal; client: not ssh-tunnel); (R5) per-proxy encryption is honoured in every wrapper stack (shared with C01.R1: layer applied under the flag, every consumer receives it, key class agrees); (R6) secret fields (token, OIDC secret, secret keys, HTTP passwords) never flow into protocol message fields other than the registration message carried on the encrypted control channel, nor into log/format calls, nor are written to a connection; NewProxy messages are sent only through the dispatcher; (R7) privilege and sign keys in messages are GetAuthKey digests (or the OIDC access token). Not decided: that ciphertext is unintelligible, TLS library behaviour.",
		Assumptions: commonAssumptions,
	}
}

func runC05(c *engine.Ctx) {
	p := c.P

	// ---- R1 forced TLS ----
	c.Rule("R1", "CheckAndEnableTLSServerConnWithTimeout returns a non-TLS connection only when tlsOnly is false; HandleListener passes TLS.Force, and on error closes the raw connection and continues; ServerTransportConfig.Complete forces TLS when a trusted CA is configured")
	n := 0
	if f := fn(c, "pkg/util/net.CheckAndEnableTLSServerConnWithTimeout"); f != nil {
		n++
		c.AllPaths("pkg/util/net.CheckAndEnableTLSServerConnWithTimeout", engine.PathCheck{Fn: f, Sink: engine.IsReturn, Pred: func(st *engine.PathState) string {
			r := st.Sink.(*ssa.Return)
			ev := st.Resolve(r.Results[3])
			if !engine.IsNilConst(ev) {
				if isNil, known := st.IsNil(func(v ssa.Value) bool { return v == ev }); !(known && isNil) {
					return ""
				}
			}
			out := engine.Unwrap(st.Resolve(r.Results[0]))
			if cl, _ := engine.ResultOfCall(out); cl != nil {
				if o := engine.CalleeObj(cl); o != nil && o.Pkg() != nil && o.Pkg().Path() == "crypto/tls" && o.Name() == "Server" {
					return ""
				}
			}
			if v, k := st.Truth(isParam("tlsOnly")); !(k && !v) {
				return "a plaintext connection is returned on a path where tlsOnly was not found false: a peer without TLS gets its messages interpreted on a TLS-only server"
			}
			return ""
		}}, "plaintext only when TLS is not forced")
	}
	if f := fn(c, "server.Service.HandleListener"); f != nil {
		check := funcObj(c, "pkg/util/net", "CheckAndEnableTLSServerConnWithTimeout")
		forceF := field(c, "pkg/config/v1", "TLSServerConfig", "Force")
		hc := method(c, "server", "Service", "handleConnection")
		// the probe may sit in a step split out of HandleListener (a helper that returns the connection and the error)
		type probeSite struct {
			g    *ssa.Function
			call *ssa.Call
		}
		var sites []probeSite
		for _, g := range append([]*ssa.Function{f}, allAnon(f)...) {
			for _, ci := range engine.CallsTo(g, check) {
				if cl, ok := ci.(*ssa.Call); ok {
					sites = append(sites, probeSite{g, cl})
				}
			}
		}
		for _, ps := range sites {
			call := ps.call
			f := ps.g
			n++
			src := engine.Provenance(call.Call.Args[2], engine.ProvOpts{})
			c.Check(src.HasField(forceF) && len(src.Consts) == 0, "server.Service.HandleListener>force-flag", call.Pos(), 2, []string{src.Summary()}, "the sniffer is told the configured TLS.Force value")
			n++
			c.AllPaths("server.Service.HandleListener>error-closes", engine.PathCheck{Fn: f, From: call, KeepLoopFacts: true,
				Sink: func(in ssa.Instruction) bool {
					if in == ssa.Instruction(call) || engine.IsReturn(in) {
						return true
					}
					if g, ok := in.(*ssa.Go); ok {
						_ = g
						return true
					}
					return engine.IsCallTo(in, hc)
				},
				Event: func(in ssa.Instruction) string {
					if cc, ok := in.(ssa.CallInstruction); ok && isCloserClose(cc) {
						return "close"
					}
					return ""
				},
				Pred: func(st *engine.PathState) string {
					isNil, known := st.IsNil(func(v ssa.Value) bool { cl, i := engine.ResultOfCall(v); return cl == call && i == 3 })
					if !known {
						return "the sniffer's error is not examined"
					}
					if !isNil {
						if _, isGo := st.Sink.(*ssa.Go); isGo || engine.IsCallTo(st.Sink, hc) {
							return "a connection refused by the TLS check is handed to protocol handling"
						}
						if !st.HasEvent("close") {
							// a split-out step may hand the refusal back to its caller as an error
							if r, isRet := st.Sink.(*ssa.Return); isRet && f.Parent() == nil {
								for _, rv := range r.Results {
									if types.Identical(rv.Type(), types.Universe.Lookup("error").Type()) {
										if isN, kn := st.NilFact(st.Resolve(rv)); !(kn && isN) && !engine.IsNilConst(st.Resolve(rv)) {
											return ""
										}
									}
								}
							}
							return "a connection refused by the TLS check is not closed"
						}
					}
					return ""
				}}, "refused connections are closed and never handled")
		}
	}
	if f := fn(c, "pkg/config/v1.ServerTransportConfig.Complete"); f != nil {
		forceF := field(c, "pkg/config/v1", "TLSServerConfig", "Force")
		caF := field(c, "pkg/config/v1", "TLSConfig", "TrustedCaFile")
		n++
		c.AllPaths("pkg/config/v1.ServerTransportConfig.Complete", engine.PathCheck{Fn: f, Sink: engine.IsReturn,
			Event: func(in ssa.Instruction) string {
				if st, ok := in.(*ssa.Store); ok {
					if lf, _ := engine.LoadedField(st.Addr); lf == forceF {
						if b, ok := engine.ConstBool(st.Val); ok && b {
							return "force"
						}
						return "unforce"
					}
				}
				return ""
			},
			Pred: func(st *engine.PathState) string {
				eq, k := st.Equal(loadOfField(caF), func(v ssa.Value) bool { s, ok := engine.ConstString(v); return ok && s == "" })
				if !k {
					return "Complete does not look at the trusted CA setting"
				}
				if !eq && !st.HasEvent("force") {
					return "a trusted CA is configured but TLS is not forced: peers may skip TLS (and client certificates) entirely"
				}
				if st.HasEvent("unforce") {
					return "Complete can switch forced TLS off"
				}
				return ""
			}}, "trusted CA ⇒ TLS forced")
	}
	c.Floor(n, 4)

	// ---- R2 certificate policy ----
	c.Rule("R2", "NewServerTLSConfig sets ClientAuth = tls.RequireAndVerifyClientCert and ClientCAs when a CA path is given; NewClientTLSConfig sets InsecureSkipVerify=true only without a CA, RootCAs from the CA, and ServerName from its parameter")
	n = 0
	requireAndVerify := int64(4) // tls.RequireAndVerifyClientCert
	if pk := p.ByPath["crypto/tls"]; pk != nil && pk.Types != nil {
		if k, ok := pk.Types.Scope().Lookup("RequireAndVerifyClientCert").(*types.Const); ok {
			fmt.Sscan(k.Val().ExactString(), &requireAndVerify)
		}
	}
	fieldStoreEvents := func(names ...string) func(ssa.Instruction) string {
		return func(in ssa.Instruction) string {
			st, ok := in.(*ssa.Store)
			if !ok {
				return ""
			}
			lf, _ := engine.LoadedField(st.Addr)
			if lf == nil {
				return ""
			}
			for _, nm := range names {
				if lf.Name() == nm {
					switch v := st.Val.(type) {
					case *ssa.Const:
						if v.Value != nil {
							return nm + "=" + v.Value.ExactString()
						}
						return nm + "=nil"
					default:
						return nm + "=value"
					}
				}
			}
			return ""
		}
	}
	emptyStr := func(v ssa.Value) bool { s, ok := engine.ConstString(v); return ok && s == "" }
	if f := fn(c, "pkg/transport.NewServerTLSConfig"); f != nil {
		n++
		c.AllPaths("pkg/transport.NewServerTLSConfig", engine.PathCheck{Fn: f, Sink: engine.IsReturn, Event: fieldStoreEvents("ClientAuth", "ClientCAs"), Pred: func(st *engine.PathState) string {
			r := st.Sink.(*ssa.Return)
			if !engine.IsNilConst(st.Resolve(r.Results[1])) {
				return ""
			}
			eq, k := st.Equal(isParam("caPath"), emptyStr)
			if !k {
				return "the server TLS config is returned without looking at the CA path"
			}
			if !eq {
				if !st.HasEvent(fmt.Sprintf("ClientAuth=%d", requireAndVerify)) {
					return "with a trusted CA the server does not require and verify client certificates (a peer without certificate completes the handshake)"
				}
				if !st.HasEvent("ClientCAs=value") {
					return "with a trusted CA the server does not install the CA pool for client certificates"
				}
			}
			return ""
		}}, "CA ⇒ RequireAndVerifyClientCert + ClientCAs")
	}
	if f := fn(c, "pkg/transport.NewClientTLSConfig"); f != nil {
		n++
		c.AllPaths("pkg/transport.NewClientTLSConfig", engine.PathCheck{Fn: f, Sink: engine.IsReturn, Event: fieldStoreEvents("InsecureSkipVerify", "RootCAs", "ServerName"), Pred: func(st *engine.PathState) string {
			r := st.Sink.(*ssa.Return)
			if !engine.IsNilConst(st.Resolve(r.Results[1])) {
				return ""
			}
			eq, k := st.Equal(isParam("caPath"), emptyStr)
			if !k {
				return "the client TLS config is returned without looking at the CA path"
			}
			if !eq {
				if st.HasEvent("InsecureSkipVerify=true") && st.EventIndex("InsecureSkipVerify=true") > st.EventIndex("InsecureSkipVerify=false") {
					return "with a trusted CA the client skips server certificate verification"
				}
				if !st.HasEvent("RootCAs=value") {
					return "with a trusted CA the client does not install it as root pool"
				}
			}
			if !st.HasEvent("ServerName=value") {
				return "the expected server name is not set"
			}
			return ""
		}}, "skip verification only without CA; RootCAs and ServerName set")
		// ServerName is the parameter
		n++
		okSN := false
		engine.ForEachInstr(f, func(in ssa.Instruction) {
			if st, ok := in.(*ssa.Store); ok {
				if lf, _ := engine.LoadedField(st.Addr); lf != nil && lf.Name() == "ServerName" && isParam("serverName")(st.Val) {
					okSN = true
				}
			}
		})
		c.Check(okSN, "pkg/transport.NewClientTLSConfig>server-name", f.Pos(), 1, nil, "ServerName is the serverName parameter")
	}
	c.Floor(n, 3)

	// ---- R3 client negotiates TLS ----
	c.Rule("R3", "client realConnect: TLS is enabled by TLS.Enable or protocol wss; with TLS enabled a config is built from the configured cert, key, CA and server name; every branch that dials passes that config through WithTLSConfig / WithTLSConfigAndPriority; the QUIC path always builds a TLS config")
	n = 0
	if f := fn(c, "client.defaultConnectorImpl.realConnect"); f != nil {
		newCfg := funcObj(c, "pkg/transport", "NewClientTLSConfig")
		var dial ssa.Instruction
		engine.ForEachInstr(f, func(in ssa.Instruction) {
			if call, ok := in.(*ssa.Call); ok && calleeIs(call, "golib/net", "DialContext") {
				dial = in
			}
		})
		if dial == nil || newCfg == nil {
			c.Undecide("client.defaultConnectorImpl.realConnect", f.Pos(), "dial not found")
		} else {
			n++
			c.AllPaths("client.defaultConnectorImpl.realConnect>tls-option", engine.PathCheck{Fn: f, Sink: engine.Is(dial),
				Event: func(in ssa.Instruction) string {
					call, ok := in.(*ssa.Call)
					if !ok {
						return ""
					}
					if calleeIs(call, "golib/net", "WithTLSConfig", "WithTLSConfigAndPriority") {
						arg := call.Call.Args[len(call.Call.Args)-1]
						src := engine.Provenance(arg, engine.ProvOpts{})
						if src.HasCall(newCfg) {
							return "tls-option"
						}
						return "tls-option-other"
					}
					if engine.SameFunc(engine.CalleeObj(call), newCfg) {
						return "built"
					}
					return ""
				},
				Pred: func(st *engine.PathState) string {
					if !st.HasEvent("tls-option") {
						return "the server is dialled without the TLS option: with TLS enabled the control channel would run in clear"
					}
					// enabled ⇒ built
					enable, k := st.Truth(func(v ssa.Value) bool {
						cl, _ := engine.ResultOfCall(v)
						if cl == nil {
							return false
						}
						src := engine.Provenance(cl, engine.ProvOpts{})
						for fv := range src.Fields {
							if fv.Name() == "Enable" {
								return true
							}
						}
						return false
					})
					wss, kw := st.Equal(func(v ssa.Value) bool { f, _ := engine.LoadedField(v); return f != nil && f.Name() == "Protocol" }, func(v ssa.Value) bool { s, ok := engine.ConstString(v); return ok && s == "wss" })
					_ = enable
					_ = k
					if kw && wss && !st.HasEvent("built") {
						return "protocol wss dials without building a TLS configuration"
					}
					return ""
				}}, "every dial carries the TLS option built from the configuration")
			// enabled flag ⇒ config built
			n++
			var build ssa.CallInstruction
			for _, cc := range engine.CallsTo(f, newCfg) {
				build = cc
			}
			if build == nil {
				c.Violate("client.defaultConnectorImpl.realConnect>build", f.Pos(), nil, "no TLS configuration is ever built")
			} else {
				args := engine.CallArgs(build)
				want := []string{"CertFile", "KeyFile", "TrustedCaFile"}
				okArgs := true
				for i, w := range want {
					src := engine.Provenance(args[i], engine.ProvOpts{})
					found := false
					for fv := range src.Fields {
						if fv.Name() == w {
							found = true
						}
					}
					if !found {
						okArgs = false
					}
				}
				c.Check(okArgs, "client.defaultConnectorImpl.realConnect>build", build.Pos(), 3, nil, "the TLS configuration is built from the configured certificate, key and trusted CA")
			}
		}
	}
	if f := fn(c, "client.defaultConnectorImpl.Open"); f != nil {
		newCfg := funcObj(c, "pkg/transport", "NewClientTLSConfig")
		var qdial ssa.Instruction
		engine.ForEachInstr(f, func(in ssa.Instruction) {
			if call, ok := in.(*ssa.Call); ok {
				if o := engine.CalleeObj(call); o != nil && o.Name() == "DialAddr" {
					qdial = in
				}
			}
		})
		if qdial != nil && newCfg != nil {
			n++
			call := qdial.(*ssa.Call)
			c.AllPaths("client.defaultConnectorImpl.Open>quic-tls", engine.PathCheck{Fn: f, Sink: engine.Is(qdial), Track: []ssa.Value{call.Call.Args[2]}, Pred: func(st *engine.PathState) string {
				v := st.Resolve(call.Call.Args[2])
				if cl, i := engine.ResultOfCall(v); !(cl != nil && i == 0 && engine.SameFunc(engine.CalleeObj(cl), newCfg)) {
					return "the QUIC dial does not use a TLS configuration built by NewClientTLSConfig"
				}
				return ""
			}}, "QUIC always dials with a built TLS config")
		}
	}
	c.Floor(n, 3)

	// ---- R3b a TLS configuration is used only when its construction succeeded ----
	c.Rule("R3b", "every *tls.Config produced by transport.NewClientTLSConfig / NewServerTLSConfig is handed on (dial option, listener, stored) only on paths where that call's error was found nil: a failed construction must abort, not fall back to an unencrypted or unauthenticated connection")
	n3 := 0
	ctorC := funcObj(c, "pkg/transport", "NewClientTLSConfig")
	ctorS := funcObj(c, "pkg/transport", "NewServerTLSConfig")
	isTLSConfig := func(t types.Type) bool {
		nn := engine.NamedOf(t)
		return nn != nil && nn.Obj().Pkg() != nil && nn.Obj().Pkg().Path() == "crypto/tls" && nn.Obj().Name() == "Config"
	}
	for _, f := range p.RepoFuncs() {
		if ctorC == nil || ctorS == nil || len(engine.CallsTo(f, ctorC, ctorS)) == 0 {
			continue
		}
		// uses: calls that receive a *tls.Config, stores of one into a field
		var track []ssa.Value
		use := map[ssa.Instruction][]ssa.Value{}
		engine.ForEachInstr(f, func(in ssa.Instruction) {
			switch x := in.(type) {
			case ssa.CallInstruction:
				if engine.IsCallTo(in, ctorC, ctorS) {
					return
				}
				for _, a := range x.Common().Args {
					if isTLSConfig(a.Type()) {
						use[in] = append(use[in], a)
						track = append(track, a)
					}
				}
			case *ssa.Store:
				if isTLSConfig(x.Val.Type()) {
					if lf, _ := engine.LoadedField(x.Addr); lf != nil {
						use[in] = append(use[in], x.Val)
						track = append(track, x.Val)
					}
				}
			case *ssa.Return:
				for _, r := range x.Results {
					if isTLSConfig(r.Type()) {
						use[in] = append(use[in], r)
						track = append(track, r)
					}
				}
			}
		})
		if len(use) == 0 {
			continue
		}
		n3++
		c.AllPaths(p.FuncName(f)+">tls-config-use", engine.PathCheck{Fn: f, Track: track,
			Sink: func(in ssa.Instruction) bool { return len(use[in]) > 0 },
			Pred: func(st *engine.PathState) string {
				for _, a := range use[st.Sink] {
					v := st.Resolve(a)
					cl, i := engine.ResultOfCall(v)
					if cl == nil || i != 0 || !(engine.SameFunc(engine.CalleeObj(cl), ctorC) || engine.SameFunc(engine.CalleeObj(cl), ctorS)) {
						continue // nil, or a configuration from elsewhere
					}
					isNil, known := st.IsNil(func(x ssa.Value) bool {
						c2, j := engine.ResultOfCall(x)
						return c2 == cl && j == 1
					})
					if !(known && isNil) {
						return "a TLS configuration is used on a path where the error of its construction was not found nil: with an unreadable CA / certificate the connection would silently proceed without the configured protection"
					}
				}
				return ""
			}}, "TLS configurations are used only after a successful construction")
	}
	c.Floor(n3, 6)

	// ---- R4 control-channel cipher ----
	c.Rule("R4", "server and client NewControl build the dispatcher on NewCryptoReadWriter(conn, token) exactly when their encrypted flag is set; the flag is !internal on the server and false only for ssh-tunnel on the client")
	n = 0
	crypto := funcObj(c, "pkg/util/net", "NewCryptoReadWriter")
	newDisp := funcObj(c, "pkg/msg", "NewDispatcher")
	for _, side := range []struct{ sym, flag string }{{"server.NewControl", "ctlConnEncrypted"}, {"client.NewControl", "ConnEncrypted"}} {
		f := fn(c, side.sym)
		if f == nil || crypto == nil || newDisp == nil {
			continue
		}
		for _, dc := range engine.CallsTo(f, newDisp) {
			n++
			call := dc.(*ssa.Call)
			c.AllPaths(fmt.Sprintf("%s>dispatcher#%d", side.sym, n), engine.PathCheck{Fn: f, Sink: engine.Is(dc), Track: []ssa.Value{call.Call.Args[0]}, Pred: func(st *engine.PathState) string {
				// the session's "connection is encrypted" flag: a bool parameter or a bool field of the session context
				// (either constructor may take it either way)
				enc, k := st.Truth(func(v ssa.Value) bool {
					v = engine.Unwrap(v)
					if b, ok := v.Type().Underlying().(*types.Basic); !ok || b.Kind() != types.Bool {
						return false
					}
					if fv, _ := engine.LoadedField(v); fv != nil {
						return strings.Contains(strings.ToLower(fv.Name()), "encrypted")
					}
					if pr, ok := v.(*ssa.Parameter); ok {
						return strings.Contains(strings.ToLower(pr.Name()), "encrypted")
					}
					return false
				})
				if !k {
					return "the dispatcher is created without consulting the encrypted flag"
				}
				// the stream this very path hands to the dispatcher (one merged NewDispatcher(rw) call is as good as two)
				src := engine.Provenance(st.Resolve(call.Call.Args[0]), engine.ProvOpts{})
				onCrypto := src.HasCall(crypto)
				if enc && !onCrypto {
					return "the control channel is marked encrypted but the dispatcher runs on the raw connection"
				}
				if !enc && onCrypto {
					return "the in-process control channel is encrypted although the peer does not expect it"
				}
				if onCrypto {
					tok := false
					for fv := range src.Fields {
						if fv.Name() == "Token" {
							tok = true
						}
					}
					if !tok {
						return "the control-channel cipher is not keyed by the authentication token"
					}
				}
				return ""
			}}, "crypto stream ⇔ encrypted flag, keyed by the token")
		}
	}
	// the flags
	if f := fn(c, "server.Service.RegisterControl"); f != nil {
		nc := funcObj(c, "server", "NewControl")
		for _, call := range engine.CallsTo(f, nc) {
			n++
			okFlag := false
			flags := argsOfType(call, func(t types.Type) bool { b, ok := t.Underlying().(*types.Basic); return ok && b.Kind() == types.Bool })
			for _, arg := range flags {
				if u, ok := arg.(*ssa.UnOp); ok && u.Op == token.NOT && isParam("internal")(u.X) && len(flags) == 1 {
					okFlag = true
				}
			}
			c.Check(okFlag, "server.Service.RegisterControl>encrypted-flag", call.Pos(), 1, nil, "server control channels are encrypted unless the connection is the in-process one (!internal)")
		}
	}
	if f := clientLoginLoop(c); f != nil {
		encF := field(c, "client", "SessionContext", "ConnEncrypted")
		for _, g := range append([]*ssa.Function{f}, allAnon(f)...) {
			engine.ForEachInstr(g, func(in ssa.Instruction) {
				st, ok := in.(*ssa.Store)
				if !ok {
					return
				}
				if lf, _ := engine.LoadedField(st.Addr); lf != encF {
					return
				}
				n++
				c.AllPaths(c.P.FuncName(f)+">encrypted-flag", engine.PathCheck{Fn: g, Sink: engine.Is(in), Track: []ssa.Value{st.Val}, Pred: func(ps *engine.PathState) string {
					v, isC := engine.ConstBool(ps.Resolve(st.Val))
					if !isC {
						return "the encrypted flag is not a constant per path"
					}
					if v {
						return ""
					}
					eq, k := ps.Equal(func(x ssa.Value) bool { f, _ := engine.LoadedField(x); return f != nil && f.Name() == "Type" }, func(x ssa.Value) bool { s, ok := engine.ConstString(x); return ok && s == "ssh-tunnel" })
					if !(k && eq) {
						return "the client turns control-channel encryption off for a connection that is not the in-process ssh tunnel"
					}
					return ""
				}}, "unencrypted only for the ssh-tunnel virtual client")
			})
		}
	}
	c.Floor(n, 4) // at least one dispatcher per side and one flag site per side

	// ---- R5 stacks ----
	checkStacks(c, "R5")

	// ---- R6 secrets ----
	checkSecretFlows(c)

	// ---- R7 digests ----
	c.Rule("R7", "PrivilegeKey and SignKey fields of protocol messages are assigned only util.GetAuthKey digests or the OIDC access token")
	n = 0
	getAuthKey := funcObj(c, "pkg/util/util", "GetAuthKey")
	genTok := p.MethodObj("pkg/auth", "OidcAuthProvider", "generateAccessToken")
	msgPkg := p.Pkg("pkg/msg")
	for _, f := range p.RepoFuncs() {
		if f.Pkg != nil && strings.HasSuffix(f.Pkg.Pkg.Path(), "/test") {
			continue
		}
		engine.ForEachInstr(f, func(in ssa.Instruction) {
			st, ok := in.(*ssa.Store)
			if !ok {
				return
			}
			lf, _ := engine.LoadedField(st.Addr)
			if lf == nil || msgPkg == nil || lf.Pkg() != msgPkg.Types || !(lf.Name() == "PrivilegeKey" || lf.Name() == "SignKey") {
				return
			}
			n++
			src := engine.Provenance(st.Val, engine.ProvOpts{NoArgs: true})
			okv := src.HasCall(getAuthKey) || (genTok != nil && src.HasCall(genTok))
			if !okv {
				// the digest may be produced by a helper (a key type's method): what the helper returns decides
				src = engine.DeepSources(p, st.Val)
				okv = src.HasCall(getAuthKey) || (genTok != nil && src.HasCall(genTok))
			}
			// copying a whole message (struct value) keeps what it already held
			c.Check(okv, fmt.Sprintf("%s>%s#%d", p.FuncName(f), lf.Name(), n), in.Pos(), len(src.Values), []string{src.Summary()}, "%s carries a keyed digest (or the OIDC token), never the secret itself", lf.Name())
		})
	}
	c.Floor(n, 5)

	// ---- R8 the control-channel cipher is never skipped ----
	c.Rule("R8", "NewCryptoReadWriter returns, with a nil error, only a stream built from crypto.NewReader and crypto.NewWriter over its argument — never the argument itself (an empty token must still be enciphered: registrations carry http passwords and secret keys)")
	if f := fn(c, "pkg/util/net.NewCryptoReadWriter"); f != nil {
		var res0 []ssa.Value
		engine.ForEachInstr(f, func(in ssa.Instruction) {
			if r, ok := in.(*ssa.Return); ok && len(r.Results) == 2 {
				res0 = append(res0, r.Results[0])
			}
		})
		c.AllPaths("pkg/util/net.NewCryptoReadWriter", engine.PathCheck{Fn: f, Sink: engine.IsReturn, Track: res0, Pred: func(st *engine.PathState) string {
			r := st.Sink.(*ssa.Return)
			if len(r.Results) != 2 {
				return "unexpected result shape"
			}
			if !engine.IsNilConst(st.Resolve(r.Results[1])) {
				return "" // error exit
			}
			v := st.Resolve(r.Results[0])
			src := engine.Provenance(v, engine.ProvOpts{})
			rd, wr := false, false
			for k := range src.Calls {
				if k.Pkg() != nil && strings.HasSuffix(k.Pkg().Path(), "golib/crypto") {
					if k.Name() == "NewReader" {
						rd = true
					}
					if k.Name() == "NewWriter" {
						wr = true
					}
				}
			}
			if !(rd && wr) {
				return "NewCryptoReadWriter returns a stream that is not built from crypto.NewReader and crypto.NewWriter (the control channel would run in clear)"
			}
			return ""
		}}, "every successful return is the enciphered stream")
		c.Floor(1, 1)
	}

	// ---- R9 pooled codec recycling (shared with C01.R8): a codec recycled in use re-points another proxy's plaintext at this connection ----
	checkRecycle(c, "R9")

	// ---- R10 use_encryption of a legacy (ini) file reaches the v1 configuration (shared with C18.R14) ----
	checkLegacyConversion(c, "R10")
	checkTLSConfigOrigin(c, "R11")
}

// checkSecretFlows implements R6 with a forward taint from loads of secret fields.
func checkSecretFlows(c *engine.Ctx) {
	p := c.P
	c.Rule("R6", "loads of secret configuration fields flow only into key parameters (GetAuthKey, crypto constructors, credential comparisons), the registration message's Sk/HTTPPwd fields (sent on the encrypted control channel) and configuration copies; never into other message fields, log or format calls, or connection writes; NewProxy messages leave only through the dispatcher")
	secretField := func(fv *types.Var) bool {
		if fv == nil || fv.Pkg() == nil {
			return false
		}
		pp := fv.Pkg().Path()
		if !strings.HasPrefix(pp, engine.ModPath+"/pkg/config/v1") && !strings.HasPrefix(pp, engine.ModPath+"/server/visitor") && !strings.HasPrefix(pp, engine.ModPath+"/pkg/nathole") && !strings.HasPrefix(pp, engine.ModPath+"/pkg/auth") {
			return false
		}
		switch fv.Name() {
		case "Token", "ClientSecret", "SecretKey", "Secretkey", "sk", "HTTPPassword", "Password", "token":
			return true
		}
		return false
	}
	msgPkg := p.Pkg("pkg/msg")
	loads := 0
	var bad []string
	for _, f := range p.RepoFuncs() {
		if f.Pkg == nil {
			continue
		}
		pp := f.Pkg.Pkg.Path()
		if strings.Contains(pp, "/pkg/config") || strings.Contains(pp, "/cmd/") {
			continue // configuration plumbing (flags, validation, legacy conversion) copies settings between config structs
		}
		engine.ForEachInstr(f, func(in ssa.Instruction) {
			u, ok := in.(*ssa.UnOp)
			if !ok || u.Op != token.MUL {
				return
			}
			fv, _ := engine.LoadedField(u)
			if !secretField(fv) {
				return
			}
			if _, isStr := fv.Type().Underlying().(*types.Basic); !isStr {
				return
			}
			loads++
			// forward slice (bounded): follow through conversions, phis, concatenations, slices and single-store cells
			seen := map[ssa.Value]bool{}
			var walk func(v ssa.Value, d int)
			walk = func(v ssa.Value, d int) {
				if d > 6 || seen[v] {
					return
				}
				seen[v] = true
				refs := v.Referrers()
				if refs == nil {
					return
				}
				for _, r := range *refs {
					switch x := r.(type) {
					case *ssa.Convert, *ssa.ChangeType, *ssa.MakeInterface, *ssa.Phi, *ssa.Slice:
						walk(x.(ssa.Value), d+1)
					case *ssa.BinOp:
						if x.Op == token.ADD {
							walk(x, d+1)
						}
					case *ssa.Store:
						if x.Val != v {
							continue
						}
						lf, _ := engine.LoadedField(x.Addr)
						if lf != nil && msgPkg != nil && lf.Pkg() == msgPkg.Types {
							if lf.Name() == "Sk" || lf.Name() == "HTTPPwd" {
								continue // registration message, carried on the encrypted control channel (R6b)
							}
							bad = append(bad, fmt.Sprintf("%s: secret %s stored into message field %s at %s", p.FuncName(f), fv.Name(), lf.Name(), p.Pos(x.Pos())))
						}
						if al, ok := x.Addr.(*ssa.Alloc); ok {
							walk(al, d+1)
						}
						if ia, ok := x.Addr.(*ssa.IndexAddr); ok {
							// variadic argument slices ([]any{...}) of log/format calls
							walk(ia.X, d+1)
						}
					case *ssa.UnOp:
						if x.Op == token.MUL {
							walk(x, d+1)
						}
					case ssa.CallInstruction:
						o := engine.CalleeObj(x)
						if o == nil || o.Pkg() == nil {
							continue
						}
						full := o.Pkg().Path() + "." + o.Name()
						switch {
						case strings.HasPrefix(full, "fmt.") && (strings.HasPrefix(o.Name(), "Sprint") || strings.HasPrefix(o.Name(), "Errorf") || strings.HasPrefix(o.Name(), "Fprint") || strings.HasPrefix(o.Name(), "Print")):
							bad = append(bad, fmt.Sprintf("%s: secret %s formatted by %s at %s", p.FuncName(f), fv.Name(), full, p.Pos(x.Pos())))
						case strings.Contains(o.Pkg().Path(), "/util/log") || strings.Contains(o.Pkg().Path(), "/util/xlog"):
							bad = append(bad, fmt.Sprintf("%s: secret %s logged by %s at %s", p.FuncName(f), fv.Name(), full, p.Pos(x.Pos())))
						case o.Name() == "Write" || o.Name() == "WriteString" || o.Name() == "WriteMsg":
							// hash writers are fine (md5 digest of the token); connection / message writes are not
							if strings.HasPrefix(o.Pkg().Path(), "crypto/") || strings.HasPrefix(o.Pkg().Path(), "hash") {
								continue
							}
							if o.Pkg().Path() == "io" || o.Pkg().Path() == "net" || strings.HasSuffix(o.Pkg().Path(), "/pkg/msg") {
								bad = append(bad, fmt.Sprintf("%s: secret %s written by %s at %s", p.FuncName(f), fv.Name(), full, p.Pos(x.Pos())))
							}
						}
					}
				}
			}
			walk(u, 0)
		})
	}
	c.Check(len(bad) == 0, "repo>secret-sinks", token.NoPos, loads, nil, "%d loads of secret fields examined; none reaches a clear-text sink (%s)", loads, strings.Join(bad, "; "))
	// R6b: *msg.NewProxy values are not written to raw connections
	writeMsg := funcObj(c, "pkg/msg", "WriteMsg")
	nb := 0
	for _, f := range p.RepoFuncs() {
		for _, call := range engine.CallsTo(f, writeMsg) {
			src := engine.Provenance(engine.CallArgs(call)[1], engine.ProvOpts{NoArgs: true})
			for v := range src.Values {
				if mi, ok := v.(*ssa.MakeInterface); ok && engine.IsNamed(mi.X.Type(), engine.ModPath+"/pkg/msg", "NewProxy") {
					nb++
					c.Violate(p.FuncName(f)+">NewProxy-raw-write", call.Pos(), nil, "a registration message (carrying the proxy secret key and HTTP password) is written to a raw connection instead of the encrypted control channel")
				}
			}
		}
	}
	c.Hold("repo>NewProxy-only-via-dispatcher", token.NoPos, len(p.RepoFuncs()), []string{fmt.Sprintf("%d direct WriteMsg(NewProxy) sites", nb)}, "registration messages leave only through the dispatcher")
	c.Floor(loads, 12)
}

// checkTLSConfigOrigin (R11): the control channel's listeners and dials (package server and client) use only TLS
// configurations built by pkg/transport — directly, stored, or cloned with (*tls.Config).Clone. A config written out
// as a literal next to the listener carries the certificate but silently loses what NewServerTLSConfig /
// NewClientTLSConfig decided from the trusted-CA setting (ClientAuth, ClientCAs, RootCAs, ServerName).
func checkTLSConfigOrigin(c *engine.Ctx, rule string) {
	c.Rule(rule, "in the server and client packages every *tls.Config passed to a call derives from transport.NewServerTLSConfig / NewClientTLSConfig (possibly through Clone or a field it was stored in); none is built there as a literal")
	p := c.P
	ctors := map[*types.Func]bool{}
	for _, n := range []string{"NewServerTLSConfig", "NewClientTLSConfig"} {
		if o := funcObj(c, "pkg/transport", n); o != nil {
			ctors[o] = true
		}
	}
	if len(ctors) == 0 {
		return
	}
	isCfg := func(t types.Type) bool { return engine.IsNamed(t, "crypto/tls", "Config") }
	n := 0
	for _, f := range p.RepoFuncs() {
		if f.Pkg == nil {
			continue
		}
		pp := f.Pkg.Pkg.Path()
		if pp != engine.ModPath+"/server" && pp != engine.ModPath+"/client" {
			continue
		}
		f := f
		engine.ForEachInstr(f, func(in ssa.Instruction) {
			if al, ok := in.(*ssa.Alloc); ok && isCfg(al.Type()) {
				n++
				c.Violate(p.FuncName(f)+">tls-config-literal", in.Pos(), nil, "a tls.Config is built here instead of being taken (or cloned) from pkg/transport: the client-certificate / CA decisions of NewServerTLSConfig / NewClientTLSConfig do not reach this listener or dial")
				return
			}
			call, ok := in.(ssa.CallInstruction)
			if !ok {
				return
			}
			if o := engine.CalleeObj(call); o != nil && o.Name() == "Clone" {
				return
			}
			for i, a := range call.Common().Args {
				if !isCfg(a.Type()) {
					continue
				}
				n++
				src := engine.DeepSourcesOpt(p, a, engine.DeepOpts{Heap: true})
				ok := false
				for o := range src.Calls {
					if ctors[o] {
						ok = true
					}
				}
				for v := range src.Values {
					if al, isAl := v.(*ssa.Alloc); isAl && isCfg(al.Type()) && al.Parent() != nil && al.Parent().Pkg != nil && al.Parent().Pkg.Pkg.Path() != engine.ModPath+"/pkg/transport" {
						ok = false
					}
				}
				c.Check(ok, fmt.Sprintf("%s>tls-config-arg#%d@%s", p.FuncName(f), i, calleeName(call)), in.Pos(), len(src.Values), nil, "the TLS configuration handed to %s comes from pkg/transport's constructors", calleeName(call))
			}
		})
	}
	c.Floor(n, 2)
}

func calleeName(call ssa.CallInstruction) string {
	if o := engine.CalleeObj(call); o != nil {
		return o.Name()
	}
	if call.Common().IsInvoke() {
		return call.Common().Method.Name()
	}
	return "call"
}
