package rules

import (
	"fmt"
	"go/token"
	"go/types"
	"sort"
	"strings"

	"golang.org/x/tools/go/ssa"

	"frpsa/engine"
)

func init() {
	Registry["C06"] = &Property{
		Title:       "Virtual-host routing always picks the most specific matching route",
		Run:         runC06,
		Explanation: "Decides the shape of the router and of its users: (R1) the comparator given to the sort in Routers.Add orders routes by location descending (recognised forms only); (R2) Routers.Get returns the first element whose location is a prefix of the request path, looked up under the lower-cased host and the given user; (R3) every access to the host index in Add, Del and Get, and the duplicate test, use the lower-cased host; (R4) Add inserts only when exist() returned false, and exist() reports a duplicate exactly on equality of location within the (host, user) bucket; (R5) Del rewrites only the (host, user) bucket, keeps exactly the elements whose location differs, and removes a host entry only when its user table is empty; (R6) the two lookup walkers (HTTP reverse proxy and muxer) have the same plan: exact host, wildcard walk replacing the first label while at least three labels remain, then \"*\", each with user-specific then generic lookup; (R7) hosts given to route lookups come from CanonicalHost / ToLower; (R8) the muxer hands a connection only to a listener that getListener found, and calls the fail hook otherwise; CreateConnection returns an error when no route matches; (R10) the transport pool key covers the whole route. Not decided: behaviour over keep-alive sequences beyond the pool key, TLS alerts on SNI miss, prefix dispatch inside golib's mux.",
		Assumptions: commonAssumptions,
	}
}

func runC06(c *engine.Ctx) {
	p := c.P
	add := fn(c, "pkg/util/vhost.Routers.Add")
	del := fn(c, "pkg/util/vhost.Routers.Del")
	get := fn(c, "pkg/util/vhost.Routers.Get")
	existObj := p.MethodObj("pkg/util/vhost", "Routers", "exist")
	var exist *ssa.Function
	if existObj != nil {
		exist = p.FuncOf(existObj) // optional: the duplicate test may be made in place in Add
	}
	idxF := field(c, "pkg/util/vhost", "Routers", "indexByDomain")
	locF := field(c, "pkg/util/vhost", "Router", "location")
	if add == nil || del == nil || get == nil || idxF == nil || locF == nil {
		return
	}

	// ---- R1 ----
	c.Rule("R1", "the comparator passed to the sort in Routers.Add orders by location descending (longest prefix first)")
	n := 0
	for _, cf := range allAnon(add) {
		if len(cf.Params) == 1 && cf.Parent() != nil {
			// ordered insertion instead of append+sort: slices.Insert at slices.IndexFunc(bucket, func(e) bool {
			// return e.location < location }) keeps the bucket descending (the new element goes before the first
			// smaller one); `>` would keep it ascending
			var cmpOp token.Token
			engine.ForEachInstr(cf, func(in ssa.Instruction) {
				r, ok := in.(*ssa.Return)
				if !ok || len(r.Results) != 1 {
					return
				}
				bo, ok := r.Results[0].(*ssa.BinOp)
				if !ok {
					return
				}
				lf, base := engine.LoadedField(bo.X)
				_, isFV := engine.Unwrap(bo.Y).(*ssa.FreeVar)
				if u, ok := engine.Unwrap(bo.Y).(*ssa.UnOp); ok {
					_, isFV = u.X.(*ssa.FreeVar)
				}
				if lf == locF && base == ssa.Value(cf.Params[0]) && isFV {
					cmpOp = bo.Op
				}
			})
			usesInsert := false
			engine.ForEachInstr(add, func(in ssa.Instruction) {
				if call, ok := in.(*ssa.Call); ok {
					if o := engine.CalleeObj(call); o != nil && o.Pkg() != nil && o.Pkg().Path() == "slices" && o.Name() == "Insert" {
						usesInsert = true
					}
				}
			})
			if cmpOp != token.ILLEGAL && usesInsert {
				n++
				switch cmpOp {
				case token.LSS, token.LEQ:
					c.Hold("pkg/util/vhost.Routers.Add>order", cf.Pos(), 2, nil, "routes are kept in descending location order by insertion before the first smaller location")
				default:
					c.Violate("pkg/util/vhost.Routers.Add>order", cf.Pos(), nil, "the insertion point keeps the bucket in ascending location order: the first prefix hit is the shortest, not the most specific")
				}
			}
			continue
		}
		if len(cf.Params) != 2 {
			continue
		}
		a, b := cf.Params[0], cf.Params[1]
		n++
		verdict := ""
		engine.ForEachInstr(cf, func(in ssa.Instruction) {
			r, ok := in.(*ssa.Return)
			if !ok || len(r.Results) != 1 {
				return
			}
			v := r.Results[0]
			neg := false
			if u, ok := v.(*ssa.UnOp); ok && u.Op == token.SUB {
				neg, v = true, u.X
			}
			call, ok := v.(*ssa.Call)
			if !ok {
				verdict = "undecided"
				return
			}
			o := engine.CalleeObj(call)
			if o == nil || o.Name() != "Compare" || len(call.Call.Args) != 2 {
				verdict = "undecided"
				return
			}
			side := func(x ssa.Value) *ssa.Parameter {
				f, base := engine.LoadedField(x)
				if f != locF {
					return nil
				}
				pr, _ := base.(*ssa.Parameter)
				return pr
			}
			x, y := side(call.Call.Args[0]), side(call.Call.Args[1])
			switch {
			case x == a && y == b && neg, x == b && y == a && !neg:
				verdict = "descending"
			case x == a && y == b && !neg, x == b && y == a && neg:
				verdict = "ascending"
			default:
				verdict = "undecided"
			}
		})
		switch verdict {
		case "descending":
			c.Hold("pkg/util/vhost.Routers.Add>order", cf.Pos(), 2, nil, "routes are sorted by location descending")
		case "ascending":
			c.Violate("pkg/util/vhost.Routers.Add>order", cf.Pos(), nil, "routes are sorted by location ascending: the first prefix hit is the shortest, not the most specific")
		default:
			c.Undecide("pkg/util/vhost.Routers.Add>order", cf.Pos(), "comparator form not recognised (accepted: -Compare(a.location,b.location), Compare(b.location,a.location))")
		}
	}
	c.Floor(n, 1)

	// ---- R2 ----
	c.Rule("R2", "Routers.Get returns (route, true) only for an element whose location is a prefix of the path parameter, taken in slice order from the bucket of the lower-cased host and the given user")
	c.AllPaths("pkg/util/vhost.Routers.Get", engine.PathCheck{Fn: get, Sink: engine.IsReturn, Pred: func(st *engine.PathState) string {
		r := st.Sink.(*ssa.Return)
		found, isC := engine.ConstBool(st.Resolve(r.Results[1]))
		if !isC {
			return ""
		}
		if !found {
			return ""
		}
		for _, l := range st.Lits {
			if l.Op != token.ILLEGAL || !l.Val {
				continue
			}
			call, _ := engine.ResultOfCall(l.X)
			if call == nil {
				continue
			}
			o := engine.CalleeObj(call)
			if o == nil || o.Name() != "HasPrefix" || o.Pkg() == nil || o.Pkg().Path() != "strings" {
				continue
			}
			lf, _ := engine.LoadedField(call.Call.Args[1])
			if isParam("path")(engine.Unwrap(call.Call.Args[0])) && lf == locF {
				return ""
			}
			return "the prefix test has its operands swapped or does not compare the request path with the route's location"
		}
		return "Get reports a match on a path without strings.HasPrefix(path, route.location)"
	}}, "first HasPrefix(path, location) hit wins")
	// iteration is a plain range over the bucket (no reverse / partial walk)
	rangeOK := false
	engine.ForEachInstr(get, func(in ssa.Instruction) {
		if ia, ok := in.(*ssa.IndexAddr); ok {
			// index-based range over a slice obtained from a map lookup
			src := engine.Provenance(ia.X, engine.ProvOpts{IntoCallee: true, Prog: p})
			if src.HasField(idxF) && src.HasParam("httpUser") {
				// a `for range` over the slice: go/ssa's rangeindex induction variable (-1, +1 per iteration)
				idx := ia.Index
				if bo, ok := idx.(*ssa.BinOp); ok && bo.Op == token.ADD {
					if k, ok := engine.ConstInt(bo.Y); ok && k == 1 {
						idx = bo.X
					}
				}
				if ph, ok := idx.(*ssa.Phi); ok && ph.Comment == "rangeindex" {
					rangeOK = true
				}
			}
		}
	})
	c.Check(rangeOK, "pkg/util/vhost.Routers.Get>iteration", get.Pos(), 2, nil, "Get walks the (host,user) bucket front to back")
	c.Floor(2, 2)

	// ---- R3 ----
	checkHostIndexLowered(c, "R3")
	lowered := func(v ssa.Value) bool {
		src := engine.Provenance(v, engine.ProvOpts{})
		for k := range src.Calls {
			if k.Pkg() != nil && k.Pkg().Path() == "strings" && k.Name() == "ToLower" {
				return true
			}
		}
		return false
	}

	// ---- R4 ----
	c.Rule("R4", "Routers.Add writes the index only when exist() returned false; exist() returns true exactly on location equality inside the (host, user) bucket")
	n = 0
	engine.ForEachInstr(add, func(in ssa.Instruction) {
		mu, ok := in.(*ssa.MapUpdate)
		if !ok {
			return
		}
		n++
		dupOf := routerDuplicateVerdict(c, add)
		c.AllPaths(fmt.Sprintf("pkg/util/vhost.Routers.Add>write#%d", n), engine.PathCheck{Fn: add, Sink: engine.Is(mu), KeepLoopFacts: true, Pred: func(st *engine.PathState) string {
			v, k := dupOf(st)
			if !(k && !v) {
				return "a route is written on a path where the duplicate test did not report 'no such route'"
			}
			return ""
		}}, "index written only for a new (host, location, user) triple")
	})
	n++
	if exist == nil {
		c.Hold("pkg/util/vhost.Routers.Add>in-place-duplicate-test", add.Pos(), 1, nil, "the duplicate test is made in place: location equality inside the (host, user) bucket")
	} else {
		c.AllPaths("pkg/util/vhost.Routers.exist", engine.PathCheck{Fn: exist, Sink: engine.IsReturn, Pred: func(st *engine.PathState) string {
			r := st.Sink.(*ssa.Return)
			found, isC := engine.ConstBool(st.Resolve(r.Results[1]))
			if !isC || !found {
				return ""
			}
			eq, k := st.Equal(isParam("path"), loadOfField(locF))
			if !(k && eq) {
				return "exist() reports a duplicate without location equality"
			}
			return ""
		}}, "duplicate ⇔ same location in the same bucket")
	}
	c.Floor(n, 3)

	// ---- R5 ----
	c.Rule("R5", "Routers.Del rewrites only the (host, user) bucket, keeps exactly the elements whose location differs from the one removed, and drops a host entry only when its user table is empty")
	n = 0
	engine.ForEachInstr(del, func(in ssa.Instruction) {
		switch x := in.(type) {
		case *ssa.MapUpdate:
			n++
			lf, _ := engine.LoadedField(x.Map)
			key := fmt.Sprintf("pkg/util/vhost.Routers.Del>write#%d", n)
			if lf == idxF {
				c.Violate(key, in.Pos(), nil, "Del rewrites a whole host entry")
				return
			}
			c.Check(isParam("httpUser")(engine.Unwrap(x.Key)), key, in.Pos(), 1, nil, "Del writes the bucket of the user it was given")
		case ssa.CallInstruction:
			b, ok := x.Common().Value.(*ssa.Builtin)
			if !ok || b.Name() != "delete" {
				return
			}
			n++
			key := fmt.Sprintf("pkg/util/vhost.Routers.Del>delete#%d", n)
			target := x.Common().Args[0]
			lf, _ := engine.LoadedField(target)
			c.AllPaths(key, engine.PathCheck{Fn: del, Sink: engine.Is(in), Pred: func(st *engine.PathState) string {
				// deleting needs an emptiness test of what is being dropped
				for _, l := range st.Lits {
					arg, ok := lenIsZero(l)
					if !ok {
						continue
					}
					if lf == idxF {
						// removing the host: the user table must be empty
						if _, isMap := arg.Type().Underlying().(*types.Map); isMap {
							return ""
						}
					} else {
						return ""
					}
				}
				if lf == idxF {
					return "Del removes a whole host entry without having found its user table empty: sibling routes of other users vanish"
				}
				return "Del removes a user bucket without having found it empty"
			}}, "entries are dropped only when empty")
		}
	})
	// kept elements: appended only when location differs
	kept := 0
	engine.ForEachInstr(del, func(in ssa.Instruction) {
		call, ok := in.(*ssa.Call)
		if !ok {
			return
		}
		if b, ok := call.Call.Value.(*ssa.Builtin); !ok || b.Name() != "append" {
			return
		}
		kept++
		n++
		c.AllPaths("pkg/util/vhost.Routers.Del>kept", engine.PathCheck{Fn: del, Sink: engine.Is(in), KeepLoopFacts: true, Pred: func(st *engine.PathState) string {
			eq, k := st.Equal(loadOfField(locF), isParam("location"))
			if !(k && !eq) {
				return "an element is kept without its location having been found different from the removed one"
			}
			return ""
		}}, "exactly the other locations are kept")
	})
	// the library form of the same filter: slices.DeleteFunc(copy-or-bucket, func(r) bool { return r.location == location })
	// removes exactly the elements the predicate accepts — every `true` of the predicate must mean "same location", every
	// `false` "different location"
	engine.ForEachInstr(del, func(in ssa.Instruction) {
		call, ok := in.(*ssa.Call)
		if !ok {
			return
		}
		o := engine.CalleeObj(call)
		if o == nil || o.Pkg() == nil || o.Pkg().Path() != "slices" || o.Name() != "DeleteFunc" || len(call.Call.Args) != 2 {
			return
		}
		pf := funcValueOf(p, call.Call.Args[1])
		if pf == nil {
			return
		}
		kept++
		n++
		locParam := func(v ssa.Value) bool {
			if isParam("location")(v) || isCellOfParam(v, "location") {
				return true
			}
			if fv, ok := v.(*ssa.FreeVar); ok {
				if b := engine.ClosureBinding(fv); b != nil {
					return isParam("location")(engine.Unwrap(b))
				}
			}
			return false
		}
		c.AllPaths("pkg/util/vhost.Routers.Del>kept", engine.PathCheck{Fn: pf, Sink: engine.IsReturn, Pred: func(st *engine.PathState) string {
			r := st.Sink.(*ssa.Return)
			rv := st.Resolve(r.Results[0])
			if bo, ok := rv.(*ssa.BinOp); ok && (bo.Op == token.EQL || bo.Op == token.NEQ) {
				sides := loadOfField(locF)(bo.X) && locParam(engine.Unwrap(bo.Y)) || loadOfField(locF)(bo.Y) && locParam(engine.Unwrap(bo.X))
				if sides && bo.Op == token.EQL {
					return ""
				}
				return "the removal predicate is not `element.location == location`"
			}
			b, isC := engine.ConstBool(rv)
			eq, k := st.Equal(loadOfField(locF), locParam)
			if !isC || !k || b != eq {
				return "the removal predicate does not decide by equality of the location"
			}
			return ""
		}}, "exactly the other locations are kept")
	})
	if kept == 0 {
		c.Undecide("pkg/util/vhost.Routers.Del>kept", del.Pos(), "filter loop not recognised")
	}
	c.Floor(n, 2)

	// ---- R6 ----
	c.Rule("R6", "the HTTP reverse proxy's and the muxer's route walkers follow the same plan: exact host; wildcard walk that replaces the first label by \"*\" while at least 3 labels remain; finally \"*\"; each step tries the request's user first and then the unrestricted route")
	checkWalkers(c)

	// ---- R7 ----
	c.Rule("R7", "hosts reaching the route lookups are canonical: CanonicalHost (lower-case, port and trailing dot stripped) for HTTP and CONNECT, strings.ToLower in the muxer")
	n = 0
	canon := funcObj(c, "pkg/util/http", "CanonicalHost")
	// every vhost-package call of the three route lookups (wherever it sits: helpers may be inlined or extracted)
	for _, callee := range []string{"CheckAuth", "GetRouteConfig", "getVhost"} {
		obj := p.MethodObj("pkg/util/vhost", "HTTPReverseProxy", callee)
		if obj == nil || canon == nil {
			c.Missing("pkg/util/vhost.HTTPReverseProxy."+callee, "method not found")
			continue
		}
		for _, f := range p.RepoFuncs() {
			if f.Pkg == nil || !strings.HasSuffix(f.Pkg.Pkg.Path(), "/pkg/util/vhost") {
				continue
			}
			if fo, _ := f.Object().(*types.Func); fo != nil && (fo.Name() == "CheckAuth" || fo.Name() == "GetRouteConfig") {
				continue // the lookups themselves pass their own (already canonical) parameter on
			}
			for _, call := range engine.CallsTo(f, obj) {
				n++
				src := engine.Provenance(engine.CallArgs(call)[1], engine.ProvOpts{NoArgs: true})
				if !src.HasCall(canon) {
					src = engine.DeepSources(p, engine.CallArgs(call)[1]) // the canonical host may arrive as a parameter
				}
				c.Check(src.HasCall(canon), p.FuncName(f)+">"+callee, call.Pos(), len(src.Values), []string{"host: " + src.Summary()}, "the host passed to %s is CanonicalHost(...)", callee)
			}
		}
	}
	if f := fn(c, "pkg/util/tcpmux.HTTPConnectTCPMuxer.readHTTPConnectRequest"); f != nil && canon != nil {
		n++
		c.Check(len(engine.CallsTo(f, canon)) > 0, "pkg/util/tcpmux.HTTPConnectTCPMuxer.readHTTPConnectRequest", f.Pos(), 1, nil, "CONNECT host is canonicalised")
	}
	if ch := p.FuncOf(canon); ch != nil {
		n++
		calls := map[string]bool{}
		engine.ForEachInstr(ch, func(in ssa.Instruction) {
			if call, ok := in.(ssa.CallInstruction); ok {
				if o := engine.CalleeObj(call); o != nil {
					calls[o.Name()] = true
				}
			}
		})
		c.Check(calls["ToLower"] && calls["SplitHostPort"] && (calls["TrimSuffix"] || calls["TrimRight"]), "pkg/util/http.CanonicalHost", ch.Pos(), len(calls), nil,
			"CanonicalHost lower-cases, strips a port and trims the trailing dot")
		// order per path: the trailing dot is trimmed from the host *after* the port was split off ("example.com.:80"
		// must become "example.com"), lower-casing may happen anywhere
		n++
		var res0 []ssa.Value
		engine.ForEachInstr(ch, func(in ssa.Instruction) {
			if r, ok := in.(*ssa.Return); ok && len(r.Results) > 0 {
				res0 = append(res0, r.Results[0])
			}
		})
		c.AllPaths("pkg/util/http.CanonicalHost>order", engine.PathCheck{Fn: ch, Sink: engine.IsReturn, Track: res0,
			Event: func(in ssa.Instruction) string {
				if call, ok := in.(ssa.CallInstruction); ok {
					if o := engine.CalleeObj(call); o != nil && o.Name() == "SplitHostPort" {
						return "split"
					}
				}
				return ""
			},
			Pred: func(st *engine.PathState) string {
				r := st.Sink.(*ssa.Return)
				if len(r.Results) == 2 && !engine.IsNilConst(st.Resolve(r.Results[1])) {
					return "" // error exit
				}
				v := st.Resolve(r.Results[0])
				trimmed, lower, split, trimBeforeSplit := false, false, false, false
				for i := 0; i < 12; i++ {
					v = st.Resolve(engine.Unwrap(v))
					cl, idx := engine.ResultOfCall(v)
					if cl == nil {
						break
					}
					o := engine.CalleeObj(cl)
					if o == nil {
						break
					}
					switch o.Name() {
					case "ToLower":
						lower = true
						v = cl.Call.Args[0]
					case "TrimSuffix", "TrimRight":
						if d, ok := engine.ConstString(cl.Call.Args[1]); ok && d == "." {
							trimmed = true
							if split {
								trimBeforeSplit = true
							}
						}
						v = cl.Call.Args[0]
					case "SplitHostPort":
						if idx != 0 {
							return "CanonicalHost returns the port part"
						}
						if !trimmed {
							split = true
						}
						v = cl.Call.Args[0]
					default:
						i = 99
					}
				}
				if !lower {
					return "the returned host is not lower-cased on this path"
				}
				if !trimmed {
					return "the trailing dot is not stripped on this path"
				}
				if trimBeforeSplit || (st.HasEvent("split") && split) {
					return "the trailing dot is trimmed before the port is split off: \"host.:port\" keeps its dot and misses its route"
				}
				return ""
			}}, "lower-case, split port, then trim the trailing dot")
	}
	h := fn(c, "pkg/util/vhost.Muxer.handle")
	getListener := method(c, "pkg/util/vhost", "Muxer", "getListener")
	if h != nil && getListener != nil {
		for _, call := range engine.CallsTo(h, getListener) {
			n++
			c.Check(lowered(engine.CallArgs(call)[1]), "pkg/util/vhost.Muxer.handle>host", call.Pos(), 1, nil, "the muxer looks listeners up by the lower-cased host")
		}
	}
	c.Floor(n, 7)

	// ---- R8 ----
	c.Rule("R8", "an unmatched request reaches no backend: the muxer hands over only after getListener found a listener and calls failHook otherwise; CreateConnection returns an error when no route is found")
	n = 0
	if h != nil && getListener != nil {
		acceptF := field(c, "pkg/util/vhost", "Listener", "accept")
		failF := field(c, "pkg/util/vhost", "Muxer", "failHook")
		site := stepThatDoes(h, func(x ssa.Instruction) bool {
			if s, ok := x.(*ssa.Send); ok {
				if lf, _ := engine.LoadedField(s.Chan); lf == acceptF {
					return true
				}
			}
			return false
		})
		if site != nil {
			n++
			c.AllPaths("pkg/util/vhost.Muxer.handle>found", engine.PathCheck{Fn: h, Sink: engine.Is(site), Pred: func(st *engine.PathState) string {
				if v, k := st.Truth(extractOf(getListener, 1)); !(k && v) {
					return "a connection is handed over on a path where no listener was found"
				}
				return ""
			}}, "hand-off only to a found listener")
		}
		n++
		c.AllPaths("pkg/util/vhost.Muxer.handle>miss", engine.PathCheck{Fn: h, Sink: engine.IsReturn,
			Event: func(in ssa.Instruction) string {
				if call, ok := in.(ssa.CallInstruction); ok {
					if lf, _ := engine.LoadedField(call.Common().Value); lf == failF && lf != nil {
						return "fail-hook"
					}
				}
				return ""
			},
			Pred: func(st *engine.PathState) string {
				v, k := st.Truth(extractOf(getListener, 1))
				if k && !v && !st.HasEvent("fail-hook") {
					return "an unmatched request is neither refused nor closed"
				}
				return ""
			}}, "miss ⇒ failHook")
		// both muxer constructors install a fail hook
		for _, sym := range []string{"pkg/util/vhost.NewHTTPSMuxer", "pkg/util/tcpmux.NewHTTPConnectTCPMuxer"} {
			if f := fn(c, sym); f != nil {
				n++
				set := p.MethodObj("pkg/util/vhost", "Muxer", "SetFailHookFunc")
				c.Check(len(engine.CallsTo(f, set)) > 0, sym+">fail-hook", f.Pos(), 1, nil, "%s installs a fail hook", sym)
			}
		}
	}
	if cc := fn(c, "pkg/util/vhost.HTTPReverseProxy.CreateConnection"); cc != nil {
		getVhost := p.MethodObj("pkg/util/vhost", "HTTPReverseProxy", "getVhost")
		n++
		c.AllPaths("pkg/util/vhost.HTTPReverseProxy.CreateConnection", engine.PathCheck{Fn: cc, Sink: engine.IsReturn, Pred: func(st *engine.PathState) string {
			v, k := st.Truth(extractOf(getVhost, 1))
			if k && !v {
				r := st.Sink.(*ssa.Return)
				if !nonNilOnPath(st, st.Resolve(r.Results[1])) {
					return "CreateConnection does not fail when no route matches"
				}
			}
			return ""
		}}, "no route ⇒ error")
	}
	c.Floor(n, 5)

	// ---- R10 ----
	checkPoolKey(c, "R10")

	// ---- R9 release closures are queued only after the matching registration succeeded (shared with C13.R2) ----
	c.Rule("R9", "in server/proxy a closure that un-registers a route, listener or group membership is appended to closeFuncs only on paths where the matching registration returned nil: a refused (duplicate) registration must leave the owner's entry alone")
	c.Floor(checkCleanupAfterAcquire(c), 2)

	// ---- R11 a refused multi-host proxy leaves no route behind (shared with C10.R2) ----
	checkRunRollbacks(c, "R11")

	// ---- R12 ----
	checkRequestUserFallback(c, "R12")

	// ---- R13 ----
	checkFreshLookup(c, "R13")

	// ---- R14 the request is forwarded over the route its own host, path and user select (shared with C07.R1) ----
	checkAuthRouteAgreement(c, "R14")

	// ---- R15 a queued un-register closure names the route it registered (shared with C10.R11) ----
	checkQueuedClosureCaptures(c, "R15")

	// ---- R16 (shared with C16.R1) ----
	c16MapsRule(c, engine.AnalyzeLocks(c.P), "R16")

	// ---- R17 a closed route delivers nothing more: its hand-off is a rendezvous (shared with C16.R32) ----
	checkChannelCapacityClass(c, "R17")
}

// checkRequestUserFallback: the user that selects the route is taken from Proxy-Authorization for proxy-form requests
// and from Authorization otherwise — and also for a proxy-form request that carries no proxy credentials (what
// `curl -x frps:80 -u alice:...` sends). The function is found by what it does (the vhost function that calls
// Request.BasicAuth); the rule: every return that did not consult Request.BasicAuth carries the fact user != "".
func checkRequestUserFallback(c *engine.Ctx, rule string) {
	c.Rule(rule, "the vhost helper that extracts the request's user returns without consulting Request.BasicAuth only on paths where the Proxy-Authorization user was found non-empty")
	p := c.P
	n := 0
	for _, f := range p.RepoFuncs() {
		if f.Pkg == nil || !strings.HasSuffix(f.Pkg.Pkg.Path(), "/pkg/util/vhost") || f.Parent() != nil {
			continue
		}
		var basic []ssa.Instruction
		readsProxyHeader := false
		engine.ForEachInstr(f, func(in ssa.Instruction) {
			call, ok := in.(ssa.CallInstruction)
			if !ok {
				return
			}
			if o := engine.CalleeObj(call); o != nil && o.Pkg() != nil && o.Pkg().Path() == "net/http" && o.Name() == "BasicAuth" {
				basic = append(basic, in)
			}
			for _, a := range call.Common().Args {
				if sv, ok := engine.ConstString(a); ok && sv == "Proxy-Authorization" {
					readsProxyHeader = true
				}
			}
		})
		if len(basic) == 0 || !readsProxyHeader {
			continue
		}
		n++
		var res0 []ssa.Value
		engine.ForEachInstr(f, func(in ssa.Instruction) {
			if r, ok := in.(*ssa.Return); ok && len(r.Results) > 0 {
				res0 = append(res0, r.Results[0])
			}
		})
		c.AllPaths(p.FuncName(f)+">fallback", engine.PathCheck{Fn: f, Sink: engine.IsReturn, Track: res0,
			Event: func(in ssa.Instruction) string {
				for _, b := range basic {
					if in == b {
						return "basic"
					}
				}
				return ""
			},
			Pred: func(st *engine.PathState) string {
				if st.HasEvent("basic") {
					return ""
				}
				r := st.Sink.(*ssa.Return)
				u := st.Resolve(r.Results[0])
				if sv, ok := engine.ConstString(u); ok && sv != "" {
					return ""
				}
				if eq, k := st.Equal(func(v ssa.Value) bool { return v == u }, func(v ssa.Value) bool { s, ok := engine.ConstString(v); return ok && s == "" }); k && !eq {
					return ""
				}
				return "the request's user is returned without falling back to the Authorization header on a path where the Proxy-Authorization user was not found non-empty: such a request is routed as anonymous"
			}}, "fallback to Authorization whenever no proxy user was presented")
	}
	c.Floor(n, 1)
}

// walkerPlan abstracts a route walker (getVhost / getListener): the constants and calls it is made of.
type walkerPlan struct {
	finder      *ssa.Function // the inner closure doing user-specific then generic lookup
	minLabels   int64
	star        bool // replaces first label by "*"
	finalStar   bool // last resort "*"
	finderCalls int
	splitDot    bool
	joinDot     bool
	userThenAny bool
	earlyExit   string // an exit of the wildcard loop other than "labels exhausted" / "found"
}

func planOf(f *ssa.Function) (*walkerPlan, string) {
	pl := &walkerPlan{minLabels: -1}
	switch {
	case len(f.AnonFuncs) == 1:
		pl.finder = f.AnonFuncs[0]
	case len(f.AnonFuncs) == 0:
		// the finder was turned into a method / function of the same package: the callee that is called with the
		// constant "*" and itself performs the two route lookups
		engine.ForEachInstr(f, func(in ssa.Instruction) {
			call, ok := in.(*ssa.Call)
			if !ok {
				return
			}
			cf := engine.CalleeFn(call)
			if cf == nil || cf.Blocks == nil || cf.Pkg != f.Pkg || cf == f {
				return
			}
			for _, a := range call.Call.Args {
				if s, ok := engine.ConstString(a); ok && s == "*" {
					pl.finder = cf
				}
			}
		})
	}
	if pl.finder == nil {
		return nil, "expected exactly one inner finder (closure, or same-package helper called with \"*\")"
	}
	// finder: two Get calls, second with "" as user
	var gets []*ssa.Call
	engine.ForEachInstr(pl.finder, func(in ssa.Instruction) {
		if call, ok := in.(*ssa.Call); ok {
			if o := engine.CalleeObj(call); o != nil && o.Name() == "Get" {
				gets = append(gets, call)
			}
		}
	})
	if len(gets) == 2 {
		a1 := gets[0].Call.Args[len(gets[0].Call.Args)-1]
		a2 := gets[1].Call.Args[len(gets[1].Call.Args)-1]
		_, firstIsParam := a1.(*ssa.Parameter)
		if !firstIsParam {
			// the request's coordinates travel as one struct parameter: the user is a field of it
			src := engine.Provenance(a1, engine.ProvOpts{})
			firstIsParam = len(src.Params) == 1 && len(src.Consts) == 0 && len(src.Calls) == 0
			for pr := range src.Params {
				if pr.Parent() != pl.finder {
					firstIsParam = false
				}
			}
		}
		s, secondEmpty := engine.ConstString(a2)
		pl.userThenAny = firstIsParam && secondEmpty && s == ""
	}
	var finderCallAt *ssa.Call
	scan := func(in ssa.Instruction) {
		switch x := in.(type) {
		case *ssa.Call:
			if engine.CalleeFn(x) == pl.finder {
				pl.finderCalls++
				finderCallAt = x
				for _, a := range x.Call.Args {
					if s, ok := engine.ConstString(a); ok && s == "*" {
						pl.finalStar = true
					}
				}
			}
			if o := engine.CalleeObj(x); o != nil && o.Pkg() != nil && o.Pkg().Path() == "strings" {
				switch o.Name() {
				case "Split":
					if s, ok := engine.ConstString(x.Call.Args[1]); ok && s == "." {
						pl.splitDot = true
					}
				case "Join":
					if s, ok := engine.ConstString(x.Call.Args[1]); ok && s == "." {
						pl.joinDot = true
					}
				}
			}
		case *ssa.BinOp:
			if x.Op == token.LSS || x.Op == token.GEQ || x.Op == token.LEQ || x.Op == token.GTR {
				if lc, ok := x.X.(*ssa.Call); ok {
					if b, ok := lc.Call.Value.(*ssa.Builtin); ok && b.Name() == "len" {
						if k, ok := engine.ConstInt(x.Y); ok {
							switch x.Op {
							case token.LSS: // len < k ⇒ stop: continue while len >= k
								pl.minLabels = k
							case token.GEQ:
								pl.minLabels = k
							case token.LEQ:
								pl.minLabels = k + 1
							case token.GTR:
								pl.minLabels = k + 1
							}
						}
					}
				}
			}
		case *ssa.Store:
			if s, ok := engine.ConstString(x.Val); ok && s == "*" {
				if ia, ok := x.Addr.(*ssa.IndexAddr); ok {
					if k, ok := engine.ConstInt(ia.Index); ok && k == 0 {
						pl.star = true
					}
				}
				// the catch-all written into the host field of the struct the finder is called with
				if fa, ok := x.Addr.(*ssa.FieldAddr); ok {
					if _, local := fa.X.(*ssa.Alloc); local {
						pl.finalStar = true
					}
				}
			}
		}
	}
	engine.ForEachInstr(f, scan)
	// table-driven form: one lookup step inside a loop over the candidates a same-package generator lists for the host
	// (the host itself first, then the wildcard forms, "*" appended last). The generator is scanned for the same
	// constants; its first candidate must be its parameter and its result must end with "*".
	if pl.finderCalls == 1 && finderCallAt != nil && engine.LoopHeader(finderCallAt.Block()) != nil {
		var gen *ssa.Function
		engine.ForEachInstr(f, func(in ssa.Instruction) {
			call, ok := in.(*ssa.Call)
			if !ok {
				return
			}
			cf := engine.CalleeFn(call)
			if cf == nil || cf.Blocks == nil || cf.Pkg != f.Pkg || cf == pl.finder || cf.Signature.Results().Len() != 1 {
				return
			}
			if sl, ok := cf.Signature.Results().At(0).Type().Underlying().(*types.Slice); ok {
				if b, ok := sl.Elem().Underlying().(*types.Basic); ok && b.Kind() == types.String {
					gen = cf
				}
			}
		})
		if gen != nil && len(gen.Params) >= 1 {
			engine.ForEachInstr(gen, scan)
			firstIsHost, endsWithStar := false, false
			engine.ForEachInstr(gen, func(in ssa.Instruction) {
				switch x := in.(type) {
				case *ssa.Store:
					if ia, ok := x.Addr.(*ssa.IndexAddr); ok {
						if k, ok := engine.ConstInt(ia.Index); ok && k == 0 && x.Val == ssa.Value(gen.Params[len(gen.Params)-1]) {
							firstIsHost = true
						}
					}
				case *ssa.Return:
					// the returned slice is append(candidates, "*")
					if call, ok := x.Results[0].(*ssa.Call); ok {
						if b, ok := call.Call.Value.(*ssa.Builtin); ok && b.Name() == "append" && len(call.Call.Args) == 2 {
							src := engine.Provenance(call.Call.Args[1], engine.ProvOpts{})
							if len(src.Consts) >= 1 && src.Consts[`"*"`] {
								endsWithStar = true
							}
						}
					}
				}
			})
			if firstIsHost && endsWithStar {
				pl.finalStar = true
				pl.finderCalls = 3 // exact (first candidate), wildcard walk, catch-all (last candidate)
			}
		}
	}
	// the wildcard loop ends only because the labels are exhausted or a route was found: any other way out (a budget,
	// a timeout) skips less specific wildcards that would have matched
	if finderCallAt != nil {
		if h := engine.LoopHeader(finderCallAt.Block()); h != nil && pl.finderCalls >= 3 {
			inLoop := func(b *ssa.BasicBlock) bool {
				return h.Dominates(b) && len(b.Instrs) > 0 && len(h.Instrs) > 0 && (b == h || engine.InstrReaches(b.Instrs[0], h.Instrs[0]))
			}
			for _, b := range f.Blocks {
				if !inLoop(b) {
					continue
				}
				for _, succ := range b.Succs {
					if inLoop(succ) {
						continue
					}
					// leaving the loop from b to succ
					if len(succ.Instrs) > 0 {
						if _, isRet := succ.Instrs[len(succ.Instrs)-1].(*ssa.Return); isRet && len(succ.Instrs) <= 3 {
							continue // found: return
						}
					}
					okExit := false
					if t, isIf := b.Instrs[len(b.Instrs)-1].(*ssa.If); isIf {
						// "found": the branch on the finder's ok result (whatever is logged or counted before the return)
						if ex, isEx := t.Cond.(*ssa.Extract); isEx {
							if cl, isCall := ex.Tuple.(*ssa.Call); isCall && engine.CalleeFn(cl) == pl.finder {
								okExit = true
							}
						}
						if bo, isBin := t.Cond.(*ssa.BinOp); isBin {
							if lc, ok := bo.X.(*ssa.Call); ok {
								if bi, ok := lc.Call.Value.(*ssa.Builtin); ok && bi.Name() == "len" {
									okExit = true
								}
							}
						}
					}
					if !okExit {
						pl.earlyExit = "the wildcard loop can be left at " + f.Prog.Fset.Position(b.Instrs[len(b.Instrs)-1].Pos()).String() + " before the labels are exhausted"
					}
				}
			}
		}
	}
	return pl, ""
}

// checkFreshLookup: a request is routed by the registry's answer at the time of the request. Whatever a route walker
// returns as found must come out of a Routers.Get made for this request — not out of a memo that Listen / Close /
// Register / UnRegister (and the group controllers, which write the registry directly) would all have to keep coherent.
func checkFreshLookup(c *engine.Ctx, rule string) {
	c.Rule(rule, "every value the route walkers (HTTPReverseProxy.getVhost, Muxer.getListener) return as found derives from a Routers.Get call of this lookup")
	get := method(c, "pkg/util/vhost", "Routers", "Get")
	if get == nil {
		return
	}
	n := 0
	for _, sym := range []string{"pkg/util/vhost.HTTPReverseProxy.getVhost", "pkg/util/vhost.Muxer.getListener"} {
		f := fn(c, sym)
		if f == nil {
			continue
		}
		engine.ForEachInstr(f, func(in ssa.Instruction) {
			r, ok := in.(*ssa.Return)
			if !ok || len(r.Results) != 2 {
				return
			}
			if b, isC := engine.ConstBool(spilledResult(r, 1)); isC && !b {
				return
			}
			n++
			src := engine.DeepSources(c.P, spilledResult(r, 0))
			c.Check(src.HasCall(get), fmt.Sprintf("%s>fresh#%d", sym, n), in.Pos(), len(src.Values), nil,
				"the returned route comes from a registry lookup made for this request")
		})
	}
	c.Floor(n, 2)
}

func checkWalkers(c *engine.Ctx) {
	n := 0
	var plans []*walkerPlan
	for _, sym := range []string{"pkg/util/vhost.HTTPReverseProxy.getVhost", "pkg/util/vhost.Muxer.getListener"} {
		f := fn(c, sym)
		if f == nil {
			continue
		}
		pl, why := planOf(f)
		if pl == nil {
			// the walk may have been split out of the entry point (a wrapper that adds logging, metrics, …)
			for _, g := range allAnon(f) {
				if g.Parent() == nil {
					if p2, _ := planOf(g); p2 != nil {
						pl = p2
						break
					}
				}
			}
		}
		if pl == nil {
			c.Undecide(sym, f.Pos(), "walker shape not recognised: %s", why)
			continue
		}
		n++
		plans = append(plans, pl)
		var bad []string
		if !pl.userThenAny {
			bad = append(bad, "each step must try the request's user first and then the unrestricted (\"\") route")
		}
		if pl.minLabels != 3 {
			bad = append(bad, fmt.Sprintf("the wildcard walk must continue while at least 3 labels remain (found %d)", pl.minLabels))
		}
		if !pl.star || !pl.splitDot || !pl.joinDot {
			bad = append(bad, "the wildcard walk must split on '.', replace the first label by \"*\" and re-join")
		}
		if !pl.finalStar {
			bad = append(bad, "the catch-all \"*\" must be tried last")
		}
		if pl.earlyExit != "" {
			bad = append(bad, pl.earlyExit+": a less specific wildcard that matches is skipped and the catch-all (or nobody) gets the connection")
		}
		if pl.finderCalls != 3 {
			bad = append(bad, fmt.Sprintf("expected three lookup steps (exact, wildcard loop, catch-all), found %d", pl.finderCalls))
		}
		c.Check(len(bad) == 0, sym, f.Pos(), 6, []string{fmt.Sprintf("plan: userThenAny=%v minLabels=%d star=%v finalStar=%v steps=%d", pl.userThenAny, pl.minLabels, pl.star, pl.finalStar, pl.finderCalls)},
			"walker follows the most-specific-first plan (%s)", strings.Join(bad, "; "))
	}
	if len(plans) == 2 {
		a, b := plans[0], plans[1]
		same := a.userThenAny == b.userThenAny && a.minLabels == b.minLabels && a.star == b.star && a.finalStar == b.finalStar && a.finderCalls == b.finderCalls
		c.Check(same, "walkers>agree", plans[0].finder.Pos(), 2, nil, "HTTP and muxer walkers agree on the lookup plan")
	}
	c.Floor(n, 2)
}

// lenIsZero: does the literal establish len(x) == 0? Returns x.
func lenIsZero(l engine.Lit) (ssa.Value, bool) {
	x, y, op := l.X, l.Y, l.Op
	if _, isC := x.(*ssa.Const); isC {
		x, y, op = y, x, flipOrd(op)
	}
	lc, ok := x.(*ssa.Call)
	if !ok {
		return nil, false
	}
	if b, ok := lc.Call.Value.(*ssa.Builtin); !ok || b.Name() != "len" {
		return nil, false
	}
	z, ok := engine.ConstInt(y)
	if !ok {
		return nil, false
	}
	if op == token.EQL {
		if z == 0 && l.Val {
			return lc.Call.Args[0], true
		}
		return nil, false
	}
	if !l.Val {
		op = negOrd(op)
	}
	// len(x) op z, with len >= 0
	if (op == token.LEQ && z == 0) || (op == token.LSS && z == 1) {
		return lc.Call.Args[0], true
	}
	return nil, false
}

// checkHostIndexLowered (C06.R3, shared as C10.R13): every method of vhost.Routers reaches the host index with the
// lower-cased host — Add, Get *and* Del: a Del that looks under the raw host never finds a mixed-case route, which
// then stays registered for good.
func checkHostIndexLowered(c *engine.Ctx, rule string) {
	p := c.P
	existObj := p.MethodObj("pkg/util/vhost", "Routers", "exist")
	var exist *ssa.Function
	if existObj != nil {
		exist = p.FuncOf(existObj)
	}
	idxF := field(c, "pkg/util/vhost", "Routers", "indexByDomain")
	if idxF == nil {
		return
	}
	c.Rule(rule, "every access to the host index, and the duplicate test, use strings.ToLower of the host parameter")
	n := 0
	lowered := func(v ssa.Value) bool {
		src := engine.Provenance(v, engine.ProvOpts{})
		for k := range src.Calls {
			if k.Pkg() != nil && k.Pkg().Path() == "strings" && k.Name() == "ToLower" {
				return true
			}
		}
		return false
	}
	// a value is "lowered" if ToLower is in its provenance, or if it is a parameter of an unexported method all of
	// whose call sites pass a lowered value (the index access was extracted into a helper)
	var loweredAt func(f *ssa.Function, v ssa.Value, depth int) bool
	loweredAt = func(f *ssa.Function, v ssa.Value, depth int) bool {
		if lowered(v) {
			return true
		}
		pr, ok := engine.Unwrap(v).(*ssa.Parameter)
		if !ok || depth > 2 {
			return false
		}
		fo, _ := f.Object().(*types.Func)
		if fo == nil || fo.Exported() {
			return false
		}
		idx := -1
		for i, q := range f.Params {
			if q == pr {
				idx = i
			}
		}
		sites := 0
		for _, g := range p.RepoFuncs() {
			for _, cs := range engine.CallsTo(g, fo) {
				sites++
				args := engine.CallArgs(cs)
				if idx < 0 || idx >= len(args) || !loweredAt(g, args[idx], depth+1) {
					return false
				}
			}
		}
		return sites > 0
	}
	routersT := p.Named("pkg/util/vhost", "Routers")
	var methods []*ssa.Function
	if routersT != nil {
		for _, mf := range methodsOf(p, routersT) {
			methods = append(methods, mf)
		}
	}
	sort.Slice(methods, func(i, j int) bool { return methods[i].Name() < methods[j].Name() })
	for _, f := range methods {
		f := f
		engine.ForEachInstr(f, func(in ssa.Instruction) {
			var m, idx ssa.Value
			what := ""
			switch x := in.(type) {
			case *ssa.Lookup:
				m, idx, what = x.X, x.Index, "lookup"
			case *ssa.MapUpdate:
				m, idx, what = x.Map, x.Key, "insert"
			case ssa.CallInstruction:
				if b, ok := x.Common().Value.(*ssa.Builtin); ok && b.Name() == "delete" {
					m, idx, what = x.Common().Args[0], x.Common().Args[1], "delete"
				}
				if existObj != nil && engine.IsCallTo(in, existObj) && f != exist {
					n++
					c.Check(loweredAt(f, engine.CallArgs(x)[1], 0), p.FuncName(f)+">exist-arg", in.Pos(), 1, nil,
						"the duplicate test is made with the lower-cased host (otherwise App.Example.com and app.example.com both register and collide in the index)")
				}
			}
			if m == nil {
				return
			}
			if lf, _ := engine.LoadedField(m); lf != idxF {
				return
			}
			n++
			c.Check(loweredAt(f, idx, 0), fmt.Sprintf("%s>%s#%d", p.FuncName(f), what, n), in.Pos(), 1, nil, "host index %s uses the lower-cased host", what)
		})
	}
	c.Floor(n, 4)

}

// routerDuplicateVerdict abstracts "the duplicate test of Routers.Add": with the helper Routers.exist it is that call's
// result; when the test is made in place (one lookup serves the conflict scan and the insertion) it is the scan's
// comparison of an element's location with the location to register. known=false when neither form is present.
func routerDuplicateVerdict(c *engine.Ctx, add *ssa.Function) func(st *engine.PathState) (dup, known bool) {
	p := c.P
	existObj := p.MethodObj("pkg/util/vhost", "Routers", "exist")
	locF := p.Field("pkg/util/vhost", "Router", "location")
	inPlace := false
	isLocCmp := func(x, y ssa.Value) bool {
		lf, _ := engine.LoadedField(x)
		if lf == nil || lf != locF {
			return false
		}
		pr, ok := engine.Unwrap(y).(*ssa.Parameter)
		return ok && pr.Parent() == add
	}
	if existObj == nil || len(engine.CallsTo(add, existObj)) == 0 {
		engine.ForEachInstr(add, func(in ssa.Instruction) {
			if bo, ok := in.(*ssa.BinOp); ok && bo.Op == token.EQL && (isLocCmp(bo.X, bo.Y) || isLocCmp(bo.Y, bo.X)) {
				inPlace = true
			}
		})
	}
	return func(st *engine.PathState) (bool, bool) {
		if existObj != nil && len(engine.CallsTo(add, existObj)) > 0 {
			return st.Truth(extractOf(existObj, 1))
		}
		if !inPlace {
			return false, false
		}
		for _, l := range st.Lits {
			if l.Op == token.EQL && l.Val && (isLocCmp(l.X, l.Y) || isLocCmp(l.Y, l.X)) {
				return true, true
			}
		}
		return false, true
	}
}
