package rules

import (
	"fmt"
	"go/token"
	"go/types"
	"sort"
	"strings"

	"golang.org/x/tools/go/ssa"

	"frpsa/engine"
)

func init() {
	Registry["C07"] = &Property{
		Title:       "Password-protected endpoints serve only requests carrying the exact credentials",
		Run:         runC07,
		Explanation: "Decides the shape of every credential gate: (R1) in the vhost HTTP proxy the route user given to the credential check and the one stored for forwarding have the same provenance (same helper / same headers), host from CanonicalHost(req.Host) and path from req.URL.Path on both sides; (R2) CheckAuth returns true for a found route only when no credential is configured or user and password both equal the presented ones; (R3) proxying and the CONNECT handler are reached only after CheckAuth returned true, the refusal answers 401 with a challenge; (R4) the tcpmux muxer hands a connection to a listener that has a user name only after checkAuth returned (true, nil), and its auth function returns true only on equality of both parts; (R5) the shared basic-auth middleware calls the next handler only when no credential is configured or both constant-time comparisons succeed; (R6) every dashboard / admin route except /healthz is registered on the sub-router that uses the middleware, which is built from the configured user and password; (R7) the http_proxy plugin reaches a backend (dial / round trip) only behind Auth()==true in every method and caller, Auth accepts only both constant-time equalities, socks5 installs credentials whenever one is configured and static_file installs the middleware before serving. (R8) every RouteConfig the server builds takes Username / Password / RouteByHTTPUser from the proxy's HTTPUser / HTTPPassword / RouteByHTTPUser, through helper parameters at every call site. Not decided: parsing corner cases inside net/http, timing side channels.",
		Assumptions: commonAssumptions,
	}
}

// provKey summarises the sources of a value for sibling comparison: callee names and string constants.
func provKey(s *engine.Sources) string {
	var parts []string
	for f := range s.Calls {
		pk := ""
		if f.Pkg() != nil {
			pk = f.Pkg().Name() + "."
		}
		parts = append(parts, "call:"+pk+f.Name())
	}
	for k := range s.Consts {
		if strings.HasPrefix(k, "\"") && k != "\"\"" {
			parts = append(parts, "const:"+k)
		}
	}
	for f := range s.Fields {
		// only fields of the request itself (net/http, net/url); intermediate repo structs are transparent
		if f.Pkg() != nil && (f.Pkg().Path() == "net/http" || f.Pkg().Path() == "net/url") {
			parts = append(parts, "field:"+f.Name())
		}
	}
	sort.Strings(parts)
	return strings.Join(parts, " ")
}

func runC07(c *engine.Ctx) {
	p := c.P
	serve := fn(c, "pkg/util/vhost.HTTPReverseProxy.ServeHTTP")
	checkAuth := method(c, "pkg/util/vhost", "HTTPReverseProxy", "CheckAuth")
	getRC := method(c, "pkg/util/vhost", "HTTPReverseProxy", "GetRouteConfig")
	if serve == nil || checkAuth == nil || getRC == nil {
		return
	}
	// the function that selects the forwarding route: whichever vhost function calls GetRouteConfig on the serving
	// path (injectRequestInfoToCtx on the confirmed tree, ServeHTTP itself when that helper is inlined)
	var injects []*ssa.Function
	for _, f := range p.RepoFuncs() {
		if f.Pkg == serve.Pkg && len(engine.CallsTo(f, getRC)) > 0 {
			injects = append(injects, f)
		}
	}
	if len(injects) == 0 {
		c.Missing("pkg/util/vhost.<route selection>", "no vhost function calls GetRouteConfig")
		return
	}

	// ---- R1 ----
	checkAuthRouteAgreement(c, "R1")
	n := 0

	checkPoolKey(c, "R1b")

	// ---- R2 ----
	c.Rule("R2", "CheckAuth returns true for a found route only if no credential is configured or both the user and the password equal the presented ones")
	if ca := p.FuncOf(checkAuth); ca != nil {
		userF := field(c, "pkg/util/vhost", "RouteConfig", "Username")
		passF := field(c, "pkg/util/vhost", "RouteConfig", "Password")
		getVhost := method(c, "pkg/util/vhost", "HTTPReverseProxy", "getVhost")
		if userF != nil && passF != nil && getVhost != nil {
			empty := func(v ssa.Value) bool { s, ok := engine.ConstString(v); return ok && s == "" }
			c.AllPaths("pkg/util/vhost.HTTPReverseProxy.CheckAuth", engine.PathCheck{Fn: ca, Sink: engine.IsReturn, Pred: func(st *engine.PathState) string {
				r := st.Sink.(*ssa.Return)
				rv := st.Resolve(r.Results[0])
				res, isC := engine.ConstBool(rv)
				// `return a == x && b == y`: the verdict is the last comparison itself; it is true only when that comparison
				// holds, so treat it as established for the accepting reading of this exit
				var lastEq *ssa.BinOp
				if !isC {
					if bo, ok := rv.(*ssa.BinOp); ok && bo.Op == token.EQL {
						lastEq, res, isC = bo, true, true
					}
				}
				if !isC {
					return "CheckAuth returns a non-constant verdict the rule cannot classify"
				}
				if !res {
					return ""
				}
				found, known := st.Truth(extractOf(getVhost, 1))
				if known && !found {
					return ""
				}
				eq := func(f *types.Var, m func(ssa.Value) bool) bool {
					v, k := st.Equal(loadOfField(f), m)
					if k && v {
						return true
					}
					if lastEq != nil {
						x, y := st.Resolve(lastEq.X), st.Resolve(lastEq.Y)
						if (loadOfField(f)(x) && m(y)) || (loadOfField(f)(y) && m(x)) {
							return true
						}
					}
					return false
				}
				if eq(userF, empty) && eq(passF, empty) {
					return ""
				}
				if eq(userF, isParam("user")) && eq(passF, isParam("passwd")) {
					return ""
				}
				return "CheckAuth accepts on a path where the route has a credential and the presented user/password were not both found equal"
			}}, "accepts only without configured credential or with both parts equal")
			c.Floor(1, 1)
		}
	}

	// ---- R3 ----
	c.Rule("R3", "HTTPReverseProxy.ServeHTTP reaches the reverse proxy and the CONNECT handler only after CheckAuth returned true; the refusal sets WWW-Authenticate and answers 401")
	n = 0
	connectH := method(c, "pkg/util/vhost", "HTTPReverseProxy", "connectHandler")
	engine.ForEachInstr(serve, func(in ssa.Instruction) {
		call, ok := in.(ssa.CallInstruction)
		if !ok {
			return
		}
		o := engine.CalleeObj(call)
		if o == nil {
			return
		}
		isFwd := engine.SameFunc(o, connectH) || o.Name() == "ServeHTTP"
		if !isFwd {
			return
		}
		n++
		c.AllPaths(fmt.Sprintf("pkg/util/vhost.HTTPReverseProxy.ServeHTTP>forward#%d", n), engine.PathCheck{Fn: serve, Sink: engine.Is(in), Pred: func(st *engine.PathState) string {
			if v, k := st.Truth(resultOf(checkAuth)); !(k && v) {
				return "the request is forwarded on a path where CheckAuth did not return true"
			}
			return ""
		}}, "forwarding only after CheckAuth")
	})
	n++
	c.AllPaths("pkg/util/vhost.HTTPReverseProxy.ServeHTTP>refusal", engine.PathCheck{Fn: serve, Sink: engine.IsReturn,
		Event: func(in ssa.Instruction) string {
			call, ok := in.(ssa.CallInstruction)
			if !ok {
				return ""
			}
			o := engine.CalleeObj(call)
			if o == nil {
				return ""
			}
			args := engine.CallArgs(call)
			if o.Name() == "Set" && len(args) >= 2 {
				if s, ok := engine.ConstString(args[1]); ok && s == "WWW-Authenticate" {
					return "challenge"
				}
			}
			if o.Name() == "Error" && o.Pkg() != nil && o.Pkg().Path() == "net/http" {
				if v, ok := engine.ConstInt(args[len(args)-1]); ok && v == 401 {
					return "401"
				}
			}
			return ""
		},
		Pred: func(st *engine.PathState) string {
			v, k := st.Truth(resultOf(checkAuth))
			if !k {
				return "ServeHTTP returns without consulting CheckAuth"
			}
			if !v && !(st.HasEvent("challenge") && st.HasEvent("401")) {
				return "a refused request is not answered with 401 and an authentication challenge"
			}
			return ""
		}}, "refusal answers 401 + WWW-Authenticate")
	c.Floor(n, 3)

	// ---- R4 ----
	c.Rule("R4", "vhost.Muxer.handle hands the connection to the listener only when the listener has no user name, or checkAuth returned (true, nil); HTTPConnectTCPMuxer.auth returns true only when user and password both equal the presented ones")
	n = 0
	if h := fn(c, "pkg/util/vhost.Muxer.handle"); h != nil {
		unameF := field(c, "pkg/util/vhost", "Listener", "username")
		checkF := field(c, "pkg/util/vhost", "Muxer", "checkAuth")
		acceptF := field(c, "pkg/util/vhost", "Listener", "accept")
		if unameF != nil && checkF != nil && acceptF != nil {
			// the hand-off: a closure run by PanicToError that sends on l.accept
			isHandOff := func(x ssa.Instruction) bool {
				if s, ok := x.(*ssa.Send); ok {
					if lf, _ := engine.LoadedField(s.Chan); lf == acceptF {
						return true
					}
				}
				return false
			}
			sites := stepsThatDo(h, isHandOff)
			if len(sites) == 0 {
				c.Undecide("pkg/util/vhost.Muxer.handle>hand-off", h.Pos(), "hand-off send not found")
			}
			lnT := c.P.Named("pkg/util/vhost", "Listener")
			isLn := func(t types.Type) bool { return lnT != nil && engine.NamedOf(engine.Deref(t)) == lnT }
			for si, site := range sites {
				site := site
				n++
				// the listener that receives the connection at this site
				var targets []ssa.Value
				switch x := site.(type) {
				case *ssa.Send:
					if _, base := engine.LoadedField(x.Chan); base != nil {
						targets = append(targets, base)
					}
				case ssa.CallInstruction:
					for _, a := range engine.CallArgs(x) {
						if isLn(a.Type()) {
							targets = append(targets, a)
						}
						if mc, ok := a.(*ssa.MakeClosure); ok {
							for _, b := range mc.Bindings {
								if isLn(b.Type()) {
									targets = append(targets, b)
								}
							}
						}
					}
				}
				isCheckCall := func(v ssa.Value, idx int) bool {
					cl, i := engine.ResultOfCall(v)
					if cl == nil || i != idx {
						return false
					}
					lf, _ := engine.LoadedField(cl.Call.Value)
					return lf == checkF
				}
				key := "pkg/util/vhost.Muxer.handle>hand-off"
				if si > 0 {
					key = fmt.Sprintf("%s#%d", key, si+1)
				}
				c.AllPaths(key, engine.PathCheck{Fn: h, Sink: engine.Is(site), Pred: func(st *engine.PathState) string {
					// the listener whose credentials the path looked at must be the one that gets the connection
					sameListener := func(v ssa.Value) bool {
						_, base := engine.LoadedField(engine.Unwrap(v))
						if base == nil || len(targets) == 0 {
							return true
						}
						rb := st.Resolve(engine.Unwrap(base))
						for _, t := range targets {
							rt := st.Resolve(engine.Unwrap(t))
							if al, ok := rt.(*ssa.Alloc); ok { // a captured variable: the cell, compared by what it holds
								if u, ok := engine.Unwrap(base).(*ssa.UnOp); ok && u.X == ssa.Value(al) {
									return true
								}
								if cv := st.CellValue(al); cv != nil && (cv == rb || engine.SameExpr(cv, rb)) {
									return true
								}
								continue
							}
							if rb == rt || engine.SameExpr(rb, rt) {
								return true
							}
						}
						return false
					}
					checked := func(v ssa.Value) bool { return loadOfField(unameF)(v) && sameListener(v) }
					// no user configured on the listener
					if eq, k := st.Equal(checked, func(v ssa.Value) bool { s, ok := engine.ConstString(v); return ok && s == "" }); k && eq {
						return ""
					}
					okv, k1 := st.Truth(func(v ssa.Value) bool { return isCheckCall(v, 0) })
					errNil, k2 := st.IsNil(func(v ssa.Value) bool { return isCheckCall(v, 1) })
					if k1 && okv && k2 && errNil {
						// … and the check was given this listener's credentials
						_, k3 := st.Equal(checked, func(v ssa.Value) bool { s, ok := engine.ConstString(v); return ok && s == "" })
						if k3 {
							return ""
						}
						return "the connection is handed to a listener other than the one whose credentials were checked"
					}
					// a muxer without auth function (https): allowed only when the function field is nil
					if isNil, k := st.IsNil(loadOfField(checkF)); k && isNil {
						return ""
					}
					return "the connection is handed to a listener that has a user name on a path where checkAuth did not return (true, nil)"
				}}, "hand-off only for listeners without user or after a successful checkAuth")
			}
		}
	}
	// the credential check is whatever function is installed through Muxer.SetCheckAuthFunc (found by use, not by name)
	var authFns []*ssa.Function
	if setAuth := method(c, "pkg/util/vhost", "Muxer", "SetCheckAuthFunc"); setAuth != nil {
		for _, f := range c.P.RepoFuncs() {
			for _, call := range engine.CallsTo(f, setAuth) {
				args := engine.CallArgs(call)
				af := funcValueOf(c.P, args[len(args)-1])
				if af == nil {
					c.Undecide(c.P.FuncName(f)+">SetCheckAuthFunc", call.Pos(), "the installed credential check is not a statically known function")
					continue
				}
				authFns = append(authFns, af)
			}
		}
	}
	for _, a := range authFns {
		if len(a.Params) < 4 {
			continue
		}
		n++
		userP, passP := a.Params[len(a.Params)-3], a.Params[len(a.Params)-2]
		isP := func(p *ssa.Parameter) func(ssa.Value) bool {
			return func(v ssa.Value) bool { return v == ssa.Value(p) }
		}
		c.AllPaths(c.P.FuncName(a), engine.PathCheck{Fn: a, Sink: engine.IsReturn, Pred: func(st *engine.PathState) string {
			r := st.Sink.(*ssa.Return)
			res, isC := engine.ConstBool(st.Resolve(r.Results[0]))
			if !isC {
				return "auth returns a non-constant verdict"
			}
			if !res {
				return ""
			}
			lookup := func(key string) func(ssa.Value) bool {
				return func(v ssa.Value) bool {
					lk, ok := v.(*ssa.Lookup)
					if !ok {
						return false
					}
					s, ok := engine.ConstString(lk.Index)
					return ok && s == key
				}
			}
			e1, k1 := st.Equal(isP(userP), lookup("HTTPUser"))
			e2, k2 := st.Equal(isP(passP), lookup("HTTPPwd"))
			if !(k1 && e1 && k2 && e2) {
				return "auth accepts on a path where user name and password were not both found equal to the presented ones"
			}
			return ""
		}}, "true only on equality of both parts")
	}
	c.Floor(n, 2)

	// ---- R5 ----
	c.Rule("R5", "the shared basic-auth middleware calls the next handler only when no credential is configured or the request has credentials and both constant-time comparisons succeed")
	n = 0
	if mw := fn(c, "pkg/util/net.HTTPAuthMiddleware.Middleware"); mw != nil {
		ctEq := funcObj(c, "pkg/util/util", "ConstantTimeEqString")
		uF := field(c, "pkg/util/net", "HTTPAuthMiddleware", "user")
		pF := field(c, "pkg/util/net", "HTTPAuthMiddleware", "passwd")
		for _, cf := range allAnon(mw) {
			engine.ForEachInstr(cf, func(in ssa.Instruction) {
				call, ok := in.(ssa.CallInstruction)
				if !ok || !call.Common().IsInvoke() || call.Common().Method.Name() != "ServeHTTP" {
					return
				}
				n++
				c.AllPaths("pkg/util/net.HTTPAuthMiddleware.Middleware", engine.PathCheck{Fn: cf, Sink: engine.Is(in), Pred: func(st *engine.PathState) string {
					empty := func(v ssa.Value) bool { s, ok := engine.ConstString(v); return ok && s == "" }
					eu, ku := st.Equal(loadOfField(uF), empty)
					ep, kp := st.Equal(loadOfField(pF), empty)
					if ku && eu && kp && ep {
						return ""
					}
					okU, okP := false, false
					for _, l := range st.Lits {
						if l.Op != token.ILLEGAL || !l.Val {
							continue
						}
						cl, _ := engine.ResultOfCall(l.X)
						if cl == nil || !engine.SameFunc(engine.CalleeObj(cl), ctEq) {
							continue
						}
						for _, a := range cl.Call.Args {
							if lf, _ := engine.LoadedField(a); lf == uF {
								okU = true
							} else if lf == pF {
								okP = true
							}
						}
					}
					hasAuth, kh := st.Truth(func(v ssa.Value) bool {
						ex, ok := v.(*ssa.Extract)
						if !ok || ex.Index != 2 {
							return false
						}
						cl, ok := ex.Tuple.(*ssa.Call)
						return ok && engine.CalleeObj(cl) != nil && engine.CalleeObj(cl).Name() == "BasicAuth"
					})
					if okU && okP && kh && hasAuth {
						return ""
					}
					return "the protected handler is served on a path where a credential is configured and the request's user/password were not both verified"
				}}, "next handler only without credential or with both parts verified")
			})
		}
	}
	c.Floor(n, 1)

	// ---- R6 ----
	c.Rule("R6", "every route registered by the dashboard and admin APIs except /healthz is registered on the sub-router on which Use(AuthMiddleware) is called; the middleware is built from the configured user and password")
	n = 0
	for _, sym := range []string{"server.Service.registerRouteHandlers", "client.Service.registerRouteHandlers"} {
		f := fn(c, sym)
		if f == nil {
			continue
		}
		// the protected router: receiver of the Use call
		var protected ssa.Value
		engine.ForEachInstr(f, func(in ssa.Instruction) {
			if call, ok := in.(ssa.CallInstruction); ok {
				if o := engine.CalleeObj(call); o != nil && o.Name() == "Use" {
					src := engine.Provenance(engine.CallArgs(call)[1], engine.ProvOpts{})
					for fv := range src.Fields {
						if fv.Name() == "AuthMiddleware" {
							protected = engine.CallArgs(call)[0]
						}
					}
				}
			}
		})
		if protected == nil {
			c.Violate(sym+">Use", f.Pos(), nil, "no sub-router uses the authentication middleware")
			continue
		}
		routes := 0
		for _, g := range append([]*ssa.Function{f}, allAnon(f)...) {
			engine.ForEachInstr(g, func(in ssa.Instruction) {
				call, ok := in.(ssa.CallInstruction)
				if !ok {
					return
				}
				o := engine.CalleeObj(call)
				if o == nil || o.Pkg() == nil || !strings.HasSuffix(o.Pkg().Path(), "gorilla/mux") {
					return
				}
				switch o.Name() {
				case "HandleFunc", "Handle", "PathPrefix":
				default:
					return
				}
				recvT := engine.NamedOf(engine.CallArgs(call)[0].Type())
				if recvT == nil || recvT.Obj().Name() != "Router" {
					return
				}
				routes++
				n++
				path, _ := engine.ConstString(engine.CallArgs(call)[1])
				key := sym + ">" + path
				if path == "/healthz" {
					c.Hold(key, in.Pos(), 1, nil, "liveness endpoint is intentionally unauthenticated")
					return
				}
				c.Check(engine.SameValue(engine.CallArgs(call)[0], protected), key, in.Pos(), 1, nil, "route %s is registered on the authenticated sub-router", path)
			})
		}
		if routes < 5 {
			c.Violate(sym+">routes", f.Pos(), nil, "only %d route registrations recognised", routes)
		}
	}
	if ns := fn(c, "pkg/util/http.NewServer"); ns != nil {
		mwF := field(c, "pkg/util/http", "Server", "authMiddleware")
		uF := field(c, "pkg/config/v1", "WebServerConfig", "User")
		pF := field(c, "pkg/config/v1", "WebServerConfig", "Password")
		engine.ForEachInstr(ns, func(in ssa.Instruction) {
			st, ok := in.(*ssa.Store)
			if !ok {
				return
			}
			if lf, _ := engine.LoadedField(st.Addr); lf != mwF {
				return
			}
			n++
			src := engine.Provenance(st.Val, engine.ProvOpts{})
			c.Check(src.HasField(uF) && src.HasField(pF), "pkg/util/http.NewServer>middleware", in.Pos(), len(src.Values), []string{src.Summary()},
				"the middleware is built from the configured web-server user and password")
		})
	}
	c.Floor(n, 10)

	// ---- R7 ----
	c.Rule("R7", "http_proxy plugin: every dial / round trip is behind Auth()==true (in the function itself or at every call site of it); Auth returns true only without configured credential or with both constant-time equalities; socks5 sets credentials whenever one part is configured; static_file installs the middleware")
	n = 0
	hp := p.Named("pkg/plugin/client", "HTTPProxy")
	if hp == nil {
		c.Missing("pkg/plugin/client.HTTPProxy", "type not found")
	} else {
		authObj := p.MethodObj("pkg/plugin/client", "HTTPProxy", "Auth")
		ms := methodsOf(p, hp)
		gated := func(f *ssa.Function, in ssa.Instruction) bool {
			q := &engine.PathQuery{Fn: f, Sink: engine.Is(in)}
			states, err := q.Run()
			if err != nil || len(states) == 0 {
				return false
			}
			for _, st := range states {
				if v, k := st.Truth(resultOf(authObj)); !(k && v) {
					return false
				}
			}
			return true
		}
		isBackend := func(in ssa.Instruction) bool {
			call, ok := in.(ssa.CallInstruction)
			if !ok {
				return false
			}
			o := engine.CalleeObj(call)
			if o == nil || o.Pkg() == nil {
				return false
			}
			return (o.Pkg().Path() == "net" && strings.HasPrefix(o.Name(), "Dial")) || o.Name() == "RoundTrip"
		}
		for mo, f := range ms {
			engine.ForEachInstr(f, func(in ssa.Instruction) {
				if !isBackend(in) {
					return
				}
				n++
				key := "pkg/plugin/client.HTTPProxy." + mo.Name() + ">backend"
				if gated(f, in) {
					c.Hold(key, in.Pos(), 2, nil, "backend reached only after Auth()==true")
					return
				}
				// every call site of this method must be gated, and the method must not be used as a value
				sites, okAll := 0, true
				for _, g := range p.RepoFuncs() {
					engine.ForEachInstr(g, func(x ssa.Instruction) {
						for _, op := range x.Operands(nil) {
							if mc, ok := (*op).(*ssa.MakeClosure); ok {
								if bf, ok := mc.Fn.(*ssa.Function); ok && bf.Object() == types.Object(mo) {
									okAll = false
								}
							}
						}
						if engine.IsCallTo(x, mo) {
							sites++
							if !gated(g, x) {
								okAll = false
							}
						}
					})
				}
				c.Check(sites > 0 && okAll, key, in.Pos(), 1+sites, nil, "%s reaches a backend without its own Auth test, so each of its %d call sites must be behind Auth()==true", mo.Name(), sites)
			})
		}
		if af := p.FuncOf(authObj); af != nil {
			n++
			ctEq := funcObj(c, "pkg/util/util", "ConstantTimeEqString")
			c.AllPaths("pkg/plugin/client.HTTPProxy.Auth", engine.PathCheck{Fn: af, Sink: engine.IsReturn, Pred: func(st *engine.PathState) string {
				r := st.Sink.(*ssa.Return)
				res, isC := engine.ConstBool(st.Resolve(r.Results[0]))
				if !isC {
					return "Auth returns a non-constant verdict"
				}
				if !res {
					return ""
				}
				empty := func(v ssa.Value) bool { s, ok := engine.ConstString(v); return ok && s == "" }
				eu, ku := st.Equal(func(v ssa.Value) bool { f, _ := engine.LoadedField(v); return f != nil && f.Name() == "HTTPUser" }, empty)
				ep, kp := st.Equal(func(v ssa.Value) bool { f, _ := engine.LoadedField(v); return f != nil && f.Name() == "HTTPPassword" }, empty)
				if ku && eu && kp && ep {
					return ""
				}
				cnt := map[string]bool{}
				for _, l := range st.Lits {
					if l.Op != token.ILLEGAL || !l.Val {
						continue
					}
					cl, _ := engine.ResultOfCall(l.X)
					if cl == nil || !engine.SameFunc(engine.CalleeObj(cl), ctEq) {
						continue
					}
					for _, a := range cl.Call.Args {
						if f, _ := engine.LoadedField(a); f != nil {
							cnt[f.Name()] = true
						}
					}
				}
				if cnt["HTTPUser"] && cnt["HTTPPassword"] {
					return ""
				}
				return "Auth accepts on a path where a credential is configured and user/password were not both compared equal"
			}}, "accepts only without credential or with both parts equal")
		}
	}
	if f := fn(c, "pkg/plugin/client.NewSocks5Plugin"); f != nil {
		n++
		var store ssa.Instruction
		engine.ForEachInstr(f, func(in ssa.Instruction) {
			if st, ok := in.(*ssa.Store); ok {
				if lf, _ := engine.LoadedField(st.Addr); lf != nil && lf.Name() == "Credentials" {
					store = in
				}
			}
		})
		if store == nil {
			c.Violate("pkg/plugin/client.NewSocks5Plugin", f.Pos(), nil, "socks5 plugin never installs credentials")
		} else {
			// the server is created on no path where a part is configured but credentials were not stored
			var newCall ssa.Instruction
			engine.ForEachInstr(f, func(in ssa.Instruction) {
				if call, ok := in.(ssa.CallInstruction); ok {
					if o := engine.CalleeObj(call); o != nil && o.Name() == "New" && o.Pkg() != nil && strings.Contains(o.Pkg().Path(), "socks5") {
						newCall = in
					}
				}
			})
			if newCall == nil {
				c.Undecide("pkg/plugin/client.NewSocks5Plugin", f.Pos(), "socks5 server construction not found")
			} else {
				c.AllPaths("pkg/plugin/client.NewSocks5Plugin", engine.PathCheck{Fn: f, Sink: engine.Is(newCall),
					Event: func(in ssa.Instruction) string {
						if in == store {
							return "credentials"
						}
						return ""
					},
					Pred: func(st *engine.PathState) string {
						if st.HasEvent("credentials") {
							return ""
						}
						empty := func(v ssa.Value) bool { s, ok := engine.ConstString(v); return ok && s == "" }
						eu, ku := st.Equal(func(v ssa.Value) bool { f, _ := engine.LoadedField(v); return f != nil && f.Name() == "Username" }, empty)
						ep, kp := st.Equal(func(v ssa.Value) bool { f, _ := engine.LoadedField(v); return f != nil && f.Name() == "Password" }, empty)
						if ku && eu && kp && ep {
							return ""
						}
						return "the socks5 server is created without credentials on a path where a user name or password is configured"
					}}, "credentials installed whenever one part is configured")
			}
		}
	}
	if f := fn(c, "pkg/plugin/client.NewStaticFilePlugin"); f != nil {
		n++
		use, serveIdx, useIdx := false, -1, -1
		i := 0
		engine.ForEachInstr(f, func(in ssa.Instruction) {
			i++
			call, ok := in.(ssa.CallInstruction)
			if !ok {
				return
			}
			o := engine.CalleeObj(call)
			if o == nil {
				return
			}
			if o.Name() == "Use" {
				src := engine.Provenance(engine.CallArgs(call)[1], engine.ProvOpts{})
				hasU, hasP := false, false
				for fv := range src.Fields {
					if fv.Name() == "HTTPUser" {
						hasU = true
					}
					if fv.Name() == "HTTPPassword" {
						hasP = true
					}
				}
				if hasU && hasP {
					use, useIdx = true, i
				}
			}
			if o.Name() == "PathPrefix" && serveIdx < 0 {
				serveIdx = i
			}
		})
		c.Check(use && useIdx < serveIdx, "pkg/plugin/client.NewStaticFilePlugin", f.Pos(), 2, nil, "the file handler is registered on a router that already uses the middleware built from HTTPUser/HTTPPassword")
	}
	c.Floor(n, 3)

	// ---- R8 ----
	checkCredentialPlumbing(c, "R8")

	// ---- R9 the route tables are read under their lock (shared with C16.R1): a lookup that races with a registration
	// can miss the protected route, and "no route" means "no credential check" ----
	c16MapsRule(c, engine.AnalyzeLocks(c.P), "R9")

	// ---- R11 a queued un-register closure names the route it registered (shared with C10.R11): a protected route
	// removed by another proxy's clean-up leaves the host unprotected or served by a less specific route ----
	checkQueuedClosureCaptures(c, "R11")

	// ---- R12 the request the credentials were checked on is the request that selects the route (shared with C02.R13) ----
	checkRequestUntouchedOutsideHooks(c, "R12")

	// ---- R13 a route is complete (credentials included) when it enters the table (shared with C16.R31) ----
	checkInitBeforePublish(c, "R13")

	// ---- R10 a tcpmux group checks CONNECT credentials of one kind only ----
	c.Rule("R10", "a proxy joins an existing tcpmux group only when its httpUser and its httpPassword both equal the ones the group's route was registered with (the route checks the first member's credentials for every member)")
	if tmgT := c.P.Named("server/group", "TCPMuxGroup"); tmgT != nil {
		userF := field(c, "server/group", "TCPMuxGroup", "username")
		passF := field(c, "server/group", "TCPMuxGroup", "password")
		lnsF := field(c, "server/group", "TCPMuxGroup", "lns")
		k := 0
		var ms []*ssa.Function
		for _, mf := range methodsOf(c.P, tmgT) {
			ms = append(ms, mf)
		}
		sort.Slice(ms, func(i, j int) bool { return ms[i].Name() < ms[j].Name() })
		for _, f := range ms {
			if userF == nil || passF == nil || lnsF == nil {
				break
			}
			f := f
			engine.ForEachInstr(f, func(in ssa.Instruction) {
				st, ok := in.(*ssa.Store)
				if !ok {
					return
				}
				if lf, _ := engine.LoadedField(st.Addr); lf != lnsF {
					return
				}
				// only appends (a member joins); removals shrink the slice
				if src := engine.Provenance(st.Val, engine.ProvOpts{}); len(src.Allocs) == 0 && !strings.Contains(src.Summary(), "append") {
					isAppend := false
					for v := range src.Values {
						if cc, ok := v.(*ssa.Call); ok {
							if b, ok := cc.Call.Value.(*ssa.Builtin); ok && b.Name() == "append" {
								if len(cc.Call.Args) == 2 {
									if _, isSlice := cc.Call.Args[1].(*ssa.Slice); isSlice {
										// append(a[:i], a[i+1:]...) is a removal; append(lns, ln) passes a fresh 1-element slice
										if sl := cc.Call.Args[1].(*ssa.Slice); sl.Low == nil && sl.High == nil {
											isAppend = true
										} else if _, fromAlloc := sl.X.(*ssa.Alloc); fromAlloc {
											isAppend = true
										}
									}
								}
							}
						}
					}
					if !isAppend {
						return
					}
				}
				k++
				cfgField := func(name string) func(ssa.Value) bool {
					return func(v ssa.Value) bool {
						lf, _ := engine.LoadedField(engine.Unwrap(v))
						return lf != nil && lf.Name() == name && lf.Pkg() != nil && strings.HasSuffix(lf.Pkg().Path(), "/pkg/util/vhost")
					}
				}
				c.AllPaths(fmt.Sprintf("%s>member-credentials#%d", c.P.FuncName(f), k), engine.PathCheck{Fn: f, Sink: engine.Is(in), Pred: func(ps *engine.PathState) string {
					for _, l := range ps.Lits {
						if arg, ok := lenIsZero(l); ok {
							if lf, _ := engine.LoadedField(arg); lf == lnsF {
								return "" // the first member: it defines the group's credentials
							}
						}
					}
					eu, ku := ps.Equal(loadOfField(userF), cfgField("Username"))
					ep, kp := ps.Equal(loadOfField(passF), cfgField("Password"))
					if !(ku && eu) {
						return "a later member joins on a path where its user name was not found equal to the group's"
					}
					if !(kp && ep) {
						return "a later member joins on a path where its password was not found equal to the group's: the group's route keeps checking the first member's password for this member's backend"
					}
					return ""
				}}, "later members share the group's CONNECT credentials")
			})
		}
		c.Floor(k, 2)
	}
}

// checkCredentialPlumbing: every vhost.RouteConfig the server builds for a proxy takes Username from the proxy's
// HTTPUser, Password from HTTPPassword and RouteByHTTPUser from RouteByHTTPUser, also when the values travel through
// the parameters of a helper (one level, every call site): three adjacent string parameters are easy to cross, and a
// route registered with an empty Username is served without any credential check.
func checkCredentialPlumbing(c *engine.Ctx, rule string) {
	c.Rule(rule, "server/proxy: each RouteConfig literal stores Username from cfg.HTTPUser, Password from cfg.HTTPPassword and RouteByHTTPUser from cfg.RouteByHTTPUser (through helper parameters at every call site)")
	p := c.P
	rc := p.Named("pkg/util/vhost", "RouteConfig")
	want := []struct{ dst, src string }{{"Username", "HTTPUser"}, {"Password", "HTTPPassword"}, {"RouteByHTTPUser", "RouteByHTTPUser"}}
	n := 0
	if rc == nil {
		c.Missing("pkg/util/vhost.RouteConfig", "type not found")
		return
	}
	var pkgFuncs []*ssa.Function
	for _, f := range p.RepoFuncs() {
		if f.Pkg != nil && strings.HasSuffix(f.Pkg.Pkg.Path(), "/server/proxy") {
			pkgFuncs = append(pkgFuncs, f)
		}
	}
	for _, f := range pkgFuncs {
		f := f
		engine.ForEachInstr(f, func(in ssa.Instruction) {
			al, ok := in.(*ssa.Alloc)
			if !ok || engine.NamedOf(al.Type()) != rc {
				return
			}
			for _, w := range want {
				dst := p.Field("pkg/util/vhost", "RouteConfig", w.dst)
				if dst == nil {
					c.Missing("pkg/util/vhost.RouteConfig."+w.dst, "field not found")
					continue
				}
				for _, sv := range nameStores(al, dst) {
					n++
					// through helper parameters, parameter-carrying structs, constructors of such structs and methods on
					// them: the interprocedural, field-sensitive origin of the stored value
					ss := srcSet{engine.DeepSources(p, sv)}
					good, bad := false, ""
					for _, src := range ss {
						for fv := range src.Fields {
							for _, o := range want {
								if fv.Name() == o.src {
									if o.src == w.src {
										good = true
									} else {
										bad = o.src
									}
								}
							}
						}
					}
					c.Check(good && bad == "", fmt.Sprintf("%s>RouteConfig.%s", p.FuncName(f), w.dst), al.Pos(), len(ss), nil,
						"RouteConfig.%s is fed from the proxy's %s only (also receives: %q)", w.dst, w.src, bad)
				}
			}
		})
	}
	c.Floor(n, 3)
}

// funcValueOf resolves a function-typed value to the source function it denotes: a function, a closure, or a bound
// method value (x.m), which SSA represents as a closure over a synthetic wrapper.
func funcValueOf(p *engine.Prog, v ssa.Value) *ssa.Function {
	switch x := engine.Unwrap(v).(type) {
	case *ssa.Function:
		return unwrapBound(p, x)
	case *ssa.MakeClosure:
		if f, ok := x.Fn.(*ssa.Function); ok {
			return unwrapBound(p, f)
		}
	}
	return nil
}

func unwrapBound(p *engine.Prog, f *ssa.Function) *ssa.Function {
	if f.Synthetic != "" && f.Object() != nil {
		if fo, ok := f.Object().(*types.Func); ok {
			if r := p.FuncOf(fo); r != nil {
				return r
			}
		}
	}
	return f
}

// checkAuthRouteAgreement (C07.R1, shared with C06.R14): the credential check and the forwarding route of one HTTP
// request are selected by the same (host, path, route user), taken from the same request parts.
func checkAuthRouteAgreement(c *engine.Ctx, rule string) {
	p := c.P
	serve := fn(c, "pkg/util/vhost.HTTPReverseProxy.ServeHTTP")
	checkAuth := method(c, "pkg/util/vhost", "HTTPReverseProxy", "CheckAuth")
	getRC := method(c, "pkg/util/vhost", "HTTPReverseProxy", "GetRouteConfig")
	if serve == nil || checkAuth == nil || getRC == nil {
		return
	}
	var injects []*ssa.Function
	for _, f := range p.RepoFuncs() {
		if f.Pkg == serve.Pkg && len(engine.CallsTo(f, getRC)) > 0 {
			injects = append(injects, f)
		}
	}
	if len(injects) == 0 {
		c.Missing("pkg/util/vhost.<route selection>", "no vhost function calls GetRouteConfig")
		return
	}
	c.Rule(rule, "the (host, path, route user) used for the credential check in ServeHTTP has the same provenance as the triple used to select the forwarding route in injectRequestInfoToCtx")
	n := 0
	for _, call := range engine.CallsTo(serve, checkAuth) {
		args := engine.CallArgs(call) // recv, domain, location, routeUser, user, passwd
		var fargs []ssa.Value
		for _, inject := range injects {
			for _, fc := range engine.CallsTo(inject, getRC) {
				fargs = engine.CallArgs(fc) // recv, domain, location, routeUser
			}
		}
		if len(args) < 6 || len(fargs) < 4 {
			c.Undecide("pkg/util/vhost.HTTPReverseProxy.ServeHTTP>route", call.Pos(), "cannot locate the route lookups")
			continue
		}
		names := []string{"host", "path", "route-user"}
		for i := 0; i < 3; i++ {
			n++
			a := engine.Provenance(args[1+i], engine.ProvOpts{IntoCallee: true, Prog: p})
			b := engine.Provenance(fargs[1+i], engine.ProvOpts{IntoCallee: true, Prog: p})
			ka, kb := provKey(a), provKey(b)
			if ka != kb || ka == "" {
				// one side may receive the value the other computed (ServeHTTP passes its host / user on to the
				// route-selecting step): compare where both come from, through parameters and helpers
				a, b = engine.DeepSources(p, args[1+i]), engine.DeepSources(p, fargs[1+i])
				ka, kb = provKey(a), provKey(b)
			}
			c.Check(ka == kb && ka != "", "pkg/util/vhost.HTTPReverseProxy.ServeHTTP>"+names[i], call.Pos(), len(a.Values)+len(b.Values),
				[]string{"credential check uses: " + ka, "forwarding uses:       " + kb},
				"%s of the credential check and of the forwarding route come from the same request parts", names[i])
		}
		// the credentials checked belong to the user that selects the route
		n++
		ru := engine.Provenance(args[3], engine.ProvOpts{IntoCallee: true, Prog: p})
		cu := engine.Provenance(args[4], engine.ProvOpts{IntoCallee: true, Prog: p})
		cp := engine.Provenance(args[5], engine.ProvOpts{IntoCallee: true, Prog: p})
		c.Check(provKey(ru) == provKey(cu) && provKey(cu) == provKey(cp), "pkg/util/vhost.HTTPReverseProxy.ServeHTTP>credentials", call.Pos(), 3,
			[]string{"route user: " + provKey(ru), "checked user: " + provKey(cu), "checked password: " + provKey(cp)},
			"the user and password that are checked come from the same header as the user that selects the route")
	}
	c.Floor(n, 4)

}
