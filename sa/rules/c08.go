package rules

import (
	"go/token"
	"go/types"

	"golang.org/x/tools/go/ssa"

	"frpsa/engine"
)

func init() {
	Registry["C08"] = &Property{
		Title:       "Secret proxies admit only visitors holding the key and an allowed user",
		Run:         runC08,
		Explanation: "Decides, for every path of the admitting functions: (R1) visitor.Manager.NewConn queues the connection (PutConn) only when GetAuthKey(bundle.sk, timestamp) equals the presented signature and the visitor user (or \"*\") is in the bundle's allowUsers, for the bundle looked up by the requested name; every other exit returns a non-nil error; (R2) the visitor user passed to NewConn is \"\" only when the message has no run id, otherwise the login user of the control found for that run id (unknown run id ⇒ error before NewConn); (R3) stcp/sudp/xtcp Run register the configured allow-list, or [owner user] when it is empty; (R4) nathole.Controller.HandleVisitor inserts a session and notifies the owner only after the signature and the allow-list test; the pre-check branch answers success only after the allow-list test; (R5) refusing exits send an error response, happen before any insert, and an inserted session is always removed by the deferred delete. Not decided: byte transparency of the admitted stream (C01), that neither owner nor backend is contacted beyond dominance of the two hand-off points.",
		Assumptions: commonAssumptions,
	}
}

func isSlicesContains(call *ssa.Call) bool {
	o := engine.CalleeObj(call)
	return o != nil && o.Name() == "Contains" && o.Pkg() != nil && o.Pkg().Path() == "slices" && len(call.Call.Args) == 2
}

// membershipOK: the path carries Contains(<allowField>, user)==true or Contains(<allowField>, "*")==true.
func membershipOK(st *engine.PathState, allowField *types.Var, user func(ssa.Value) bool) bool {
	for _, l := range st.Lits {
		if l.Op != token.ILLEGAL || !l.Val {
			continue
		}
		call, _ := engine.ResultOfCall(l.X)
		if call == nil || !isSlicesContains(call) {
			continue
		}
		lf, _ := engine.LoadedField(call.Call.Args[0])
		if lf != allowField {
			continue
		}
		a1 := engine.Unwrap(call.Call.Args[1])
		if s, ok := engine.ConstString(a1); ok && s == "*" {
			return true
		}
		// inside an inlined helper the argument is the helper's parameter: resolve it to the caller's value
		if user(a1) || user(engine.Unwrap(st.Resolve(a1))) {
			return true
		}
	}
	return false
}

// signatureOK: the path carries equality of GetAuthKey(<skField>, ts) with sign (== or ConstantTimeEqString).
func signatureOK(c *engine.Ctx, st *engine.PathState, skField *types.Var, ts, sign func(ssa.Value) bool) bool {
	getAuthKey := c.P.FuncObj("pkg/util/util", "GetAuthKey")
	ctEq := c.P.FuncObj("pkg/util/util", "ConstantTimeEqString")
	isKey := func(v ssa.Value) bool {
		kc, _ := engine.ResultOfCall(v)
		if kc == nil || !engine.SameFunc(engine.CalleeObj(kc), getAuthKey) || len(kc.Call.Args) != 2 {
			return false
		}
		lf, _ := engine.LoadedField(kc.Call.Args[0])
		a1 := engine.Unwrap(kc.Call.Args[1])
		return lf == skField && (ts(a1) || ts(engine.Unwrap(st.Resolve(a1))))
	}
	sign0 := sign
	sign = func(v ssa.Value) bool { return sign0(v) || sign0(engine.Unwrap(st.Resolve(v))) }
	for _, l := range st.Lits {
		if !l.Val {
			continue
		}
		switch l.Op {
		case token.EQL:
			if (isKey(l.X) && sign(engine.Unwrap(l.Y))) || (isKey(l.Y) && sign(engine.Unwrap(l.X))) {
				return true
			}
		case token.ILLEGAL:
			call, _ := engine.ResultOfCall(l.X)
			if call != nil && engine.SameFunc(engine.CalleeObj(call), ctEq) && len(call.Call.Args) == 2 {
				a, b := call.Call.Args[0], call.Call.Args[1]
				if (isKey(a) && sign(engine.Unwrap(b))) || (isKey(b) && sign(engine.Unwrap(a))) {
					return true
				}
			}
		}
	}
	return false
}

func runC08(c *engine.Ctx) {
	_ = c.P

	// ---- R1 stream visitors ----
	c.Rule("R1", "visitor.Manager.NewConn reaches PutConn only with signature equality (GetAuthKey(bundle.sk, timestamp) vs signKey) and allow-list membership (visitorUser or \"*\"), for the bundle looked up by name; all other exits return a non-nil error")
	newConn := fn(c, "server/visitor.Manager.NewConn")
	putConn := method(c, "pkg/util/net", "InternalListener", "PutConn")
	skF := field(c, "server/visitor", "listenerBundle", "sk")
	allowF := field(c, "server/visitor", "listenerBundle", "allowUsers")
	n := 0
	if newConn != nil && putConn != nil && skF != nil && allowF != nil {
		puts := engine.CallsTo(newConn, putConn)
		if len(puts) == 0 {
			c.Undecide("server/visitor.Manager.NewConn>PutConn", newConn.Pos(), "no PutConn call found")
		}
		for _, put := range puts {
			n++
			c.AllPaths("server/visitor.Manager.NewConn>PutConn", engine.PathCheck{Fn: newConn, Sink: engine.Is(put), Pred: func(st *engine.PathState) string {
				if !signatureOK(c, st, skF, isParam("timestamp"), isParam("signKey")) {
					return "the visitor connection is queued on a path without the signature equality GetAuthKey(sk, timestamp) == signKey"
				}
				if !membershipOK(st, allowF, isParam("visitorUser")) {
					return "the visitor connection is queued on a path where neither the visitor user nor \"*\" was found in allowUsers"
				}
				return ""
			}}, "PutConn only after signature and allow-list checks")
			// the bundle is the one registered under the requested name
			n++
			args := engine.CallArgs(put)
			src := engine.Provenance(args[0], engine.ProvOpts{})
			c.Check(src.HasParam("name"), "server/visitor.Manager.NewConn>bundle-by-name", put.Pos(), len(src.Values), []string{"listener: " + src.Summary()},
				"the listener that receives the connection is the bundle looked up by the requested proxy name")
		}
		n++
		c.AllPaths("server/visitor.Manager.NewConn>refusal-nonnil", engine.PathCheck{Fn: newConn, Sink: engine.IsReturn,
			Event: func(in ssa.Instruction) string {
				if engine.IsCallTo(in, putConn) {
					return "put"
				}
				return ""
			},
			Pred: func(st *engine.PathState) string {
				if st.HasEvent("put") {
					return ""
				}
				r := st.Sink.(*ssa.Return)
				if !nonNilOnPath(st, st.Resolve(r.Results[0])) {
					return "a refusing exit of NewConn may return nil: the caller would answer success for a connection that was not bridged"
				}
				return ""
			}}, "every exit without PutConn returns a non-nil error")
	}
	c.Floor(n, 3)

	// ---- R2 visitor identity ----
	c.Rule("R2", "the user passed to visitor.Manager.NewConn is \"\" only for a message without run id, otherwise loginMsg.User of the control found by ControlManager.GetByID(newMsg.RunID)")
	regV := fn(c, "server.Service.RegisterVisitorConn")
	newConnObj := method(c, "server/visitor", "Manager", "NewConn")
	getByID := method(c, "server", "ControlManager", "GetByID")
	runIDF := field(c, "pkg/msg", "NewVisitorConn", "RunID")
	userF := field(c, "pkg/msg", "Login", "User")
	n = 0
	if regV != nil && newConnObj != nil && getByID != nil && runIDF != nil && userF != nil {
		calls := engine.CallsTo(regV, newConnObj)
		if len(calls) == 0 {
			c.Undecide("server.Service.RegisterVisitorConn", regV.Pos(), "no call of visitor.Manager.NewConn")
		}
		for _, call := range calls {
			n++
			args := engine.CallArgs(call)
			userArg := args[len(args)-1]
			c.AllPaths("server.Service.RegisterVisitorConn", engine.PathCheck{Fn: regV, Sink: engine.Is(call), Track: []ssa.Value{userArg}, Pred: func(st *engine.PathState) string {
				u := st.Resolve(userArg)
				if s, ok := engine.ConstString(u); ok {
					if s != "" {
						return "a constant visitor user " + s + " is passed"
					}
					eq, known := st.Equal(loadOfField(runIDF), func(v ssa.Value) bool { s, ok := engine.ConstString(v); return ok && s == "" })
					if !(known && eq) {
						return "the empty visitor user is used on a path where the message carries a run id"
					}
					return ""
				}
				if v, k := st.Truth(extractOf(getByID, 1)); !(k && v) {
					return "a visitor user is derived on a path without a successful run-id lookup"
				}
				src := engine.Provenance(u, engine.ProvOpts{})
				if !src.HasField(userF) || !src.HasCall(getByID) || !src.HasField(runIDF) {
					return "the visitor user is not loginMsg.User of the control looked up by the message's run id (found: " + src.Summary() + ")"
				}
				return ""
			}}, "visitor identity is the authenticated login user of the visitor's own session")
		}
	}
	c.Floor(n, 1)

	// ---- R3 default allow-list ----
	c.Rule("R3", "stcp, sudp and xtcp Run register cfg.AllowUsers, or [owner user] when that list is empty")
	n = 0
	vmListen := method(c, "server/visitor", "Manager", "Listen")
	nhListen := method(c, "pkg/nathole", "Controller", "ListenClient")
	getUserInfo := method(c, "server/proxy", "BaseProxy", "GetUserInfo")
	uiUser := field(c, "pkg/plugin/server", "UserInfo", "User")
	for _, t := range []string{"STCPProxy", "SUDPProxy", "XTCPProxy"} {
		run := fn(c, "server/proxy."+t+".Run")
		if run == nil || vmListen == nil || nhListen == nil || getUserInfo == nil || uiUser == nil {
			continue
		}
		calls := engine.CallsTo(run, vmListen, nhListen)
		if len(calls) == 0 {
			c.Undecide("server/proxy."+t+".Run", run.Pos(), "no visitor/NAT-hole listener registration found")
			continue
		}
		for _, call := range calls {
			n++
			args := engine.CallArgs(call)
			allowArg := args[len(args)-1]
			c.AllPaths("server/proxy."+t+".Run", engine.PathCheck{Fn: run, Sink: engine.Is(call), Track: []ssa.Value{allowArg}, Pred: func(st *engine.PathState) string {
				v := st.Resolve(allowArg)
				// the default may be computed by a helper (explored inline): what it returned on this path
				if r := st.Returned(v); r != nil {
					v = st.Resolve(r)
				}
				lf, _ := engine.LoadedField(v)
				isCfgList := lf != nil && lf.Name() == "AllowUsers"
				// is there a literal len(AllowUsers)==0 on the path?
				empty, known := false, false
				for _, l := range st.Lits {
					if l.Op != token.EQL {
						continue
					}
					x, y := l.X, l.Y
					if _, isC := x.(*ssa.Const); isC {
						x, y = y, x
					}
					lc, ok := x.(*ssa.Call)
					if !ok {
						continue
					}
					if b, ok := lc.Call.Value.(*ssa.Builtin); !ok || b.Name() != "len" {
						continue
					}
					af, _ := engine.LoadedField(st.Resolve(lc.Call.Args[0]))
					if af == nil || af.Name() != "AllowUsers" {
						continue
					}
					if z, ok := engine.ConstInt(y); ok && z == 0 {
						empty, known = l.Val, true
					}
				}
				if !known {
					return "the allow-list is registered without testing whether the configured list is empty"
				}
				if !empty {
					if !isCfgList {
						return "a non-empty configured allow-list is not what gets registered"
					}
					return ""
				}
				src := engine.Provenance(v, engine.ProvOpts{})
				if !src.HasCall(getUserInfo) || !src.HasField(uiUser) || isCfgList {
					return "with an empty configured list the registered allow-list is not [owner user] (found: " + src.Summary() + ")"
				}
				return ""
			}}, "allow-list defaults to the proxy owner's user")
		}
	}
	c.Floor(n, 3)

	// ---- R4 NAT-hole admission ----
	c.Rule("R4", "nathole.Controller.HandleVisitor: session insert and owner notification only after signature and allow-list checks; pre-check success only after the allow-list check")
	hv := fn(c, "pkg/nathole.Controller.HandleVisitor")
	nskF := field(c, "pkg/nathole", "ClientCfg", "sk")
	nallowF := field(c, "pkg/nathole", "ClientCfg", "allowUsers")
	sessionsF := field(c, "pkg/nathole", "Controller", "sessions")
	sidChF := field(c, "pkg/nathole", "ClientCfg", "sidCh")
	signF := field(c, "pkg/msg", "NatHoleVisitor", "SignKey")
	tsF := field(c, "pkg/msg", "NatHoleVisitor", "Timestamp")
	n = 0
	var insertFn *ssa.Function
	if hv != nil && nskF != nil && nallowF != nil && sessionsF != nil && sidChF != nil && signF != nil && tsF != nil {
		userM := func(v ssa.Value) bool { return isParam("visitorUser")(v) || isCellOfParam(v, "visitorUser") }
		// (a) the insert
		for _, f := range append([]*ssa.Function{hv}, allAnon(hv)...) {
			engine.ForEachInstr(f, func(in ssa.Instruction) {
				mu, ok := in.(*ssa.MapUpdate)
				if !ok {
					return
				}
				lf, _ := engine.LoadedField(mu.Map)
				if lf != sessionsF {
					return
				}
				n++
				insertFn = f
				c.AllPaths("pkg/nathole.Controller.HandleVisitor>session-insert", engine.PathCheck{Fn: f, Sink: engine.Is(in), Pred: func(st *engine.PathState) string {
					if !signatureOK(c, st, nskF, loadOfFieldThroughCell(tsF), loadOfFieldThroughCell(signF)) {
						return "a NAT-hole session is created on a path without the signature check against the proxy's secret key"
					}
					if !membershipOK(st, nallowF, userM) {
						return "a NAT-hole session is created on a path where the visitor user was not checked against allowUsers"
					}
					return ""
				}}, "session insert only after signature and allow-list checks")
			})
		}
		// (b) owner notification (send on sidCh) only after the admitting closure returned nil
		for _, f := range append([]*ssa.Function{hv}, allAnon(hv)...) {
			engine.ForEachInstr(f, func(in ssa.Instruction) {
				snd, ok := in.(*ssa.Send)
				if !ok {
					return
				}
				lf, _ := engine.LoadedField(snd.Chan)
				if lf != sidChF {
					return
				}
				n++
				// find the instruction in HandleVisitor that runs f (directly or through PanicToError)
				var site ssa.Instruction
				engine.ForEachInstr(hv, func(x ssa.Instruction) {
					for _, op := range x.Operands(nil) {
						if mc, ok := (*op).(*ssa.MakeClosure); ok && mc.Fn == f {
							if _, isCall := x.(ssa.CallInstruction); isCall {
								site = x
							}
						}
					}
				})
				if f == hv {
					site = in
				}
				if site == nil || insertFn == nil {
					c.Undecide("pkg/nathole.Controller.HandleVisitor>notify-owner", in.Pos(), "cannot relate the owner notification to the admitting checks")
					return
				}
				c.AllPaths("pkg/nathole.Controller.HandleVisitor>notify-owner", engine.PathCheck{Fn: hv, Sink: engine.Is(site), Pred: func(st *engine.PathState) string {
					if insertFn == hv {
						if !signatureOK(c, st, nskF, loadOfFieldThroughCell(tsF), loadOfFieldThroughCell(signF)) || !membershipOK(st, nallowF, userM) {
							return "the proxy owner is notified on a path without signature and allow-list checks"
						}
						return ""
					}
					isNil, known := st.IsNil(func(v ssa.Value) bool {
						call, _ := engine.ResultOfCall(v)
						return call != nil && engine.CalleeFn(call) == insertFn && types.Identical(v.Type(), types.Universe.Lookup("error").Type())
					})
					if !(known && isNil) {
						return "the proxy owner is notified on a path where the admitting checks did not return nil"
					}
					return ""
				}}, "owner notified only after admission")
			})
		}
		// (c) admitting closure returns nil only after the insert; non-nil only before it
		if insertFn != nil && insertFn != hv {
			n++
			c.AllPaths("pkg/nathole.Controller.HandleVisitor>admission-result", engine.PathCheck{Fn: insertFn, Sink: engine.IsReturn,
				Event: func(in ssa.Instruction) string {
					if mu, ok := in.(*ssa.MapUpdate); ok {
						if lf, _ := engine.LoadedField(mu.Map); lf == sessionsF {
							return "insert"
						}
					}
					return ""
				},
				Pred: func(st *engine.PathState) string {
					r := st.Sink.(*ssa.Return)
					v := st.Resolve(r.Results[len(r.Results)-1]) // the error (last result)
					if engine.IsNilConst(v) {
						if !st.HasEvent("insert") {
							return "admission reports success without having created the session"
						}
						return ""
					}
					if !nonNilOnPath(st, v) {
						return "admission returns a possibly-nil error"
					}
					if st.HasEvent("insert") {
						return "admission fails after the session was inserted: the session is left behind"
					}
					return ""
				}}, "nil ⇔ session inserted")
		}
		// (d) pre-check success
		n++
		okResp := 0
		genResp := method(c, "pkg/nathole", "Controller", "GenNatHoleResponse")
		preF := field(c, "pkg/msg", "NatHoleVisitor", "PreCheck")
		if genResp != nil && preF != nil {
			type respSite struct {
				host *ssa.Function
				call ssa.CallInstruction
			}
			var rsites []respSite
			for _, g := range append([]*ssa.Function{hv}, allAnon(hv)...) { // the handler and the steps split out of it
				for _, call := range engine.CallsTo(g, genResp) {
					rsites = append(rsites, respSite{g, call})
				}
			}
			// a response whose text is handed to a local reply(text) helper is judged where the helper is called
			var expanded []struct {
				host *ssa.Function
				at   ssa.Instruction
				text ssa.Value
			}
			for _, rs := range rsites {
				args := engine.CallArgs(rs.call)
				text := args[len(args)-1]
				if pr, isP := text.(*ssa.Parameter); isP && rs.host.Parent() != nil {
					idx := -1
					for i, q := range rs.host.Params {
						if q == pr {
							idx = i
						}
					}
					for _, g := range append([]*ssa.Function{hv}, allAnon(hv)...) {
						engine.ForEachInstr(g, func(x ssa.Instruction) {
							if cl, ok := x.(ssa.CallInstruction); ok && engine.CalleeFn(cl) == rs.host && idx >= 0 && idx < len(cl.Common().Args) {
								expanded = append(expanded, struct {
									host *ssa.Function
									at   ssa.Instruction
									text ssa.Value
								}{g, x, cl.Common().Args[idx]})
							}
						})
					}
					continue
				}
				expanded = append(expanded, struct {
					host *ssa.Function
					at   ssa.Instruction
					text ssa.Value
				}{rs.host, rs.call, text})
			}
			for _, rs := range expanded {
				host, at, text := rs.host, rs.at, rs.text
				// can this response say "success" (an empty error text)?
				if !engine.Provenance(text, engine.ProvOpts{NoArgs: true}).Consts[`""`] {
					continue
				}
				okResp++
				c.AllPaths("pkg/nathole.Controller.HandleVisitor>precheck-success", engine.PathCheck{Fn: host, Sink: engine.Is(at), Track: []ssa.Value{text}, Pred: func(st *engine.PathState) string {
					if s, isC := engine.ConstString(st.Resolve(text)); !isC || s != "" {
						return "" // an error text on this path
					}
					if !membershipOK(st, nallowF, userM) {
						return "the pre-check answers success on a path where the visitor user was not checked against allowUsers"
					}
					return ""
				}}, "pre-check success only for allowed users of an existing proxy")
			}
			if okResp == 0 {
				c.Undecide("pkg/nathole.Controller.HandleVisitor>precheck-success", hv.Pos(), "no success response found in the pre-check branch")
			}
		}
	}
	c.Floor(n, 4)

	// ---- R5 refusals answer with an error and leave nothing behind ----
	c.Rule("R5", "HandleVisitor: after a failed admission an error response is sent; after a successful one every exit runs the deferred session delete")
	n = 0
	if hv != nil && insertFn != nil && insertFn != hv && sessionsF != nil {
		var admit ssa.Instruction
		engine.ForEachInstr(hv, func(x ssa.Instruction) {
			if call, ok := x.(*ssa.Call); ok && engine.CalleeFn(call) == insertFn {
				admit = x
			}
		})
		sendObj := method(c, "pkg/transport", "MessageTransporter", "Send")
		if admit == nil || sendObj == nil {
			c.Undecide("pkg/nathole.Controller.HandleVisitor>exits", hv.Pos(), "admission call not found")
		} else {
			n++
			av := admit.(*ssa.Call)
			c.AllPaths("pkg/nathole.Controller.HandleVisitor>exits", engine.PathCheck{Fn: hv, From: admit, Sink: engine.IsReturn,
				Event: func(in ssa.Instruction) string {
					if d, ok := in.(*ssa.Defer); ok {
						if cf := engine.CalleeFn(d); cf != nil && deletesFrom(cf, sessionsF) {
							return "defer-delete"
						}
					}
					if engine.IsCallTo(in, sendObj) {
						return "send"
					}
					return ""
				},
				Pred: func(st *engine.PathState) string {
					isNil, known := st.IsNil(func(v ssa.Value) bool {
						if v == ssa.Value(av) {
							return true
						}
						ex, ok := v.(*ssa.Extract)
						return ok && ex.Tuple == ssa.Value(av) && types.Identical(ex.Type(), types.Universe.Lookup("error").Type())
					})
					if !known {
						return "HandleVisitor exits without testing the admission result"
					}
					if isNil {
						if !st.HasEvent("defer-delete") {
							return "an admitted session can exit HandleVisitor without the deferred delete: session state accumulates"
						}
						return ""
					}
					if !st.HasEvent("send") {
						return "a refused visitor gets no error response on this path"
					}
					return ""
				}}, "refusal ⇒ error response; admission ⇒ deferred delete on every exit")
		}
	}
	c.Floor(n, 1)

	// ---- R6 wrapper stacks (shared with C01.R1 / C05.R5) ----
	checkStacks(c, "R6")
	// ---- R7 pooled codec recycling (shared with C01.R8): a visitor stream handed to the proxy's listener outlives NewConn ----
	checkRecycle(c, "R7")
	// ---- R8 (shared with C16.R22) ----
	checkThrowawayBufio(c, "R8")
	// ---- R9 ----
	checkCloseOnRefusal(c, "R9", "RegisterVisitorConn")
	checkNotifiedOwnerIsCheckedOwner(c, "R10")
}

// checkCloseOnRefusal (C08.R9; the same obligation for work connections is C04.R3 / C11.R8): whichever function hands a
// fresh connection to Service.<reg> closes that very connection on every path where the registration returned an error
// (or where the result was not tested) — a refused visitor or work connection is never left open without a peer.
func checkCloseOnRefusal(c *engine.Ctx, rule string, reg string) {
	c.Rule(rule, "the function that hands a fresh connection to Service."+reg+" closes that connection on every path on which the registration was refused, clean-ups written as deferred closures included")
	p := c.P
	obj := method(c, "server", "Service", reg)
	if obj == nil {
		return
	}
	hosts := 0
	for _, hc := range p.RepoFuncs() {
		hc := hc
		for _, call := range engine.CallsTo(hc, obj) {
			hosts++
			cv := call.Value()
			connArg := engine.Unwrap(engine.CallArgs(call)[1])
			c.AllPaths(p.FuncName(hc)+">close-on-refusal", engine.PathCheck{Fn: hc, From: call, Sink: engine.IsReturn,
				Event: func(in ssa.Instruction) string {
					cc, ok := in.(ssa.CallInstruction)
					if !ok {
						return ""
					}
					if o := engine.CalleeObj(cc); o == nil || o.Name() != "Close" {
						return ""
					}
					a := engine.CallArgs(cc)
					if len(a) == 0 {
						return ""
					}
					x := engine.Unwrap(a[0])
					if fv, ok := x.(*ssa.FreeVar); ok {
						if b := engine.ClosureBinding(fv); b != nil {
							x = engine.Unwrap(b)
						}
					}
					if engine.SameValue(x, connArg) {
						return "close"
					}
					return ""
				},
				Pred: func(st *engine.PathState) string {
					isNil, known := st.IsNil(func(v ssa.Value) bool { return v == cv })
					if known && isNil {
						return ""
					}
					if !st.HasEvent("close") {
						return "after " + reg + " returned an error (or unchecked) the connection is not closed on this path"
					}
					return ""
				}}, "connection closed whenever "+reg+" returns non-nil")
		}
	}
	if hosts == 0 {
		c.Undecide("server.Service."+reg+">caller", token.NoPos, "nothing calls Service."+reg+" any more")
	}
	c.Floor(hosts, 1)
}

// allAnon returns the functions that belong to f besides f itself: its closures, the functions and methods it uses as
// values (a goroutine body or a hook turned into a named method), and the unexported same-package helpers that only f's
// family calls (steps split out of f) — each with their own closures, transitively. Rules that look for a construct
// "in f" look in this family, so that a behaviour-preserving split, or a closure turned into a method, moves nothing out
// of sight.
func allAnon(f *ssa.Function) []*ssa.Function {
	if f == nil {
		return nil
	}
	if fam, ok := familyCache[f]; ok {
		return fam
	}
	in := map[*ssa.Function]bool{f: true}
	var order []*ssa.Function
	add := func(g *ssa.Function) bool {
		if g == nil || g.Blocks == nil || in[g] {
			return false
		}
		in[g] = true
		order = append(order, g)
		return true
	}
	var lexical func(g *ssa.Function)
	lexical = func(g *ssa.Function) {
		for _, a := range g.AnonFuncs {
			if add(a) {
				lexical(a)
			}
		}
	}
	lexical(f)
	if f.Pkg != nil {
		pkgFns := allFuncsOfPkg(f.Pkg)
		// static call sites and value uses of every declared function of the package
		type use struct {
			by    *ssa.Function
			value bool
		}
		uses := map[*ssa.Function][]use{}
		for _, g := range pkgFns {
			engine.ForEachInstr(g, func(x ssa.Instruction) {
				if call, ok := x.(ssa.CallInstruction); ok {
					if cf := engine.CalleeFn(call); cf != nil && cf.Pkg == f.Pkg && cf.Parent() == nil {
						if _, isMC := call.Common().Value.(*ssa.MakeClosure); !isMC {
							uses[cf] = append(uses[cf], use{g, false})
						}
					}
				}
				for _, op := range x.Operands(nil) {
					if op == nil || *op == nil {
						continue
					}
					if call, ok := x.(ssa.CallInstruction); ok && *op == call.Common().Value {
						if _, isMC := (*op).(*ssa.MakeClosure); !isMC {
							continue
						}
					}
					var tgt *ssa.Function
					switch v := (*op).(type) {
					case *ssa.Function:
						tgt = unwrapBoundFn(v)
					case *ssa.MakeClosure:
						if vf, ok := v.Fn.(*ssa.Function); ok && vf.Synthetic != "" {
							tgt = unwrapBoundFn(vf)
						}
					}
					if tgt != nil && tgt.Pkg == f.Pkg && tgt.Parent() == nil && tgt.Blocks != nil {
						uses[tgt] = append(uses[tgt], use{g, true})
					}
				}
			})
		}
		for changed := true; changed; {
			changed = false
			for _, g := range pkgFns {
				if in[g] || g.Parent() != nil {
					continue
				}
				obj, _ := g.Object().(*types.Func)
				if obj == nil || obj.Exported() || len(uses[g]) == 0 {
					continue
				}
				owned := true
				for _, u := range uses[g] {
					if !in[u.by] {
						owned = false
					}
				}
				if owned && add(g) {
					lexical(g)
					changed = true
				}
			}
		}
	}
	familyCache[f] = order
	return order
}

var familyCache = map[*ssa.Function][]*ssa.Function{}

// lexicalAnon: only the closures written inside f (transitively).
func lexicalAnon(f *ssa.Function) []*ssa.Function {
	var out []*ssa.Function
	for _, a := range f.AnonFuncs {
		out = append(out, a)
		out = append(out, lexicalAnon(a)...)
	}
	return out
}

// unwrapBoundFn: the declared method behind a bound-method wrapper (x.m used as a value), or f itself.
func unwrapBoundFn(f *ssa.Function) *ssa.Function {
	if f.Synthetic != "" && f.Object() != nil {
		if fo, ok := f.Object().(*types.Func); ok {
			if r := f.Prog.FuncValue(fo); r != nil {
				return r
			}
		}
	}
	return f
}

// deletesFrom: does f (or its nested closures) call delete() on the map stored in field fv?
func deletesFrom(f *ssa.Function, fv *types.Var) bool {
	found := false
	for _, g := range append([]*ssa.Function{f}, allAnon(f)...) {
		engine.ForEachInstr(g, func(in ssa.Instruction) {
			call, ok := in.(ssa.CallInstruction)
			if !ok {
				return
			}
			b, ok := call.Common().Value.(*ssa.Builtin)
			if !ok || b.Name() != "delete" {
				return
			}
			if lf, _ := engine.LoadedField(call.Common().Args[0]); lf == fv {
				found = true
			}
		})
	}
	return found
}

// isCellOfParam: v is a load of a captured cell (free variable) holding the named parameter.
func isCellOfParam(v ssa.Value, name string) bool {
	u, ok := v.(*ssa.UnOp)
	if !ok || u.Op != token.MUL {
		return false
	}
	switch x := u.X.(type) {
	case *ssa.FreeVar:
		return x.Name() == name
	case *ssa.Alloc:
		return x.Comment == name
	}
	return false
}

// loadOfFieldThroughCell matches loads of field f whose base may itself be a captured cell (m.SignKey inside a closure).
func loadOfFieldThroughCell(f *types.Var) func(ssa.Value) bool {
	return func(v ssa.Value) bool {
		fv, _ := engine.LoadedField(engine.Unwrap(v))
		return fv != nil && fv == f
	}
}

// checkNotifiedOwnerIsCheckedOwner (R10): the xtcp owner that is told about a visitor (the ClientCfg whose sidCh receives
// the session id) is the very table entry whose key and allow-list the request was checked against — the same lookup,
// not a second one made later under the same name (the proxy may have been closed and the name taken by another owner
// with another key in between).
func checkNotifiedOwnerIsCheckedOwner(c *engine.Ctx, rule string) {
	c.Rule(rule, "nathole.Controller.HandleVisitor: the ClientCfg whose sidCh receives the sid comes from the same clientCfgs lookup as the ClientCfg whose sk signed-key check admitted the request")
	p := c.P
	f := fn(c, "pkg/nathole.Controller.HandleVisitor")
	tblF := field(c, "pkg/nathole", "Controller", "clientCfgs")
	sidF := field(c, "pkg/nathole", "ClientCfg", "sidCh")
	skF := field(c, "pkg/nathole", "ClientCfg", "sk")
	getKey := funcObj(c, "pkg/util/util", "GetAuthKey")
	if f == nil || tblF == nil || sidF == nil || skF == nil || getKey == nil {
		return
	}
	family := append([]*ssa.Function{f}, allAnon(f)...)
	// local variables shared between the function and its closures: cell -> values stored anywhere in the family
	cellOf := func(v ssa.Value) *ssa.Alloc {
		for i := 0; i < 6; i++ {
			switch x := v.(type) {
			case *ssa.Alloc:
				return x
			case *ssa.FreeVar:
				b := engine.ClosureBinding(x)
				if b == nil {
					return nil
				}
				v = b
			default:
				return nil
			}
		}
		return nil
	}
	stored := map[*ssa.Alloc][]ssa.Value{}
	for _, g := range family {
		engine.ForEachInstr(g, func(in ssa.Instruction) {
			if st, ok := in.(*ssa.Store); ok {
				if al := cellOf(st.Addr); al != nil {
					stored[al] = append(stored[al], st.Val)
				}
			}
		})
	}
	var lookupsOf func(v ssa.Value) map[ssa.Value]bool
	lookupsOf = func(v ssa.Value) map[ssa.Value]bool {
		out := map[ssa.Value]bool{}
		seen := map[ssa.Value]bool{}
		var walk func(v ssa.Value, d int)
		walk = func(v ssa.Value, d int) {
			if v == nil || d > 10 || seen[v] {
				return
			}
			seen[v] = true
			switch x := v.(type) {
			case *ssa.Lookup:
				if lf, _ := engine.LoadedField(x.X); lf == tblF {
					out[x] = true
				}
			case *ssa.Call:
				// the table wrapped into a small type with a lookup method: the call on the table value is the lookup
				for _, a := range x.Call.Args {
					if lf, _ := engine.LoadedField(engine.Unwrap(a)); lf == tblF {
						out[x] = true
					}
				}
			case *ssa.Extract:
				walk(x.Tuple, d+1)
			case *ssa.Phi:
				for _, e := range x.Edges {
					walk(e, d+1)
				}
			case *ssa.UnOp:
				if al := cellOf(x.X); al != nil {
					for _, sv := range stored[al] {
						walk(sv, d+1)
					}
				}
			case *ssa.ChangeType:
				walk(x.X, d+1)
			case *ssa.Parameter:
				// a check moved into a helper (verifyVisitor(cfg, …)): the entry it was handed at its call sites
				pf := x.Parent()
				if po, ok := pf.Object().(*types.Func); ok {
					idx := -1
					for i, q := range pf.Params {
						if q == x {
							idx = i
						}
					}
					for _, g := range family {
						for _, cs := range engine.CallsTo(g, po) {
							if a := cs.Common().Args; idx >= 0 && idx < len(a) {
								walk(a[idx], d+1)
							}
						}
					}
				}
			}
		}
		walk(v, 0)
		if len(out) == 0 {
			src := engine.DeepSources(p, v)
			for x := range src.Values {
				if lk, ok := x.(*ssa.Lookup); ok {
					if lf, _ := engine.LoadedField(lk.X); lf == tblF {
						out[lk] = true
					}
				}
			}
		}
		return out
	}
	checked := map[ssa.Value]bool{}
	for _, g := range family {
		engine.ForEachInstr(g, func(in ssa.Instruction) {
			call, ok := in.(*ssa.Call)
			if !ok || !engine.SameFunc(engine.CalleeObj(call), getKey) {
				return
			}
			for _, a := range call.Call.Args {
				if lf, base := engine.LoadedField(a); lf == skF && base != nil {
					for lk := range lookupsOf(base) {
						checked[lk] = true
					}
				}
			}
		})
	}
	n := 0
	for _, g := range family {
		g := g
		engine.ForEachInstr(g, func(in ssa.Instruction) {
			sd, ok := in.(*ssa.Send)
			if !ok {
				return
			}
			lf, base := engine.LoadedField(sd.Chan)
			if lf != sidF || base == nil {
				return
			}
			n++
			okSame := true
			notified := lookupsOf(base)
			for lk := range notified {
				if !checked[lk] {
					okSame = false
				}
			}
			c.Check(okSame && len(notified) > 0 && len(checked) > 0, p.FuncName(g)+">notified-owner", in.Pos(), len(notified)+len(checked), nil,
				"the owner that is notified is the table entry the key check was made against (a second lookup by name may find another owner's proxy)")
		})
	}
	c.Floor(n, 1)
}
