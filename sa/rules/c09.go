package rules

import (
	"fmt"
	"go/token"
	"go/types"
	"sort"
	"strings"

	"golang.org/x/tools/go/ssa"

	"frpsa/engine"
)

func init() {
	Registry["C09"] = &Property{
		Title:       "Remote ports: whitelisted, exclusive, truthfully reported, quota-bounded",
		Run:         runC09,
		Explanation: "Decides the shape of the port allocator and of its users: (R1) every insert into usedPorts in ports.Manager.Acquire is for a key that was found in the free set (comma-ok lookup or range over freePorts) and passed the OS probe, and is followed by its removal from the free set before returning; (R2) the free set is written only by the constructor (from allowPorts or the full range) and by Release, which frees a port only when it was found in usedPorts; (R3) 'true port' chain: the port given to net.Listen / ResolveUDPAddr, the port formatted into the remote address, the port stored in realBindPort/realPort fields, returned by the group Listen functions and handed to Release all derive from the Acquire result (never from the requested port); (R4) NewProxyResp.RemoteAddr is RegisterProxy's result, which is the proxy's Run result; (R5) the per-client quota is checked and added under the session lock, an added quota is rolled back by a deferred err!=nil subtraction registered on exactly the paths that added it, usedPortsNum is 1 for tcp/udp proxies only. Not decided: OS-level truth of what is bound, the probe-then-bind window between concurrent acquirers, arithmetic of quotas over histories.",
		Assumptions: commonAssumptions,
	}
}

func runC09(c *engine.Ctx) {
	checkPortManager(c)
	checkTruePortChain(c, "R3")
	checkRemoteAddrAnswer(c)
	checkQuota(c, "R5")
	checkPortBookkeeping(c, "R6")
	// ---- R7 a port is released once: inside the Close guard (shared with C10.R7) ----
	c.Rule("R7", "inside a Close method that carries an idempotence guard, every port release and channel close happens on the guarded (first-close) path")
	checkGuardedRelease(c, buildResTable(c))
	checkAllowListParse(c, "R8")
	checkAcquireSuccess(c, "R9")
	checkReleaseGuard(c, "R10")
	checkGroupPortLife(c, "R11")
	// ---- R12 a registration that fails after its port was acquired gives the port back (shared with C10.R2); deferred
	// rollbacks are judged with the value their captured error variable holds at the exit ----
	checkRunRollbacks(c, "R12")
	// ---- R13 a registration never completes after its session or its own CloseProxy was handled (shared with C16.R28): the port
	// would stay bound and marked used for a dead owner ----
	checkSyncStateHandlers(c, "R13")
}

// checkGroupPortLife (R11): a tcp group gives its port back when its last member leaves (CloseListener releases under
// len(lns)==0). The join side must use the same notion of "empty": a member is added without acquiring a port only on
// paths that found the member list non-empty — any other test (a stale listener pointer, a flag) lets a proxy join a
// group whose port has already been released, and report a port nobody listens on.
func checkGroupPortLife(c *engine.Ctx, rule string) {
	c.Rule(rule, "TCPGroup.Listen: every member add happens after a port acquisition on this path, or on a path where len(lns) was found non-zero")
	f := fn(c, "server/group.TCPGroup.Listen")
	acq := method(c, "server/ports", "Manager", "Acquire")
	lnsF := field(c, "server/group", "TCPGroup", "lns")
	if f == nil || acq == nil || lnsF == nil {
		return
	}
	n := 0
	for _, g := range append([]*ssa.Function{f}, allAnon(f)...) {
		g := g
		engine.ForEachInstr(g, func(in ssa.Instruction) {
			st, ok := in.(*ssa.Store)
			if !ok {
				return
			}
			if lf, _ := engine.LoadedField(st.Addr); lf != lnsF {
				return
			}
			n++
			nonEmpty := func(ps *engine.PathState) (bool, bool) {
				for _, l := range ps.Lits {
					if arg, ok := lenIsZero(l); ok {
						if lf, _ := engine.LoadedField(arg); lf == lnsF {
							return false, true // len == 0 holds
						}
					}
					if l.Op == token.EQL && !l.Val {
						x, y := l.X, l.Y
						if _, isC := x.(*ssa.Const); isC {
							x, y = y, x
						}
						if lc, ok := x.(*ssa.Call); ok {
							if b, ok := lc.Call.Value.(*ssa.Builtin); ok && b.Name() == "len" {
								if z, ok := engine.ConstInt(y); ok && z == 0 {
									if lf, _ := engine.LoadedField(lc.Call.Args[0]); lf == lnsF {
										return true, true
									}
								}
							}
						}
					}
				}
				return false, false
			}
			callerNE, callerK := false, false
			if g != f && g.Parent() == nil {
				callerNE, callerK = engine.CallerAgree(c.P, g, false, nonEmpty)
			}
			c.AllPaths(fmt.Sprintf("%s>member-add-port#%d", c.P.FuncName(g), n), engine.PathCheck{Fn: g, Sink: engine.Is(in),
				Event: func(x ssa.Instruction) string {
					if engine.IsCallTo(x, acq) {
						return "acquire"
					}
					return ""
				},
				Pred: func(ps *engine.PathState) string {
					if ps.HasEvent("acquire") {
						return ""
					}
					ne, k := nonEmpty(ps)
					if !k {
						ne, k = callerNE, callerK
					}
					if k && ne {
						return ""
					}
					// the acquisition may have happened in the caller before this step was entered
					if g != f {
						if ok, known := engine.CallerAgree(c.P, g, false, func(cs *engine.PathState) (bool, bool) { return cs.HasEvent("acquire"), true }); known && ok {
							return ""
						}
					}
					return "a member is added without acquiring the group's port on a path that did not find the member list non-empty: the port may already have been released by the last leave"
				}}, "join without acquisition only into a non-empty group")
		})
	}
	c.Floor(n, 1)
}

// checkAcquireSuccess (R9): Manager.Acquire returns a nil error only on paths that inserted the granted port into
// usedPorts — "no port found" must never look like success (callers would bind port 0 and get an ephemeral port that
// is outside the allowed set, unrecorded and reported as ":0").
func checkAcquireSuccess(c *engine.Ctx, rule string) {
	c.Rule(rule, "Manager.Acquire: every exit whose error is nil has inserted a port into usedPorts on its path")
	acq := fn(c, "server/ports.Manager.Acquire")
	usedF := field(c, "server/ports", "Manager", "usedPorts")
	if acq == nil || usedF == nil {
		return
	}
	var track []ssa.Value
	engine.ForEachInstr(acq, func(in ssa.Instruction) {
		if r, ok := in.(*ssa.Return); ok {
			track = append(track, r.Results...)
		}
	})
	c.AllPaths("server/ports.Manager.Acquire>success-has-port", engine.PathCheck{Fn: acq, Sink: engine.IsReturn, Track: track,
		Event: func(in ssa.Instruction) string {
			if mu, ok := in.(*ssa.MapUpdate); ok && isMapField(mu.Map, usedF) {
				return "insert"
			}
			return ""
		},
		Pred: func(st *engine.PathState) string {
			r := st.Sink.(*ssa.Return)
			ev := st.Resolve(r.Results[len(r.Results)-1])
			if !engine.IsNilConst(ev) {
				if isNil, known := st.IsNil(func(x ssa.Value) bool { return x == ev }); !(known && isNil) {
					return "" // an error (or an error of unknown value) is returned
				}
			}
			if !st.HasEvent("insert") {
				return "Acquire returns a nil error on a path that granted no port (nothing was inserted into usedPorts): the caller binds port 0"
			}
			return ""
		}}, "nil error ⇒ a port was granted")
	c.Floor(1, 1)
}

// checkReleaseGuard (R10): a proxy releases a port in Close under the same condition under which Run acquired it. The
// tcp proxy acquires only when it is not in a load-balancing group (the group owns the port then); a Close that
// releases for a grouped member takes the port away from the group's remaining members.
func checkReleaseGuard(c *engine.Ctx, rule string) {
	c.Rule(rule, "server/proxy: where Run acquires a port only under `LoadBalancer.Group == \"\"`, Close releases it only under that same condition")
	p := c.P
	acqO := method(c, "server/ports", "Manager", "Acquire")
	relO := method(c, "server/ports", "Manager", "Release")
	if acqO == nil || relO == nil {
		return
	}
	groupEmpty := func(st *engine.PathState) (bool, bool) {
		return st.Equal(func(v ssa.Value) bool { f, _ := engine.LoadedField(v); return f != nil && f.Name() == "Group" },
			func(v ssa.Value) bool { s, ok := engine.ConstString(v); return ok && s == "" })
	}
	n := 0
	pk := p.Pkg("server/proxy")
	if pk == nil {
		return
	}
	for _, name := range pk.Types.Scope().Names() {
		run := p.FuncOf(p.MethodObj("server/proxy", name, "Run"))
		cls := p.FuncOf(p.MethodObj("server/proxy", name, "Close"))
		if run == nil || cls == nil {
			continue
		}
		// is every acquisition in Run (or in a step split out of Run) under Group == ""?
		guarded, acqs := true, 0
		for _, g := range append([]*ssa.Function{run}, allAnon(run)...) {
			for _, ac := range engine.CallsTo(g, acqO) {
				acqs++
				// the condition is looked for on the way to the acquisition, and — for a step of Run — on the way to the
				// call of that step
				sinks := []struct {
					fn   *ssa.Function
					sink ssa.Instruction
				}{{g, ac}}
				if g != run {
					if gobj, _ := g.Object().(*types.Func); gobj != nil {
						for _, gc := range engine.CallsTo(run, gobj) {
							sinks = append(sinks, struct {
								fn   *ssa.Function
								sink ssa.Instruction
							}{run, gc})
						}
					}
				}
				siteGuarded := false
				for _, sk := range sinks {
					q := &engine.PathQuery{Fn: sk.fn, Sink: engine.Is(sk.sink)}
					states, err := q.Run()
					if err != nil || len(states) == 0 {
						continue
					}
					all := true
					for _, st := range states {
						if v, k := groupEmpty(st); !(k && v) {
							all = false
						}
					}
					if all {
						siteGuarded = true
					}
				}
				if !siteGuarded {
					guarded = false
				}
			}
		}
		if acqs == 0 {
			continue
		}
		if !guarded {
			continue
		}
		for _, rc := range engine.CallsTo(cls, relO) {
			n++
			c.AllPaths("server/proxy."+name+".Close>release-guard", engine.PathCheck{Fn: cls, Sink: engine.Is(rc), Pred: func(st *engine.PathState) string {
				if v, k := groupEmpty(st); !(k && v) {
					return "Close releases the port on a path where the proxy was not found to be outside a group, but Run acquires it only outside a group: a leaving group member frees the port the group still listens on"
				}
				return ""
			}}, "release under the acquisition's condition")
		}
	}
	c.Floor(n, 1)
}

// checkAllowListParse (R8): the operator's allow-list is what NewPortsRangeSliceFromString makes of a string. If its
// error is thrown away the result is nil, and an empty AllowPorts means "every port is allowed": a typo would silently
// switch the whitelist off. Every call site must use the error, or parse a string that was validated (parsed with a
// nil error) on every path that stored it.
func checkAllowListParse(c *engine.Ctx, rule string) {
	c.Rule(rule, "the error of types.NewPortsRangeSliceFromString is used at every call site, or the parsed string comes from a field that is only ever assigned a string which the same parser accepted")
	p := c.P
	parse := funcObj(c, "pkg/config/types", "NewPortsRangeSliceFromString")
	if parse == nil {
		return
	}
	errUsed := func(call ssa.CallInstruction) bool {
		v := call.Value()
		if v == nil || v.Referrers() == nil {
			return false
		}
		for _, r := range *v.Referrers() {
			if ex, ok := r.(*ssa.Extract); ok && ex.Index == 1 && ex.Referrers() != nil {
				for _, u := range *ex.Referrers() {
					if _, dbg := u.(*ssa.DebugRef); !dbg {
						return true
					}
				}
			}
		}
		return false
	}
	validated := func(fv *types.Var) (bool, string) {
		stores := 0
		okAll := true
		why := ""
		for _, f := range p.RepoFuncs() {
			f := f
			engine.ForEachInstr(f, func(in ssa.Instruction) {
				st, ok := in.(*ssa.Store)
				if !ok {
					return
				}
				if lf, _ := engine.LoadedField(st.Addr); lf != fv {
					return
				}
				if sv, isC := engine.ConstString(st.Val); isC && sv == "" {
					return
				}
				stores++
				q := &engine.PathQuery{Fn: f, Sink: engine.Is(in)}
				states, err := q.Run()
				if err != nil || len(states) == 0 {
					okAll, why = false, "store at "+p.Pos(in.Pos())+" not analysable"
					return
				}
				for _, ps := range states {
					good := false
					for _, l := range ps.Lits {
						if l.Op != token.EQL || !l.Val {
							continue
						}
						x, y := l.X, l.Y
						if engine.IsNilConst(x) {
							x, y = y, x
						}
						if !engine.IsNilConst(y) {
							continue
						}
						if cl, i := engine.ResultOfCall(x); cl != nil && i == 1 && engine.SameFunc(engine.CalleeObj(cl), parse) && engine.SameValue(cl.Call.Args[0], st.Val) {
							good = true
						}
					}
					if !good {
						okAll, why = false, "the string stored at "+p.Pos(in.Pos())+" was not parsed successfully first"
					}
				}
			})
		}
		if stores == 0 {
			return false, "no store found"
		}
		return okAll, why
	}
	n := 0
	for _, f := range p.RepoFuncs() {
		for _, call := range engine.CallsTo(f, parse) {
			n++
			key := fmt.Sprintf("%s>allow-list-parse", p.FuncName(f))
			if errUsed(call) {
				c.Hold(key, call.Pos(), 1, nil, "the parse error is used")
				continue
			}
			fv, _ := engine.LoadedField(engine.Unwrap(call.Common().Args[0]))
			if fv == nil {
				c.Violate(key, call.Pos(), nil, "the allow-list parse error is discarded: an unparsable list becomes the empty list, which allows every port")
				continue
			}
			okV, why := validated(fv)
			c.Check(okV, key, call.Pos(), 2, []string{"parsed string: field " + fv.Name()},
				"the discarded parse error cannot occur: field %s only ever holds a string the parser accepted (%s)", fv.Name(), why)
		}
	}
	c.Floor(n, 2)
}

// checkPortBookkeeping (R6): (a) the reservation remembers the granted port: every store to PortCtx.Port inside
// Manager.Acquire writes Acquire's own first result (for a server-chosen port the requested port is 0, and a
// reservation of 0 never gives the previous port back); (b) a proxy type talks to one port manager: all Acquire and
// Release calls made by the methods (and closures) of one receiver type go through the same manager field, and the UDP
// proxy uses the UDP manager (a release sent to the sibling manager leaks the port here and frees a live one there).
func checkPortBookkeeping(c *engine.Ctx, rule string) {
	c.Rule(rule, "Manager.Acquire stores its own result into the reservation's Port; all Acquire/Release calls of one proxy or group type use one and the same port-manager field, of the type's protocol")
	p := c.P
	n := 0
	portF := field(c, "server/ports", "PortCtx", "Port")
	acq := fn(c, "server/ports.Manager.Acquire")
	if portF != nil && acq != nil {
		// the cell (or value) of result 0
		var resCell *ssa.Alloc
		var resVals []ssa.Value
		engine.ForEachInstr(acq, func(in ssa.Instruction) {
			if r, ok := in.(*ssa.Return); ok && len(r.Results) > 0 {
				resVals = append(resVals, r.Results[0])
				if u, ok := r.Results[0].(*ssa.UnOp); ok && u.Op == token.MUL {
					if al, ok := u.X.(*ssa.Alloc); ok {
						resCell = al
					}
				}
			}
		})
		for _, g := range append([]*ssa.Function{acq}, allAnon(acq)...) {
			engine.ForEachInstr(g, func(in ssa.Instruction) {
				st, ok := in.(*ssa.Store)
				if !ok {
					return
				}
				if lf, _ := engine.LoadedField(st.Addr); lf != portF {
					return
				}
				n++
				okv := false
				if u, ok := st.Val.(*ssa.UnOp); ok && u.Op == token.MUL {
					switch x := u.X.(type) {
					case *ssa.Alloc:
						okv = resCell != nil && x == resCell
					case *ssa.FreeVar:
						b := engine.ClosureBinding(x)
						okv = resCell != nil && b == ssa.Value(resCell)
					}
				}
				for _, rv := range resVals {
					if engine.SameValue(rv, st.Val) {
						okv = true
					}
				}
				c.Check(okv, "server/ports.Manager.Acquire>reservation-port", in.Pos(), 1, []string{"stored: " + engine.Describe(st.Val)},
					"the reservation's Port is the port Acquire grants (its first result), not the requested one")
			})
		}
	}
	acqO := method(c, "server/ports", "Manager", "Acquire")
	relO := method(c, "server/ports", "Manager", "Release")
	if acqO != nil && relO != nil {
		type use struct {
			acq, rel map[string]bool
			pos      token.Pos
		}
		byType := map[string]*use{}
		var order []string
		for _, f := range p.RepoFuncs() {
			root := f
			for root.Parent() != nil {
				root = root.Parent()
			}
			if root.Signature.Recv() == nil || root.Pkg == nil || strings.HasSuffix(root.Pkg.Pkg.Path(), "/server/ports") {
				continue
			}
			rn := engine.NamedOf(root.Signature.Recv().Type())
			if rn == nil {
				continue
			}
			tn := rn.Obj().Pkg().Name() + "." + rn.Obj().Name()
			for _, call := range engine.CallsTo(f, acqO, relO) {
				src := engine.Provenance(engine.CallArgs(call)[0], engine.ProvOpts{NoArgs: true})
				u := byType[tn]
				if u == nil {
					u = &use{acq: map[string]bool{}, rel: map[string]bool{}, pos: call.Pos()}
					byType[tn] = u
					order = append(order, tn)
				}
				for fv := range src.Fields {
					if nn := engine.NamedOf(fv.Type()); nn != nil && nn.Obj().Name() == "Manager" && strings.HasSuffix(nn.Obj().Pkg().Path(), "/server/ports") {
						if engine.SameFunc(engine.CalleeObj(call), acqO) {
							u.acq[fv.Name()] = true
						} else {
							u.rel[fv.Name()] = true
						}
					}
				}
			}
		}
		sort.Strings(order)
		for _, tn := range order {
			u := byType[tn]
			n++
			all := map[string]bool{}
			for k := range u.acq {
				all[k] = true
			}
			for k := range u.rel {
				all[k] = true
			}
			names := keysOf(all)
			okOne := len(names) == 1
			okProto := true
			if okOne {
				isUDPType := strings.Contains(strings.ToUpper(tn), "UDP")
				isUDPField := strings.Contains(strings.ToUpper(names[0]), "UDP")
				isTCPField := strings.Contains(strings.ToUpper(names[0]), "TCP")
				if (isUDPType && isTCPField) || (!isUDPType && isUDPField) {
					okProto = false
				}
			}
			c.Check(okOne && okProto, tn+">one-port-manager", u.pos, len(u.acq)+len(u.rel), []string{"acquire via " + strings.Join(keysOf(u.acq), ","), "release via " + strings.Join(keysOf(u.rel), ",")},
				"ports of %s are acquired and released through one manager of its protocol (managers used: %s)", tn, strings.Join(names, ","))
		}
	}
	c.Floor(n, 4)
}

func isMapField(v ssa.Value, f *types.Var) bool {
	lf, _ := engine.LoadedField(v)
	return lf != nil && lf == f
}

func checkPortManager(c *engine.Ctx) {
	p := c.P
	acq := fn(c, "server/ports.Manager.Acquire")
	rel := fn(c, "server/ports.Manager.Release")
	freeF := field(c, "server/ports", "Manager", "freePorts")
	usedF := field(c, "server/ports", "Manager", "usedPorts")
	probe := method(c, "server/ports", "Manager", "isPortAvailable")
	if acq == nil || rel == nil || freeF == nil || usedF == nil || probe == nil {
		return
	}
	c.Rule("R1", "every usedPorts insert in Manager.Acquire is for a key found in freePorts (comma-ok lookup or range) that passed isPortAvailable, and the key is deleted from freePorts before the function returns")
	n := 0
	// insert sites: a direct usedPorts[k] = … in Acquire, or a call to a Manager method that performs that insert for
	// one of its parameters (the bookkeeping extracted into a helper)
	type insertSite struct {
		in  ssa.Instruction
		key ssa.Value
		// helper: also deletes the same parameter from freePorts
		helperDeletes bool
	}
	var sites []insertSite
	mgr := p.Named("server/ports", "Manager")
	helperInsert := func(cf *ssa.Function) (keyIdx int, deletes bool) {
		keyIdx = -1
		if cf == nil || cf.Blocks == nil || cf.Signature.Recv() == nil || engine.NamedOf(cf.Signature.Recv().Type()) != mgr {
			return
		}
		engine.ForEachInstr(cf, func(x ssa.Instruction) {
			if mu, ok := x.(*ssa.MapUpdate); ok && isMapField(mu.Map, usedF) {
				for i, q := range cf.Params {
					if engine.SameValue(mu.Key, q) {
						keyIdx = i
					}
				}
			}
		})
		if keyIdx >= 0 {
			engine.ForEachInstr(cf, func(x ssa.Instruction) {
				if call, ok := x.(ssa.CallInstruction); ok {
					if b, ok := call.Common().Value.(*ssa.Builtin); ok && b.Name() == "delete" && isMapField(call.Common().Args[0], freeF) && engine.SameValue(call.Common().Args[1], cf.Params[keyIdx]) {
						deletes = true
					}
				}
			})
		}
		return
	}
	engine.ForEachInstr(acq, func(in ssa.Instruction) {
		switch x := in.(type) {
		case *ssa.MapUpdate:
			if isMapField(x.Map, usedF) {
				sites = append(sites, insertSite{in: in, key: x.Key})
			}
		case *ssa.Call:
			if idx, del := helperInsert(engine.CalleeFn(x)); idx >= 0 {
				sites = append(sites, insertSite{in: in, key: engine.CallArgs(x)[idx], helperDeletes: del})
			}
		}
	})
	for _, site := range sites {
		site := site
		in := site.in
		n++
		key := fmt.Sprintf("server/ports.Manager.Acquire>insert#%d", n)
		var kv ssa.Value
		okp := c.AllPaths(key, engine.PathCheck{Fn: acq, Sink: engine.Is(in), Track: []ssa.Value{site.key}, Pred: func(st *engine.PathState) string {
			k := st.Resolve(site.key)
			kv = k
			// (a) membership in the free set
			member := false
			if ex, ok := k.(*ssa.Extract); ok {
				if nx, ok := ex.Tuple.(*ssa.Next); ok {
					if r, ok := nx.Iter.(*ssa.Range); ok && isMapField(r.X, freeF) && ex.Index == 1 {
						member = true
					}
				}
			}
			for _, l := range st.Lits {
				if l.Op != token.ILLEGAL || !l.Val {
					continue
				}
				ex, ok := l.X.(*ssa.Extract)
				if !ok || ex.Index != 1 {
					continue
				}
				lk, ok := ex.Tuple.(*ssa.Lookup)
				if ok && lk.CommaOk && isMapField(lk.X, freeF) && engine.SameExpr(st.Resolve(lk.Index), k) {
					member = true
				}
			}
			if !member {
				return "port " + engine.Describe(k) + " is marked used on a path where it was not found in the free set (it may be outside allowPorts or owned by another proxy)"
			}
			// (b) OS probe
			probed := false
			for _, l := range st.Lits {
				if l.Op != token.ILLEGAL || !l.Val {
					continue
				}
				call, _ := engine.ResultOfCall(l.X)
				if call != nil && engine.SameFunc(engine.CalleeObj(call), probe) && engine.SameExpr(st.Resolve(call.Call.Args[len(call.Call.Args)-1]), k) {
					probed = true
				}
			}
			if !probed {
				return "port " + engine.Describe(k) + " is marked used without a successful availability probe"
			}
			return ""
		}}, "insert only for a free, available port")
		if okp && site.helperDeletes {
			c.Hold(key+">leaves-free-set", in.Pos(), 2, nil, "the helper that marks the port used also removes the same port from the free set")
		} else if okp {
			c.AllPaths(key+">leaves-free-set", engine.PathCheck{Fn: acq, From: in, Sink: engine.IsReturn,
				Event: func(x ssa.Instruction) string {
					call, ok := x.(ssa.CallInstruction)
					if !ok {
						return ""
					}
					if b, ok := call.Common().Value.(*ssa.Builtin); ok && b.Name() == "delete" && isMapField(call.Common().Args[0], freeF) {
						return "delete-free"
					}
					return ""
				},
				Pred: func(st *engine.PathState) string {
					if !st.HasEvent("delete-free") {
						return "a port marked used stays in the free set: it can be handed out twice"
					}
					for _, e := range st.Events {
						if e.Tag == "delete-free" {
							dc, ok := e.Instr.(ssa.CallInstruction)
							if !ok {
								continue
							}
							if b, isB := dc.Common().Value.(*ssa.Builtin); !isB || b.Name() != "delete" {
								continue
							}
							dk := st.Resolve(dc.Common().Args[1])
							if !engine.SameExpr(dk, kv) && !engine.SameExpr(dk, st.Resolve(site.key)) {
								return "the key deleted from the free set (" + engine.Describe(dk) + ") is not the port marked used"
							}
						}
					}
					return ""
				}}, "the acquired port is removed from the free set before returning")
		}
	}
	c.Floor(n, 3)

	c.Rule("R2", "freePorts is written only by NewManager and Release; Release frees a port only when it was found in usedPorts, and removes it from usedPorts")
	n = 0
	ctor := p.FuncObj("server/ports", "NewManager")
	for _, f := range p.RepoFuncs() {
		engine.ForEachInstr(f, func(in ssa.Instruction) {
			mu, ok := in.(*ssa.MapUpdate)
			if !ok || !isMapField(mu.Map, freeF) {
				return
			}
			n++
			name := p.FuncName(f)
			switch {
			case f.Object() == ctor:
				c.Hold(name, in.Pos(), 1, nil, "constructor seeds the free set")
			case f == rel:
				c.AllPaths(name, engine.PathCheck{Fn: f, Sink: engine.Is(in), Track: []ssa.Value{mu.Key}, Pred: func(st *engine.PathState) string {
					k := st.Resolve(mu.Key)
					for _, l := range st.Lits {
						if l.Op != token.ILLEGAL || !l.Val {
							continue
						}
						ex, ok := l.X.(*ssa.Extract)
						if !ok || ex.Index != 1 {
							continue
						}
						lk, ok := ex.Tuple.(*ssa.Lookup)
						if ok && lk.CommaOk && isMapField(lk.X, usedF) && engine.SameExpr(st.Resolve(lk.Index), k) {
							return ""
						}
					}
					return "Release puts a port into the free set that was not found in usedPorts (a port outside allowPorts, or a second release, becomes allocatable)"
				}}, "a port becomes free only if it was in use")
				// and it leaves usedPorts
				hasDel := false
				engine.ForEachInstr(f, func(x ssa.Instruction) {
					if call, ok := x.(ssa.CallInstruction); ok {
						if b, ok := call.Common().Value.(*ssa.Builtin); ok && b.Name() == "delete" && isMapField(call.Common().Args[0], usedF) {
							hasDel = true
						}
					}
				})
				c.Check(hasDel, name+">leaves-used", f.Pos(), 1, nil, "Release removes the port from usedPorts")
			default:
				c.Violate(name, in.Pos(), nil, "freePorts is written outside NewManager/Release: the allow-list no longer bounds what can be allocated")
			}
		})
	}
	// the constructor's seeds derive from allowPorts (or the constant full range)
	if cf := p.FuncOf(ctor); cf != nil {
		okSeed := true
		why := ""
		engine.ForEachInstr(cf, func(in ssa.Instruction) {
			mu, ok := in.(*ssa.MapUpdate)
			if !ok || !isMapField(mu.Map, freeF) {
				return
			}
			src := engine.Provenance(mu.Key, engine.ProvOpts{})
			if !src.HasParam("allowPorts") {
				// full-range branch: only constants
				for pr := range src.Params {
					okSeed, why = false, "seed depends on parameter "+pr.Name()
				}
				if len(src.Calls) > 0 {
					okSeed, why = false, "seed computed by a call"
				}
			}
		})
		n++
		c.Check(okSeed, "server/ports.NewManager>seeds", cf.Pos(), 2, nil, "free set is seeded from allowPorts or the constant full range %s", why)
		// the full range is the meaning of "no allow-list configured" only: it is seeded on paths that found the
		// configured list itself empty (not the set derived from it — a configured list that denotes no port allows none)
		engine.ForEachInstr(cf, func(in ssa.Instruction) {
			mu, ok := in.(*ssa.MapUpdate)
			if !ok || !isMapField(mu.Map, freeF) {
				return
			}
			if src := engine.Provenance(mu.Key, engine.ProvOpts{}); src.HasParam("allowPorts") {
				return
			}
			c.AllPaths("server/ports.NewManager>full-range", engine.PathCheck{Fn: cf, Sink: engine.Is(in), Pred: func(st *engine.PathState) string {
				for _, l := range st.Lits {
					if arg, ok := lenIsZero(l); ok && isParam("allowPorts")(engine.Unwrap(st.Resolve(arg))) {
						return ""
					}
					if l.Op == token.EQL && l.Val && engine.IsNilConst(l.Y) && isParam("allowPorts")(engine.Unwrap(l.X)) {
						return ""
					}
				}
				return "the full port range is put into the free set on a path that did not find the configured allowPorts list empty: a configured list that contributes no port would allow every port"
			}}, "full range only when no allow-list is configured")
		})
	}
	c.Floor(n, 4)
}

// ---- R3: true-port chain ----

type truePort struct {
	c       *engine.Ctx
	acquire *types.Func
	fields  map[*types.Var]bool // fields holding the acquired port
	funcs   map[*types.Func]int // functions returning the acquired port at result index
	memo    map[ssa.Value]bool
}

func (t *truePort) is(v ssa.Value, depth int) bool {
	if v == nil || depth > 12 {
		return false
	}
	v = engine.Unwrap(v)
	if r, ok := t.memo[v]; ok {
		return r
	}
	t.memo[v] = true // optimistic for cycles (phi loops)
	r := t.is1(v, depth)
	t.memo[v] = r
	return r
}

func (t *truePort) is1(v ssa.Value, depth int) bool {
	switch x := v.(type) {
	case *ssa.Extract:
		if call, ok := x.Tuple.(*ssa.Call); ok {
			o := engine.CalleeObj(call)
			if engine.SameFunc(o, t.acquire) && x.Index == 0 {
				return true
			}
			for f, idx := range t.funcs {
				if engine.SameFunc(o, f) && x.Index == idx {
					return true
				}
			}
		}
	case *ssa.Phi:
		for _, e := range x.Edges {
			if !t.is(e, depth+1) {
				return false
			}
		}
		return true
	case *ssa.UnOp:
		if x.Op != token.MUL {
			return false
		}
		if fv, _ := engine.LoadedField(x); fv != nil {
			return t.fields[fv]
		}
		if al, ok := x.X.(*ssa.Alloc); ok {
			// a local cell: every value stored into it must be a true port
			n := 0
			if refs := al.Referrers(); refs != nil {
				for _, r := range *refs {
					if st, ok := r.(*ssa.Store); ok && st.Addr == al {
						if isReturnSpill(st) {
							continue // `return …, 0, err` written into a named result: read by nobody but the return
						}
						n++
						if !t.is(st.Val, depth+1) {
							return false
						}
					}
				}
			}
			return n > 0
		}
		if fvv, ok := x.X.(*ssa.FreeVar); ok {
			if b := engine.ClosureBinding(fvv); b != nil {
				if al, ok := b.(*ssa.Alloc); ok {
					n := 0
					if refs := al.Referrers(); refs != nil {
						for _, r := range *refs {
							if st, ok := r.(*ssa.Store); ok && st.Addr == al {
								n++
								if !t.is(st.Val, depth+1) {
									return false
								}
							}
						}
					}
					return n > 0
				}
			}
		}
	}
	return false
}

func checkTruePortChain(c *engine.Ctx, rule string) {
	p := c.P
	c.Rule(rule, "the port that is listened on, reported, stored in realBindPort/realPort, returned by the group Listen functions and released is the Acquire result (the 'true port'), never the requested port")
	acquire := method(c, "server/ports", "Manager", "Acquire")
	release := method(c, "server/ports", "Manager", "Release")
	if acquire == nil || release == nil {
		return
	}
	tp := &truePort{c: c, acquire: acquire, fields: map[*types.Var]bool{}, funcs: map[*types.Func]int{}, memo: map[ssa.Value]bool{}}
	// The fields and functions that carry the acquired port are discovered, not named: a struct field (of integer type,
	// in server/proxy or server/group) that is assigned a true port somewhere, and a function of server/group that
	// returns one, join the chain; iterate to a fixpoint. Every *other* store / return of a member must then be a
	// true port too (checked below).
	inScope := func(f *ssa.Function) bool {
		return f.Pkg != nil && (strings.HasSuffix(f.Pkg.Pkg.Path(), "/server/proxy") || strings.HasSuffix(f.Pkg.Pkg.Path(), "/server/group"))
	}
	// nomination (least fixpoint over provenance): a value "carries" the acquired port if its provenance contains the
	// Acquire call, a nominated field or a nominated function's call
	carries := func(v ssa.Value) bool {
		src := engine.Provenance(v, engine.ProvOpts{NoArgs: true})
		if src.HasCall(acquire) {
			return true
		}
		for fv := range src.Fields {
			if tp.fields[fv] {
				return true
			}
		}
		for fo := range tp.funcs {
			if src.HasCall(fo) {
				return true
			}
		}
		return false
	}
	for round := 0; round < 6; round++ {
		changed := false
		for _, f := range p.RepoFuncs() {
			if !inScope(f) {
				continue
			}
			engine.ForEachInstr(f, func(in ssa.Instruction) {
				switch x := in.(type) {
				case *ssa.Store:
					fv, _ := engine.LoadedField(x.Addr)
					if fv == nil || tp.fields[fv] || !isIntegerType(fv.Type()) {
						return
					}
					if fv.Pkg() == nil || !(strings.HasSuffix(fv.Pkg().Path(), "/server/proxy") || strings.HasSuffix(fv.Pkg().Path(), "/server/group")) {
						return // configuration fields (cfg.RemotePort is updated for display) are not part of the chain
					}
					if carries(x.Val) {
						tp.fields[fv] = true
						changed = true
					}
				case *ssa.Return:
					o, ok := f.Object().(*types.Func)
					if !ok || f.Parent() != nil {
						return
					}
					if _, done := tp.funcs[o]; done {
						return
					}
					for i, r := range x.Results {
						if isIntegerType(r.Type()) && carries(r) {
							tp.funcs[o] = i
							changed = true
						}
					}
				}
			})
		}
		if !changed {
			break
		}
	}
	if len(tp.fields) < 3 || len(tp.funcs) < 2 {
		c.Undecide("true-port-chain", 0, "expected at least three fields and two functions carrying the acquired port, found %d and %d", len(tp.fields), len(tp.funcs))
	}
	n := 0
	// (a) every store to a true-port field is a true port
	for _, f := range p.RepoFuncs() {
		engine.ForEachInstr(f, func(in ssa.Instruction) {
			st, ok := in.(*ssa.Store)
			if !ok {
				return
			}
			fv, _ := engine.LoadedField(st.Addr)
			if fv == nil || !tp.fields[fv] {
				return
			}
			n++
			tp.memo = map[ssa.Value]bool{}
			c.Check(tp.is(st.Val, 0), p.FuncName(f)+">store:"+fv.Name(), in.Pos(), 2, []string{"stored value: " + engine.Describe(st.Val)},
				"%s is assigned the acquired port", fv.Name())
		})
	}
	// (b) the port results of the group Listen functions are true ports on success exits
	for m, idx := range tp.funcs {
		f := p.FuncOf(m)
		if f == nil {
			continue
		}
		n++
		name := p.FuncName(f) + ">result"
		c.AllPaths(name, engine.PathCheck{Fn: f, Sink: engine.IsReturn, Pred: func(st *engine.PathState) string {
			r := st.Sink.(*ssa.Return)
			ev := st.Resolve(r.Results[len(r.Results)-1])
			if !engine.IsNilConst(ev) {
				if isNil, known := st.IsNil(func(v ssa.Value) bool { return v == ev }); !(known && isNil) {
					// error exit (or delegated result): the port value is only meaningful with a nil error
					if _, isExtract := ev.(*ssa.Extract); !isExtract {
						return ""
					}
				}
			}
			pv := st.Resolve(r.Results[idx])
			tp.memo = map[ssa.Value]bool{}
			if !tp.is(pv, 0) {
				return "on a success exit the returned port is " + engine.Describe(pv) + ", not the acquired one: the client is told a port that is not the one accepting connections"
			}
			return ""
		}}, "returned port is the acquired port")
	}
	// (c) consumers: listen address, reported address, release argument
	var netListen, resolveUDP, sprintf, itoa, joinHostPort *types.Func
	look := func(pkg, name string) *types.Func {
		if pk := p.ByPath[pkg]; pk != nil && pk.Types != nil {
			f, _ := pk.Types.Scope().Lookup(name).(*types.Func)
			return f
		}
		return nil
	}
	netListen, resolveUDP, sprintf, itoa, joinHostPort = look("net", "Listen"), look("net", "ResolveUDPAddr"), look("fmt", "Sprintf"), look("strconv", "Itoa"), look("net", "JoinHostPort")
	portArgOfAddr := func(addr ssa.Value) ssa.Value {
		call, _ := engine.ResultOfCall(addr)
		if call == nil || !engine.SameFunc(engine.CalleeObj(call), joinHostPort) {
			return nil
		}
		ic, _ := engine.ResultOfCall(call.Call.Args[1])
		if ic == nil || !engine.SameFunc(engine.CalleeObj(ic), itoa) {
			return nil
		}
		return ic.Call.Args[0]
	}
	for _, sym := range []string{"server/proxy.TCPProxy.Run", "server/proxy.UDPProxy.Run", "server/group.TCPGroup.Listen"} {
		f := fn(c, sym)
		if f == nil {
			continue
		}
		listens := 0
		var lcalls []ssa.CallInstruction
		for _, g := range append([]*ssa.Function{f}, allAnon(f)...) { // f and the steps split out of it
			lcalls = append(lcalls, engine.CallsTo(g, netListen, resolveUDP)...)
		}
		for _, call := range lcalls {
			listens++
			n++
			pa := portArgOfAddr(engine.CallArgs(call)[1])
			tp.memo = map[ssa.Value]bool{}
			if pa == nil {
				c.Undecide(sym+">listen-port", call.Pos(), "listen address is not JoinHostPort(addr, Itoa(port)): cannot identify the port")
				continue
			}
			c.Check(tp.is(pa, 0), sym+">listen-port", call.Pos(), 3, []string{"port expression: " + engine.Describe(pa)},
				"the listener is opened on the acquired port (found %s)", engine.Describe(pa))
		}
		if listens == 0 {
			c.Undecide(sym+">listen-port", f.Pos(), "no net.Listen/ResolveUDPAddr call found")
		}
		// reported remote address
		for _, call := range engine.CallsTo(f, sprintf) {
			args := engine.CallArgs(call)
			if s, ok := engine.ConstString(args[0]); !ok || s != ":%d" {
				continue
			}
			n++
			// variadic slice: find the stored element
			var elem ssa.Value
			src := engine.Provenance(args[1], engine.ProvOpts{})
			for v := range src.Values {
				if mi, ok := v.(*ssa.MakeInterface); ok {
					elem = mi.X
				}
			}
			tp.memo = map[ssa.Value]bool{}
			c.Check(elem != nil && tp.is(elem, 0), sym+">reported-port", call.Pos(), 3, []string{"reported: " + engine.Describe(elem)},
				"the remote address reports the acquired port")
		}
	}
	// releases
	for _, f := range p.RepoFuncs() {
		for _, call := range engine.CallsTo(f, release) {
			if f.Pkg != nil && f.Pkg.Pkg.Path() == engine.ModPath+"/server/ports" {
				continue
			}
			n++
			args := engine.CallArgs(call)
			tp.memo = map[ssa.Value]bool{}
			c.Check(tp.is(args[1], 0), p.FuncName(f)+">release-arg", call.Pos(), 2, []string{"released: " + engine.Describe(args[1])},
				"the port handed to Release is the acquired port (found %s)", engine.Describe(args[1]))
		}
	}
	c.Floor(n, 7)
}

func checkRemoteAddrAnswer(c *engine.Ctx) {
	c.Rule("R4", "NewProxyResp.RemoteAddr is RegisterProxy's result, and RegisterProxy's remote address is the proxy's Run result")
	h := fn(c, "server.Control.handleNewProxy")
	reg := fn(c, "server.Control.RegisterProxy")
	regObj := method(c, "server", "Control", "RegisterProxy")
	runObj := method(c, "server/proxy", "Proxy", "Run")
	raF := field(c, "pkg/msg", "NewProxyResp", "RemoteAddr")
	n := 0
	if h != nil && reg != nil && regObj != nil && runObj != nil && raF != nil {
		for _, hg := range append([]*ssa.Function{h}, allAnon(h)...) { // the handler, its closures and split-out steps
			engine.ForEachInstr(hg, func(in ssa.Instruction) {
				st, ok := in.(*ssa.Store)
				if !ok {
					return
				}
				if fv, _ := engine.LoadedField(st.Addr); fv != raF {
					return
				}
				n++
				src := engine.Provenance(st.Val, engine.ProvOpts{NoArgs: true})
				localConsts := len(src.Consts)
				if !src.HasCall(regObj) {
					src = engine.DeepSources(c.P, st.Val) // the address may arrive through a helper's parameter
				}
				c.Check(src.HasCall(regObj) && localConsts <= 1, "server.Control.handleNewProxy", in.Pos(), len(src.Values), []string{"RemoteAddr: " + src.Summary()},
					"the answer carries the address returned by RegisterProxy")
			})
		}
		c.AllPaths("server.Control.RegisterProxy>remote-addr", engine.PathCheck{Fn: reg, Sink: engine.IsReturn, Pred: func(st *engine.PathState) string {
			r := st.Sink.(*ssa.Return)
			ev := st.Resolve(r.Results[1])
			if !engine.IsNilConst(ev) {
				if isNil, known := st.IsNil(func(v ssa.Value) bool { return v == ev }); !(known && isNil) {
					return ""
				}
			}
			rv := st.Resolve(r.Results[0])
			call, idx := engine.ResultOfCall(rv)
			if call == nil || !engine.SameFunc(engine.CalleeObj(call), runObj) || idx != 0 {
				return "on success RegisterProxy returns " + engine.Describe(rv) + " instead of the address returned by the proxy's Run"
			}
			return ""
		}}, "success exits return Run's address")
		n++
	}
	c.Floor(n, 2)
}

// checkQuota is shared by C09.R5 and C10.R8.
func checkQuota(c *engine.Ctx, rule string) {
	p := c.P
	c.Rule(rule, "per-client port quota: check-and-add under ctl.mu; an added quota is rolled back by a deferred err!=nil subtraction registered on exactly the paths that added it; usedPortsNum is set only by the tcp/udp constructors, to 1")
	reg := fn(c, "server.Control.RegisterProxy")
	usedF := field(c, "server", "Control", "portsUsedNum")
	muF := field(c, "server", "Control", "mu")
	maxF := field(c, "pkg/config/v1", "ServerConfig", "MaxPortsPerClient")
	getUsed := method(c, "server/proxy", "Proxy", "GetUsedPortsNum")
	if reg == nil || usedF == nil || muF == nil || maxF == nil || getUsed == nil {
		return
	}
	n := 0
	isQuotaStore := func(in ssa.Instruction, op token.Token) bool {
		st, ok := in.(*ssa.Store)
		if !ok {
			return false
		}
		if lf, _ := engine.LoadedField(st.Addr); lf != usedF {
			return false
		}
		bo, ok := st.Val.(*ssa.BinOp)
		if !ok || bo.Op != op {
			return false
		}
		src := engine.Provenance(bo.Y, engine.ProvOpts{NoArgs: true})
		return src.HasCall(getUsed)
	}
	lockEv := func(in ssa.Instruction) string {
		call, ok := in.(ssa.CallInstruction)
		if !ok {
			return ""
		}
		if _, isDefer := in.(*ssa.Defer); isDefer {
			return ""
		}
		o := engine.CalleeObj(call)
		if o != nil && o.Pkg() != nil && o.Pkg().Path() == "sync" && len(engine.CallArgs(call)) > 0 {
			if lf, _ := engine.LoadedField(engine.CallArgs(call)[0]); lf == muF {
				switch o.Name() {
				case "Lock":
					return "lock"
				case "Unlock":
					return "unlock"
				}
			}
		}
		return ""
	}
	// the rollback closure: subtracts under err != nil, with the lock held
	isRollback := func(in ssa.Instruction) bool {
		d, ok := in.(*ssa.Defer)
		if !ok {
			return false
		}
		cf := engine.CalleeFn(d)
		if cf == nil {
			return false
		}
		found := false
		engine.ForEachInstr(cf, func(x ssa.Instruction) {
			if isQuotaStore(x, token.SUB) {
				found = true
			}
		})
		return found
	}
	var adds []ssa.Instruction
	engine.ForEachInstr(reg, func(in ssa.Instruction) {
		if isQuotaStore(in, token.ADD) {
			adds = append(adds, in)
		}
	})
	if len(adds) != 1 {
		c.Undecide("server.Control.RegisterProxy>quota-add", reg.Pos(), "expected exactly one `portsUsedNum += GetUsedPortsNum()` in RegisterProxy, found %d", len(adds))
		return
	}
	add := adds[0]
	n++
	c.AllPaths("server.Control.RegisterProxy>quota-add", engine.PathCheck{Fn: reg, Sink: engine.Is(add), Event: lockEv, Pred: func(st *engine.PathState) string {
		if !(st.EventIndex("lock") >= 0 && st.EventIndex("lock") > st.EventIndex("unlock")) {
			return "the quota is added without ctl.mu held"
		}
		// quota test: portsUsedNum + GetUsedPortsNum() > MaxPortsPerClient was false, and quotas are enabled
		checked, enabled := false, false
		for _, l := range st.Lits {
			if l.Op != token.GTR {
				continue
			}
			if lf, _ := engine.LoadedField(l.X); lf == maxF {
				if z, ok := engine.ConstInt(l.Y); ok && z == 0 && l.Val {
					enabled = true
				}
				continue
			}
			sx := engine.Provenance(l.X, engine.ProvOpts{NoArgs: true})
			sy := engine.Provenance(l.Y, engine.ProvOpts{NoArgs: true})
			if sx.HasField(usedF) && sx.HasCall(getUsed) && sy.HasField(maxF) && !l.Val {
				checked = true
			}
		}
		if !enabled {
			return "the quota is added on a path where MaxPortsPerClient > 0 was not established"
		}
		if !checked {
			return "the quota is added without the test portsUsedNum + used > MaxPortsPerClient having failed"
		}
		return ""
	}}, "quota added only under the lock after the limit test")
	n++
	c.AllPaths("server.Control.RegisterProxy>quota-rollback", engine.PathCheck{Fn: reg, Sink: engine.IsReturn,
		Event: func(in ssa.Instruction) string {
			if in == add {
				return "add"
			}
			if isRollback(in) {
				return "defer-rollback"
			}
			return lockEv(in)
		},
		Pred: func(st *engine.PathState) string {
			if li, ui := st.EventIndex("lock"), st.EventIndex("unlock"); li > ui {
				return "RegisterProxy returns with ctl.mu held: the session's message handling wedges on the next request"
			}
			added, rb := st.HasEvent("add"), st.HasEvent("defer-rollback")
			r := st.Sink.(*ssa.Return)
			ev := st.Resolve(r.Results[1])
			possibleErr := !engine.IsNilConst(ev)
			if possibleErr {
				if isNil, known := st.IsNil(func(v ssa.Value) bool { return v == ev }); known && isNil {
					possibleErr = false
				}
			}
			if rb && !added {
				return "a quota rollback is registered on a path that never added to the quota: a refused request lowers the session's count"
			}
			if added && possibleErr && !rb {
				return "the quota was added but this error exit has no rollback registered: failed registrations leak quota"
			}
			if rb && st.EventIndex("defer-rollback") < st.EventIndex("add") {
				return "the rollback is registered before the quota is added"
			}
			return ""
		}}, "added ⇔ rollback registered, for every exit")
	// the rollback closure itself: subtraction under err != nil and under the lock
	engine.ForEachInstr(reg, func(in ssa.Instruction) {
		if !isRollback(in) {
			return
		}
		n++
		cf := engine.CalleeFn(in.(*ssa.Defer))
		var sub ssa.Instruction
		engine.ForEachInstr(cf, func(x ssa.Instruction) {
			if isQuotaStore(x, token.SUB) {
				sub = x
			}
		})
		c.AllPaths("server.Control.RegisterProxy>rollback-closure", engine.PathCheck{Fn: cf, Sink: engine.Is(sub), Event: lockEv, Pred: func(st *engine.PathState) string {
			if !(st.EventIndex("lock") > st.EventIndex("unlock")) {
				return "the rollback subtracts without ctl.mu held"
			}
			isNil, known := st.IsNil(func(v ssa.Value) bool {
				u, ok := v.(*ssa.UnOp)
				if !ok {
					return false
				}
				fv, ok := u.X.(*ssa.FreeVar)
				return ok && fv.Name() == "err"
			})
			if !(known && !isNil) {
				return "the rollback subtracts even when the registration succeeded"
			}
			return ""
		}}, "rollback only when err != nil, under the lock")
	})
	// usedPortsNum writers
	upF := field(c, "server/proxy", "BaseProxy", "usedPortsNum")
	if upF != nil {
		for _, f := range p.RepoFuncs() {
			engine.ForEachInstr(f, func(in ssa.Instruction) {
				st, ok := in.(*ssa.Store)
				if !ok {
					return
				}
				if fv, _ := engine.LoadedField(st.Addr); fv != upF {
					return
				}
				n++
				name := p.FuncName(f)
				v, isC := engine.ConstInt(st.Val)
				okName := strings.HasSuffix(name, ".NewTCPProxy") || strings.HasSuffix(name, ".NewUDPProxy")
				c.Check(isC && v == 1 && okName, name+">usedPortsNum", in.Pos(), 1, nil, "usedPortsNum is the constant 1, set by the tcp/udp constructors only")
			})
		}
	}
	c.Floor(n, 5)
}

// isReturnSpill: the store writes an operand of a return statement into a named result cell (functions with defers keep
// their results in cells): it sits in a block that ends with the return and nothing but the return reads the cell after it.
func isReturnSpill(st *ssa.Store) bool {
	b := st.Block()
	if b == nil || len(b.Instrs) == 0 {
		return false
	}
	if _, ok := b.Instrs[len(b.Instrs)-1].(*ssa.Return); !ok {
		return false
	}
	after := false
	for _, in := range b.Instrs {
		if in == ssa.Instruction(st) {
			after = true
			continue
		}
		if !after {
			continue
		}
		if _, ok := in.(*ssa.RunDefers); ok {
			// what follows are the loads feeding the return
			return true
		}
		if ld, ok := in.(*ssa.UnOp); ok && ld.X == st.Addr {
			return false
		}
	}
	return false
}
