package rules

import (
	"fmt"
	"go/token"
	"go/types"
	"sort"
	"strings"

	"golang.org/x/tools/go/ssa"

	"frpsa/engine"
)

func init() {
	Registry["C10"] = &Property{
		Title:       "Everything a proxy or session held is released on every termination path",
		Run:         runC10,
		Explanation: "Decides release pairing from the call structure: a table of resource kinds (port, vhost listener, http route, group membership, visitor / NAT-hole entry, proxy name, OS socket, running proxy) is built from the acquire/release APIs; (R1) for each of the eight server proxy types every kind acquired in Run (transitively through its own methods and closures) is released by Close (directly, through closures queued in closeFuncs, or by closing what was stored in the listeners / connection fields); (R2) in every Run, in TCPGroup.Listen and in Control.RegisterProxy, every exit that may carry an error after a successful acquisition passes the matching release, Close, or a deferred err!=nil rollback registered on that path; (R3) the session table insert follows a successful name registration; (R4) Control.worker closes and drains the pool, closes and unregisters every proxy, and closes doneCh last on every path; (R5) CloseProxy closes, unregisters, deletes and returns quota under the session lock; (R6) every wrapper type's Close closes the wrapped value (never itself); (R7) inside a Close that has an idempotence guard every port release and channel close is inside the guard. Not decided: goroutine/descriptor growth, idle backend connections of the HTTP transport, that re-registration succeeds 'shortly after'.",
		Assumptions: commonAssumptions,
	}
}

func runC10(c *engine.Ctx) {
	p := c.P
	tab := buildResTable(c)

	// ---- R1 Close covers Run ----
	checkCloseCoversRun(c, "R1")

	// ---- R2 rollback on partial failure ----
	checkRunRollbacks(c, "R2")

	// ---- R3 registration rollback ----
	c.Rule("R3", "Control.RegisterProxy: after Run succeeded a failing name registration closes the proxy; the session table insert happens only after the name was registered")
	if f := fn(c, "server.Control.RegisterProxy"); f != nil {
		runObj := method(c, "server/proxy", "Proxy", "Run")
		closeObj := method(c, "server/proxy", "Proxy", "Close")
		addObj := method(c, "server/proxy", "Manager", "Add")
		if runObj != nil && closeObj != nil && addObj != nil {
			t2 := &resTable{p: p, kinds: []*resKind{{name: "running-proxy", acquire: []*types.Func{runObj}, release: []*types.Func{closeObj}}}}
			checkRollback(c, t2, "server.Control.RegisterProxy", f, nil, nil)
			proxiesF := field(c, "server", "Control", "proxies")
			n := 0
			engine.ForEachInstr(f, func(in ssa.Instruction) {
				mu, ok := in.(*ssa.MapUpdate)
				if !ok {
					return
				}
				if lf, _ := engine.LoadedField(mu.Map); lf != proxiesF {
					return
				}
				n++
				c.AllPaths("server.Control.RegisterProxy>table-insert", engine.PathCheck{Fn: f, Sink: engine.Is(in), Pred: func(st *engine.PathState) string {
					if v, k := st.IsNil(resultOf(addObj)); !(k && v) {
						return "the proxy is entered into the session table on a path where the name registration did not succeed"
					}
					if v, k := st.IsNil(extractOf(runObj, 1)); !(k && v) {
						return "the proxy is entered into the session table on a path where Run did not succeed"
					}
					return ""
				}}, "ctl.proxies insert only after Run and Manager.Add succeeded")
			})
			c.Floor(n+1, 2)
		}
	}

	// ---- R4 session teardown ----
	c.Rule("R4", "Control.worker closes the pool channel, closes every drained connection, closes and unregisters every owned proxy, and closes doneCh as the last effect on every path")
	checkWorkerTeardown(c)

	// ---- R5 explicit close ----
	c.Rule("R5", "Control.CloseProxy: when the proxy is found it is closed, unregistered, deleted from the session table and its quota returned, all with the session lock held")
	checkCloseProxy(c)

	// ---- R6 wrappers close what they wrap ----
	c.Rule("R6", "the Close method of every wrapper type (a struct embedding or holding a closer) closes the wrapped value and never calls itself on the same receiver")
	checkWrappers(c)

	// ---- R7 release once ----
	c.Rule("R7", "inside a Close method that carries an idempotence guard, every port release and channel close happens on the guarded (first-close) path")
	checkGuardedRelease(c, tab)

	// ---- R8 quota, R9 released port = acquired port (shared with C09) ----
	checkQuota(c, "R8")
	checkTruePortChain(c, "R9")

	// ---- R10 release closures are queued only after the matching registration succeeded (shared with C13.R2) ----
	c.Rule("R10", "in server/proxy a closure that un-registers a route, listener or group membership is appended to closeFuncs only on paths where the matching registration returned nil: a refused (duplicate) registration must leave the owner's entry alone")
	c.Floor(checkCleanupAfterAcquire(c), 2)

	// ---- R11 ----
	checkQueuedClosureCaptures(c, "R11")

	// ---- R12 ----
	checkWrapperCloseFns(c, "R12")

	// ---- R13 a route is removed under the same (lower-cased) key it was stored under (shared with C06.R3) ----
	checkHostIndexLowered(c, "R13")

	// ---- R14 ----
	checkOrderedHandlers(c, "R14")

	// ---- R15 a proxy type uses one port manager, of its protocol (shared with C09.R6) ----
	checkPortBookkeeping(c, "R15")

	// ---- R16 a closed listener / removed route is not served from a memo (shared with C06.R13) ----
	checkFreshLookup(c, "R16")

	// ---- R17 the group worker and the user connection it holds are released when the group goes away (shared with C11.R12) ----
	checkLastLeaveWakes(c, "R17")

	// ---- R18 a close request is not held up behind a mutex somebody keeps while waiting for a peer (shared with C16.R23) ----
	checkNoWaitUnderLock(c, engine.AnalyzeLocks(c.P), "R18")

	// ---- R19 a re-login is acknowledged only when the session it replaces has released everything (first half of C12.R1) ----
	c.Rule("R19", "RegisterControl starts the new control only after WaitClosed on the control that ControlManager.Add returned: the identical registrations of a reconnecting client meet no leftovers of its old session")
	c.Floor(checkStartAfterWait(c), 1)

	// ---- R20 a refused join leaves the group it was refused by alone (shared with C13.R17) ----
	checkGroupRemovedOnlyWhenEmpty(c, "R20")
}

// checkQueuedClosureCaptures: a closure that is stored for later execution (appended to a closeFuncs-like slice field)
// runs after the function that created it has moved on; a variable it captures by reference must not be written again
// after the closure was created, otherwise every queued closure acts on the last value (the loop variable idiom:
// `tmp := cfg` per iteration and capture tmp). A re-executed allocation (per-iteration variable) is a new variable.
func checkQueuedClosureCaptures(c *engine.Ctx, rule string) {
	c.Rule(rule, "a closure stored in a slice-of-functions field (release hooks run at Close) captures by reference only variables that are not written again after the closure was created; per-iteration copies are new variables")
	p := c.P
	n := 0
	for _, f := range p.RepoFuncs() {
		if f.Pkg == nil || !(strings.HasSuffix(f.Pkg.Pkg.Path(), "/server/proxy") || strings.HasSuffix(f.Pkg.Pkg.Path(), "/server/group") || strings.HasSuffix(f.Pkg.Pkg.Path(), "/server")) {
			continue
		}
		f := f
		engine.ForEachInstr(f, func(in ssa.Instruction) {
			st, ok := in.(*ssa.Store)
			if !ok {
				return
			}
			fv, _ := engine.LoadedField(st.Addr)
			if fv == nil {
				return
			}
			sl, ok := fv.Type().Underlying().(*types.Slice)
			if !ok {
				return
			}
			if _, isSig := sl.Elem().Underlying().(*types.Signature); !isSig {
				return
			}
			src := engine.Provenance(st.Val, engine.ProvOpts{})
			for v := range src.Values {
				mc, ok := v.(*ssa.MakeClosure)
				if !ok || mc.Parent() != f {
					continue
				}
				n++
				bad := ""
				for _, b := range mc.Bindings {
					al, ok := b.(*ssa.Alloc)
					at := mc
					if !ok {
						// the hook is created inside a local helper closure and captures a variable of an enclosing
						// function: judged from the point where that helper closure was created
						cur := f
						v := b
						for d := 0; d < 3 && !ok; d++ {
							fv, isFV := v.(*ssa.FreeVar)
							if !isFV || cur.Parent() == nil {
								break
							}
							var outer *ssa.MakeClosure
							engine.ForEachInstr(cur.Parent(), func(x ssa.Instruction) {
								if m2, isMC := x.(*ssa.MakeClosure); isMC && m2.Fn == cur {
									outer = m2
								}
							})
							v = engine.ClosureBinding(fv)
							if outer == nil || v == nil {
								break
							}
							at, cur = outer, cur.Parent()
							al, ok = v.(*ssa.Alloc)
						}
						if !ok {
							continue
						}
					}
					if w := writtenAfter(at, al); w != nil {
						bad = fmt.Sprintf("captured variable %s is written again at %s after the closure was queued: when the hook finally runs it sees the last value, not the one it was created for", al.Comment, p.Pos(posOf(w)))
					}
				}
				key := fmt.Sprintf("%s>queued-closure@%s", p.FuncName(f), p.FuncName(mc.Fn.(*ssa.Function)))
				if bad != "" {
					c.Violate(key, mc.Pos(), nil, "%s", bad)
				} else {
					c.Hold(key, mc.Pos(), len(mc.Bindings), nil, "queued closure captures only variables that stay unchanged")
				}
			}
		})
	}
	c.Floor(n, 2)
}

// writtenAfter returns a store to the variable al (or one of its fields) that can execute after the closure mc was
// created without al being allocated anew in between.
func writtenAfter(mc *ssa.MakeClosure, al *ssa.Alloc) ssa.Instruction {
	writes := map[ssa.Instruction]bool{}
	var collect func(addr ssa.Value, d int)
	collect = func(addr ssa.Value, d int) {
		if d > 4 || addr.Referrers() == nil {
			return
		}
		for _, r := range *addr.Referrers() {
			switch x := r.(type) {
			case *ssa.Store:
				if x.Addr == addr {
					writes[x] = true
				}
			case *ssa.FieldAddr:
				collect(x, d+1)
			case *ssa.IndexAddr:
				collect(x, d+1)
			}
		}
	}
	collect(al, 0)
	if len(writes) == 0 {
		return nil
	}
	// forward reachability from the instruction after mc, cut at the allocation of al
	scan := func(instrs []ssa.Instruction) (ssa.Instruction, bool) {
		for _, in := range instrs {
			if in == ssa.Instruction(al) {
				return nil, true // re-allocated: a new variable
			}
			if writes[in] {
				return in, true
			}
		}
		return nil, false
	}
	blk := mc.Block()
	idx := 0
	for i, in := range blk.Instrs {
		if in == ssa.Instruction(mc) {
			idx = i + 1
		}
	}
	if w, stop := scan(blk.Instrs[idx:]); w != nil {
		return w
	} else if stop {
		return nil
	}
	seen := map[*ssa.BasicBlock]bool{}
	work := append([]*ssa.BasicBlock{}, blk.Succs...)
	for len(work) > 0 {
		b := work[0]
		work = work[1:]
		if seen[b] {
			continue
		}
		seen[b] = true
		w, stop := scan(b.Instrs)
		if w != nil {
			return w
		}
		if stop {
			continue
		}
		work = append(work, b.Succs...)
	}
	return nil
}

// queuedClosures finds closures that own code stores into a []func() field which the Close code invokes.
func queuedClosures(p *engine.Prog, n *types.Named, own map[*types.Func]*ssa.Function, closeFns []*ssa.Function) []*ssa.Function {
	// fields of func-slice type invoked by Close code
	invoked := map[*types.Var]bool{}
	for _, f := range closeFns {
		engine.ForEachInstr(f, func(in ssa.Instruction) {
			call, ok := in.(ssa.CallInstruction)
			if !ok || call.Common().IsInvoke() {
				return
			}
			if _, isFn := call.Common().Value.(*ssa.Function); isFn {
				return
			}
			if _, isMC := call.Common().Value.(*ssa.MakeClosure); isMC {
				return
			}
			src := engine.Provenance(call.Common().Value, engine.ProvOpts{NoArgs: true})
			for fv := range src.Fields {
				if sl, ok := fv.Type().Underlying().(*types.Slice); ok {
					if _, isSig := sl.Elem().Underlying().(*types.Signature); isSig {
						invoked[fv] = true
					}
				}
			}
		})
	}
	var out []*ssa.Function
	if len(invoked) == 0 {
		return nil
	}
	for _, f := range own {
		for _, g := range append([]*ssa.Function{f}, allAnon(f)...) {
			engine.ForEachInstr(g, func(in ssa.Instruction) {
				st, ok := in.(*ssa.Store)
				if !ok {
					return
				}
				fv, _ := engine.LoadedField(st.Addr)
				if fv == nil || !invoked[fv] {
					return
				}
				src := engine.Provenance(st.Val, engine.ProvOpts{})
				for v := range src.Values {
					if mc, ok := v.(*ssa.MakeClosure); ok {
						if cf, ok := mc.Fn.(*ssa.Function); ok {
							out = append(out, cf)
							out = append(out, allAnon(cf)...)
						}
					}
				}
			})
		}
	}
	return out
}

// resultParkedInClosedField: the (first result of the) acquire call flows into a store to one of the fields Close closes.
func resultParkedInClosedField(call ssa.CallInstruction, closed map[*types.Var]bool) bool {
	f := call.Parent()
	cv := call.Value()
	if cv == nil {
		return false
	}
	found := false
	engine.ForEachInstr(f, func(in ssa.Instruction) {
		st, ok := in.(*ssa.Store)
		if !ok || found {
			return
		}
		fv, _ := engine.LoadedField(st.Addr)
		if fv == nil || !closed[fv] {
			return
		}
		src := engine.Provenance(st.Val, engine.ProvOpts{})
		if src.CallIns[cv] {
			found = true
		}
	})
	return found
}

// checkRollback evaluates rule R2 for one entry function.
func checkRollback(c *engine.Ctx, tab *resTable, name string, f *ssa.Function, own map[*types.Func]*ssa.Function, closeObj *types.Func) {
	checkRollbackDepth(c, tab, name, f, own, closeObj, 0, false)
}

// checkRollbackDepth: quiet=true evaluates without recording obligations and returns whether every site is fine (used to
// decide whether an own method that acquires also undoes its own acquisitions when it fails — a step split out of Run).
func checkRollbackDepth(c *engine.Ctx, tab *resTable, name string, f *ssa.Function, own map[*types.Func]*ssa.Function, closeObj *types.Func, depth int, quiet bool) bool {
	p := c.P
	// own methods that (transitively) acquire
	acquiring := map[*ssa.Function]bool{}
	if own != nil {
		for _, g := range own {
			if g == f {
				continue
			}
			for _, h := range ownClosure(p, g, own) {
				engine.ForEachInstr(h, func(in ssa.Instruction) {
					if call, ok := in.(ssa.CallInstruction); ok && tab.acquireKind(engine.CalleeObj(call)) != nil {
						acquiring[g] = true
					}
				})
			}
		}
	}
	isRelease := func(in ssa.Instruction, kinds map[*resKind]bool, results map[ssa.Value]bool) bool {
		call, ok := in.(ssa.CallInstruction)
		if !ok {
			return false
		}
		o := engine.CalleeObj(call)
		if o == nil {
			return false
		}
		if closeObj != nil && engine.SameFunc(o, closeObj) {
			return true
		}
		for _, k := range tab.releaseKinds(o) {
			if kinds == nil || kinds[k] {
				return true
			}
		}
		if isCloserClose(call) && results != nil {
			src := engine.Provenance(engine.CallArgs(call)[0], engine.ProvOpts{NoArgs: true})
			for r := range results {
				if src.Values[r] {
					return true
				}
				if cr, ok := r.(*ssa.Call); ok && src.CallIns[cr] {
					return true
				}
			}
		}
		return false
	}
	// acquisition sites in f itself
	type site struct {
		call ssa.CallInstruction
		kind *resKind
		own  bool
	}
	var sites []site
	engine.ForEachInstr(f, func(in ssa.Instruction) {
		call, ok := in.(ssa.CallInstruction)
		if !ok {
			return
		}
		if _, isDefer := in.(*ssa.Defer); isDefer {
			return
		}
		if k := tab.acquireKind(engine.CalleeObj(call)); k != nil {
			sites = append(sites, site{call, k, false})
			return
		}
		if cf := engine.CalleeFn(call); cf != nil && acquiring[cf] {
			sites = append(sites, site{call, nil, true})
		}
	})
	if len(sites) == 0 {
		// acquisitions happen only inside closures or nowhere: nothing to pair at this level
		if !quiet {
			c.Hold(name, f.Pos(), 1, nil, "no acquisition followed by an error exit at this level")
		}
		return true
	}
	allOK := true
	for i, s := range sites {
		s := s
		kname := "own-method"
		if s.kind != nil {
			kname = s.kind.name
		}
		key := fmt.Sprintf("%s>%s#%d", name, kname, i+1)
		cv := s.call.Value()
		results := map[ssa.Value]bool{}
		if cv != nil {
			results[cv] = true
		}
		var kinds map[*resKind]bool
		if s.kind != nil {
			kinds = map[*resKind]bool{s.kind: true}
		}
		// the error component of the acquire call
		errIdx := -1
		if cv != nil {
			if tup, ok := cv.Type().(*types.Tuple); ok {
				for j := 0; j < tup.Len(); j++ {
					if types.Identical(tup.At(j).Type(), types.Universe.Lookup("error").Type()) {
						errIdx = j
					}
				}
			} else if types.Identical(cv.Type(), types.Universe.Lookup("error").Type()) {
				errIdx = -2 // the value itself
			}
		}
		// an own method that fails has acquired nothing that outlives it when it rolls back its own acquisitions
		selfContained := false
		if s.own && depth < 2 {
			if cf := engine.CalleeFn(s.call); cf != nil {
				selfContained = checkRollbackDepth(c, tab, name+">"+cf.Name(), cf, own, closeObj, depth+1, true)
			}
		}
		pc := engine.PathCheck{Fn: f, From: s.call, Sink: engine.IsReturn, EventsBeforeFrom: true,
			Event: func(in ssa.Instruction) string {
				if d, ok := in.(*ssa.Defer); ok {
					if engine.DeferExpanded(d) {
						// judged where it runs: the expanded body contributes its releases at the function's exit, under
						// the condition it tests on the value its captured variable holds then
						return ""
					}
					if cf := engine.CalleeFn(d); cf != nil {
						has := false
						for _, g := range append([]*ssa.Function{cf}, allAnon(cf)...) {
							engine.ForEachInstr(g, func(x ssa.Instruction) {
								if isRelease(x, kinds, nil) || (results != nil && isReleaseOfCaptured(x, cv)) {
									has = true
								}
							})
						}
						if has {
							return "defer-rollback"
						}
					}
					if isRelease(in, kinds, results) {
						return "defer-rollback"
					}
					return ""
				}
				if isRelease(in, kinds, results) || (results != nil && in.Parent() != f && isReleaseOfCaptured(in, cv)) {
					return "release"
				}
				return ""
			},
			Pred: func(st *engine.PathState) string {
				r := st.Sink.(*ssa.Return)
				// did the acquisition succeed on this path?
				if (!s.own || selfContained) && errIdx != -1 && cv != nil {
					isNil, known := st.IsNil(func(v ssa.Value) bool {
						if errIdx == -2 {
							return v == cv
						}
						cl, i := engine.ResultOfCall(v)
						return cl != nil && ssa.Value(cl) == cv && i == errIdx
					})
					if known && !isNil {
						return "" // nothing was acquired
					}
				}
				// is this exit a possible error exit?
				var errRes ssa.Value
				for _, rv := range r.Results {
					if types.Identical(rv.Type(), types.Universe.Lookup("error").Type()) {
						errRes = st.Resolve(rv)
					}
				}
				if errRes == nil || engine.IsNilConst(errRes) {
					return ""
				}
				if isNil, known := st.IsNil(func(v ssa.Value) bool { return v == errRes }); known && isNil {
					return ""
				}
				if st.HasEvent("release") || st.HasEvent("defer-rollback") {
					return ""
				}
				return fmt.Sprintf("after %s succeeded this exit may return an error (%s) without releasing what was acquired", engine.Describe(cv), engine.Describe(errRes))
			}}
		if quiet {
			if engine.QuietPaths(pc) != "" {
				allOK = false
			}
			continue
		}
		if !c.AllPaths(key, pc, "every error exit after this acquisition releases it or runs a registered rollback") {
			allOK = false
		}
	}
	// rollback defers registered before the acquisition (HTTP/HTTPS: defer { if err != nil { pxy.Close() } } at the top)
	// are events on the path from the function entry; re-evaluate failing sites from entry.
	return allOK
}

// isReleaseOfCaptured: x is a Close call on a captured variable holding the acquire result.
func isReleaseOfCaptured(x ssa.Instruction, cv ssa.Value) bool {
	call, ok := x.(ssa.CallInstruction)
	if !ok || !isCloserClose(call) || cv == nil {
		return false
	}
	src := engine.Provenance(engine.CallArgs(call)[0], engine.ProvOpts{NoArgs: true})
	if cr, ok := cv.(*ssa.Call); ok && src.CallIns[cr] {
		return true
	}
	return src.Values[cv]
}

func checkWorkerTeardown(c *engine.Ctx) {
	p := c.P
	f := fn(c, "server.Control.worker")
	if f == nil {
		return
	}
	poolF := field(c, "server", "Control", "workConnCh")
	doneF := field(c, "server", "Control", "doneCh")
	proxiesF := field(c, "server", "Control", "proxies")
	pxyClose := method(c, "server/proxy", "Proxy", "Close")
	del := method(c, "server/proxy", "Manager", "Del")
	if poolF == nil || doneF == nil || proxiesF == nil || pxyClose == nil || del == nil {
		return
	}
	closeOf := func(in ssa.Instruction, fv *types.Var) bool {
		call, ok := in.(ssa.CallInstruction)
		if !ok {
			return false
		}
		b, ok := call.Common().Value.(*ssa.Builtin)
		if !ok || b.Name() != "close" {
			return false
		}
		lf, _ := engine.LoadedField(call.Common().Args[0])
		return lf == fv
	}
	var closeDone, closePool, rangeProxies, drainRecv ssa.Instruction
	// the teardown steps may live in worker itself or in methods of Control it calls directly (extracted helpers)
	scope := []*ssa.Function{f}
	engine.ForEachInstr(f, func(in ssa.Instruction) {
		if call, ok := in.(*ssa.Call); ok {
			if cf := engine.CalleeFn(call); cf != nil && cf.Blocks != nil && cf.Signature.Recv() != nil && engine.NamedOf(cf.Signature.Recv().Type()) == engine.NamedOf(f.Signature.Recv().Type()) {
				scope = append(scope, cf)
			}
		}
	})
	forScope := func(visit func(ssa.Instruction)) {
		for _, g := range scope {
			engine.ForEachInstr(g, visit)
		}
	}
	forScope(func(in ssa.Instruction) {
		switch {
		case closeOf(in, doneF):
			closeDone = in
		case closeOf(in, poolF):
			closePool = in
		}
		if r, ok := in.(*ssa.Range); ok {
			if lf, _ := engine.LoadedField(r.X); lf == proxiesF {
				rangeProxies = in
			}
		}
		if u, ok := in.(*ssa.UnOp); ok && u.Op == token.ARROW {
			if lf, _ := engine.LoadedField(u.X); lf == poolF {
				drainRecv = in
			}
		}
	})
	key := "server.Control.worker"
	if closeDone == nil || closePool == nil || rangeProxies == nil || drainRecv == nil {
		c.Violate(key+">steps", f.Pos(), []string{fmt.Sprintf("close(doneCh) found=%v close(workConnCh) found=%v range proxies found=%v drain receive found=%v", closeDone != nil, closePool != nil, rangeProxies != nil, drainRecv != nil)},
			"session teardown lacks one of: close(workConnCh), drain loop over workConnCh, loop over ctl.proxies, close(doneCh)")
		return
	}
	// the drained connection is closed; each ranged proxy is closed and unregistered
	drainOK, pxyCloseOK, delOK := false, false, false
	forScope(func(in ssa.Instruction) {
		call, ok := in.(ssa.CallInstruction)
		if !ok {
			return
		}
		if isCloserClose(call) {
			src := engine.Provenance(engine.CallArgs(call)[0], engine.ProvOpts{NoArgs: true})
			if src.Values[drainRecv.(ssa.Value)] {
				drainOK = true
			}
			if engine.SameFunc(engine.CalleeObj(call), pxyClose) {
				if src.Values[rangeProxies.(ssa.Value)] || engine.DeepSources(p, engine.CallArgs(call)[0]).Values[rangeProxies.(ssa.Value)] {
					pxyCloseOK = true // (the proxy may reach a shared release step as its parameter)
				}
			}
		}
		if engine.IsCallTo(in, del) {
			src := engine.Provenance(engine.CallArgs(call)[1], engine.ProvOpts{})
			if src.Values[rangeProxies.(ssa.Value)] || engine.DeepSources(p, engine.CallArgs(call)[1]).Values[rangeProxies.(ssa.Value)] {
				delOK = true
			}
		}
	})
	c.Check(drainOK, key+">drain-closes", drainRecv.Pos(), 2, nil, "every connection drained from the closed pool is closed")
	// … on every path: between taking a connection out of the closed pool and the next one (or the end) it is closed —
	// none is kept, parked elsewhere or handed to another session
	if dg := drainRecv.Parent(); dg != nil {
		c.AllPaths(key+">drain-closes-each", engine.PathCheck{Fn: dg, From: drainRecv, KeepLoopFacts: true,
			Sink: func(in ssa.Instruction) bool { return engine.IsReturn(in) || in == drainRecv },
			Event: func(in ssa.Instruction) string {
				if call, ok := in.(ssa.CallInstruction); ok && isCloserClose(call) {
					if engine.Provenance(engine.CallArgs(call)[0], engine.ProvOpts{NoArgs: true}).Values[drainRecv.(ssa.Value)] {
						return "closed"
					}
				}
				return ""
			},
			Pred: func(st *engine.PathState) string {
				// the receive reported the pool empty: nothing was taken
				if v, k := st.Truth(func(x ssa.Value) bool {
					ex, ok := x.(*ssa.Extract)
					return ok && ex.Index == 1 && ex.Tuple == drainRecv.(ssa.Value)
				}); k && !v {
					return ""
				}
				if !st.HasEvent("closed") {
					return "a connection taken out of the ended session's pool is not closed on this path (kept or handed elsewhere): its client end belongs to the dead session"
				}
				return ""
			}}, "each drained connection is closed before the next is taken")
	}
	c.Check(pxyCloseOK, key+">proxies-closed", rangeProxies.Pos(), 2, nil, "every proxy of the session table is closed")
	c.Check(delOK, key+">names-removed", rangeProxies.Pos(), 2, nil, "every proxy of the session table is removed from the name registry (by its own name)")
	// ordering: on every path to close(doneCh): pool closed before; and the proxies loop header was visited; nothing after
	c.AllPaths(key+">order", engine.PathCheck{Fn: f, Sink: engine.Is(closeDone),
		Event: func(in ssa.Instruction) string {
			switch {
			case in == closePool:
				return "close-pool"
			case in == rangeProxies:
				return "range-proxies"
			case in == drainRecv:
				return "drain"
			}
			return ""
		},
		Pred: func(st *engine.PathState) string {
			if !st.HasEvent("close-pool") || !st.HasEvent("drain") || !st.HasEvent("range-proxies") {
				return "doneCh is closed on a path that skipped closing/draining the pool or walking the proxies: a waiter (re-login) would proceed before the old session is torn down"
			}
			if !(st.EventIndex("close-pool") < st.EventIndex("drain") && st.EventIndex("drain") < st.EventIndex("range-proxies")) {
				return "teardown steps are out of order"
			}
			return ""
		}}, "close(doneCh) only after pool close, drain and proxy teardown")
	c.AllPaths(key+">done-on-every-exit", engine.PathCheck{Fn: f, Sink: engine.IsReturn,
		Event: func(in ssa.Instruction) string {
			if in == closeDone {
				return "done"
			}
			if _, ok := in.(ssa.CallInstruction); ok && !closeOf(in, doneF) {
				if _, isDefer := in.(*ssa.Defer); isDefer {
					return ""
				}
				if st := engine.CalleeObj(in.(ssa.CallInstruction)); st != nil && (st.Name() == "Close" || st.Name() == "Del") {
					return "effect:" + st.Name()
				}
			}
			return ""
		},
		Pred: func(st *engine.PathState) string {
			i := st.EventIndex("done")
			if i < 0 {
				return "Control.worker can return without closing doneCh: WaitClosed would block forever"
			}
			for _, e := range st.Events[i+1:] {
				if strings.HasPrefix(e.Tag, "effect:") {
					return "a teardown effect (" + e.Tag + ") happens after doneCh was closed"
				}
			}
			return ""
		}}, "every exit of worker closes doneCh, after all teardown effects")
	c.Floor(5, 5)
	_ = p
}

func checkCloseProxy(c *engine.Ctx) {
	f := fn(c, "server.Control.CloseProxy")
	if f == nil {
		return
	}
	proxiesF := field(c, "server", "Control", "proxies")
	usedF := field(c, "server", "Control", "portsUsedNum")
	muF := field(c, "server", "Control", "mu")
	pxyClose := method(c, "server/proxy", "Proxy", "Close")
	del := method(c, "server/proxy", "Manager", "Del")
	maxF := field(c, "pkg/config/v1", "ServerConfig", "MaxPortsPerClient")
	if proxiesF == nil || usedF == nil || muF == nil || pxyClose == nil || del == nil || maxF == nil {
		return
	}
	ev := func(in ssa.Instruction) string {
		if call, ok := in.(ssa.CallInstruction); ok {
			if _, isDefer := in.(*ssa.Defer); isDefer {
				// `defer ctl.mu.Unlock()`: the lock is released when the function returns
				if o := engine.CalleeObj(call); o != nil && o.Pkg() != nil && o.Pkg().Path() == "sync" && o.Name() == "Unlock" && len(engine.CallArgs(call)) > 0 {
					if lf, _ := engine.LoadedField(engine.CallArgs(call)[0]); lf == muF {
						return "deferred-unlock"
					}
				}
				return ""
			}
			o := engine.CalleeObj(call)
			switch {
			case engine.SameFunc(o, pxyClose):
				return "close"
			case engine.SameFunc(o, del):
				return "del"
			}
			if b, ok := call.Common().Value.(*ssa.Builtin); ok && b.Name() == "delete" {
				if lf, _ := engine.LoadedField(call.Common().Args[0]); lf == proxiesF {
					return "table-delete"
				}
			}
			if o != nil && o.Pkg() != nil && o.Pkg().Path() == "sync" && len(engine.CallArgs(call)) > 0 {
				if lf, _ := engine.LoadedField(engine.CallArgs(call)[0]); lf == muF {
					switch o.Name() {
					case "Lock":
						return "lock"
					case "Unlock":
						return "unlock"
					}
				}
			}
		}
		if st, ok := in.(*ssa.Store); ok {
			if lf, _ := engine.LoadedField(st.Addr); lf == usedF {
				if bo, ok := st.Val.(*ssa.BinOp); ok && bo.Op == token.SUB {
					return "quota-sub"
				}
				return "quota-other"
			}
		}
		return ""
	}
	c.AllPaths("server.Control.CloseProxy", engine.PathCheck{Fn: f, Sink: engine.IsReturn, Event: ev, Pred: func(st *engine.PathState) string {
		found, known := st.Truth(func(v ssa.Value) bool {
			ex, ok := v.(*ssa.Extract)
			if !ok || ex.Index != 1 {
				return false
			}
			lk, ok := ex.Tuple.(*ssa.Lookup)
			if !ok {
				return false
			}
			lf, _ := engine.LoadedField(lk.X)
			return lf == proxiesF
		})
		if !known {
			return "CloseProxy exits without having looked the proxy up in the session's own table"
		}
		li, ui := st.EventIndex("lock"), st.EventIndex("unlock")
		if st.HasEvent("deferred-unlock") && li >= 0 && st.EventIndex("deferred-unlock") > li {
			ui = len(st.Events) // released at the return
		}
		if li < 0 || ui < li {
			return "CloseProxy returns with the session lock still held (or never taken)"
		}
		if !found {
			if st.HasEvent("close") || st.HasEvent("del") || st.HasEvent("quota-sub") {
				return "CloseProxy acts although the proxy is not in this session's table"
			}
			return ""
		}
		for _, need := range []string{"close", "del", "table-delete"} {
			i := st.EventIndex(need)
			if i < 0 {
				return "CloseProxy returns without " + need + " for a proxy it found"
			}
			if !(li < i && i < ui) {
				return need + " happens outside the session lock"
			}
		}
		// quota returned exactly when quotas are enabled
		enabled, k := false, false
		for _, l := range st.Lits {
			if l.Op == token.GTR || l.Op == token.LSS || l.Op == token.LEQ || l.Op == token.GEQ {
				if lf, _ := engine.LoadedField(l.X); lf == maxF {
					if z, ok := engine.ConstInt(l.Y); ok && z == 0 && l.Op == token.GTR {
						enabled, k = l.Val, true
					}
				}
			}
		}
		if !k {
			return "CloseProxy does not test whether per-client port quotas are enabled"
		}
		if enabled != st.HasEvent("quota-sub") {
			return fmt.Sprintf("quota enabled=%v but quota returned=%v on this path", enabled, st.HasEvent("quota-sub"))
		}
		if st.HasEvent("quota-sub") && !(li < st.EventIndex("quota-sub") && st.EventIndex("quota-sub") < ui) {
			return "quota is returned outside the session lock"
		}
		return ""
	}}, "close, unregister, table delete and quota return under ctl.mu; nothing when not found")
	c.Floor(1, 1)
}

func checkWrappers(c *engine.Ctx) {
	p := c.P
	n := 0
	for _, pk := range p.Pkgs {
		if pk.Types == nil {
			continue
		}
		for _, name := range pk.Types.Scope().Names() {
			tn, ok := pk.Types.Scope().Lookup(name).(*types.TypeName)
			if !ok {
				continue
			}
			named, ok := tn.Type().(*types.Named)
			if !ok {
				continue
			}
			st, ok := named.Underlying().(*types.Struct)
			if !ok {
				continue
			}
			// embedded closer fields
			var inner []*types.Var
			for i := 0; i < st.NumFields(); i++ {
				fv := st.Field(i)
				if !fv.Embedded() || !types.IsInterface(fv.Type()) {
					continue
				}
				if hasCloseMethod(fv.Type()) {
					inner = append(inner, fv)
				}
			}
			if len(inner) == 0 {
				continue
			}
			var closeM *types.Func
			for i := 0; i < named.NumMethods(); i++ {
				if named.Method(i).Name() == "Close" {
					closeM = named.Method(i)
				}
			}
			if closeM == nil {
				continue // Close is promoted from the embedded value: nothing to get wrong
			}
			f := p.FuncOf(closeM)
			if f == nil {
				continue
			}
			n++
			key := strings.TrimPrefix(pk.PkgPath, engine.ModPath+"/") + "." + name + ".Close"
			selfCall, innerClose := false, false
			for _, g := range append([]*ssa.Function{f}, allAnon(f)...) {
				engine.ForEachInstr(g, func(in ssa.Instruction) {
					call, ok := in.(ssa.CallInstruction)
					if !ok {
						return
					}
					o := engine.CalleeObj(call)
					if o == nil || o.Name() != "Close" {
						return
					}
					args := engine.CallArgs(call)
					if len(args) == 0 {
						return
					}
					if engine.SameFunc(o, closeM) {
						if root, path := engine.FieldPath(args[0]); len(path) == 0 && root == ssa.Value(f.Params[0]) {
							selfCall = true
						}
						return
					}
					src := engine.Provenance(args[0], engine.ProvOpts{NoArgs: true})
					for _, fv := range inner {
						if src.Fields[fv] {
							innerClose = true
						}
					}
				})
			}
			switch {
			case selfCall:
				c.Violate(key, f.Pos(), nil, "Close calls itself on the same receiver: the wrapped %s is never closed by the wrapper", inner[0].Name())
			case !innerClose:
				c.Violate(key, f.Pos(), nil, "Close does not close the embedded %s", inner[0].Name())
			default:
				c.Hold(key, f.Pos(), 2, []string{"embedded closer: " + inner[0].Name()}, "Close closes the wrapped value")
			}
		}
	}
	c.Floor(n, 3)
}

func hasCloseMethod(t types.Type) bool {
	ms := types.NewMethodSet(t)
	for i := 0; i < ms.Len(); i++ {
		if ms.At(i).Obj().Name() == "Close" {
			return true
		}
	}
	if _, ok := t.Underlying().(*types.Pointer); !ok {
		ms = types.NewMethodSet(types.NewPointer(t))
		for i := 0; i < ms.Len(); i++ {
			if ms.At(i).Obj().Name() == "Close" {
				return true
			}
		}
	}
	return false
}

func checkGuardedRelease(c *engine.Ctx, tab *resTable) {
	p := c.P
	release := p.MethodObj("server/ports", "Manager", "Release")
	n := 0
	for _, f := range p.RepoFuncs() {
		if f.Parent() != nil || f.Signature.Recv() == nil || f.Name() != "Close" || f.Pkg == nil {
			continue
		}
		path := f.Pkg.Pkg.Path()
		if !strings.HasPrefix(path, engine.ModPath+"/server") && !strings.HasPrefix(path, engine.ModPath+"/client") && !strings.HasPrefix(path, engine.ModPath+"/pkg") {
			continue
		}
		// guard: a bool field of the receiver that is tested and set to true in this function
		var guard *types.Var
		engine.ForEachInstr(f, func(in ssa.Instruction) {
			st, ok := in.(*ssa.Store)
			if !ok {
				return
			}
			if b, ok := engine.ConstBool(st.Val); !ok || !b {
				return
			}
			fv, base := engine.LoadedField(st.Addr)
			if fv != nil && base == ssa.Value(f.Params[0]) {
				guard = fv
			}
		})
		if guard == nil {
			continue
		}
		// sensitive effects
		engine.ForEachInstr(f, func(in ssa.Instruction) {
			call, ok := in.(ssa.CallInstruction)
			if !ok {
				return
			}
			if _, isDefer := in.(*ssa.Defer); isDefer {
				return
			}
			what := ""
			if engine.IsCallTo(in, release) {
				what = "port release"
			} else if b, ok := call.Common().Value.(*ssa.Builtin); ok && b.Name() == "close" {
				what = "close of channel " + engine.Describe(call.Common().Args[0])
			}
			if what == "" {
				return
			}
			n++
			key := p.FuncName(f) + ">" + strings.ReplaceAll(what, " ", "-")
			c.AllPaths(key, engine.PathCheck{Fn: f, Sink: engine.Is(in), Pred: func(st *engine.PathState) string {
				v, k := st.Truth(loadOfField(guard))
				if !k || v {
					return what + " is reachable outside the `" + guard.Name() + "` guard: a second Close repeats it (double release / close of closed channel)"
				}
				return ""
			}}, "%s only on the first-close path of the %s guard", what, guard.Name())
		})
	}
	c.Floor(n, 3)
}

// checkRunRollbacks (C10.R2, shared as C11.R8): every exit of a server proxy's Run (and of TCPGroup.Listen) that may
// carry an error after a successful acquisition passes the matching release, the type's Close, or a deferred rollback.
func checkRunRollbacks(c *engine.Ctx, rule string) {
	p := c.P
	tab := buildResTable(c)
	proxyIface := p.Named("server/proxy", "Proxy")
	base := p.Named("server/proxy", "BaseProxy")
	if proxyIface == nil || base == nil {
		c.Missing("server/proxy.Proxy", "proxy interface not found")
		return
	}
	it := proxyIface.Underlying().(*types.Interface)
	pk := p.Pkg("server/proxy")
	var ptypes []*types.Named
	for _, name := range pk.Types.Scope().Names() {
		tn, ok := pk.Types.Scope().Lookup(name).(*types.TypeName)
		if !ok {
			continue
		}
		n, ok := tn.Type().(*types.Named)
		if !ok || types.IsInterface(n) || n == base {
			continue
		}
		if types.Implements(types.NewPointer(n), it) {
			ptypes = append(ptypes, n)
		}
	}
	c.Rule(rule, "every exit that may carry an error after a successful acquisition passes the matching release, the type's Close, or a deferred rollback registered on that path")
	entries := 0
	for _, n := range ptypes {
		own := methodsOf(p, n)
		for k, v := range methodsOf(p, base) {
			own[k] = v
		}
		run := p.FuncOf(p.MethodObj("server/proxy", n.Obj().Name(), "Run"))
		if run == nil {
			continue
		}
		entries++
		checkRollback(c, tab, "server/proxy."+n.Obj().Name()+".Run", run, own, p.MethodObj("server/proxy", n.Obj().Name(), "Close"))
	}
	if f := fn(c, "server/group.TCPGroup.Listen"); f != nil {
		entries++
		checkRollback(c, tab, "server/group.TCPGroup.Listen", f, nil, nil)
	}
	c.Floor(entries, 9)
}

// checkWrapperCloseFns: a stream wrapper built with golib's WrapReadWriteCloser(r, w, closeFn) is closed by calling
// closeFn once. closeFn is a closure; Go closures capture variables, not values, so a closeFn that closes the variable
// which is then overwritten with the wrapper itself (`x = Wrap(.., func() error { return x.Close() })`) calls the
// wrapper's own Close, which returns at once because the wrapper is already marked closed: the wrapped connection is
// never closed through this path (the joined peer never sees end-of-stream, the work connection leaks).
func checkWrapperCloseFns(c *engine.Ctx, rule string) {
	c.Rule(rule, "the close function given to WrapReadWriteCloser closes the stream that was wrapped: it captures no variable that is assigned again after the closure was created (in particular not the variable that receives the wrapper)")
	p := c.P
	n := 0
	for _, f := range p.RepoFuncs() {
		engine.ForEachInstr(f, func(in ssa.Instruction) {
			call, ok := in.(*ssa.Call)
			if !ok || !calleeIs(call, "golib/io", "WrapReadWriteCloser") || len(call.Call.Args) != 3 {
				return
			}
			n++
			key := fmt.Sprintf("%s>close-fn", p.FuncName(f))
			mc, ok := call.Call.Args[2].(*ssa.MakeClosure)
			if !ok {
				c.Hold(key, call.Pos(), 1, []string{"close function: " + engine.Describe(call.Call.Args[2])}, "close function is a method value of the wrapped connection")
				return
			}
			bad := ""
			for _, b := range mc.Bindings {
				if al, ok := b.(*ssa.Alloc); ok {
					if w := writtenAfter(mc, al); w != nil {
						bad = fmt.Sprintf("the close function captures variable %s, which is assigned again at %s after the closure was created: at Close time it refers to the later value (the wrapper itself), so the wrapped stream is never closed", al.Comment, p.Pos(posOf(w)))
					}
				}
			}
			if bad != "" {
				c.Violate(key, call.Pos(), nil, "%s", bad)
			} else {
				c.Hold(key, call.Pos(), len(mc.Bindings), nil, "close function closes a variable that still holds the wrapped stream")
			}
		})
	}
	c.Floor(n, 3)
}

// checkOrderedHandlers: control messages that change the session's proxy table (NewProxy, CloseProxy) are handled in
// the order they arrive — their handlers are registered directly, not through msg.AsyncHandler. A client reload sends
// CloseProxy immediately followed by NewProxy for the same name; if the close runs in a detached goroutine the
// registration meets the old proxy still holding its name and port and is refused.
func checkOrderedHandlers(c *engine.Ctx, rule string) {
	c.Rule(rule, "dispatcher handlers that (transitively) write a session's proxy table are registered synchronously, so a close request is complete before the next message of the session is handled")
	p := c.P
	regH := method(c, "pkg/msg", "Dispatcher", "RegisterHandler")
	async := funcObj(c, "pkg/msg", "AsyncHandler")
	proxiesF := field(c, "server", "Control", "proxies")
	if regH == nil || async == nil || proxiesF == nil {
		return
	}
	var writes func(f *ssa.Function, depth int, seen map[*ssa.Function]bool) bool
	writes = func(f *ssa.Function, depth int, seen map[*ssa.Function]bool) bool {
		if f == nil || f.Blocks == nil || seen[f] || depth > 3 {
			return false
		}
		seen[f] = true
		hit := false
		for _, g := range append([]*ssa.Function{f}, allAnon(f)...) {
			engine.ForEachInstr(g, func(in ssa.Instruction) {
				switch x := in.(type) {
				case *ssa.MapUpdate:
					if lf, _ := engine.LoadedField(x.Map); lf == proxiesF {
						hit = true
					}
				case ssa.CallInstruction:
					if b, ok := x.Common().Value.(*ssa.Builtin); ok && b.Name() == "delete" {
						if lf, _ := engine.LoadedField(x.Common().Args[0]); lf == proxiesF {
							hit = true
						}
					}
					if _, isGo := in.(*ssa.Go); isGo {
						return
					}
					if cf := engine.CalleeFn(x); cf != nil && cf.Pkg != nil && engine.IsRepoPkg(cf.Pkg.Pkg.Path()) && writes(cf, depth+1, seen) {
						hit = true
					}
				}
			})
		}
		return hit
	}
	n := 0
	for _, f := range p.RepoFuncs() {
		for _, call := range engine.CallsTo(f, regH) {
			args := engine.CallArgs(call)
			h := args[2]
			isAsync := false
			if hc, ok := h.(*ssa.Call); ok && engine.SameFunc(engine.CalleeObj(hc), async) {
				isAsync = true
				h = hc.Call.Args[0]
			}
			hf := funcValueOf(p, h)
			if hf == nil || !writes(hf, 0, map[*ssa.Function]bool{}) {
				continue
			}
			n++
			c.Check(!isAsync, p.FuncName(f)+">"+p.FuncName(hf), call.Pos(), 2, nil, "handler %s changes the session's proxy table and is registered synchronously", p.FuncName(hf))
		}
	}
	c.Floor(n, 2)
}

// checkCloseCoversRun (C10.R1, shared as C12.R11): for every server proxy type, each resource kind acquired in Run is
// released in Close. A type without its own Close uses the promoted BaseProxy.Close — which releases only what the
// base knows about.
func checkCloseCoversRun(c *engine.Ctx, rule string) {
	p := c.P
	tab := buildResTable(c)
	proxyIface := p.Named("server/proxy", "Proxy")
	base := p.Named("server/proxy", "BaseProxy")
	if proxyIface == nil || base == nil {
		c.Missing("server/proxy.Proxy", "proxy interface not found")
		return
	}
	it := proxyIface.Underlying().(*types.Interface)
	pk := p.Pkg("server/proxy")
	var ptypes []*types.Named
	for _, name := range pk.Types.Scope().Names() {
		tn, ok := pk.Types.Scope().Lookup(name).(*types.TypeName)
		if !ok {
			continue
		}
		n, ok := tn.Type().(*types.Named)
		if !ok || types.IsInterface(n) || n == base {
			continue
		}
		if types.Implements(types.NewPointer(n), it) {
			ptypes = append(ptypes, n)
		}
	}
	listenersF := field(c, "server/proxy", "BaseProxy", "listeners")
	c.Rule(rule, "for every server proxy type, each resource kind acquired in Run (through its own methods and closures) is released in Close: by the kind's release API (directly or via closures queued in closeFuncs) or by closing the value stored in the listeners / connection field")
	for _, n := range ptypes {
		tname := "server/proxy." + n.Obj().Name()
		own := methodsOf(p, n)
		for k, v := range methodsOf(p, base) {
			own[k] = v
		}
		run := p.FuncOf(p.MethodObj("server/proxy", n.Obj().Name(), "Run"))
		cls := p.FuncOf(p.MethodObj("server/proxy", n.Obj().Name(), "Close"))
		if cls == nil {
			cls = p.FuncOf(p.MethodObj("server/proxy", "BaseProxy", "Close")) // promoted through the embedded base
		}
		if run == nil || cls == nil {
			c.Undecide(tname, n.Obj().Pos(), "Run or Close not found")
			continue
		}
		runFns := ownClosure(p, run, own)
		closeFns := ownClosure(p, cls, own)
		// closures queued into a []func() field that Close invokes
		queued := queuedClosures(p, n, own, closeFns)
		closeFns = append(closeFns, queued...)
		// fields whose content Close closes (x.f.Close() or for range x.f { .Close() })
		closedFields := map[*types.Var]bool{}
		releasedKinds := map[*resKind]bool{}
		for _, f := range closeFns {
			engine.ForEachInstr(f, func(in ssa.Instruction) {
				call, ok := in.(ssa.CallInstruction)
				if !ok {
					return
				}
				if o := engine.CalleeObj(call); o != nil {
					for _, k := range tab.releaseKinds(o) {
						releasedKinds[k] = true
					}
				}
				if isCloserClose(call) {
					src := engine.Provenance(engine.CallArgs(call)[0], engine.ProvOpts{NoArgs: true})
					for fv := range src.Fields {
						closedFields[fv] = true
					}
				}
			})
		}
		acquired := map[*resKind][]ssa.CallInstruction{}
		for _, f := range runFns {
			engine.ForEachInstr(f, func(in ssa.Instruction) {
				call, ok := in.(ssa.CallInstruction)
				if !ok {
					return
				}
				if k := tab.acquireKind(engine.CalleeObj(call)); k != nil {
					acquired[k] = append(acquired[k], call)
				}
			})
		}
		var kinds []*resKind
		for k := range acquired {
			kinds = append(kinds, k)
		}
		sort.Slice(kinds, func(i, j int) bool { return kinds[i].name < kinds[j].name })
		if len(kinds) == 0 {
			c.Undecide(tname, run.Pos(), "Run acquires no known resource kind: the resource table no longer matches this proxy type")
			continue
		}
		for _, k := range kinds {
			key := tname + ">" + k.name
			okRel := releasedKinds[k]
			how := "release API called from Close"
			if !okRel && k.listener {
				// every acquire site must park its result in a field that Close closes
				all := true
				for _, call := range acquired[k] {
					if !resultParkedInClosedField(call, closedFields) {
						all = false
					}
				}
				okRel = all
				how = "result stored in a field whose content Close closes"
			}
			var cf []string
			for fv := range closedFields {
				cf = append(cf, fv.Name())
			}
			sort.Strings(cf)
			c.Check(okRel, key, acquired[k][0].Pos(), len(runFns)+len(closeFns),
				[]string{fmt.Sprintf("acquired at %d site(s) in Run's own code (%d functions)", len(acquired[k]), len(runFns)),
					"kinds released by Close's own code: " + strings.Join(kindNames(releasedKinds), ","), "fields closed by Close: " + strings.Join(cf, ",")},
				"%s acquired in Run is released by Close (%s)", k.name, how)
		}
	}
	c.Floor(len(ptypes), 8)
	_ = listenersF

}
