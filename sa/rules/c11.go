package rules

import (
	"fmt"
	"go/token"
	"go/types"
	"strings"

	"golang.org/x/tools/go/ssa"

	"frpsa/engine"
)

func init() {
	Registry["C11"] = &Property{
		Title:       "Work connections: one user each, right proxy, bounded pool, never orphaned",
		Run:         runC11,
		Explanation: "Decides the shape of the work-connection pool: (R1) Control.RegisterWorkConn inserts with a non-blocking select (refusal when full) inside a function whose deferred recover turns a send on the closed pool into a non-nil error; (R2) the pool count stored in the control and used for the channel capacity is the login's value only on paths where it was found not above MaxPoolCount and not negative (otherwise the clamp value); (R3) GetWorkConn's blocking take is a select with a time.After(UserConnTimeout) arm, a closed pool yields an error, and every successful take is followed by one replacement request; (R4) Start requests in advance exactly the clamped pool count (the loop bound is the control's own poolCount field); (R5) GetWorkConnFromPool tries at most poolCount+1 connections, closes one whose StartWorkConn write failed, and announces the proxy's own name and the user's addresses; (R6) handleUserTCPConnection always closes the user connection and a taken work connection; (R7) where an accepted connection is handed to a listener through a recover-protected send, a failed hand-off closes the connection; (R8) refused or late offers are closed by the caller (shared with C04.R3) and the pool is drained at teardown (shared with C10.R4). Not decided: 'at most one user per work connection' as a history property (channel receive semantics), timing.",
		Assumptions: commonAssumptions,
	}
}

func runC11(c *engine.Ctx) {
	p := c.P
	poolF := field(c, "server", "Control", "workConnCh")
	pcF := field(c, "server", "Control", "poolCount")
	maxF := field(c, "pkg/config/v1", "ServerTransportConfig", "MaxPoolCount")
	loginPC := field(c, "pkg/msg", "Login", "PoolCount")
	if poolF == nil || pcF == nil || maxF == nil || loginPC == nil {
		return
	}

	// ---- R1 ----
	c.Rule("R1", "Control.RegisterWorkConn: non-blocking select send on the pool, refusal (non-nil) when full, and a deferred recover that turns a send on the closed pool into a non-nil error")
	if f := fn(c, "server.Control.RegisterWorkConn"); f != nil {
		var sel *ssa.Select
		engine.ForEachInstr(f, func(in ssa.Instruction) {
			if s, ok := in.(*ssa.Select); ok {
				for _, st := range s.States {
					if lf, _ := engine.LoadedField(st.Chan); lf == poolF && st.Dir == types.SendOnly {
						sel = s
					}
				}
			}
		})
		c.Check(sel != nil && !sel.Blocking && len(sel.States) == 1, "server.Control.RegisterWorkConn>non-blocking", f.Pos(), 2, nil,
			"the pool insert is a select with a single send case and a default (never blocks the accepting goroutine, never exceeds the channel capacity)")
		if sel != nil {
			c.AllPaths("server.Control.RegisterWorkConn>full-refused", engine.PathCheck{Fn: f, Sink: engine.IsReturn,
				Event: func(x ssa.Instruction) string {
					// the result may be a named cell that the deferred recover can overwrite: follow its explicit stores
					if sx, ok := x.(*ssa.Store); ok {
						if al, ok := sx.Addr.(*ssa.Alloc); ok && types.Identical(engine.Deref(al.Type()), types.Universe.Lookup("error").Type()) {
							if definitelyNonNilError(sx.Val) {
								return "result-nonnil"
							}
							return "result-other"
						}
					}
					return ""
				},
				Pred: func(st *engine.PathState) string {
					r := st.Sink.(*ssa.Return)
					v := st.Resolve(r.Results[0])
					lastNonNil := st.EventIndex("result-nonnil") >= 0 && st.EventIndex("result-nonnil") > st.EventIndex("result-other")
					// which arm was taken: index 0 = sent, -1 = default
					sent, known := false, false
					for _, l := range st.Lits {
						if l.Op != token.EQL {
							continue
						}
						ex, ok := l.X.(*ssa.Extract)
						if !ok || ex.Tuple != ssa.Value(sel) || ex.Index != 0 {
							continue
						}
						if k, ok := engine.ConstInt(l.Y); ok && k == 0 {
							sent, known = l.Val, true
						}
					}
					if !known {
						return "RegisterWorkConn returns without the insert having been attempted"
					}
					if !sent && !nonNilOnPath(st, v) && !lastNonNil {
						return "a surplus work connection (pool full) is reported as accepted: it is neither pooled nor closed"
					}
					return ""
				}}, "full pool ⇒ non-nil error")
		}
		// recover branch assigns a non-nil error to the named result
		okRecover, why := false, "no deferred recover"
		engine.ForEachInstr(f, func(in ssa.Instruction) {
			d, ok := in.(*ssa.Defer)
			if !ok {
				return
			}
			cf := engine.CalleeFn(d)
			if cf == nil {
				return
			}
			var rec ssa.Value
			engine.ForEachInstr(cf, func(x ssa.Instruction) {
				if call, ok := x.(*ssa.Call); ok {
					if b, ok := call.Call.Value.(*ssa.Builtin); ok && b.Name() == "recover" {
						rec = call
					}
				}
			})
			if rec == nil {
				return
			}
			why = "the deferred recover does not assign a non-nil error to the function's result: a send on the closed pool returns nil and the connection is orphaned"
			q := &engine.PathQuery{Fn: cf, Sink: engine.IsReturn, Event: func(x ssa.Instruction) string {
				if st, ok := x.(*ssa.Store); ok {
					if fv, ok := st.Addr.(*ssa.FreeVar); ok && types.Identical(engine.Deref(fv.Type()), types.Universe.Lookup("error").Type()) && definitelyNonNilError(st.Val) {
						return "set-err"
					}
				}
				return ""
			}}
			states, err := q.Run()
			if err != nil {
				return
			}
			all := true
			for _, st := range states {
				isNil, known := st.IsNil(func(v ssa.Value) bool { return v == rec })
				if known && !isNil && !st.HasEvent("set-err") {
					all = false
				}
			}
			if all && len(states) > 0 {
				okRecover = true
			}
		})
		c.Check(okRecover, "server.Control.RegisterWorkConn>recover-nonnil", f.Pos(), 3, nil, "recovered send on the closed pool yields a non-nil error (%s)", why)
		c.Floor(3, 3)
	}

	// ---- R2 ----
	c.Rule("R2", "the pool count stored in the control and the pool channel capacity use the login's pool_count only when it is within 0..MaxPoolCount, the clamp values otherwise")
	if nc := fn(c, "server.NewControl"); nc != nil {
		n := 0
		// srcOf: provenance of a value, with parameters of a clamp helper mapped to the caller's arguments
		type env map[*ssa.Parameter]ssa.Value
		var srcOf func(v ssa.Value, e env) *engine.Sources
		srcOf = func(v ssa.Value, e env) *engine.Sources {
			s := engine.Provenance(v, engine.ProvOpts{})
			for pr := range s.Params {
				if a, ok := e[pr]; ok {
					as := engine.Provenance(a, engine.ProvOpts{})
					for k := range as.Fields {
						s.Fields[k] = true
					}
				}
			}
			return s
		}
		var boundedIn func(st *engine.PathState, v ssa.Value, e env, depth int) string
		boundedIn = func(st *engine.PathState, v ssa.Value, e env, depth int) string {
			v = st.Resolve(v)
			// a clamp helper: every return path of the helper must yield a bounded value
			if call, idx := engine.ResultOfCall(engine.Unwrap(v)); call != nil && idx <= 0 && depth < 2 {
				if cf := engine.CalleeFn(call); cf != nil && cf.Blocks != nil && cf.Pkg != nil && engine.IsRepoPkg(cf.Pkg.Pkg.Path()) {
					ne := env{}
					for i, pr := range cf.Params {
						if i < len(call.Call.Args) {
							ne[pr] = call.Call.Args[i]
						}
					}
					q := &engine.PathQuery{Fn: cf, Sink: engine.IsReturn}
					states, err := q.Run()
					if err != nil || len(states) == 0 {
						return "cannot analyse clamp helper " + cf.Name()
					}
					for _, hs := range states {
						r := hs.Sink.(*ssa.Return)
						if why := boundedIn(hs, r.Results[0], ne, depth+1); why != "" {
							return why + " (in helper " + cf.Name() + ")"
						}
					}
					return ""
				}
			}
			// min / max builtins clamp by construction: max(x, 0) >= 0 whatever x; min(x, MaxPoolCount) <= MaxPoolCount
			var ul func(v ssa.Value, d int) (up, lo bool)
			ul = func(v ssa.Value, d int) (bool, bool) {
				v = engine.Unwrap(st.Resolve(v))
				if z, ok := engine.ConstInt(v); ok {
					return true, z >= 0
				}
				if call, ok := v.(*ssa.Call); ok && d < 4 {
					if b, ok := call.Call.Value.(*ssa.Builtin); ok && (b.Name() == "min" || b.Name() == "max") {
						anyUp, allUp, anyLo, allLo := false, true, false, true
						for _, a := range call.Call.Args {
							u, l := ul(a, d+1)
							anyUp, allUp, anyLo, allLo = anyUp || u, allUp && u, anyLo || l, allLo && l
						}
						if b.Name() == "min" {
							return anyUp, allLo
						}
						return allUp, anyLo
					}
				}
				if !srcOf(v, e).HasField(loginPC) {
					return true, true // a clamp value (MaxPoolCount)
				}
				return boundedIn(st, v, e, depth+1) == "", boundedIn(st, v, e, depth+1) == ""
			}
			if call, ok := engine.Unwrap(v).(*ssa.Call); ok {
				if b, ok := call.Call.Value.(*ssa.Builtin); ok && (b.Name() == "min" || b.Name() == "max") && depth < 3 {
					up, lo := ul(v, 0)
					if !up {
						return "the client's pool_count is used without having been found <= MaxPoolCount"
					}
					if !lo {
						return "the client's pool_count is used without having been found >= 0"
					}
					return ""
				}
			}
			src := srcOf(v, e)
			if !src.HasField(loginPC) {
				return "" // a clamp value (MaxPoolCount or a constant)
			}
			up, lo := false, false
			for _, l := range st.Lits {
				x, y, op := l.X, l.Y, l.Op
				if !engine.SameExpr(x, v) {
					if engine.SameExpr(y, v) {
						x, y, op = y, x, flipOrd(op)
					} else {
						continue
					}
				}
				if !l.Val {
					op = negOrd(op)
				}
				if z, ok := engine.ConstInt(y); ok {
					if (op == token.GEQ && z >= 0) || (op == token.GTR && z >= -1) {
						lo = true
					}
					continue
				}
				ys := srcOf(y, e)
				if ys.HasField(maxF) && (op == token.LEQ || op == token.LSS) {
					up = true
				}
			}
			if !up {
				return "the client's pool_count is used without having been found <= MaxPoolCount"
			}
			if !lo {
				return "the client's pool_count is used without having been found >= 0"
			}
			return ""
		}
		bounded := func(st *engine.PathState, v ssa.Value) string { return boundedIn(st, v, env{}, 0) }
		engine.ForEachInstr(nc, func(in ssa.Instruction) {
			switch x := in.(type) {
			case *ssa.Store:
				if lf, _ := engine.LoadedField(x.Addr); lf == pcF {
					n++
					c.AllPaths("server.NewControl>poolCount", engine.PathCheck{Fn: nc, Sink: engine.Is(in), Track: []ssa.Value{x.Val}, Pred: func(st *engine.PathState) string { return bounded(st, x.Val) }},
						"stored pool count is clamped to 0..MaxPoolCount")
				}
			case *ssa.MakeChan:
				if bo, ok := x.Size.(*ssa.BinOp); ok && bo.Op == token.ADD {
					n++
					k, isC := engine.ConstInt(bo.Y)
					c.AllPaths("server.NewControl>capacity", engine.PathCheck{Fn: nc, Sink: engine.Is(in), Track: []ssa.Value{bo.X}, Pred: func(st *engine.PathState) string {
						if !isC || k < 0 {
							return "pool capacity is not poolCount + non-negative constant"
						}
						return bounded(st, bo.X)
					}}, "pool capacity is the clamped pool count plus a constant")
				}
			}
		})
		c.Floor(n, 2)
	}

	// ---- R3 ----
	c.Rule("R3", "Control.GetWorkConn: the blocking take has a time.After(UserConnTimeout) arm; a closed pool yields an error; a successful take is followed by one replacement request")
	if f := fn(c, "server.Control.GetWorkConn"); f != nil {
		send := method(c, "pkg/msg", "Dispatcher", "Send")
		ucF := field(c, "pkg/config/v1", "ServerConfig", "UserConnTimeout")
		var blocking *ssa.Select
		engine.ForEachInstr(f, func(in ssa.Instruction) {
			if s, ok := in.(*ssa.Select); ok && s.Blocking {
				for _, st := range s.States {
					if lf, _ := engine.LoadedField(st.Chan); lf == poolF && st.Dir == types.RecvOnly {
						blocking = s
					}
				}
			}
		})
		okTimeout := false
		if blocking != nil {
			for _, st := range blocking.States {
				src := engine.Provenance(st.Chan, engine.ProvOpts{})
				for k := range src.Calls {
					if k.Pkg() != nil && k.Pkg().Path() == "time" && (k.Name() == "After" || k.Name() == "NewTimer") && src.HasField(ucF) {
						okTimeout = true // time.After(d), or the C channel of a time.NewTimer(d) stopped afterwards
					}
				}
			}
		}
		c.Check(okTimeout, "server.Control.GetWorkConn>timeout", f.Pos(), 2, nil, "the blocking wait for a work connection is bounded by time.After(UserConnTimeout): a client that never delivers cannot hold a user connection forever")
		c.AllPaths("server.Control.GetWorkConn>exits", engine.PathCheck{Fn: f, Sink: engine.IsReturn,
			Event: func(in ssa.Instruction) string {
				if engine.IsCallTo(in, send) {
					return "request"
				}
				return ""
			},
			Pred: func(st *engine.PathState) string {
				r := st.Sink.(*ssa.Return)
				ev := st.Resolve(r.Results[1])
				conn := st.Resolve(r.Results[0])
				// closed pool: the comma-ok of a receive from the pool is false
				for _, l := range st.Lits {
					if l.Op != token.ILLEGAL || l.Val {
						continue
					}
					if ex, ok := l.X.(*ssa.Extract); ok {
						if sel, ok := ex.Tuple.(*ssa.Select); ok && ex.Index >= 1 {
							for _, ss := range sel.States {
								if lf, _ := engine.LoadedField(ss.Chan); lf == poolF {
									if !nonNilOnPath(st, ev) {
										return "a closed pool (ended session) is reported as success: the caller would use a nil connection"
									}
									return ""
								}
							}
						}
					}
				}
				if engine.IsNilConst(ev) || func() bool { v, k := st.IsNil(func(x ssa.Value) bool { return x == ev }); return k && v }() {
					if engine.IsNilConst(conn) {
						return "success without a connection"
					}
					if !st.HasEvent("request") {
						return "a work connection is taken without asking the client for a replacement: the pool drains"
					}
				}
				return ""
			}}, "closed pool ⇒ error; take ⇒ replacement request")
		c.Floor(2, 2)
	}

	// ---- R4 ----
	c.Rule("R4", "Control.Start asks in advance for exactly the control's clamped poolCount work connections")
	if f := fn(c, "server.Control.Start"); f != nil {
		n := 0
		for _, g := range append([]*ssa.Function{f}, allAnon(f)...) {
			engine.ForEachInstr(g, func(in ssa.Instruction) {
				call, ok := in.(ssa.CallInstruction)
				if !ok {
					return
				}
				if o := engine.CalleeObj(call); o == nil || o.Name() != "Send" {
					return
				}
				args := engine.CallArgs(call)
				src := engine.Provenance(args[len(args)-1], engine.ProvOpts{})
				isReq := false
				for v := range src.Values {
					if mi, ok := v.(*ssa.MakeInterface); ok && engine.IsNamed(mi.X.Type(), engine.ModPath+"/pkg/msg", "ReqWorkConn") {
						isReq = true
					}
				}
				if !isReq {
					return
				}
				h := engine.LoopHeader(in.Block())
				if h == nil {
					return
				}
				n++
				// the loop condition compares the induction variable with a load of Control.poolCount
				okBound, found := false, "?"
				if by, ok := engine.LoopBound(h); ok { // `i < poolCount` or `range poolCount`
					src := engine.Provenance(by, engine.ProvOpts{})
					found = src.Summary()
					okBound = src.HasField(pcF) && !src.HasField(loginPC) && len(src.Calls) == 0
				} else if t, ok := h.Instrs[len(h.Instrs)-1].(*ssa.If); ok {
					if bo, ok := t.Cond.(*ssa.BinOp); ok {
						found = engine.Provenance(bo.Y, engine.ProvOpts{}).Summary() + " with " + bo.Op.String()
					}
				}
				c.Check(okBound, "server.Control.Start>advance-requests", in.Pos(), 2, []string{"loop bound: " + found},
					"advance requests are bounded by the control's own clamped poolCount (min(client poolCount, server maxPoolCount))")
			})
		}
		c.Floor(n, 1)
	}

	// ---- R5 ----
	c.Rule("R5", "BaseProxy.GetWorkConnFromPool tries at most poolCount+1 connections, closes a connection whose StartWorkConn write failed, and announces the proxy's own name with the caller's source and destination addresses")
	if f := fn(c, "server/proxy.BaseProxy.GetWorkConnFromPool"); f != nil {
		writeMsg := funcObj(c, "pkg/msg", "WriteMsg")
		bpc := field(c, "server/proxy", "BaseProxy", "poolCount")
		n := 0
		for _, w := range engine.CallsTo(f, writeMsg) {
			n++
			h := engine.LoopHeader(w.Block())
			okBound := false
			if by, ok := engine.LoopBound(h); ok { // `i < B` or `range B`
				src := engine.Provenance(by, engine.ProvOpts{})
				if add, ok := by.(*ssa.BinOp); ok && add.Op == token.ADD {
					if k, ok := engine.ConstInt(add.Y); ok && k == 1 && src.HasField(bpc) {
						okBound = true
					}
				}
			}
			c.Check(okBound, "server/proxy.BaseProxy.GetWorkConnFromPool>retries", w.Pos(), 2, nil, "the retry loop is bounded by poolCount+1")
			// failed write ⇒ close of that connection before the next iteration / return
			wc := w.Value()
			n++
			c.AllPaths("server/proxy.BaseProxy.GetWorkConnFromPool>close-on-failed-write", engine.PathCheck{Fn: f, From: w, KeepLoopFacts: true,
				Sink: func(in ssa.Instruction) bool { return in == ssa.Instruction(w) || engine.IsReturn(in) },
				Event: func(in ssa.Instruction) string {
					if call, ok := in.(ssa.CallInstruction); ok && isCloserClose(call) {
						return "close"
					}
					return ""
				},
				Pred: func(st *engine.PathState) string {
					isNil, known := st.IsNil(func(v ssa.Value) bool { return wc != nil && v == ssa.Value(wc) })
					if !known {
						return "the result of writing StartWorkConn is not tested"
					}
					if !isNil && !st.HasEvent("close") {
						return "a work connection whose StartWorkConn write failed is not closed"
					}
					return ""
				}}, "failed announce ⇒ connection closed")
			// announced fields
			n++
			nameF := field(c, "pkg/msg", "StartWorkConn", "ProxyName")
			getName := method(c, "server/proxy", "BaseProxy", "GetName")
			okName, okSrc, okDst := false, false, false
			// the message may be built in place or by a helper: each announced field is traced to where it comes from
			// (the proxy's name; this function's source / destination address parameters, by position)
			if marg := engine.CallArgs(w)[1]; len(f.Params) >= 3 {
				if mi, ok := marg.(*ssa.MakeInterface); ok {
					marg = mi.X
				}
				psrc, pdst := f.Params[len(f.Params)-2], f.Params[len(f.Params)-1]
				if s := engine.DeepSourcesOfField(p, marg, nameF); s.HasCall(getName) || s.HasField(p.Field("server/proxy", "BaseProxy", "name")) {
					okName = true
				}
				allFrom := func(fields []string, want, other *ssa.Parameter) bool {
					for _, fn2 := range fields {
						ff := p.Field("pkg/msg", "StartWorkConn", fn2)
						if ff == nil {
							return false
						}
						s := engine.DeepSourcesOfField(p, marg, ff)
						if !s.Params[want] || s.Params[other] {
							return false
						}
					}
					return true
				}
				okSrc = allFrom([]string{"SrcAddr", "SrcPort"}, psrc, pdst)
				okDst = allFrom([]string{"DstAddr", "DstPort"}, pdst, psrc)
			}
			src := engine.Provenance(engine.CallArgs(w)[1], engine.ProvOpts{})
			for v := range src.Values {
				al, ok := v.(*ssa.Alloc)
				if !ok {
					continue
				}
				for _, sv := range nameStores(al, nameF) {
					if s := engine.Provenance(sv, engine.ProvOpts{}); s.HasCall(getName) || s.HasField(p.Field("server/proxy", "BaseProxy", "name")) {
						okName = true
					}
				}
				for _, fn2 := range []string{"SrcAddr", "SrcPort"} {
					if ff := p.Field("pkg/msg", "StartWorkConn", fn2); ff != nil {
						for _, sv := range nameStores(al, ff) {
							if s := engine.Provenance(sv, engine.ProvOpts{}); s.HasParam("src") && !s.HasParam("dst") {
								okSrc = true
							}
						}
					}
				}
				for _, fn2 := range []string{"DstAddr", "DstPort"} {
					if ff := p.Field("pkg/msg", "StartWorkConn", fn2); ff != nil {
						for _, sv := range nameStores(al, ff) {
							if s := engine.Provenance(sv, engine.ProvOpts{}); s.HasParam("dst") && !s.HasParam("src") {
								okDst = true
							}
						}
					}
				}
			}
			c.Check(okName && okSrc && okDst, "server/proxy.BaseProxy.GetWorkConnFromPool>announce", w.Pos(), 3, nil,
				"StartWorkConn names this proxy (GetName) and carries src in Src*, dst in Dst* (name=%v src=%v dst=%v)", okName, okSrc, okDst)
		}
		c.Floor(n, 3)
	}

	// ---- R6 ----
	c.Rule("R6", "handleUserTCPConnection defers the close of the user connection before anything can fail, passes the user's remote and local address to GetWorkConnFromPool, and defers the close of the work connection it took")
	if f := fn(c, "server/proxy.BaseProxy.handleUserTCPConnection"); f != nil {
		getWC := method(c, "server/proxy", "BaseProxy", "GetWorkConnFromPool")
		c.AllPaths("server/proxy.BaseProxy.handleUserTCPConnection>user-closed", engine.PathCheck{Fn: f, Sink: engine.IsReturn,
			Event: func(in ssa.Instruction) string {
				if d, ok := in.(*ssa.Defer); ok && isCloserClose(d) {
					if isParam("userConn")(engine.Unwrap(engine.CallArgs(d)[0])) {
						return "defer-close-user"
					}
					if cl, i := engine.ResultOfCall(engine.Unwrap(engine.CallArgs(d)[0])); cl != nil && i == 0 && engine.SameFunc(engine.CalleeObj(cl), getWC) {
						return "defer-close-work"
					}
				}
				if engine.IsCallTo(in, getWC) {
					return "take"
				}
				return ""
			},
			Pred: func(st *engine.PathState) string {
				if !st.HasEvent("defer-close-user") {
					return "an exit of handleUserTCPConnection leaves the user connection open"
				}
				if st.HasEvent("take") {
					isNil, known := st.IsNil(extractOf(getWC, 1))
					if known && isNil && !st.HasEvent("defer-close-work") {
						return "a work connection was taken and is not closed on this exit"
					}
				}
				return ""
			}}, "user connection and taken work connection are always closed")
		for _, call := range engine.CallsTo(f, getWC) {
			args := engine.CallArgs(call)
			s1 := engine.Provenance(args[1], engine.ProvOpts{NoArgs: false})
			s2 := engine.Provenance(args[2], engine.ProvOpts{NoArgs: false})
			has := func(s *engine.Sources, name string) bool {
				for k := range s.Calls {
					if k.Name() == name {
						return true
					}
				}
				return false
			}
			c.Check(has(s1, "RemoteAddr") && has(s2, "LocalAddr") && s1.HasParam("userConn") && s2.HasParam("userConn"), "server/proxy.BaseProxy.handleUserTCPConnection>addresses", call.Pos(), 2, nil,
				"the work connection is announced with the user's real source (RemoteAddr) and the endpoint address (LocalAddr)")
		}
		c.Floor(2, 2)
	}

	// ---- R7 ----
	c.Rule("R7", "where an accepted connection is handed to a listener through errors.PanicToError(send), a failed hand-off closes that connection")
	n := 0
	// every function (or goroutine closure) of the group and vhost packages that hands a connection over through a
	// recover-protected send (found by that shape: the workers may be methods or closures)
	for _, f := range c.P.RepoFuncs() {
		if f.Pkg == nil || !(strings.HasSuffix(f.Pkg.Pkg.Path(), "/server/group") || strings.HasSuffix(f.Pkg.Pkg.Path(), "/pkg/util/vhost")) {
			continue
		}
		f := f
		sym := c.P.FuncName(f)
		engine.ForEachInstr(f, func(in ssa.Instruction) {
			call, ok := in.(*ssa.Call)
			if !ok {
				return
			}
			o := engine.CalleeObj(call)
			if o == nil || o.Name() != "PanicToError" {
				return
			}
			var sent ssa.Value
			for _, a := range call.Call.Args {
				if mc, ok := a.(*ssa.MakeClosure); ok {
					if cf, ok := mc.Fn.(*ssa.Function); ok {
						engine.ForEachInstr(cf, func(x ssa.Instruction) {
							if s, ok := x.(*ssa.Send); ok {
								sent = s.X
							}
						})
					}
				}
			}
			if sent == nil {
				return
			}
			n++
			c.AllPaths(sym+">failed-hand-off", engine.PathCheck{Fn: f, From: call, KeepLoopFacts: true,
				Sink: func(x ssa.Instruction) bool { return engine.IsReturn(x) || x == ssa.Instruction(call) },
				Event: func(x ssa.Instruction) string {
					if cl, ok := x.(ssa.CallInstruction); ok && isCloserClose(cl) {
						return "close"
					}
					return ""
				},
				Pred: func(st *engine.PathState) string {
					isNil, known := st.IsNil(func(v ssa.Value) bool { return v == ssa.Value(call) })
					if known && !isNil && !st.HasEvent("close") {
						return "the hand-off failed (listener gone) and the accepted user connection is dropped without being closed"
					}
					return ""
				}}, "failed hand-off ⇒ connection closed")
		})
	}
	c.Floor(n, 3)

	// ---- R8 ----
	c.Rule("R8", "refused or late offers are closed by handleConnection; the pool is closed and drained at session teardown")
	hc := fn(c, "server.Service.handleConnection")
	svcRegObj := method(c, "server", "Service", "RegisterWorkConn")
	if hc != nil && svcRegObj != nil {
		for _, call := range engine.CallsTo(hc, svcRegObj) {
			cv := call.Value()
			c.AllPaths("server.Service.handleConnection>close-on-refusal", engine.PathCheck{Fn: hc, From: call, Sink: engine.IsReturn, Event: closeOfParam("conn"),
				Pred: func(st *engine.PathState) string {
					isNil, known := st.IsNil(func(v ssa.Value) bool { return v == ssa.Value(cv) })
					if known && isNil {
						return ""
					}
					if !st.HasEvent("close") {
						return "after RegisterWorkConn returned an error the work connection is not closed"
					}
					return ""
				}}, "offer refused ⇒ closed")
		}
	}
	if sf := fn(c, "server.Service.RegisterWorkConn"); sf != nil {
		ctlReg := method(c, "server", "Control", "RegisterWorkConn")
		// the error of Control.RegisterWorkConn is what the service returns
		okProp := false
		engine.ForEachInstr(sf, func(in ssa.Instruction) {
			if r, ok := in.(*ssa.Return); ok && len(r.Results) == 1 {
				if cl, _ := engine.ResultOfCall(r.Results[0]); cl != nil && engine.SameFunc(engine.CalleeObj(cl), ctlReg) {
					okProp = true
				}
			}
		})
		c.Check(okProp, "server.Service.RegisterWorkConn>propagates", sf.Pos(), 1, nil, "the pool's refusal is returned to handleConnection unchanged")
	}
	checkWorkerTeardown(c)
	_ = fmt.Sprint

	// ---- R9 a failed Run leaves no listener behind (shared with C10.R2): a route that stays registered without an
	// accept loop answers the user and then never bridges nor closes the connection ----
	checkRunRollbacks(c, "R9")
	// ---- R10 idle backend (work) connections are pooled per route and endpoint (shared with C02.R4): a pooled work
	// connection announced for one proxy must not serve a request routed to another ----
	checkPoolKey(c, "R10")
	// ---- R11 closing a (rate-limited) work connection closes the real one (shared with C10.R12) ----
	checkWrapperCloseFns(c, "R11")

	// ---- R12 a user connection parked in a group's hand-off is released when the group goes away ----
	checkLastLeaveWakes(c, "R12")

	// ---- R13 the announced source address is the user's, whatever its family ----
	c.Rule("R13", "outside the NAT-hole package no network literal restricts the address family (tcp4/tcp6/udp4/udp6): the user's address announced in StartWorkConn is resolved with \"tcp\" / \"udp\" (an IPv6 user would be announced with an empty address)")
	n13, fam := 0, 0
	for _, f := range c.P.RepoFuncs() {
		if f.Pkg == nil {
			continue
		}
		pth := f.Pkg.Pkg.Path()
		if !(strings.Contains(pth, "/server") || strings.Contains(pth, "/client") || strings.Contains(pth, "/pkg/util") || strings.Contains(pth, "/pkg/proto")) {
			continue
		}
		engine.ForEachInstr(f, func(in ssa.Instruction) {
			call, ok := in.(ssa.CallInstruction)
			if !ok {
				return
			}
			o := engine.CalleeObj(call)
			if o == nil || o.Pkg() == nil || o.Pkg().Path() != "net" || len(call.Common().Args) == 0 {
				return
			}
			nw, ok := engine.ConstString(call.Common().Args[0])
			if !ok {
				return
			}
			switch nw {
			case "tcp", "udp":
				n13++
			case "tcp4", "tcp6", "udp4", "udp6":
				fam++
				c.Violate(c.P.FuncName(f)+">"+o.Name()+"-network", in.Pos(), nil, "net.%s is called with the family-restricted network %q: addresses of the other family fail to resolve (the failure is tolerated, the announced user address becomes empty)", o.Name(), nw)
			}
		})
	}
	c.Check(n13 >= 5, "family-agnostic-network-literals", token.NoPos, n13, nil, "positive control: %d net.* calls with \"tcp\"/\"udp\" seen, %d family-restricted", n13, fam)
	c.Floor(n13, 5)

	// ---- R14 the internal listener hands out everything that was queued ----
	c.Rule("R14", "InternalListener.Accept reports 'closed' only when the receive from its queue reports the channel closed and drained: PutConn has already told the peer 'ok' for every queued connection, so a closed flag must not make Accept abandon them")
	if af := fn(c, "pkg/util/net.InternalListener.Accept"); af != nil {
		var track []ssa.Value
		engine.ForEachInstr(af, func(in ssa.Instruction) {
			if r, ok := in.(*ssa.Return); ok {
				track = append(track, r.Results...)
			}
		})
		c.AllPaths("pkg/util/net.InternalListener.Accept", engine.PathCheck{Fn: af, Sink: engine.IsReturn, Track: track, Pred: func(st *engine.PathState) string {
			r := st.Sink.(*ssa.Return)
			if engine.IsNilConst(st.Resolve(r.Results[1])) {
				return ""
			}
			// an error exit: the comma-ok receive must have been found !ok on this path
			okv, known := st.Truth(func(v ssa.Value) bool {
				ex, ok := v.(*ssa.Extract)
				if !ok || ex.Index != 1 {
					return false
				}
				u, ok := ex.Tuple.(*ssa.UnOp)
				return ok && u.Op == token.ARROW
			})
			if !(known && !okv) {
				return "Accept returns an error on a path where the queue was not found closed and drained: connections still queued are never handed out and never closed"
			}
			return ""
		}}, "error only after the queue reported closed")
		c.Floor(1, 1)
	}

	// ---- R15 a failed request for a work connection ends the attempt ----
	c.Rule("R15", "BaseProxy.GetWorkConnFromPool returns when getWorkConnFn fails (that call already waited for the user-connection timeout); only a failed announcement moves on to the next pooled connection")
	if gf := fn(c, "server/proxy.BaseProxy.GetWorkConnFromPool"); gf != nil {
		getF := field(c, "server/proxy", "BaseProxy", "getWorkConnFn")
		k := 0
		engine.ForEachInstr(gf, func(in ssa.Instruction) {
			call, ok := in.(*ssa.Call)
			if !ok || getF == nil {
				return
			}
			if lf, _ := engine.LoadedField(call.Call.Value); lf != getF {
				return
			}
			k++
			c.AllPaths("server/proxy.BaseProxy.GetWorkConnFromPool>request-failed", engine.PathCheck{Fn: gf, From: call, KeepLoopFacts: true,
				Sink: func(x ssa.Instruction) bool { return engine.IsReturn(x) || x == ssa.Instruction(call) },
				Pred: func(st *engine.PathState) string {
					isNil, known := st.IsNil(func(v ssa.Value) bool { cl, i := engine.ResultOfCall(v); return cl == call && i == 1 })
					if known && !isNil && !engine.IsReturn(st.Sink) {
						return "after getWorkConnFn failed the loop asks again: a user of a client that delivers no work connection is held (poolCount+1) × userConnTimeout instead of one timeout"
					}
					return ""
				}}, "request failure ⇒ return")
		})
		c.Floor(k, 1)
	}

	// ---- R16 ----
	checkAcceptRetry(c, "R16")

	// ---- R17 a CONNECT user is never left open without a peer (shared with C02.R6) ----
	checkConnectHandler(c, "R17")
}

// checkLastLeaveWakes (C11.R12, shared with C10.R17): the last member leaving a tcp / tcpmux group closes the group's
// hand-off channel, which is what wakes the group worker blocked in the hand-off send.
func checkLastLeaveWakes(c *engine.Ctx, rule string) {
	c.Rule(rule, "TCPGroup / TCPMuxGroup.CloseListener close the hand-off channel on the path where the last member left: the group worker blocked in the hand-off send is woken (recovered send) and closes the user connection")
	n12 := 0
	for _, sym := range []string{"server/group.TCPGroup.CloseListener", "server/group.TCPMuxGroup.CloseListener"} {
		f := fn(c, sym)
		if f == nil {
			continue
		}
		n12++
		recv := f.Params[0]
		c.AllPaths(sym+">wakes-worker", engine.PathCheck{Fn: f, Sink: engine.IsReturn,
			Event: func(in ssa.Instruction) string {
				if call, ok := in.(ssa.CallInstruction); ok {
					if _, isDefer := in.(*ssa.Defer); isDefer {
						return ""
					}
					if b, ok := call.Common().Value.(*ssa.Builtin); ok && b.Name() == "close" {
						if _, isChan := call.Common().Args[0].Type().Underlying().(*types.Chan); isChan {
							// the group's own channel (also when the teardown was moved into a method of the group)
							if _, base := engine.LoadedField(call.Common().Args[0]); base != nil {
								if types.Identical(base.Type(), recv.Type()) {
									return "close-chan"
								}
								// the channel lives in a small struct the group holds (endpoint state moved into a value field)
								if rs, ok := engine.Deref(recv.Type()).Underlying().(*types.Struct); ok {
									for i := 0; i < rs.NumFields(); i++ {
										if types.Identical(engine.Deref(rs.Field(i).Type()), engine.Deref(base.Type())) {
											return "close-chan"
										}
									}
								}
							}
						}
					}
				}
				return ""
			},
			Pred: func(st *engine.PathState) string {
				for _, l := range st.Lits {
					if arg, ok := lenIsZero(l); ok {
						if lf, b := engine.LoadedField(arg); lf != nil && b == ssa.Value(recv) {
							if _, isSl := lf.Type().Underlying().(*types.Slice); isSl && !st.HasEvent("close-chan") {
								return "the last member left without closing the group's hand-off channel: a user connection parked in the hand-off is never bridged and never closed"
							}
						}
					}
				}
				return ""
			}}, "last leave closes the hand-off channel")
	}
	c.Floor(n12, 2)
}

// checkAcceptRetry (C11.R16, shared with C13.R14): the accept loops of server/proxy decide, for every failed Accept,
// between "back off and accept again" and "the listener is gone, stop". Retrying must be opted into by a positive
// Temporary() verdict on the error: that is the class accept(2)'s transient failures (EMFILE, ENFILE, ECONNABORTED) fall
// into — a Timeout()-only test ends the loop on the first of them and leaves a bound port nobody accepts on — and it
// must never be the default: the close errors of the group and vhost listeners wrap nothing, so a loop that retries
// "everything but net.ErrClosed" never ends and a departed group member keeps taking user connections.
func checkAcceptRetry(c *engine.Ctx, rule string) {
	c.Rule(rule, "in server/proxy, an accept loop that calls Accept again after a failed Accept does so only on paths where a Temporary() call on that error returned true; every other failed Accept leaves the loop")
	p := c.P
	n := 0
	for _, f := range p.RepoFuncs() {
		if f.Pkg == nil || f.Pkg.Pkg.Path() != engine.ModPath+"/server/proxy" {
			continue
		}
		f := f
		engine.ForEachInstr(f, func(in ssa.Instruction) {
			call, ok := in.(*ssa.Call)
			if !ok || !call.Call.IsInvoke() || call.Call.Method.Name() != "Accept" {
				return
			}
			if !engine.IsNamed(call.Call.Value.Type(), "net", "Listener") {
				return
			}
			if !engine.InstrReaches(call, call) {
				return // not in a loop
			}
			n++
			isErr := func(v ssa.Value) bool { cl, i := engine.ResultOfCall(v); return cl == call && i == 1 }
			c.AllPaths(p.FuncName(f)+">accept-retry", engine.PathCheck{Fn: f, From: call, KeepLoopFacts: true,
				Sink: func(x ssa.Instruction) bool { return engine.IsReturn(x) || x == ssa.Instruction(call) },
				Pred: func(st *engine.PathState) string {
					isNil, known := st.IsNil(isErr)
					if !known || isNil || engine.IsReturn(st.Sink) {
						return ""
					}
					// a failed Accept followed by another Accept: which verdict allowed it?
					for _, l := range st.Lits {
						if l.Op != token.ILLEGAL || !l.Val {
							continue
						}
						cl, ok := l.X.(*ssa.Call)
						if !ok {
							continue
						}
						name := ""
						if cl.Call.IsInvoke() {
							name = cl.Call.Method.Name()
						} else if o := engine.CalleeObj(cl); o != nil {
							name = o.Name()
						}
						if name != "Temporary" {
							continue
						}
						src := engine.Provenance(engine.CallArgs(cl)[0], engine.ProvOpts{})
						if src.CallIns[call] {
							return ""
						}
					}
					return "Accept is called again after it failed on a path where the error was not found Temporary(): either transient accept failures end the loop (if the test is narrower) or a closed group / vhost listener is polled for ever (if retrying is the default)"
				}}, "retry ⇔ Temporary()")
		})
	}
	c.Floor(n, 1)
}
