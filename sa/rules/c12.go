package rules

import (
	"go/token"

	"golang.org/x/tools/go/ssa"

	"frpsa/engine"
)

func init() {
	Registry["C12"] = &Property{
		Title:       "Sessions own their proxies; names are unique; re-login replaces cleanly",
		Run:         runC12,
		Explanation: "Decides the shape of session replacement and naming: (R1) in RegisterControl the new control is started only after, on the path where ControlManager.Add returned a previous control, WaitClosed was called on that control; Add notifies the previous control (Replaced) and stores the new one; (R2) ControlManager.Del deletes only when the stored control is pointer-identical to the one that ended; (R3) proxy.Manager.Add inserts a name only when it is absent and returns an error otherwise; RegisterProxy refuses a live name before running the proxy; (R4) CloseProxy looks the proxy up in the session's own table only, and removes it from that table unconditionally (shared with C10.R5); (R5) run ids come from crypto/rand (16 hex characters) and are generated exactly when the login carries none; (R6) the old session's teardown — pool closed and drained, every proxy closed and its name removed — completes before doneCh is closed, on every exit (shared with C10.R4). Not decided: all interleavings of several simultaneous re-logins (history property).",
		Assumptions: commonAssumptions,
	}
}

func runC12(c *engine.Ctx) {
	_ = c.P

	// ---- R1 ----
	c.Rule("R1", "RegisterControl starts the new control only after WaitClosed on the control that ControlManager.Add returned (when there is one); Add calls Replaced on the previous control and stores the new one")
	n := checkStartAfterWait(c)
	reg := fn(c, "server.Service.RegisterControl")
	cmAdd := method(c, "server", "ControlManager", "Add")
	_ = cmAdd
	if af := fn(c, "server.ControlManager.Add"); af != nil {
		idx := field(c, "server", "ControlManager", "ctlsByRunID")
		connF := field(c, "server", "Control", "conn")
		// "the previous control is told to go": its connection is closed, by Add itself or by a Control method it
		// calls (Replaced on the confirmed tree); the worker of the old control reacts to the closed connection
		closesConn := func(in ssa.Instruction) bool {
			call, ok := in.(ssa.CallInstruction)
			if !ok || !call.Common().IsInvoke() || call.Common().Method.Name() != "Close" {
				return false
			}
			lf, _ := engine.LoadedField(call.Common().Value)
			return lf != nil && lf == connF
		}
		notifies := func(in ssa.Instruction) bool {
			if closesConn(in) {
				return true
			}
			call, ok := in.(ssa.CallInstruction)
			if !ok {
				return false
			}
			cf := engine.CalleeFn(call)
			if cf == nil || cf.Blocks == nil || cf.Signature.Recv() == nil || !engine.IsNamed(cf.Signature.Recv().Type(), engine.ModPath+"/server", "Control") {
				return false
			}
			hit := false
			engine.ForEachInstr(cf, func(x ssa.Instruction) {
				if closesConn(x) {
					hit = true
				}
			})
			return hit
		}
		if idx != nil && connF != nil {
			n++
			c.AllPaths("server.ControlManager.Add", engine.PathCheck{Fn: af, Sink: engine.IsReturn,
				Event: func(in ssa.Instruction) string {
					if notifies(in) {
						return "replaced"
					}
					if mu, ok := in.(*ssa.MapUpdate); ok {
						if lf, _ := engine.LoadedField(mu.Map); lf == idx && isParam("runID")(mu.Key) && isParam("ctl")(mu.Value) {
							return "store"
						}
					}
					return ""
				},
				Pred: func(st *engine.PathState) string {
					if !st.HasEvent("store") {
						return "Add returns without storing the new control under its run id"
					}
					found, known := st.Truth(func(v ssa.Value) bool {
						ex, ok := v.(*ssa.Extract)
						if !ok || ex.Index != 1 {
							return false
						}
						lk, ok := ex.Tuple.(*ssa.Lookup)
						if !ok {
							return false
						}
						lf, _ := engine.LoadedField(lk.X)
						return lf == idx
					})
					if !known {
						return "Add does not look for a previous control"
					}
					if found && !st.HasEvent("replaced") {
						return "a previous control exists but is not told that it was replaced (its connection stays open)"
					}
					return ""
				}}, "previous control notified, new one stored")
		}
	}
	c.Floor(n, 2)

	// ---- R2 ----
	checkDelIfSame(c, "R2")

	// ---- R3 ----
	c.Rule("R3", "proxy.Manager.Add inserts only an absent name and reports an error for a live one; RegisterProxy refuses a live name before running the proxy")
	n = 0
	if af := fn(c, "server/proxy.Manager.Add"); af != nil {
		pxys := field(c, "server/proxy", "Manager", "pxys")
		okLookup := func(v ssa.Value) bool {
			ex, ok := v.(*ssa.Extract)
			if !ok || ex.Index != 1 {
				return false
			}
			lk, ok := ex.Tuple.(*ssa.Lookup)
			if !ok {
				return false
			}
			lf, _ := engine.LoadedField(lk.X)
			return lf == pxys && isParam("name")(lk.Index)
		}
		engine.ForEachInstr(af, func(in ssa.Instruction) {
			if mu, ok := in.(*ssa.MapUpdate); ok {
				n++
				c.AllPaths("server/proxy.Manager.Add>insert", engine.PathCheck{Fn: af, Sink: engine.Is(mu), Pred: func(st *engine.PathState) string {
					if v, k := st.Truth(okLookup); !(k && !v) {
						return "a proxy name is (re)bound on a path where it was not found absent: the incumbent is silently replaced"
					}
					return ""
				}}, "insert only when absent")
			}
		})
		// the same claim written against a sync.Map: LoadOrStore(name, …) is the atomic "insert only when absent", and
		// its loaded result is the "already in use" verdict
		if pxys != nil && engine.IsNamed(pxys.Type(), "sync", "Map") {
			var los *ssa.Call
			engine.ForEachInstr(af, func(in ssa.Instruction) {
				if call, ok := in.(*ssa.Call); ok {
					if o := engine.CalleeObj(call); o != nil && o.Name() == "LoadOrStore" && o.Pkg() != nil && o.Pkg().Path() == "sync" {
						if a := engine.CallArgs(call); len(a) >= 2 && isParam("name")(engine.Unwrap(a[1])) {
							los = call
						}
					}
				}
			})
			if los != nil {
				n++
				c.Hold("server/proxy.Manager.Add>insert", los.Pos(), 1, nil, "the name is claimed with sync.Map.LoadOrStore")
				okLookup = func(v ssa.Value) bool {
					ex, ok := v.(*ssa.Extract)
					return ok && ex.Index == 1 && ex.Tuple == ssa.Value(los)
				}
			}
		}
		n++
		c.AllPaths("server/proxy.Manager.Add>verdict", engine.PathCheck{Fn: af, Sink: engine.IsReturn, Pred: func(st *engine.PathState) string {
			v, k := st.Truth(okLookup)
			r := st.Sink.(*ssa.Return)
			if k && v && !nonNilOnPath(st, st.Resolve(r.Results[0])) {
				return "Add reports success for a name that is already in use"
			}
			return ""
		}}, "live name ⇒ error")
	}
	if rp := fn(c, "server.Control.RegisterProxy"); rp != nil {
		existObj := method(c, "server/proxy", "Manager", "Exist")
		runObj := method(c, "server/proxy", "Proxy", "Run")
		if existObj != nil && runObj != nil {
			for _, rc := range engine.CallsTo(rp, runObj) {
				n++
				c.AllPaths("server.Control.RegisterProxy>exist-before-run", engine.PathCheck{Fn: rp, Sink: engine.Is(rc), Pred: func(st *engine.PathState) string {
					if v, k := st.Truth(resultOf(existObj)); !(k && !v) {
						return "a proxy is run (ports bound, routes registered) although its name was not found free"
					}
					return ""
				}}, "Run only after Exist()==false")
			}
		}
	}
	c.Floor(n, 3)

	// ---- R4 ----
	c.Rule("R4", "CloseProxy acts on a proxy looked up in the session's own table by the requested name and always removes that table entry")
	checkCloseProxy(c)
	if cp := fn(c, "server.Control.CloseProxy"); cp != nil {
		proxiesF := field(c, "server", "Control", "proxies")
		pxyClose := method(c, "server/proxy", "Proxy", "Close")
		nameF := field(c, "pkg/msg", "CloseProxy", "ProxyName")
		for _, cl := range engine.CallsTo(cp, pxyClose) {
			src := engine.Provenance(engine.CallArgs(cl)[0], engine.ProvOpts{})
			c.Check(src.HasField(proxiesF) && src.HasField(nameF) && len(src.Calls) == 0, "server.Control.CloseProxy>own-table", cl.Pos(), len(src.Values), []string{src.Summary()},
				"the proxy that is closed comes from ctl.proxies[closeMsg.ProxyName] (never from the global registry)")
		}
	}

	// ---- R5 ----
	c.Rule("R5", "run ids: RandID draws from crypto/rand and yields 16 characters; RegisterControl generates one exactly when the login message has none")
	n = 0
	if rid := fn(c, "pkg/util/util.RandIDWithLen"); rid != nil {
		n++
		cr := false
		engine.ForEachInstr(rid, func(in ssa.Instruction) {
			if call, ok := in.(ssa.CallInstruction); ok {
				if o := engine.CalleeObj(call); o != nil && o.Pkg() != nil && o.Pkg().Path() == "crypto/rand" && o.Name() == "Read" {
					cr = true
				}
			}
		})
		c.Check(cr, "pkg/util/util.RandIDWithLen", rid.Pos(), 1, nil, "random ids are read from crypto/rand")
	}
	if r := fn(c, "pkg/util/util.RandID"); r != nil {
		n++
		okLen := false
		engine.ForEachInstr(r, func(in ssa.Instruction) {
			if call, ok := in.(ssa.CallInstruction); ok {
				if o := engine.CalleeObj(call); o != nil && o.Name() == "RandIDWithLen" {
					if k, ok := engine.ConstInt(call.Common().Args[0]); ok && k == 16 {
						okLen = true
					}
				}
			}
		})
		c.Check(okLen, "pkg/util/util.RandID", r.Pos(), 1, nil, "RandID asks for 16 characters")
	}
	if reg != nil {
		randID := funcObj(c, "pkg/util/util", "RandID")
		runIDF := field(c, "pkg/msg", "Login", "RunID")
		if randID != nil && runIDF != nil {
			for _, host := range engine.HostsOf(reg, randID) {
				for _, rc := range engine.CallsTo(host, randID) {
					n++
					c.AllPaths("server.Service.RegisterControl>run-id", engine.PathCheck{Fn: host, Sink: engine.Is(rc), Pred: func(st *engine.PathState) string {
						eq, k := st.Equal(loadOfField(runIDF), func(v ssa.Value) bool { s, ok := engine.ConstString(v); return ok && s == "" })
						if !(k && eq) {
							return "a run id is generated although the login carried one (the re-login would not replace its own session)"
						}
						return ""
					}}, "fresh run id only for logins without one")
				}
			}
			// and a login without run id never proceeds without one
			n++
			addSites := engine.CallsToVia(reg, cmAdd)
			c.AllPaths("server.Service.RegisterControl>run-id-present", engine.PathCheck{Fn: reg, Sink: func(in ssa.Instruction) bool {
				for _, a := range addSites {
					if in == a.(ssa.Instruction) {
						return true
					}
				}
				return false
			},
				Event: func(in ssa.Instruction) string {
					if st, ok := in.(*ssa.Store); ok {
						if lf, _ := engine.LoadedField(st.Addr); lf == runIDF {
							if cl, i := engine.ResultOfCall(st.Val); cl != nil && i == 0 && engine.SameFunc(engine.CalleeObj(cl), randID) {
								return "assigned"
							}
						}
					}
					return ""
				},
				Pred: func(st *engine.PathState) string {
					eq, k := st.Equal(loadOfField(runIDF), func(v ssa.Value) bool { s, ok := engine.ConstString(v); return ok && s == "" })
					if k && eq && !st.HasEvent("assigned") {
						return "a login without run id is registered under the empty run id"
					}
					// a generated id is used only when its generation succeeded
					for _, l := range st.Lits {
						if l.Op != token.EQL || l.Val {
							continue
						}
						x, y := l.X, l.Y
						if engine.IsNilConst(x) {
							x, y = y, x
						}
						if engine.IsNilConst(y) {
							if cl, i := engine.ResultOfCall(x); cl != nil && i == 1 && engine.SameFunc(engine.CalleeObj(cl), randID) {
								return "the session is registered although generating its run id failed: the empty id is used and shared by every such login"
							}
						}
					}
					return ""
				}}, "empty run id is always replaced by a generated one")
		}
	}
	c.Floor(n, 4)

	// ---- R6 ----
	c.Rule("R6", "Control.worker: pool closed and drained, every proxy closed and unregistered, doneCh closed last on every exit (what WaitClosed waits for is the complete teardown)")
	checkWorkerTeardown(c)
	_ = token.NoPos

	// ---- R7 release closures are queued only after the matching registration succeeded (shared with C13.R2) ----
	c.Rule("R7", "in server/proxy a closure that un-registers a route, listener or group membership is appended to closeFuncs only on paths where the matching registration returned nil: a refused (duplicate) registration must leave the owner's entry alone")
	c.Floor(checkCleanupAfterAcquire(c), 2)

	// ---- R8 only the owner unregisters a name ----
	c.Rule("R8", "proxy.Manager.Del is called only with the name of a proxy taken from the calling session's own table (ctl.proxies): a session that lost the race for a name, or a failed registration, never removes the incumbent's entry")
	n = 0
	if del := method(c, "server/proxy", "Manager", "Del"); del != nil {
		proxiesF := field(c, "server", "Control", "proxies")
		for _, f := range c.P.RepoFuncs() {
			for _, call := range engine.CallsTo(f, del) {
				n++
				args := engine.CallArgs(call)
				src := engine.Provenance(args[len(args)-1], engine.ProvOpts{})
				c.Check(proxiesF != nil && src.HasField(proxiesF), c.P.FuncName(f)+">Manager.Del", call.Pos(), len(src.Values), []string{"name: " + src.Summary()},
					"the unregistered name is that of a proxy found in the session's own table")
			}
		}
	}
	c.Floor(n, 2)

	// ---- R9 registrations and close requests of one session are handled in order (shared with C10.R14): the teardown
	// of a session also waits for a registration that is still in progress ----
	checkOrderedHandlers(c, "R9")

	// ---- R11 what a proxy acquired is released by its Close (shared with C10.R1): a name left in the visitor registry
	// blocks the client's own re-registration ----
	checkCloseCoversRun(c, "R11")

	// ---- R12 replacing a session is atomic: lookup of the old control and store of the new one are one critical
	// section (shared with C16.R18) ----
	c16CheckThenAct(c, "R12")

	// ---- R13 every route a proxy registered is removed by its own hook (shared with C10.R11): otherwise the re-login's
	// identical registration meets a stale route ----
	checkQueuedClosureCaptures(c, "R13")

	// ---- R14 ----
	checkDoneOnlyByReadLoop(c, "R14")
	// ---- R15 (shared with C16.R28) ----
	checkSyncStateHandlers(c, "R15")
	checkDelAfterTeardown(c, "R16")

	// ---- R10 the name a proxy is registered under is the name it owns ----
	c.Rule("R10", "ProxyBaseConfig.UnmarshalFromMsg copies NewProxy.ProxyName into Name verbatim (no trimming or case change): RegisterProxy registers the name under the message's spelling and every removal uses the proxy's own Name")
	if f := fn(c, "pkg/config/v1.ProxyBaseConfig.UnmarshalFromMsg"); f != nil {
		nameF := field(c, "pkg/config/v1", "ProxyBaseConfig", "Name")
		pnF := field(c, "pkg/msg", "NewProxy", "ProxyName")
		k := 0
		engine.ForEachInstr(f, func(in ssa.Instruction) {
			st, ok := in.(*ssa.Store)
			if !ok {
				return
			}
			if lf, _ := engine.LoadedField(st.Addr); lf != nameF || nameF == nil {
				return
			}
			k++
			lf, _ := engine.LoadedField(engine.Unwrap(st.Val))
			c.Check(lf == pnF && pnF != nil, "pkg/config/v1.ProxyBaseConfig.UnmarshalFromMsg>name-verbatim", in.Pos(), 1, []string{"stored: " + engine.Describe(st.Val)},
				"Name is the message's ProxyName, unmodified")
		})
		c.Floor(k, 1)
	}
}

// checkDelIfSame (C12.R2, shared as C14.R8): late cleanup of an ended session never removes its successor.
func checkDelIfSame(c *engine.Ctx, rule string) {
	c.Rule(rule, "ControlManager.Del removes the run id only when the stored control is the very control that ended")
	if df := fn(c, "server.ControlManager.Del"); df != nil {
		n := 0
		engine.ForEachInstr(df, func(in ssa.Instruction) {
			call, ok := in.(ssa.CallInstruction)
			if !ok {
				return
			}
			b, ok := call.Common().Value.(*ssa.Builtin)
			if !ok || b.Name() != "delete" {
				return
			}
			n++
			c.AllPaths("server.ControlManager.Del", engine.PathCheck{Fn: df, Sink: engine.Is(in), Pred: func(st *engine.PathState) string {
				eq, k := st.Equal(isParam("ctl"), func(v ssa.Value) bool {
					ex, ok := v.(*ssa.Extract)
					if !ok || ex.Index != 0 {
						return false
					}
					_, isLk := ex.Tuple.(*ssa.Lookup)
					return isLk
				})
				if !(k && eq) {
					return "the run id is deleted without the stored control having been found identical to the ended one: late cleanup of an old session removes its successor"
				}
				return ""
			}}, "delete-if-same")
		})
		c.Floor(n, 1)
	}

}

// checkDoneOnlyByReadLoop (C12.R14, shared with C14.R13): Dispatcher.Done() is the session's "nothing is being handled
// any more" signal — Control.worker tears the session's proxies down when it fires, and a handler that is still running
// would then register a proxy on a dead session. The read loop runs the handlers itself, so the signal is sound exactly
// when doneCh is closed by the read loop only: by readLoop itself or by a helper nothing else calls.
func checkDoneOnlyByReadLoop(c *engine.Ctx, rule string) {
	c.Rule(rule, "Dispatcher.doneCh is closed only on behalf of the read loop: every function that closes it is readLoop, one of its closures, or a helper whose (transitive) static callers are all within readLoop — in particular not the send loop, which runs beside the handlers")
	p := c.P
	rl := fn(c, "pkg/msg.Dispatcher.readLoop")
	doneF := field(c, "pkg/msg", "Dispatcher", "doneCh")
	if rl == nil || doneF == nil {
		return
	}
	callers := map[*ssa.Function][]*ssa.Function{}
	for _, f := range p.RepoFuncs() {
		f := f
		engine.ForEachInstr(f, func(in ssa.Instruction) {
			if call, ok := in.(ssa.CallInstruction); ok {
				if cf := engine.CalleeFn(call); cf != nil && cf.Blocks != nil {
					callers[cf] = append(callers[cf], f)
				}
			}
		})
	}
	root := func(f *ssa.Function) *ssa.Function {
		for f.Parent() != nil {
			f = f.Parent()
		}
		return f
	}
	n := 0
	for _, f := range p.RepoFuncs() {
		f := f
		engine.ForEachInstr(f, func(in ssa.Instruction) {
			cc, ok := in.(ssa.CallInstruction)
			if !ok {
				return
			}
			b, ok := cc.Common().Value.(*ssa.Builtin)
			if !ok || b.Name() != "close" {
				return
			}
			if lf, _ := engine.LoadedField(cc.Common().Args[0]); lf != doneF {
				return
			}
			n++
			// who can get here?
			bad := ""
			seen := map[*ssa.Function]bool{}
			var walk func(g *ssa.Function, d int, via string)
			walk = func(g *ssa.Function, d int, via string) {
				g = root(g)
				if g == rl || seen[g] || d > 6 || bad != "" {
					return
				}
				seen[g] = true
				cs := callers[g]
				if len(cs) == 0 {
					bad = p.FuncName(g) + " (no static caller: an entry point of its own)"
					return
				}
				for _, cf := range cs {
					if root(cf) == rl {
						continue
					}
					v := via
					if v == "" {
						v = p.FuncName(cf)
					}
					if o := root(cf).Object(); o != nil && o.Exported() || len(callers[root(cf)]) == 0 {
						bad = v
						return
					}
					walk(cf, d+1, v)
				}
			}
			walk(f, 0, "")
			c.Check(bad == "", p.FuncName(f)+">close-doneCh", in.Pos(), len(seen)+1, nil,
				"doneCh is closed here only when the read loop ends (also reachable from %s: Done() would fire while a message handler of the read loop may still be running)", bad)
		})
	}
	c.Floor(n, 1)
}

// checkStartAfterWait (first half of C12.R1, shared as C10.R19): the new control is started only after the control it
// replaces has finished its teardown. Returns the number of Start sites examined.
func checkStartAfterWait(c *engine.Ctx) int {
	reg := fn(c, "server.Service.RegisterControl")
	cmAdd := method(c, "server", "ControlManager", "Add")
	start := method(c, "server", "Control", "Start")
	wait := method(c, "server", "Control", "WaitClosed")
	n := 0
	if reg != nil && cmAdd != nil && start != nil && wait != nil {
		for _, sc := range engine.CallsTo(reg, start) {
			n++
			c.AllPaths("server.Service.RegisterControl>start", engine.PathCheck{Fn: reg, Sink: engine.Is(sc),
				Event: func(in ssa.Instruction) string {
					if call, ok := in.(ssa.CallInstruction); ok && engine.IsCallTo(in, wait) {
						if cl, _ := engine.ResultOfCall(engine.Unwrap(engine.CallArgs(call)[0])); cl != nil && engine.SameFunc(engine.CalleeObj(cl), cmAdd) {
							return "wait-old"
						}
					}
					if engine.IsCallTo(in, cmAdd) {
						return "add"
					}
					return ""
				},
				Pred: func(st *engine.PathState) string {
					if !st.HasEvent("add") {
						return "the control is started without having been entered into the control manager"
					}
					isNil, known := st.IsNil(resultOf(cmAdd))
					if !known {
						return "the control is started without looking at the previous control returned by Add"
					}
					if !isNil && !(st.HasEvent("wait-old") && st.EventIndex("wait-old") > st.EventIndex("add")) {
						return "a previous session exists but the new one is started without waiting for it to close completely"
					}
					return ""
				}}, "replace, wait for the old session, then start")
		}
	}
	return n
}

// checkDelAfterTeardown (R16): a session stays findable under its run id until its teardown is complete. The goroutine
// that removes it from the control manager first waits for Control.WaitClosed (doneCh, closed last by the worker) — a
// re-login that no longer finds the draining session waits for nothing and meets the old proxies still registered.
func checkDelAfterTeardown(c *engine.Ctx, rule string) {
	c.Rule(rule, "every call of ControlManager.Del is preceded, on every path of its function, by Control.WaitClosed on the control it removes")
	p := c.P
	del := method(c, "server", "ControlManager", "Del")
	wait := method(c, "server", "Control", "WaitClosed")
	if del == nil || wait == nil {
		return
	}
	n := 0
	for _, f := range p.RepoFuncs() {
		f := f
		for _, dc := range engine.CallsTo(f, del) {
			n++
			c.AllPaths(p.FuncName(f)+">del-after-teardown", engine.PathCheck{Fn: f, Sink: engine.Is(dc),
				Event: func(in ssa.Instruction) string {
					if engine.IsCallTo(in, wait) {
						return "waited"
					}
					return ""
				},
				Pred: func(st *engine.PathState) string {
					if st.HasEvent("waited") {
						return ""
					}
					return "the control is removed from the run-id table without waiting for its teardown (WaitClosed): a client that reconnects meanwhile is acknowledged while its old proxies are still registered"
				}}, "Del only after WaitClosed")
		}
	}
	c.Floor(n, 1)
}
