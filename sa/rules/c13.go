package rules

import (
	"fmt"
	"go/token"
	"go/types"
	"sort"
	"strings"

	"golang.org/x/tools/go/ssa"

	"frpsa/engine"
)

func init() {
	Registry["C13"] = &Property{
		Title:       "Load-balancing groups: keyed membership, live members only, clean lifecycle",
		Run:         runC13,
		Explanation: "Decides the shape of the three group implementations (tcp, tcpmux, http): (R1) the identity parameters a group records when its first member creates it are exactly the ones a later member is compared against, and a later member is added only on paths where all of them (including the group key) were found equal; (R2) a refused join performs no store into the group; cleanup closures for a group/route registration are queued only after that registration succeeded; (R3) when the last member leaves, the hand-off channel and the endpoint are closed, the acquired port is released (tcp), the route is deleted (http) and the group is removed from its controller; (R4) member Accept handles a closed hand-off channel and its own close channel; hand-off sends are recover-protected and failed hand-offs are closed (shared with C16.R3c / C11.R7); (R5) rotation uses an atomic counter modulo the member count under the read lock and only when members exist; (R6) the controller's get-or-create and the group's member add are serialised with remove-when-empty by a common lock. Not decided: exactly-one delivery while members are live (channel semantics and scheduling), fairness of rotation.",
		Assumptions: commonAssumptions,
	}
}

type groupSpec struct {
	kind    string
	join    string // group method that adds a member
	leave   string // group method that removes a member
	ctlJoin string // controller method that finds/creates the group and calls join
	members string // receiver field holding the members
}

func runC13(c *engine.Ctx) {
	specs := []groupSpec{
		{"tcp", "server/group.TCPGroup.Listen", "server/group.TCPGroup.CloseListener", "server/group.TCPGroupCtl.Listen", "lns"},
		{"tcpmux", "server/group.TCPMuxGroup.HTTPConnectListen", "server/group.TCPMuxGroup.CloseListener", "server/group.TCPMuxGroupCtl.Listen", "lns"},
		{"http", "server/group.HTTPGroup.Register", "server/group.HTTPGroup.UnRegister", "server/group.HTTPGroupController.Register", "createFuncs"},
	}
	li := engine.AnalyzeLocks(c.P)

	// ---- R1 / R2 ----
	c.Rule("R1", "for each group kind, the identity fields recorded by the first member are the fields a later member is compared against, and the member is added only when all of them (and the group key) were found equal")
	type joinInfo struct {
		f         *ssa.Function
		identity  map[*types.Var]bool
		memberAdd []ssa.Instruction
		lenLit    func(st *engine.PathState) (empty, known bool)
	}
	infos := map[string]*joinInfo{}
	for _, sp := range specs {
		f := fn(c, sp.join)
		if f == nil {
			continue
		}
		recv := f.Params[0]
		ji := &joinInfo{f: f, identity: map[*types.Var]bool{}}
		infos[sp.kind] = ji
		isRecvField := func(addr ssa.Value) *types.Var {
			fv, base := engine.LoadedField(addr)
			if fv != nil && base == ssa.Value(recv) {
				return fv
			}
			return nil
		}
		ji.lenLit = func(st *engine.PathState) (bool, bool) {
			for _, l := range st.Lits {
				if arg, ok := lenIsZero(l); ok {
					if lf, b := engine.LoadedField(arg); lf != nil && lf.Name() == sp.members && b == ssa.Value(recv) {
						return true, true
					}
				}
				// the negation: len(x) == 0 is false
				if l.Op == token.EQL && !l.Val {
					x, y := l.X, l.Y
					if _, isC := x.(*ssa.Const); isC {
						x, y = y, x
					}
					if lc, ok := x.(*ssa.Call); ok {
						if b, ok := lc.Call.Value.(*ssa.Builtin); ok && b.Name() == "len" {
							if z, ok := engine.ConstInt(y); ok && z == 0 {
								if lf, bb := engine.LoadedField(lc.Call.Args[0]); lf != nil && lf.Name() == sp.members && bb == ssa.Value(recv) {
									return false, true
								}
							}
						}
					}
				}
			}
			return false, false
		}
		// the join and the steps split out of it (methods of the same receiver)
		fam := []*ssa.Function{f}
		for _, g := range allAnon(f) {
			if g.Parent() == nil && len(g.Params) > 0 && types.Identical(g.Params[0].Type(), recv.Type()) {
				fam = append(fam, g)
			}
		}
		hostOf := map[ssa.Instruction]*ssa.Function{}
		isRecvFieldIn := func(g *ssa.Function, addr ssa.Value) *types.Var {
			fv, base := engine.LoadedField(addr)
			if fv != nil && base == ssa.Value(g.Params[0]) {
				return fv
			}
			return nil
		}
		// identity fields: receiver fields of basic type stored from a parameter-derived value
		for _, g := range fam {
			g := g
			engine.ForEachInstr(g, func(in ssa.Instruction) {
				st, ok := in.(*ssa.Store)
				if !ok {
					return
				}
				fv := isRecvFieldIn(g, st.Addr)
				if fv == nil {
					return
				}
				// a basic field, or a small struct of basic fields that is recorded and compared as one value
				if identityWidth(fv.Type()) == 0 {
					return
				}
				src := engine.DeepSources(c.P, st.Val) // through a constructor of the identity value, if any
				fromParam := false
				for pr := range src.Params {
					if pr != g.Params[0] && pr.Parent() == g {
						fromParam = true
					}
				}
				// a value computed by a call is not a creation parameter (the acquired port), except a struct slot built by a
				// constructor of this package from the parameters
				pure := true
				for ci := range src.CallIns {
					if ci.Parent() == nil || ci.Parent().Pkg != f.Pkg {
						continue // how a caller in another package computed its argument is not this group's business
					}
					callee := engine.CalleeObj(ci)
					if !(callee != nil && src.Followed[callee] && callee.Pkg() == f.Pkg.Pkg && identityWidth(fv.Type()) > 1) {
						pure = false
					}
				}
				if fromParam && pure {
					ji.identity[fv] = true
				}
			})
		}
		// member add: store to the members field (append) or MapUpdate on it
		for _, g := range fam {
			g := g
			engine.ForEachInstr(g, func(in ssa.Instruction) {
				switch x := in.(type) {
				case *ssa.Store:
					if fv := isRecvFieldIn(g, x.Addr); fv != nil && fv.Name() == sp.members {
						ji.memberAdd = append(ji.memberAdd, in)
						hostOf[in] = g
					}
				case *ssa.MapUpdate:
					if lf, b := engine.LoadedField(x.Map); lf != nil && lf.Name() == sp.members && b == ssa.Value(g.Params[0]) {
						ji.memberAdd = append(ji.memberAdd, in)
						hostOf[in] = g
					}
				}
			})
		}
		_ = isRecvField
		var idn []string
		for fv := range ji.identity {
			idn = append(idn, fv.Name())
		}
		sort.Strings(idn)
		width := 0
		for fv := range ji.identity {
			width += identityWidth(fv.Type())
		}
		if width < 3 || len(ji.memberAdd) == 0 {
			c.Undecide(sp.join, f.Pos(), "group join shape not recognised (identity fields %v, member adds %d)", idn, len(ji.memberAdd))
			continue
		}
		for i, add := range ji.memberAdd {
			host := hostOf[add]
			// for a step split out of the join, whether the group is empty may have been decided by the caller
			callerEmpty, callerKnown := false, false
			if host != f {
				callerEmpty, callerKnown = engine.CallerAgree(c.P, host, false, func(st *engine.PathState) (bool, bool) { return ji.lenLit(st) })
			}
			hrecv := host.Params[0]
			c.AllPaths(fmt.Sprintf("%s>member-add#%d", sp.join, i+1), engine.PathCheck{Fn: host, Sink: engine.Is(add), Pred: func(st *engine.PathState) string {
				empty, known := ji.lenLit(st)
				if !known {
					empty, known = callerEmpty, callerKnown
				}
				if !known {
					return "a member is added without testing whether the group already has members"
				}
				if empty {
					return ""
				}
				var missing []string
				for fv := range ji.identity {
					// the comparison may sit in this function or in an extracted helper (guard summary): the field is
					// identified by its object, the other operand must derive from a non-receiver parameter
					fromParam := func(v ssa.Value) bool {
						src := engine.Provenance(v, engine.ProvOpts{})
						for pr := range src.Params {
							if pr.Parent() != nil && len(pr.Parent().Params) > 0 && pr != pr.Parent().Params[0] {
								return true
							}
						}
						return false
					}
					eq, k := st.Equal(func(v ssa.Value) bool { lf, _ := engine.LoadedField(v); return lf == fv }, fromParam)
					if !(k && eq) {
						// a struct slot may be compared field by field (in place or in a helper such as params.check(req))
						fieldwise := false
						if sst, isS := fv.Type().Underlying().(*types.Struct); isS && sst.NumFields() > 0 {
							fieldwise = true
							for i := 0; i < sst.NumFields(); i++ {
								sub := sst.Field(i)
								e2, k2 := st.Equal(func(v ssa.Value) bool {
									root, path := engine.FieldPath(v)
									if al, ok := root.(*ssa.Alloc); ok && al.Referrers() != nil {
										// a struct parameter spilled into a local at entry
										for _, r := range *al.Referrers() {
											if s, ok := r.(*ssa.Store); ok && s.Addr == ssa.Value(al) {
												if pr, ok := s.Val.(*ssa.Parameter); ok {
													root = pr
												}
											}
										}
									}
									if pr, ok := root.(*ssa.Parameter); ok && pr != recv && pr != hrecv {
										r2, p2 := engine.FieldPath(st.Resolve(pr))
										root, path = r2, append(append([]*types.Var{}, p2...), path...)
									}
									return (root == ssa.Value(recv) || root == ssa.Value(hrecv)) && len(path) == 2 && path[0] == fv && path[1] == sub
								}, fromParam)
								if !(k2 && e2) {
									fieldwise = false
								}
							}
						}
						if !fieldwise {
							missing = append(missing, fv.Name())
						}
					}
				}
				sort.Strings(missing)
				if len(missing) > 0 {
					return "a later member joins on a path where these creation parameters were not found equal to its own: " + strings.Join(missing, ", ")
				}
				return ""
			}}, "later members join only with identical %s", strings.Join(idn, ", "))
		}
	}
	c.Floor(len(infos), 3)

	c.Rule("R2", "a refused join leaves the group unchanged (no store into the group before an error exit); cleanup for a group or route registration is queued only after that registration succeeded")
	n := 0
	for _, sp := range specs {
		ji := infos[sp.kind]
		if ji == nil {
			continue
		}
		f := ji.f
		recv := f.Params[0]
		n++
		c.AllPaths(sp.join+">refusal", engine.PathCheck{Fn: f, Sink: engine.IsReturn,
			Event: func(in ssa.Instruction) string {
				switch x := in.(type) {
				case *ssa.Store:
					if fv, b := engine.LoadedField(x.Addr); fv != nil && b == ssa.Value(recv) {
						return "store:" + fv.Name()
					}
				case *ssa.MapUpdate:
					if fv, b := engine.LoadedField(x.Map); fv != nil && b == ssa.Value(recv) {
						return "store:" + fv.Name()
					}
				}
				return ""
			},
			Pred: func(st *engine.PathState) string {
				r := st.Sink.(*ssa.Return)
				ev := st.Resolve(r.Results[len(r.Results)-1])
				if engine.IsNilConst(ev) {
					return ""
				}
				if isNil, known := st.IsNil(func(v ssa.Value) bool { return v == ev }); known && isNil {
					return ""
				}
				if len(st.Events) > 0 {
					return "the join is refused after the group was already modified (" + st.Events[0].Tag + ")"
				}
				return ""
			}}, "error exits precede every store into the group")
	}
	n += checkCleanupAfterAcquire(c)
	c.Floor(n, 4)

	// ---- R3 ----
	c.Rule("R3", "when the last member leaves: hand-off channel closed, endpoint closed, acquired port released (tcp), route deleted (http), group removed from its controller")
	n = 0
	for _, sp := range specs {
		f := fn(c, sp.leave)
		if f == nil {
			continue
		}
		recv := f.Params[0]
		need := map[string]bool{}
		switch sp.kind {
		case "tcp":
			need = map[string]bool{"close-chan": true, "close-endpoint": true, "release-port": true, "remove-group": true}
		case "tcpmux":
			need = map[string]bool{"close-chan": true, "close-endpoint": true, "remove-group": true}
		case "http":
			need = map[string]bool{"route-del": true}
		}
		n++
		c.AllPaths(sp.leave, engine.PathCheck{Fn: f, Sink: engine.IsReturn,
			Event: func(in ssa.Instruction) string {
				call, ok := in.(ssa.CallInstruction)
				if !ok {
					return ""
				}
				if _, isDefer := in.(*ssa.Defer); isDefer {
					return ""
				}
				if b, ok := call.Common().Value.(*ssa.Builtin); ok && b.Name() == "close" {
					return "close-chan"
				}
				o := engine.CalleeObj(call)
				if o == nil {
					return ""
				}
				switch {
				case o.Name() == "Close" && isCloserClose(call):
					return "close-endpoint"
				case o.Name() == "Release":
					return "release-port"
				case o.Name() == "RemoveGroup":
					return "remove-group"
				case o.Name() == "Del" && o.Pkg() != nil && strings.HasSuffix(o.Pkg().Path(), "vhost"):
					return "route-del"
				}
				return ""
			},
			Pred: func(st *engine.PathState) string {
				empty := false
				for _, l := range st.Lits {
					if arg, ok := lenIsZero(l); ok {
						if lf, b := engine.LoadedField(arg); lf != nil && lf.Name() == sp.members && b == ssa.Value(recv) {
							empty = true
						}
					}
				}
				if !empty {
					for _, e := range st.Events {
						if need[e.Tag] {
							return "the group's endpoint is torn down (" + e.Tag + ") although members remain"
						}
					}
					return ""
				}
				var missing []string
				for k := range need {
					if !st.HasEvent(k) {
						missing = append(missing, k)
					}
				}
				sort.Strings(missing)
				if len(missing) > 0 {
					return "the last member left but these teardown steps are missing: " + strings.Join(missing, ", ")
				}
				return ""
			}}, "last leave tears the endpoint down; earlier leaves do not")
	}
	// http: the controller deletes the group when UnRegister reported empty, under its lock
	if f := fn(c, "server/group.HTTPGroupController.UnRegister"); f != nil {
		unreg := method(c, "server/group", "HTTPGroup", "UnRegister")
		n++
		hasDel := false
		engine.ForEachInstr(f, func(in ssa.Instruction) {
			call, ok := in.(ssa.CallInstruction)
			if !ok {
				return
			}
			if b, ok := call.Common().Value.(*ssa.Builtin); ok && b.Name() == "delete" {
				hasDel = true
				c.AllPaths("server/group.HTTPGroupController.UnRegister>remove-group", engine.PathCheck{Fn: f, Sink: engine.Is(in), Pred: func(st *engine.PathState) string {
					if v, k := st.Truth(resultOf(unreg)); !(k && v) {
						return "the http group is removed from the controller although it still has members"
					}
					return ""
				}}, "http group removed only when empty")
			}
		})
		if !hasDel {
			c.Violate("server/group.HTTPGroupController.UnRegister>remove-group", f.Pos(), nil, "an empty http group is never removed from the controller")
		}
	}
	// released port is the acquired one
	checkTruePortChain(c, "R3b")
	c.Floor(n, 4)

	// ---- R4 ----
	c.Rule("R4", "a member's Accept returns an error both when its own close channel is closed and when the group's hand-off channel is closed (comma-ok receive)")
	n = 0
	for _, sym := range []string{"server/group.TCPGroupListener.Accept", "server/group.TCPMuxGroupListener.Accept"} {
		f := fn(c, sym)
		if f == nil {
			continue
		}
		n++
		var sel *ssa.Select
		engine.ForEachInstr(f, func(in ssa.Instruction) {
			if s, ok := in.(*ssa.Select); ok {
				sel = s
			}
		})
		okShape := sel != nil && sel.Blocking && len(sel.States) == 2
		commaOK := false
		if sel != nil {
			// a comma-ok receive makes go/ssa extract the ok flag: an Extract of the select with bool type beyond index 1
			if refs := sel.Referrers(); refs != nil {
				for _, r := range *refs {
					if ex, ok := r.(*ssa.Extract); ok && ex.Index == 1 {
						commaOK = true
					}
				}
			}
		}
		c.Check(okShape && commaOK, sym, f.Pos(), 2, nil, "Accept selects on the member's close channel and on the group's hand-off channel, and checks the receive's ok flag")
	}
	c.Floor(n, 2)

	// ---- R5 ----
	c.Rule("R5", "http group rotation: index from atomic.AddUint64, taken modulo len(pxyNames) only when members exist, under the group's read lock")
	n = 0
	for _, sym := range []string{"server/group.HTTPGroup.createConn", "server/group.HTTPGroup.chooseEndpoint"} {
		f := fn(c, sym)
		if f == nil {
			continue
		}
		engine.ForEachInstr(f, func(in ssa.Instruction) {
			bo, ok := in.(*ssa.BinOp)
			if !ok || bo.Op != token.REM {
				return
			}
			n++
			src := engine.Provenance(bo.X, engine.ProvOpts{})
			atomicIdx := false
			for k := range src.Calls {
				if k.Pkg() != nil && k.Pkg().Path() == "sync/atomic" && k.Name() == "AddUint64" {
					atomicIdx = true
				}
			}
			held := li.HeldAt(in)
			c.AllPaths(sym+">rotation", engine.PathCheck{Fn: f, Sink: engine.Is(in), Pred: func(st *engine.PathState) string {
				if !atomicIdx {
					return "the rotation index is not an atomic counter"
				}
				if len(held) == 0 {
					return "the member list is indexed without the group's lock"
				}
				pos := false
				for _, l := range st.Lits {
					x, y, op := l.X, l.Y, l.Op
					if lc, ok := x.(*ssa.Call); ok {
						if b, ok := lc.Call.Value.(*ssa.Builtin); ok && b.Name() == "len" {
							if !l.Val {
								op = negOrd(op)
							}
							if z, ok := engine.ConstInt(y); ok && ((op == token.GTR && z == 0) || (op == token.GEQ && z == 1)) {
								pos = true
							}
						}
					}
				}
				if !pos {
					return "modulo by the member count without having found it positive (division by zero when the last member just left)"
				}
				return ""
			}}, "rotation index = atomic counter mod len(members), members > 0, under the lock")
		})
	}
	c.Floor(n, 2)

	// ---- R6 ----
	c.Rule("R6", "join vs last-leave atomicity: the controller's get-or-create and the group's member add run under a lock that remove-when-empty also takes")
	n = 0
	for _, sp := range specs {
		f := fn(c, sp.ctlJoin)
		ji := infos[sp.kind]
		if f == nil || ji == nil {
			continue
		}
		for _, call := range engine.CallsTo(f, ji.f.Object().(*types.Func)) {
			n++
			held := li.HeldAt(call)
			c.Check(len(held) > 0, sp.ctlJoin, call.Pos(), 2, []string{"locks held at the call: " + strings.Join(held.Names(), ",")},
				"the controller still holds its lock when the group's join method runs; otherwise a join can land on a group that the last leave has just emptied and unmapped (the proxy registers on an orphaned group: later joins of the same group are refused or split, an http route is never unregistered)")
		}
	}
	c.Floor(n, 3)

	// ---- R7 the connection-pool key includes the chosen group member (shared with C02.R4): otherwise idle backend
	// connections are reused across members and a departed member keeps answering ----
	checkPoolKey(c, "R7")

	// ---- R8 channel typestate (shared with C16.R3): the groups' hand-off channels are closed once, and a closed
	// channel is reset where the object can be reused by an overlapping join ----
	c16ChannelsPrefixed(c, li, "R8")

	// ---- R9 lock order (shared with C16.R11): "no ordering of joins and leaves can bring the server down" — the
	// controller lock and the group lock are never taken in both orders ----
	c16LockOrder(c, li, "R9")

	// ---- R10 the group tables are accessed under their locks (shared with C16.R1) ----
	c16MapsRule(c, li, "R10")

	// ---- R11 the group's route is deleted under the key it was added under (shared with C06.R3) ----
	checkHostIndexLowered(c, "R11")

	// ---- R12 a start-up that fails after some joins succeeded leaves those groups again (shared with C10.R2): otherwise
	// the group keeps a member whose proxy never ran, and connections handed to it are lost ----
	checkRunRollbacks(c, "R12")

	// ---- R13 rotation never divides by an empty member list (shared with C16.R19) ----
	c16DivByLen(c, "R13")

	// ---- R14 a member that left its group stops accepting (shared with C11.R16) ----
	checkAcceptRetry(c, "R14")

	// ---- R15 ----
	checkRotationOrder(c, "R15")

	// ---- R16 a connection is handed to a listener the registry holds now, not to a memo of a departed group (shared with C06.R13) ----
	checkFreshLookup(c, "R16")

	// ---- R17 ----
	checkGroupRemovedOnlyWhenEmpty(c, "R17")
}

// identityWidth: how many basic values a group identity slot holds — 1 for a basic field, n for a struct of n basic
// fields (compared with == as a whole), 0 for anything else.
func identityWidth(t types.Type) int {
	switch u := t.Underlying().(type) {
	case *types.Basic:
		return 1
	case *types.Struct:
		for i := 0; i < u.NumFields(); i++ {
			if _, ok := u.Field(i).Type().Underlying().(*types.Basic); !ok {
				return 0
			}
		}
		return u.NumFields()
	}
	return 0
}

// checkCleanupAfterAcquire (C13.R2 second half, also C10.R10): a closure that releases a registration is queued for
// Close only on paths where the matching acquire call returned nil.
func checkCleanupAfterAcquire(c *engine.Ctx) int {
	p := c.P
	tab := buildResTable(c)
	n := 0
	for _, f := range p.RepoFuncs() {
		if f.Pkg == nil || !strings.HasSuffix(f.Pkg.Pkg.Path(), "/server/proxy") {
			continue
		}
		engine.ForEachInstr(f, func(in ssa.Instruction) {
			st, ok := in.(*ssa.Store)
			if !ok {
				return
			}
			fv, _ := engine.LoadedField(st.Addr)
			if fv == nil {
				return
			}
			sl, ok := fv.Type().Underlying().(*types.Slice)
			if !ok {
				return
			}
			if _, isSig := sl.Elem().Underlying().(*types.Signature); !isSig {
				return
			}
			// closures flowing into the stored slice
			src := engine.Provenance(st.Val, engine.ProvOpts{})
			kinds := map[*resKind]bool{}
			for v := range src.Values {
				mc, ok := v.(*ssa.MakeClosure)
				if !ok {
					continue
				}
				cf, _ := mc.Fn.(*ssa.Function)
				if cf == nil {
					continue
				}
				engine.ForEachInstr(cf, func(x ssa.Instruction) {
					if call, ok := x.(ssa.CallInstruction); ok {
						for _, k := range tab.releaseKinds(engine.CalleeObj(call)) {
							kinds[k] = true
						}
					}
				})
			}
			for k := range kinds {
				k := k
				n++
				c.AllPaths(fmt.Sprintf("%s>queue-cleanup:%s#%d", p.FuncName(f), k.name, n), engine.PathCheck{Fn: f, Sink: engine.Is(in), KeepLoopFacts: true, Pred: func(ps *engine.PathState) string {
					for _, l := range ps.Lits {
						if l.Op != token.EQL || !l.Val {
							continue
						}
						x, y := l.X, l.Y
						if engine.IsNilConst(x) {
							x, y = y, x
						}
						if !engine.IsNilConst(y) {
							continue
						}
						cl, _ := engine.ResultOfCall(engine.Unwrap(x))
						if cl != nil && tab.acquireKind(engine.CalleeObj(cl)) == k {
							return ""
						}
					}
					return "a cleanup for " + k.name + " is queued on a path where the matching registration has not (yet) succeeded: if it is refused, Close undoes a registration that belongs to someone else"
				}}, "cleanup for %s queued only after its registration succeeded", k.name)
			}
		})
	}
	return n
}

// checkRotationOrder (R15): round-robin selection `xs[counter % len(xs)]` rotates only when xs keeps its order from
// one request to the next. A list rebuilt from a map on every request (maps.Keys, a range over the map) starts at a
// random position each time: the pick is still a live member but no longer a rotation. Such a list must be sorted
// before it is indexed.
func checkRotationOrder(c *engine.Ctx, rule string) {
	c.Rule(rule, "in server/group the sequence indexed by `counter % len(sequence)` is not produced from map iteration (maps.Keys/Values, range over a map) unless it is sorted first")
	p := c.P
	n := 0
	for _, f := range p.RepoFuncs() {
		if f.Pkg == nil || f.Pkg.Pkg.Path() != engine.ModPath+"/server/group" {
			continue
		}
		f := f
		engine.ForEachInstr(f, func(in ssa.Instruction) {
			bo, ok := in.(*ssa.BinOp)
			if !ok || bo.Op != token.REM {
				return
			}
			y := engine.Unwrap(bo.Y)
			for i := 0; i < 3; i++ {
				if cv, ok := y.(*ssa.Convert); ok {
					y = cv.X
				}
			}
			call, ok := y.(*ssa.Call)
			if !ok {
				return
			}
			if b, ok := call.Call.Value.(*ssa.Builtin); !ok || b.Name() != "len" {
				return
			}
			seq := call.Call.Args[0]
			if _, isSlice := seq.Type().Underlying().(*types.Slice); !isSlice {
				return
			}
			n++
			src := engine.DeepSources(p, seq)
			fromMap, sorted := "", false
			for o := range src.Calls {
				if o.Pkg() == nil {
					continue
				}
				switch o.Pkg().Path() {
				case "maps":
					fromMap = "maps." + o.Name()
				case "github.com/samber/lo":
					if o.Name() == "Keys" || o.Name() == "Values" {
						fromMap = "lo." + o.Name()
					}
				case "slices", "sort":
					if strings.HasPrefix(o.Name(), "Sort") || o.Name() == "Strings" {
						sorted = true
					}
				}
			}
			for v := range src.Values {
				if nx, ok := v.(*ssa.Next); ok && !nx.IsString {
					if r, ok := nx.Iter.(*ssa.Range); ok {
						if _, isMap := r.X.Type().Underlying().(*types.Map); isMap {
							fromMap = "a range over a map"
						}
					}
				}
			}
			// a sort applied to the sequence in place (slices.Sort(xs) / sort.Strings(xs)) anywhere in the function family
			if fromMap != "" && !sorted {
				for _, g := range append([]*ssa.Function{f}, allAnon(f)...) {
					engine.ForEachInstr(g, func(x ssa.Instruction) {
						if cl, ok := x.(*ssa.Call); ok {
							if o := engine.CalleeObj(cl); o != nil && o.Pkg() != nil && (o.Pkg().Path() == "slices" || o.Pkg().Path() == "sort") && (strings.HasPrefix(o.Name(), "Sort") || o.Name() == "Strings") {
								sorted = true
							}
						}
					})
				}
			}
			c.Check(fromMap == "" || sorted, fmt.Sprintf("%s>rotation-order#%d", p.FuncName(f), n), in.Pos(), len(src.Values), nil,
				"the rotated sequence %s has a stable order (it is produced by %s and not sorted: every request starts the sequence at a random member)", engine.Describe(seq), fromMap)
		})
	}
	c.Floor(n, 1)
}

// checkGroupRemovedOnlyWhenEmpty (R17, shared with C10.R20): a group object leaves its controller's table only when its
// last member has left — on a path that found the group empty (HTTPGroup.UnRegister reported true, or the member list
// has length zero), or inside a removal helper that only the leave functions call. A live group that is dropped from
// the table keeps its route / port but can no longer be found by UnRegister: the route is never deleted and every
// identical re-registration is refused.
func checkGroupRemovedOnlyWhenEmpty(c *engine.Ctx, rule string) {
	c.Rule(rule, "every delete from a group controller's groups table happens where the group was found empty (UnRegister returned true / len(members) == 0) or in a helper called only from the groups' leave functions (CloseListener)")
	p := c.P
	n := 0
	callers := map[*ssa.Function][]*ssa.Function{}
	for _, f := range p.RepoFuncs() {
		f := f
		engine.ForEachInstr(f, func(in ssa.Instruction) {
			if call, ok := in.(ssa.CallInstruction); ok {
				if cf := engine.CalleeFn(call); cf != nil && cf.Blocks != nil {
					callers[cf] = append(callers[cf], f)
				} else if call.Common().IsInvoke() {
					// through an interface this module declares for exactly one implementation
					if m := call.Common().Method; m != nil && m.Pkg() != nil && engine.IsRepoPkg(m.Pkg().Path()) {
						if impls := p.Implementations(m); len(impls) == 1 {
							callers[impls[0]] = append(callers[impls[0]], f)
						}
					}
				}
			}
		})
	}
	for _, f := range p.RepoFuncs() {
		if f.Pkg == nil || f.Pkg.Pkg.Path() != engine.ModPath+"/server/group" {
			continue
		}
		f := f
		engine.ForEachInstr(f, func(in ssa.Instruction) {
			call, ok := in.(*ssa.Call)
			if !ok {
				return
			}
			b, ok := call.Call.Value.(*ssa.Builtin)
			if !ok || b.Name() != "delete" {
				return
			}
			fv, _ := engine.LoadedField(call.Call.Args[0])
			if fv == nil || fv.Name() != "groups" {
				return
			}
			n++
			// (a) a removal helper of the leave functions
			cs := callers[f]
			onlyLeaves := len(cs) > 0
			var isLeave func(g *ssa.Function, d int) bool
			isLeave = func(g *ssa.Function, d int) bool {
				for g.Parent() != nil {
					g = g.Parent()
				}
				if g.Name() == "CloseListener" {
					return true
				}
				// a step split out of the leave function (unexported, called only by leave functions)
				o, ok := g.Object().(*types.Func)
				if !ok || o.Exported() || d > 2 || len(callers[g]) == 0 {
					return false
				}
				for _, cg := range callers[g] {
					if !isLeave(cg, d+1) {
						return false
					}
				}
				return true
			}
			for _, cf := range cs {
				if !isLeave(cf, 0) {
					onlyLeaves = false
				}
			}
			if onlyLeaves {
				c.Hold(p.FuncName(f)+">delete-group", in.Pos(), len(cs), nil, "removal helper called only by CloseListener (which C13.R3 checks for emptiness)")
				return
			}
			// (b) emptiness established on the path
			c.AllPaths(p.FuncName(f)+">delete-group", engine.PathCheck{Fn: f, Sink: engine.Is(in), Pred: func(st *engine.PathState) string {
				for _, l := range st.Lits {
					if _, ok := lenIsZero(l); ok {
						return ""
					}
					if l.Op == token.ILLEGAL && l.Val {
						if cl, _ := engine.ResultOfCall(l.X); cl != nil {
							if o := engine.CalleeObj(cl); o != nil && o.Name() == "UnRegister" {
								return ""
							}
						}
					}
				}
				return "a group is removed from the controller's table on a path that did not find it empty: a live group (it owns the route and has members) becomes unreachable for UnRegister"
			}}, "group removed only when empty")
		})
	}
	c.Floor(n, 2)
}
