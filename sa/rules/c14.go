package rules

import (
	"fmt"
	"go/token"
	"go/types"
	"sort"
	"strings"

	"golang.org/x/tools/go/ssa"

	"frpsa/engine"
)

func init() {
	Registry["C14"] = &Property{
		Title:       "Dead peers are detected and tunnels heal themselves",
		Run:         runC14,
		Explanation: "Decides the shape of liveness detection and reconnection: (R1) on both ends a once-per-second watchdog closes the control connection exactly when time.Since(last valid heartbeat) exceeds the configured timeout, is started unconditionally by the session worker and is disabled only for a non-positive timeout; (R2) the liveness timestamp is refreshed only by verified heartbeats (server: shared with C04.R4; client: a Pong without error; a Pong with error closes the session); (R3) the client sends authenticated pings from a back-off loop whose period is the configured interval, only when the interval is positive; (R4) every back-off configuration used for login and re-login has positive base and maximum delays and BackoffUntil waits for the ticker or the stop channel in every iteration; (R5) the re-login loop never gives up (firstLoginExit=false), waits for the current session to end, and the new control is built with the configuration current at that time and re-sends all registrations; (R6) the session teardown triggered by a closed connection is complete (shared with C10.R4) and the dispatcher's read loop ends the session on any read error. Not decided: timing bounds ('within timeout + constant', 'bounded delay'), never-torn-down-while-alive.",
		Assumptions: commonAssumptions,
	}
}

func runC14(c *engine.Ctx) {
	p := c.P
	until := funcObj(c, "pkg/util/wait", "Until")
	backoffUntil := funcObj(c, "pkg/util/wait", "BackoffUntil")
	if until == nil || backoffUntil == nil {
		return
	}

	// ---- R1 watchdogs ----
	c.Rule("R1", "heartbeat watchdog on both ends: wait.Until(..., time.Second, doneCh) closes the connection exactly when time.Since(last heartbeat) > HeartbeatTimeout×Second; it is started unconditionally by the worker and skipped only for a non-positive timeout")
	n := 0
	for _, side := range []struct{ sym, stamp, workerSym string }{
		{"server.Control.heartbeatWorker", "lastPing", "server.Control.worker"},
		{"client.Control.heartbeatWorker", "lastPong", "client.Control.worker"},
	} {
		f := fn(c, side.sym)
		if f == nil {
			continue
		}
		for _, call := range engine.CallsTo(f, until) {
			n++
			args := engine.CallArgs(call)
			period, isC := engine.ConstInt(args[1])
			okPeriod := isC && period == 1_000_000_000
			stopSrc := engine.Provenance(args[2], engine.ProvOpts{})
			okStop := false
			doneF := field(c, strings.Split(side.sym, ".")[0], "Control", "doneCh")
			for fv := range stopSrc.Fields {
				if fv == doneF {
					okStop = true
				}
			}
			c.Check(okPeriod && okStop, side.sym+">period", call.Pos(), 2, nil, "watchdog runs every second until the session's doneCh closes (period ok=%v, stop channel ok=%v)", okPeriod, okStop)
			// enabled unless timeout <= 0
			n++
			c.AllPaths(side.sym+">enabled", engine.PathCheck{Fn: f, Sink: engine.IsReturn,
				Event: func(in ssa.Instruction) string {
					if in == ssa.Instruction(call) {
						return "watchdog"
					}
					return ""
				},
				Pred: func(st *engine.PathState) string {
					if st.HasEvent("watchdog") {
						return ""
					}
					// not started: some heartbeat setting must have been found non-positive
					for _, l := range st.Lits {
						lf, _ := engine.LoadedField(l.X)
						if lf == nil || !(lf.Name() == "HeartbeatTimeout" || lf.Name() == "HeartbeatInterval") {
							continue
						}
						z, ok := engine.ConstInt(l.Y)
						if !ok || z != 0 {
							continue
						}
						op := l.Op
						if !l.Val {
							op = negOrd(op)
						}
						if op == token.LEQ {
							return ""
						}
					}
					return "the watchdog is not started on a path where the heartbeat timeout is positive: a silent peer is never detected"
				}}, "watchdog started whenever heartbeats are enabled")
			// the closure
			cl := funcValueOf(c.P, args[0]) // closure literal or method value
			if cl == nil || cl.Blocks == nil {
				c.Undecide(side.sym+">closure", call.Pos(), "watchdog body is not a statically known function")
				continue
			}
			n++
			isClose := func(in ssa.Instruction) bool {
				cc, ok := in.(ssa.CallInstruction)
				if !ok {
					return false
				}
				o := engine.CalleeObj(cc)
				return o != nil && (o.Name() == "Close" || engine.SameFunc(o, c.P.MethodObj("client", "Control", "closeSession")))
			}
			closes := 0
			engine.ForEachInstr(cl, func(in ssa.Instruction) {
				if !isClose(in) {
					return
				}
				closes++
				c.AllPaths(side.sym+">fires", engine.PathCheck{Fn: cl, Sink: engine.Is(in), Pred: func(st *engine.PathState) string {
					scaled := true
					found := st.Ordered(func(x ssa.Value, op token.Token, y ssa.Value) bool {
						if op != token.GTR {
							return false
						}
						sx := engine.Provenance(x, engine.ProvOpts{})
						sy := engine.Provenance(y, engine.ProvOpts{})
						since := false
						for k := range sx.Calls {
							if k.Pkg() != nil && k.Pkg().Path() == "time" && k.Name() == "Since" {
								since = true
							}
						}
						stamp, timeout := false, false
						for fv := range sx.Fields {
							if fv.Name() == side.stamp {
								stamp = true
							}
						}
						for fv := range sy.Fields {
							if fv.Name() == "HeartbeatTimeout" {
								timeout = true
							}
						}
						if !(since && stamp && timeout) {
							return false
						}
						scaled = false
						if bo, ok := y.(*ssa.BinOp); ok && bo.Op == token.MUL {
							if k, ok := engine.ConstInt(bo.Y); ok && k == 1_000_000_000 {
								scaled = true
							}
						}
						return true
					})
					if found {
						if !scaled {
							return "the timeout is not HeartbeatTimeout × time.Second"
						}
						return ""
					}
					return "the connection is closed on a path that did not find time.Since(" + side.stamp + ") > HeartbeatTimeout"
				}}, "connection closed exactly on heartbeat timeout")
			})
			if closes == 0 {
				c.Violate(side.sym+">fires", cl.Pos(), nil, "the watchdog never closes the connection")
			}
		}
		// started unconditionally by the worker
		if w := fn(c, side.workerSym); w != nil {
			n++
			started := false
			hb := p.FuncOf(p.MethodObj(strings.Split(side.sym, ".")[0], "Control", "heartbeatWorker"))
			for _, in := range w.Blocks[0].Instrs {
				if g, ok := in.(*ssa.Go); ok && engine.CalleeFn(g) == hb {
					started = true
				}
			}
			c.Check(started, side.workerSym+">starts-watchdog", w.Pos(), 1, nil, "the session worker starts the heartbeat worker unconditionally (in its entry block)")
		}
	}
	c.Floor(n, 4)

	// ---- R2 liveness refreshed only by valid traffic ----
	checkHeartbeatGate(c, "R2")
	c.Rule("R2b", "client: lastPong is refreshed only by a Pong without error; a Pong carrying an error closes the session")
	if f := fn(c, "client.Control.handlePong"); f != nil {
		errF := field(c, "pkg/msg", "Pong", "Error")
		lastPong := field(c, "client", "Control", "lastPong")
		closeS := method(c, "client", "Control", "closeSession")
		n = 0
		engine.ForEachInstr(f, func(in ssa.Instruction) {
			call, ok := in.(ssa.CallInstruction)
			if !ok {
				return
			}
			o := engine.CalleeObj(call)
			if o == nil || o.Name() != "Store" || len(engine.CallArgs(call)) == 0 {
				return
			}
			if lf, _ := engine.LoadedField(engine.CallArgs(call)[0]); lf != lastPong {
				return
			}
			n++
			c.AllPaths("client.Control.handlePong>refresh", engine.PathCheck{Fn: f, Sink: engine.Is(in), Pred: func(st *engine.PathState) string {
				eq, k := st.Equal(loadOfField(errF), func(v ssa.Value) bool { s, ok := engine.ConstString(v); return ok && s == "" })
				if !(k && eq) {
					return "the client refreshes its liveness on a Pong that carries an error (a server that rejects the heartbeat keeps the session alive)"
				}
				return ""
			}}, "lastPong refreshed only by an error-free Pong")
		})
		n++
		c.AllPaths("client.Control.handlePong>error-closes", engine.PathCheck{Fn: f, Sink: engine.IsReturn,
			Event: func(in ssa.Instruction) string {
				if engine.IsCallTo(in, closeS) {
					return "close"
				}
				return ""
			},
			Pred: func(st *engine.PathState) string {
				eq, k := st.Equal(loadOfField(errF), func(v ssa.Value) bool { s, ok := engine.ConstString(v); return ok && s == "" })
				if k && !eq && !st.HasEvent("close") {
					return "a Pong carrying an error does not end the session"
				}
				return ""
			}}, "error Pong ⇒ session closed")
		c.Floor(n, 2)
	}

	// ---- R3 pings ----
	c.Rule("R3", "the client sends msg.Ping, after AuthSetter.SetPing succeeded, from a BackoffUntil loop whose period derives from HeartbeatInterval, only when the interval is positive")
	if f := fn(c, "client.Control.heartbeatWorker"); f != nil {
		n = 0
		for _, call := range engine.CallsTo(f, backoffUntil) {
			n++
			args := engine.CallArgs(call)
			src := engine.Provenance(args[1], engine.ProvOpts{})
			derives := false
			for fv := range src.Fields {
				if fv.Name() == "HeartbeatInterval" {
					derives = true
				}
			}
			c.AllPaths("client.Control.heartbeatWorker>ping-loop", engine.PathCheck{Fn: f, Sink: engine.Is(call), Pred: func(st *engine.PathState) string {
				if !derives {
					return "the ping period does not derive from HeartbeatInterval"
				}
				for _, l := range st.Lits {
					lf, _ := engine.LoadedField(l.X)
					if lf != nil && lf.Name() == "HeartbeatInterval" && l.Op == token.GTR && l.Val {
						if z, ok := engine.ConstInt(l.Y); ok && z == 0 {
							return ""
						}
					}
				}
				return "the ping loop is started without a positive HeartbeatInterval (a zero period is a tight loop)"
			}}, "ping loop period = HeartbeatInterval > 0")
			{
				if cl := funcValueOf(c.P, args[0]); cl != nil && cl.Blocks != nil { // closure literal or method value
					n++
					setPing := method(c, "pkg/auth", "Setter", "SetPing")
					send := method(c, "pkg/msg", "Dispatcher", "Send")
					sends := engine.CallsTo(cl, send)
					if len(sends) == 0 {
						c.Violate("client.Control.heartbeatWorker>ping-sent", cl.Pos(), nil, "the heartbeat closure never sends a Ping")
					}
					for _, s := range sends {
						c.AllPaths("client.Control.heartbeatWorker>ping-sent", engine.PathCheck{Fn: cl, Sink: engine.Is(s), Pred: func(st *engine.PathState) string {
							if v, k := st.IsNil(resultOf(setPing)); !(k && v) {
								return "a Ping is sent on a path where SetPing did not succeed (an unauthenticated heartbeat)"
							}
							src := engine.Provenance(engine.CallArgs(s)[1], engine.ProvOpts{})
							for v := range src.Values {
								if mi, ok := v.(*ssa.MakeInterface); ok && engine.IsNamed(mi.X.Type(), engine.ModPath+"/pkg/msg", "Ping") {
									return ""
								}
							}
							return "the message sent is not a Ping"
						}}, "Ping sent after SetPing succeeded")
					}
				}
			}
		}
		c.Floor(n, 2)
	}

	// ---- R4 back-off configurations ----
	c.Rule("R4", "every FastBackoffOptions used by the client has a positive Duration and MaxDuration (constants, or configuration values guarded > 0) and, with fast retries, a positive FastRetryDelay; BackoffUntil waits on the ticker or the stop channel in every iteration")
	n = 0
	optsT := p.Named("pkg/util/wait", "FastBackoffOptions")
	if optsT == nil {
		c.Missing("pkg/util/wait.FastBackoffOptions", "type not found")
	} else {
		for _, f := range p.RepoFuncs() {
			if f.Pkg == nil || !strings.HasSuffix(f.Pkg.Pkg.Path(), "/client") {
				continue
			}
			engine.ForEachInstr(f, func(in ssa.Instruction) {
				al, ok := in.(*ssa.Alloc)
				if !ok || engine.NamedOf(al.Type()) != optsT {
					return
				}
				n++
				vals := map[string]ssa.Value{}
				if refs := al.Referrers(); refs != nil {
					for _, r := range *refs {
						if fa, ok := r.(*ssa.FieldAddr); ok {
							if fr := fa.Referrers(); fr != nil {
								for _, u := range *fr {
									if st, ok := u.(*ssa.Store); ok && st.Addr == ssa.Value(fa) {
										if fv, _ := engine.LoadedField(fa); fv != nil {
											vals[fv.Name()] = st.Val
										}
									}
								}
							}
						}
					}
				}
				positive := func(v ssa.Value) (bool, string) {
					if v == nil {
						return false, "unset"
					}
					if k, ok := engine.ConstInt(v); ok {
						return k > 0, fmt.Sprint(k)
					}
					// derived from a parameter or a configuration field: accepted when it is a duration parameter of the
					// enclosing function (callers pass constants) or guarded positive on the way here
					src := engine.Provenance(v, engine.ProvOpts{})
					for fv := range src.Fields {
						if fv.Name() == "HeartbeatInterval" {
							return true, "HeartbeatInterval (guarded > 0 by R3)"
						}
					}
					if len(src.Params) > 0 {
						okAll := true
						for pr := range src.Params {
							// every static caller passes a positive constant
							root := pr.Parent()
							idx := -1
							for i, q := range root.Params {
								if q == pr {
									idx = i
								}
							}
							found := false
							for _, g := range p.RepoFuncs() {
								engine.ForEachInstr(g, func(x ssa.Instruction) {
									if cc, ok := x.(ssa.CallInstruction); ok && engine.CalleeFn(cc) == root && idx >= 0 {
										found = true
										as := cc.Common().Args
										if idx < len(as) {
											if k, ok := engine.ConstInt(as[idx]); !ok || k <= 0 {
												okAll = false
											}
										}
									}
								})
							}
							if !found {
								okAll = false
							}
						}
						return okAll, "parameter (all callers pass positive constants)"
					}
					return false, engine.Describe(v)
				}
				var bad []string
				for _, name := range []string{"Duration", "MaxDuration"} {
					if ok, why := positive(vals[name]); !ok {
						bad = append(bad, name+" not positive ("+why+")")
					}
				}
				if v, ok := vals["FastRetryCount"]; ok {
					if k, isC := engine.ConstInt(v); isC && k > 0 {
						if ok, why := positive(vals["FastRetryDelay"]); !ok {
							bad = append(bad, "FastRetryDelay not positive ("+why+")")
						}
						if ok, why := positive(vals["FastRetryWindow"]); !ok {
							bad = append(bad, "FastRetryWindow not positive ("+why+")")
						}
					}
				}
				c.Check(len(bad) == 0, fmt.Sprintf("%s>backoff#%d", p.FuncName(f), n), al.Pos(), len(vals), nil, "back-off options are positive (%s)", strings.Join(bad, "; "))
			})
		}
	}
	if bu := p.FuncOf(backoffUntil); bu != nil {
		n++
		// every loop iteration passes a blocking select with the ticker and the stop channel
		var sel *ssa.Select
		engine.ForEachInstr(bu, func(in ssa.Instruction) {
			if s, ok := in.(*ssa.Select); ok && s.Blocking && len(s.States) == 2 {
				sel = s
			}
		})
		okWait := false
		if sel != nil {
			if h := engine.LoopHeader(sel.Block()); h != nil {
				// the select post-dominates the call of f inside the loop: no `continue` skips it
				okWait = true
				engine.ForEachInstr(bu, func(in ssa.Instruction) {
					if j, ok := in.(*ssa.Jump); ok {
						if j.Block().Succs[0] == h && !sel.Block().Dominates(j.Block()) && j.Block() != sel.Block() {
							// a back edge that does not come after the select
							if h.Dominates(j.Block()) {
								okWait = false
							}
						}
					}
				})
			}
		}
		c.Check(okWait, "pkg/util/wait.BackoffUntil>waits", bu.Pos(), 2, nil, "each iteration of BackoffUntil blocks on the ticker or the stop channel before calling f again (no tight retry loop)")
	}
	c.Floor(n, 4)

	// ---- R5 re-login ----
	c.Rule("R5", "keepControllerWorking waits for the session to end and re-logs in with firstLoginExit=false (never gives up); the login closure builds the new control from the configuration read under cfgMu at that time and runs it with those proxies and visitors; Control.Run updates both managers")
	n = 0
	loginFn := clientLoginLoop(c)
	var loopLogin *types.Func
	var kf *ssa.Function
	if loginFn != nil {
		loopLogin, _ = loginFn.Object().(*types.Func)
		kf = clientSupervisor(c, loginFn)
	}
	if kf != nil && loopLogin != nil {
		kn := c.P.FuncName(kf)
		calls := engine.CallsToDeep(kf, loopLogin)
		for _, call := range calls {
			n++
			args := engine.CallArgs(call)
			b, isC := engine.ConstBool(args[len(args)-1])
			c.Check(isC && !b, kn+">never-gives-up", call.Pos(), 1, nil,
				"re-login passes firstLoginExit=false: a refused or failed re-login is retried, not turned into service exit")
		}
		n++
		done := method(c, "client", "Control", "Done")
		c.Check(len(engine.CallsToDeep(kf, done)) >= 2 && len(engine.CallsToDeep(kf, backoffUntil)) == 1, kn+">loop", kf.Pos(), 2, nil,
			"the loop waits for the current control to finish before and after each re-login, inside a back-off loop")
	}
	if lf := loginFn; lf != nil {
		ln := c.P.FuncName(lf)
		ctlRun := method(c, "client", "Control", "Run")
		pcF := field(c, "client", "Service", "proxyCfgs")
		vcF := field(c, "client", "Service", "visitorCfgs")
		for _, call := range engine.CallsToDeep(lf, ctlRun) {
			n++
			args := engine.CallArgs(call)
			s1 := engine.Provenance(args[1], engine.ProvOpts{})
			s2 := engine.Provenance(args[2], engine.ProvOpts{})
			c.Check(s1.HasField(pcF) && s2.HasField(vcF), ln+">current-config", call.Pos(), 2, nil,
				"the new control is run with the service's current proxy and visitor configurations")
			// ... read at the time of this login attempt: the loads of the two fields happen in the function that
			// starts the control (the retried login closure), not once before the retry loop
			n++
			stale := ""
			for i, fv := range []*types.Var{pcF, vcF} {
				for v := range []*engine.Sources{s1, s2}[i].Values {
					if lf, _ := engine.LoadedField(v); lf == fv {
						if in, ok := v.(ssa.Instruction); ok && in.Parent() != call.Parent() {
							stale = fv.Name() + " is read in " + c.P.FuncName(in.Parent()) + ", outside the login attempt that uses it"
						}
					}
				}
			}
			c.Check(stale == "", ln+">config-read-per-attempt", call.Pos(), 2, nil,
				"the configuration handed to the new control is read when the login succeeds (a reload during an outage is not lost) %s", stale)
		}
	}
	if rf := fn(c, "client.Control.Run"); rf != nil {
		n++
		pmU := method(c, "client/proxy", "Manager", "UpdateAll")
		vmU := method(c, "client/visitor", "Manager", "UpdateAll")
		c.Check(len(engine.CallsTo(rf, pmU)) == 1 && len(engine.CallsTo(rf, vmU)) == 1, "client.Control.Run>re-register", rf.Pos(), 2, nil,
			"a new session re-sends every configured proxy and visitor")
	}
	c.Floor(n, 4)

	// ---- R6 teardown ----
	c.Rule("R6", "a closed control connection ends the dispatcher's read loop (doneCh closed on any read error) and the server-side teardown is complete")
	checkReadLoopEndsBody(c)
	checkWorkerTeardown(c)
	_ = types.Universe

	// ---- R7 closing the control connection wakes its reader on every transport (shared with C01.R10): the heartbeat
	// watchdog tears a session down by closing the connection; over QUIC that works only if Close aborts the receive side ----
	checkGracefulClose(c, "R7")

	// ---- R8 the late cleanup of a replaced session never removes its successor (shared with C12.R2): otherwise the
	// healed session looks alive but every work connection is refused until the next connection loss ----
	checkDelIfSame(c, "R8")

	// ---- R9 a refused or unanswered registration is retried after its timeout (shared with C19.R4) ----
	c.Rule("R9", "every store of a phase constant to WorkingStatus.Phase happens on paths that restrict the current phase to the legal predecessors of that constant (a start error is retried after startErrTimeout, a lost answer after waitResponseTimeout)")
	checkPhaseStores(c)

	// ---- R12 every (re)connect dials the configured server address ----
	c.Rule("R12", "the address the client connector dials is built from the configured ServerAddr and ServerPort only: it does not come out of package-level state (a resolver cache outlives the server's move to another address)")
	{
		saF := field(c, "pkg/config/v1", "ClientCommonConfig", "ServerAddr")
		k := 0
		for _, f := range c.P.RepoFuncs() {
			if f.Pkg == nil || !strings.HasSuffix(f.Pkg.Pkg.Path(), "/client") {
				continue
			}
			engine.ForEachInstr(f, func(in ssa.Instruction) {
				call, ok := in.(*ssa.Call)
				if !ok {
					return
				}
				o := engine.CalleeObj(call)
				if o == nil || o.Pkg() == nil {
					return
				}
				isDial := (strings.HasSuffix(o.Pkg().Path(), "golib/net") && strings.HasPrefix(o.Name(), "Dial")) || (strings.HasSuffix(o.Pkg().Path(), "quic-go") && o.Name() == "DialAddr")
				if !isDial {
					return
				}
				for _, a := range engine.CallArgs(call) {
					if b, isB := a.Type().Underlying().(*types.Basic); !isB || b.Kind() != types.String {
						continue
					}
					src := engine.DeepSources(c.P, a)
					if saF == nil || !src.HasField(saF) {
						continue
					}
					k++
					var globals []string
					for g := range src.Globals {
						if g.Pkg != nil && engine.IsRepoPkg(g.Pkg.Pkg.Path()) {
							globals = append(globals, g.Name())
						}
					}
					sort.Strings(globals)
					c.Check(len(globals) == 0, c.P.FuncName(f)+">dial-address", in.Pos(), len(src.Values), globals,
						"the dialled address derives from the configuration only (package-level state involved: %s)", strings.Join(globals, ", "))
				}
			})
		}
		c.Floor(k, 2)
	}

	// ---- R10 ----
	checkOIDCSubjects(c, "R10")
	// ---- R11 ----
	checkLocalStartFailure(c, "R11")
	// ---- R13 a failed login is retried, not a panic on the retry goroutine (shared with C16.R26) ----
	checkDeferredUseOfResult(c, "R13")
	// ---- R14 a peer that keeps sending heartbeats keeps getting answers (shared with C16.R27) ----
	checkDeadlineCleared(c, "R14")
	// ---- R15 a torn-down session leaves nothing registered (shared with C16.R28) ----
	checkSyncStateHandlers(c, "R15")
	// ---- R16 a refused login leaves nothing in the control manager (shared with C04.R6): the next login would wait for it ----
	checkRefusalBeforeState(c, "R16")
}

// checkOIDCSubjects: the OIDC verifier is shared by all sessions of the server; VerifyLogin records the subject of every
// login and VerifyPing / VerifyNewWorkConn accept a subject that is in that set. The set may only grow by appending to
// itself: replacing it with the latest subject makes every other session's valid heartbeats fail.
func checkOIDCSubjects(c *engine.Ctx, rule string) {
	c.Rule(rule, "OidcAuthConsumer.VerifyLogin extends subjectsFromLogin by appending to the full existing slice (never truncates or replaces it)")
	f := fn(c, "pkg/auth.OidcAuthConsumer.VerifyLogin")
	sf := field(c, "pkg/auth", "OidcAuthConsumer", "subjectsFromLogin")
	if f == nil || sf == nil {
		return
	}
	n := 0
	for _, g := range allFuncsOfPkg(f.Pkg) {
		engine.ForEachInstr(g, func(in ssa.Instruction) {
			st, ok := in.(*ssa.Store)
			if !ok {
				return
			}
			lf, base := engine.LoadedField(st.Addr)
			if lf != sf {
				return
			}
			if _, fresh := engine.Unwrap(base).(*ssa.Alloc); fresh {
				return // initialisation of a verifier under construction
			}
			n++
			okApp := false
			if call, ok := st.Val.(*ssa.Call); ok {
				if b, ok := call.Call.Value.(*ssa.Builtin); ok && b.Name() == "append" {
					// first operand: the field itself, unsliced
					if lf, _ := engine.LoadedField(call.Call.Args[0]); lf == sf {
						okApp = true
					}
				}
			}
			c.Check(okApp, c.P.FuncName(g)+">subjects", in.Pos(), 1, []string{"stored: " + engine.Describe(st.Val)},
				"the set of logged-in subjects is extended with append(subjectsFromLogin, …)")
		})
	}
	c.Floor(n, 1)
}

// checkLocalStartFailure (C14.R11 = C19.R9): when the server accepted a registration but the local side cannot start
// (Proxy.Run fails), the wrapper withdraws the registration (close → CloseProxy) before it records the start error, and it
// never becomes 'running' on such a path; otherwise the server keeps the name and every retry is answered 'already exists'.
func checkLocalStartFailure(c *engine.Ctx, rule string) {
	c.Rule(rule, "Wrapper.SetRunningStatus: on every path where Proxy.Run returned an error the registration is withdrawn (close) before the function returns, and the phase does not become 'running'")
	f := fn(c, "client/proxy.Wrapper.SetRunningStatus")
	runO := method(c, "client/proxy", "Proxy", "Run")
	closeO := method(c, "client/proxy", "Wrapper", "close")
	phaseF := field(c, "client/proxy", "WorkingStatus", "Phase")
	if f == nil || runO == nil || closeO == nil || phaseF == nil {
		return
	}
	n := 0
	for _, rc := range engine.CallsTo(f, runO) {
		n++
		rv := rc.Value()
		c.AllPaths("client/proxy.Wrapper.SetRunningStatus>local-start-failure", engine.PathCheck{Fn: f, From: rc, Sink: engine.IsReturn,
			Event: func(in ssa.Instruction) string {
				if engine.IsCallTo(in, closeO) {
					return "close"
				}
				if st, ok := in.(*ssa.Store); ok {
					if lf, _ := engine.LoadedField(st.Addr); lf == phaseF {
						if s, ok := engine.ConstString(st.Val); ok && s == "running" {
							return "running"
						}
					}
				}
				return ""
			},
			Pred: func(st *engine.PathState) string {
				isNil, known := st.IsNil(func(v ssa.Value) bool { return rv != nil && v == rv })
				if !known {
					return "the result of Proxy.Run is not examined"
				}
				if isNil {
					return ""
				}
				if st.HasEvent("running") {
					return "the proxy is reported running although its local start failed"
				}
				if !st.HasEvent("close") {
					return "the local start failed and the registration the server already accepted is not withdrawn: the name stays taken and every retry is refused"
				}
				return ""
			}}, "Run error ⇒ close, never running")
	}
	c.Floor(n, 1)
}

// checkReadLoopEnds (C17.R11 = the first half of C14.R6): any error of ReadMsg — EOF, an oversized frame, an unknown type
// byte, undecodable JSON — ends the dispatcher's read loop and closes doneCh. After a framing or type error the stream
// position is undefined, so "skip and continue" would decode garbage as messages.
func checkReadLoopEnds(c *engine.Ctx, rule string) {
	c.Rule(rule, "Dispatcher.readLoop: every error returned by ReadMsg (whatever its kind) closes doneCh and ends the loop; the loop ends only on such an error")
	checkReadLoopEndsBody(c)
}

func checkReadLoopEndsBody(c *engine.Ctx) {
	if rl := fn(c, "pkg/msg.Dispatcher.readLoop"); rl != nil {
		readMsg := funcObj(c, "pkg/msg", "ReadMsg")
		doneF := field(c, "pkg/msg", "Dispatcher", "doneCh")
		for _, rc := range engine.CallsTo(rl, readMsg) {
			call := rc.(*ssa.Call)
			c.AllPaths("pkg/msg.Dispatcher.readLoop>error-ends", engine.PathCheck{Fn: rl, From: call, KeepLoopFacts: true,
				Sink: func(in ssa.Instruction) bool { return engine.IsReturn(in) || in == ssa.Instruction(call) },
				Event: func(in ssa.Instruction) string {
					if cc, ok := in.(ssa.CallInstruction); ok {
						if b, ok := cc.Common().Value.(*ssa.Builtin); ok && b.Name() == "close" {
							if lf, _ := engine.LoadedField(cc.Common().Args[0]); lf == doneF {
								return "done"
							}
						}
					}
					return ""
				},
				Pred: func(st *engine.PathState) string {
					isNil, known := st.IsNil(func(v ssa.Value) bool { cl, i := engine.ResultOfCall(v); return cl == call && i == 1 })
					if !known {
						return "the read error is not examined"
					}
					_, isRet := st.Sink.(*ssa.Return)
					if !isNil && !(isRet && st.HasEvent("done")) {
						return "a read error does not end the session (doneCh not closed, or the loop continues)"
					}
					if isNil && isRet {
						return "the read loop ends without an error"
					}
					return ""
				}}, "read error ⇒ doneCh closed and loop ends")
		}
	}
}
