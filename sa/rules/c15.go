package rules

import (
	"fmt"
	"go/token"
	"go/types"
	"sort"
	"strings"

	"golang.org/x/tools/go/ssa"

	"frpsa/engine"
)

func init() {
	Registry["C15"] = &Property{
		Title:       "Server plugins gate every operation, fail closed, and see each other's edits",
		Run:         runC15,
		Explanation: "Decides the shape of the plugin chain on the SSA form: (R1) each of the five gate methods of plugin.Manager ranges over the whole list that Register fills under IsSupport(op) for the very op constant it passes to Handle; on every path from the Handle call to the next iteration or to a success return the call's error is nil, Reject is false, and when Unchange is false the threaded content is the type-asserted returned content; a plugin error or a rejection returns a non-nil error; the loop is only left through its own condition (no break after the first plugin); (R2) Register appends to six distinct lists under six distinct op constants; (R3) the HTTP transport can return nil only as json.Unmarshal's result on a path with StatusCode==200, and Handle propagates a non-nil error; (R4) at the five call sites the gated action is reached only when the chain returned nil, and acts on the returned content; (R5) every Close of a registered proxy in server/control.go is followed by the CloseProxy notification. Not decided: behaviour of net/http (resets, timeouts) beyond error propagation; that handlers run in plugin registration order follows from append+range and is not separately checked.",
		Assumptions: commonAssumptions,
	}
}

type gateInfo struct {
	name     string
	fn       *ssa.Function
	list     *types.Var // list field ranged over
	op       string     // op constant passed to Handle
	handle   *ssa.Call
	contentT types.Type
	shared   bool // a chain function shared by the gate methods (list and op are its parameters)
}

func runC15(c *engine.Ctx) {
	p := c.P
	handleObj := method(c, "pkg/plugin/server", "Plugin", "Handle")
	isSupport := method(c, "pkg/plugin/server", "Plugin", "IsSupport")
	mgr := p.Named("pkg/plugin/server", "Manager")
	if handleObj == nil || isSupport == nil || mgr == nil {
		c.Missing("pkg/plugin/server.Manager", "plugin manager not found")
		return
	}
	rejectF := field(c, "pkg/plugin/server", "Response", "Reject")
	unchangeF := field(c, "pkg/plugin/server", "Response", "Unchange")
	if rejectF == nil || unchangeF == nil {
		return
	}

	// ---- R2 registration table (also feeds R1) ----
	c.Rule("R2", "Manager.Register appends the plugin to list L only under IsSupport(op_L); the six lists have six distinct op constants")
	regFn := fn(c, "pkg/plugin/server.Manager.Register")
	listOp := map[*types.Var]string{}
	if regFn != nil {
		engine.ForEachInstr(regFn, func(in ssa.Instruction) {
			st, ok := in.(*ssa.Store)
			if !ok {
				return
			}
			lf, base := engine.LoadedField(st.Addr)
			if lf == nil || base == nil || engine.NamedOf(base.Type()) != mgr {
				return
			}
			key := "pkg/plugin/server.Manager.Register>" + lf.Name()
			var op string
			okAll := c.AllPaths(key, engine.PathCheck{Fn: regFn, Sink: engine.Is(in), Pred: func(ps *engine.PathState) string {
				found := ""
				for _, l := range ps.Lits {
					if l.Op != token.ILLEGAL || !l.Val {
						continue
					}
					call, _ := engine.ResultOfCall(l.X)
					if call == nil || !engine.SameFunc(engine.CalleeObj(call), isSupport) {
						continue
					}
					if s, ok := engine.ConstString(call.Call.Args[0]); ok {
						found = s
					}
				}
				if found == "" {
					return "a plugin is appended to " + lf.Name() + " on a path without a successful IsSupport(op) test"
				}
				if op != "" && op != found {
					return "list " + lf.Name() + " is filled under two different ops"
				}
				op = found
				// the appended value is the list itself plus the plugin
				src := engine.Provenance(st.Val, engine.ProvOpts{})
				if !src.HasField(lf) {
					return "the value stored to " + lf.Name() + " is not an append to the same list"
				}
				return ""
			}}, "append to %s only under IsSupport of its op", lf.Name())
			if okAll {
				listOp[lf] = op
			}
		})
		if len(listOp) == 0 {
			registerTable(c, regFn, mgr, isSupport, listOp)
		}
		seen := map[string]string{}
		for lf, op := range listOp {
			if other, dup := seen[op]; dup {
				c.Violate("pkg/plugin/server.Manager.Register>distinct", regFn.Pos(), nil, "lists %s and %s are both filled under op %q", other, lf.Name(), op)
			}
			seen[op] = lf.Name()
		}
	}
	c.Floor(len(listOp), 6)

	// ---- R1 the five gate loops ----
	c.Rule("R1", "each gate method ranges over the list registered for the op it passes to Handle; error ⇒ non-nil return; Reject ⇒ non-nil return; !Unchange ⇒ content replaced by the returned content; the loop ends only by exhausting the list")
	var gates []*gateInfo
	sharedChains := map[*ssa.Function]bool{}
	for i := 0; i < mgr.NumMethods(); i++ {
		m := mgr.Method(i)
		f := p.FuncOf(m)
		if f == nil {
			continue
		}
		calls := engine.CallsTo(f, handleObj)
		sig := m.Type().(*types.Signature)
		if len(calls) == 0 && sig.Results().Len() == 2 {
			// the gate may delegate to a chain function shared by all gates (possibly generic): the method must hand it
			// its own list and the op that list is registered under; the shared loop is checked once
			for _, cc := range chainCalls(f, handleObj) {
				chain := engine.CalleeFn(cc)
				if o := chain.Origin(); o != nil {
					chain = o
				}
				name := "pkg/plugin/server.Manager." + m.Name()
				var lf *types.Var
				op := ""
				for _, a := range engine.CallArgs(cc) {
					if fv, _ := engine.LoadedField(a); fv != nil && listOp[fv] != "" {
						lf = fv
					}
					if s, ok := engine.ConstString(a); ok && op == "" {
						op = s
					}
				}
				want := ""
				if lf != nil {
					want = listOp[lf]
				}
				c.Check(lf != nil && op != "" && op == want, name+">list-op", cc.Pos(), 3, []string{fmt.Sprintf("delegates to %s with op %q", p.FuncName(chain), op)},
					"the gate hands the shared chain its own list, which Register fills under the op %q it passes", op)
				gd := &gateInfo{name: name, fn: f, op: op, list: lf}
				gates = append(gates, gd)
				if !sharedChains[chain] && len(engine.CallsTo(chain, handleObj)) == 1 {
					sharedChains[chain] = true
					hc, _ := engine.CallsTo(chain, handleObj)[0].(*ssa.Call)
					if hc != nil && len(chain.Params) >= 3 {
						var ct types.Type
						for _, pr := range chain.Params {
							if _, isPtr := pr.Type().Underlying().(*types.Pointer); isPtr {
								ct = pr.Type()
							}
						}
						checkGate(c, &gateInfo{name: "pkg/plugin/server." + chain.Name(), fn: chain, handle: hc, contentT: ct, shared: true}, listOp, rejectF, unchangeF)
					}
				}
			}
			continue
		}
		if len(calls) == 0 {
			continue
		}
		if sig.Results().Len() != 2 {
			continue // CloseProxy: notification, not a gate
		}
		name := "pkg/plugin/server.Manager." + m.Name()
		if len(calls) != 1 {
			c.Undecide(name, f.Pos(), "gate method with %d Handle calls: shape not recognised", len(calls))
			continue
		}
		call, ok := calls[0].(*ssa.Call)
		if !ok {
			c.Undecide(name, f.Pos(), "Handle is not an ordinary call")
			continue
		}
		g := &gateInfo{name: name, fn: f, handle: call, contentT: sig.Params().At(0).Type()}
		gates = append(gates, g)
		checkGate(c, g, listOp, rejectF, unchangeF)
	}
	ops := map[string]string{}
	for _, g := range gates {
		if g.op == "" {
			continue
		}
		if other, dup := ops[g.op]; dup {
			c.Violate("pkg/plugin/server.Manager>distinct-ops", g.fn.Pos(), nil, "%s and %s consult plugins for the same op %q", other, g.name, g.op)
		}
		ops[g.op] = g.name
	}
	c.Floor(len(gates), 5)

	// ---- R8 one list per method; R9 the close notification reaches every plugin ----
	checkOwnList(c, mgr, handleObj)
	checkCloseNotifiesAll(c, handleObj)
	checkAllPluginsRegistered(c)
	checkFreshDecodeTarget(c, "R11")

	// ---- R3 transport fails closed ----
	c.Rule("R3", "httpPlugin.do returns nil only as json.Unmarshal's result on a path with StatusCode==200; httpPlugin.Handle returns a non-nil error whenever do did")
	n := 0
	// the transport step is the httpPlugin method that performs http.Client.Do (found by what it does: "do" on the
	// confirmed tree)
	var do *ssa.Function
	if hp := c.P.Named("pkg/plugin/server", "httpPlugin"); hp != nil {
		var hit []*ssa.Function
		for _, f := range c.P.RepoFuncs() {
			if f.Parent() != nil || f.Signature.Recv() == nil || engine.NamedOf(f.Signature.Recv().Type()) != hp {
				continue
			}
			found := false
			engine.ForEachInstr(f, func(in ssa.Instruction) {
				if call, ok := in.(ssa.CallInstruction); ok {
					if o := engine.CalleeObj(call); o != nil && o.Pkg() != nil && o.Pkg().Path() == "net/http" && o.Name() == "Do" {
						found = true
					}
				}
			})
			if found {
				hit = append(hit, f)
			}
		}
		if len(hit) == 1 {
			do = hit[0]
		} else {
			c.Missing("pkg/plugin/server.httpPlugin.<transport>", "expected exactly one httpPlugin method performing http.Client.Do, found %d", len(hit))
		}
	} else {
		c.Missing("pkg/plugin/server.httpPlugin", "type not found")
	}
	if do != nil {
		n++
		c.AllPaths(c.P.FuncName(do), engine.PathCheck{Fn: do, Sink: engine.IsReturn, Pred: func(st *engine.PathState) string {
			r := st.Sink.(*ssa.Return)
			v := st.Resolve(r.Results[len(r.Results)-1])
			if nonNilOnPath(st, v) {
				return ""
			}
			call, _ := engine.ResultOfCall(v)
			if call != nil {
				if o := engine.CalleeObj(call); o != nil && o.Pkg() != nil && o.Pkg().Path() == "encoding/json" && o.Name() == "Unmarshal" {
					ok200 := false
					for _, l := range st.Lits {
						if l.Op != token.EQL || !l.Val {
							continue
						}
						x, y := l.X, l.Y
						if _, isC := x.(*ssa.Const); isC {
							x, y = y, x
						}
						fv, _ := engine.LoadedField(x)
						if n, ok := engine.ConstInt(y); ok && n == 200 && fv != nil && fv.Name() == "StatusCode" {
							ok200 = true
						}
					}
					if !ok200 {
						return "the plugin answer is decoded (and may be accepted) on a path that does not require HTTP status 200"
					}
					return ""
				}
			}
			return "httpPlugin.do may return nil (" + engine.Describe(v) + ") without a decoded 200 answer: an unreachable or failing plugin would allow the operation"
		}}, "nil only from json.Unmarshal behind StatusCode==200; every earlier failure returns its error")
	}
	if h := fn(c, "pkg/plugin/server.httpPlugin.Handle"); h != nil && do != nil && h != do {
		doObj, _ := do.Object().(*types.Func)
		n++
		c.AllPaths("pkg/plugin/server.httpPlugin.Handle", engine.PathCheck{Fn: h, Sink: engine.IsReturn, Pred: func(st *engine.PathState) string {
			r := st.Sink.(*ssa.Return)
			isNil, known := st.IsNil(resultOf(doObj))
			if known && isNil {
				return ""
			}
			if !known {
				return "Handle returns on a path that did not test the result of do"
			}
			if !nonNilOnPath(st, st.Resolve(r.Results[2])) {
				return "Handle swallows the transport error: a failing plugin would not refuse the operation"
			}
			return ""
		}}, "transport error propagated")
	}
	if do != nil && do.Name() == "Handle" {
		n++ // transport inlined into Handle: the first obligation covers both
	}
	c.Floor(n, 2)

	// ---- R4 call sites honour verdict and edit ----
	c.Rule("R4", "at each call site of a gate method the gated action is reached only when the chain returned nil, and acts on the content the chain returned")
	type site struct {
		fn, gate, action string
		actionObj        *types.Func
		useContent       bool
	}
	sites := []site{
		{"server.Service.handleConnection", "Login", "Service.RegisterControl", p.MethodObj("server", "Service", "RegisterControl"), true},
		{"server.Control.handleNewProxy", "NewProxy", "Control.RegisterProxy", p.MethodObj("server", "Control", "RegisterProxy"), true},
		{"server.Control.handlePing", "Ping", "Verifier.VerifyPing", p.MethodObj("pkg/auth", "Verifier", "VerifyPing"), true},
		{"server.Service.RegisterWorkConn", "NewWorkConn", "Verifier.VerifyNewWorkConn", p.MethodObj("pkg/auth", "Verifier", "VerifyNewWorkConn"), true},
		{"server/proxy.BaseProxy.handleUserTCPConnection", "NewUserConn", "BaseProxy.GetWorkConnFromPool", p.MethodObj("server/proxy", "BaseProxy", "GetWorkConnFromPool"), false},
	}
	n = 0
	for _, s0 := range sites {
		gateObj := p.MethodObj("pkg/plugin/server", "Manager", s0.gate)
		if gateObj == nil || s0.actionObj == nil {
			c.Missing(s0.fn+">"+s0.gate, "call site anchors not found")
			continue
		}
		// the call site is whichever function consults the gate (found by the call, not by name: handlers get split
		// and renamed); the gated action must be in that same function
		var hosts []*ssa.Function
		for _, g := range p.RepoFuncs() {
			if g.Pkg != nil && strings.HasSuffix(g.Pkg.Pkg.Path(), "/pkg/plugin/server") {
				continue
			}
			if len(engine.CallsTo(g, gateObj)) > 0 {
				hosts = append(hosts, g)
			}
		}
		if len(hosts) == 0 {
			c.Undecide(s0.fn+">"+s0.gate, token.NoPos, "nothing consults the %s plugin chain any more", s0.gate)
			continue
		}
		// the gate may have been split out into a step of its own (admit…()): then the function that calls that step
		// and performs the action is judged, with the step explored inline (its verdict literal is part of the path)
		var judged []*ssa.Function
		for _, g := range hosts {
			if len(engine.CallsTo(g, s0.actionObj)) > 0 {
				judged = append(judged, g)
				continue
			}
			found := false
			if gobj, _ := g.Object().(*types.Func); gobj != nil && !gobj.Exported() {
				for _, f := range allFuncsOfPkg(g.Pkg) {
					if len(engine.CallsTo(f, gobj)) > 0 && len(engine.CallsTo(f, s0.actionObj)) > 0 {
						judged = append(judged, f)
						found = true
					}
				}
			}
			if !found {
				judged = append(judged, g)
			}
		}
		for _, f := range judged {
			s := s0
			s.fn = p.FuncName(f)
			actions := engine.CallsTo(f, s.actionObj)
			if len(actions) == 0 {
				c.Undecide(s.fn+">"+s.gate, f.Pos(), "%s no longer calls the %s chain and %s together", s.fn, s.gate, s.action)
				continue
			}
			for _, act := range actions {
				n++
				key := s.fn + ">" + s.gate
				okp := c.AllPaths(key, engine.PathCheck{Fn: f, Sink: engine.Is(act), Pred: func(st *engine.PathState) string {
					if v, k := st.IsNil(extractOf(gateObj, 1)); !(k && v) {
						return fmt.Sprintf("%s is reached on a path where the %s plugin chain did not return nil (a rejecting or failing plugin is ignored)", s.action, s.gate)
					}
					return ""
				}}, "%s only after the %s chain returned nil", s.action, s.gate)
				if okp && s.useContent {
					args := engine.CallArgs(act)
					src := engine.Provenance(args[len(args)-1], engine.ProvOpts{NoArgs: true})
					// the message argument is the last one for VerifyX/RegisterProxy; RegisterControl has (conn, msg, internal)
					for _, a := range args[1:] {
						if engine.IsNamed(a.Type(), engine.ModPath+"/pkg/msg", "Login") {
							src = engine.Provenance(a, engine.ProvOpts{NoArgs: true})
						}
					}
					c.Check(src.HasCall(gateObj), key+">content", act.Pos(), len(src.Values), []string{"message argument: " + src.Summary()},
						"%s acts on the content returned by the %s chain (plugin edits are honoured)", s.action, s.gate)
				}
			}
		}
	}
	c.Floor(n, 5)

	// ---- R5 close notifications ----
	c.Rule("R5", "every Close of a registered proxy in server/control.go is followed, on every path, by the plugin CloseProxy notification")
	pxyClose := method(c, "server/proxy", "Proxy", "Close")
	plugClose := method(c, "pkg/plugin/server", "Manager", "CloseProxy")
	n = 0
	if pxyClose != nil && plugClose != nil {
		for _, sym := range []string{"server.Control.worker", "server.Control.CloseProxy"} {
			f := fn(c, sym)
			if f == nil {
				continue
			}
			type closeSite struct {
				host *ssa.Function
				cl   ssa.CallInstruction
			}
			var csites []closeSite
			for _, g := range append([]*ssa.Function{f}, allAnon(f)...) { // f and the steps split out of it
				for _, cl := range engine.CallsTo(g, pxyClose) {
					csites = append(csites, closeSite{g, cl})
				}
			}
			root := f
			for _, cs := range csites {
				cl, f := cs.cl, cs.host
				n++
				// a step split out of the function closes the proxy and leaves the notification to its caller: judge the
				// caller from the call of that step
				if f != root && f.Parent() == nil && len(engine.CallsToDeep(f, plugClose)) == 0 {
					step := f
					c.AllPaths(sym, engine.PathCheck{Fn: root, Sink: engine.IsReturn,
						Event: func(in ssa.Instruction) string {
							if in == cl.(ssa.Instruction) {
								return "closed" // reached inside the step when the path search explores it inline
							}
							call, ok := in.(ssa.CallInstruction)
							if !ok {
								return ""
							}
							if engine.IsCallTo(in, plugClose) {
								return "notify"
							}
							if cf := engine.CalleeFn(call); cf != nil && cf.Blocks != nil && cf.Pkg == root.Pkg && cf != step && len(engine.CallsToDeep(cf, plugClose)) > 0 {
								return "notify"
							}
							return ""
						},
						Pred: func(st *engine.PathState) string {
							if st.HasEvent("closed") && !st.HasEvent("notify") {
								return "a proxy is closed (in " + step.Name() + ") and no CloseProxy notification is sent on this path"
							}
							return ""
						}}, "proxy Close is always followed by the CloseProxy notification")
					continue
				}
				// the notification may be issued from a goroutine closure started on the path
				c.AllPaths(sym, engine.PathCheck{Fn: f, From: cl, KeepLoopFacts: true,
					Sink: func(in ssa.Instruction) bool { return engine.IsReturn(in) || in == cl },
					Event: func(in ssa.Instruction) string {
						call, ok := in.(ssa.CallInstruction)
						if !ok {
							return ""
						}
						if engine.IsCallTo(in, plugClose) {
							return "notify"
						}
						// a closure, or a same-package function / method (possibly started with `go`), that sends it
						if cf := engine.CalleeFn(call); cf != nil && cf.Blocks != nil && cf.Pkg == f.Pkg && len(engine.CallsToDeep(cf, plugClose)) > 0 {
							return "notify"
						}
						return ""
					},
					Pred: func(st *engine.PathState) string {
						if !st.HasEvent("notify") {
							return "a proxy is closed and no CloseProxy notification is sent on this path"
						}
						return ""
					}}, "proxy Close is always followed by the CloseProxy notification")
			}
		}
	}
	c.Floor(n, 2)

	c.Rule("R5b", "the CloseProxy notification names the proxy that was closed and uses a content value allocated for that proxy (not one shared across loop iterations and goroutines)")
	n = 0
	getName := method(c, "server/proxy", "Proxy", "GetName")
	nameF := field(c, "pkg/msg", "CloseProxy", "ProxyName")
	if pxyClose != nil && plugClose != nil && getName != nil && nameF != nil {
		for _, sym := range []string{"server.Control.worker", "server.Control.CloseProxy"} {
			f := fn(c, sym)
			if f == nil {
				continue
			}
			closes := engine.CallsTo(f, pxyClose)
			// the notification may be sent by f itself or by a same-package helper f calls (once per closed proxy)
			type site struct {
				host *ssa.Function
				nc   ssa.CallInstruction
			}
			var sites []site
			for _, host := range engine.HostsOfDeep(f, plugClose) {
				for _, nc := range engine.CallsToDeep(host, plugClose) {
					sites = append(sites, site{host, nc})
				}
			}
			for _, sx := range sites {
				nc, host := sx.nc, sx.host
				n++
				arg := engine.CallArgs(nc)[1]
				// resolve through the goroutine closure's free variable
				for i := 0; i < 4; i++ {
					v := engine.Unwrap(arg)
					if u, ok := v.(*ssa.UnOp); ok && u.Op == token.MUL {
						if fv, ok := u.X.(*ssa.FreeVar); ok {
							if b := engine.ClosureBinding(fv); b != nil {
								// the cell holding the content pointer: follow its single store
								if al, ok := b.(*ssa.Alloc); ok {
									if refs := al.Referrers(); refs != nil {
										for _, r := range *refs {
											if st, ok := r.(*ssa.Store); ok && st.Addr == al {
												arg = st.Val
											}
										}
									}
								}
								continue
							}
						}
					}
					if fv, ok := v.(*ssa.FreeVar); ok {
						if b := engine.ClosureBinding(fv); b != nil {
							arg = b
							continue
						}
					}
					break
				}
				if pr, isP := engine.Unwrap(arg).(*ssa.Parameter); isP && host != f {
					// the helper only forwards a content its caller built: judge the caller's value
					if hobj, _ := host.Object().(*types.Func); hobj != nil {
						for i, q := range host.Params {
							if q != pr {
								continue
							}
							for _, hc := range engine.CallsTo(f, hobj) {
								if i < len(hc.Common().Args) {
									arg = hc.Common().Args[i]
									host = f
								}
							}
						}
					}
				}
				al, ok := engine.Unwrap(arg).(*ssa.Alloc)
				key := sym + ">content"
				if !ok || !al.Heap {
					c.Undecide(key, nc.Pos(), "cannot identify the allocation of the notification content (found %s)", engine.Describe(arg))
					continue
				}
				okFresh := true
				why := ""
				if host == f {
					for _, cl := range closes {
						h := engine.LoopHeader(cl.Block())
						if h != nil && !h.Dominates(al.Block()) {
							okFresh = false
							why = "the content is allocated outside the loop that closes the proxies: all notifications share one value that the loop keeps overwriting"
						}
					}
				} else if al.Parent() != host && al.Parent().Parent() != host && host.Parent() != al.Parent() {
					okFresh, why = false, "the content is not allocated by the helper that sends it"
				} // else: allocated by the helper, hence once per call, i.e. per closed proxy
				// the name stored into the content derives from GetName of a closed proxy
				nameOK := false
				for _, sv := range nameStores(al, nameF) {
					src := engine.Provenance(sv, engine.ProvOpts{})
					if src.HasCall(getName) {
						nameOK = true
					}
					if host != f {
						// the helper's parameter stands for the caller's argument
						if hobj, _ := host.Object().(*types.Func); hobj != nil {
							for _, hc := range engine.CallsTo(f, hobj) {
								ok := false
								for i, pr := range host.Params {
									if src.Params[pr] && i < len(hc.Common().Args) {
										if engine.Provenance(hc.Common().Args[i], engine.ProvOpts{}).HasCall(getName) {
											ok = true
										}
									}
								}
								nameOK = ok
								if !ok {
									break
								}
							}
						}
					}
				}
				if !nameOK {
					// through whatever helpers carry the name (a notify(name) step): where the stored name comes from
					if s := engine.DeepSourcesOfField(c.P, al, nameF); s.HasCall(getName) {
						nameOK = true
					}
				}
				if okFresh && !nameOK {
					okFresh, why = false, "the notification's ProxyName is not the closed proxy's name"
				}
				if okFresh {
					c.Hold(key, nc.Pos(), 3, []string{"content allocated at " + c.P.Pos(al.Pos())}, "notification content is allocated per closed proxy and named after it")
				} else {
					c.Violate(key, nc.Pos(), []string{"content allocated at " + c.P.Pos(al.Pos())}, "%s", why)
				}
			}
		}
	}
	c.Floor(n, 2)

	// ---- R6 the Ping gate really gates (shared with C04.R4 / C14.R2): a heartbeat refused by the plugin chain must not
	// refresh the session's liveness ----
	checkHeartbeatGate(c, "R6")

	// ---- R7 the op names a configuration may use are exactly the ones Register files plugins under ----
	c.Rule("R7", "ValidateServerConfig accepts an http plugin's ops only by exact membership in SupportedHTTPPluginOps (no case folding): IsSupport, which Manager.Register uses to file a plugin under an operation, compares exactly, so a leniently accepted spelling registers the plugin for nothing and every operation passes unconsulted")
	if f := fn(c, "pkg/config/v1/validation.ValidateServerConfig"); f != nil {
		opsF := field(c, "pkg/config/v1", "HTTPPluginOptions", "Ops")
		exact, folded := 0, ""
		for _, g := range append([]*ssa.Function{f}, allAnon(f)...) {
			engine.ForEachInstr(g, func(in ssa.Instruction) {
				call, ok := in.(ssa.CallInstruction)
				if !ok {
					return
				}
				o := engine.CalleeObj(call)
				if o == nil || o.Pkg() == nil {
					return
				}
				if o.Pkg().Path() == "strings" && (o.Name() == "EqualFold" || o.Name() == "ToLower" || o.Name() == "ToUpper") {
					folded = o.Name() + " at " + c.P.Pos(in.Pos())
				}
				if (o.Name() == "Every" || o.Name() == "Contains") && opsF != nil {
					uses, sup := false, false
					for _, a := range call.Common().Args {
						src := engine.Provenance(a, engine.ProvOpts{})
						if src.HasField(opsF) {
							uses = true
						}
						for gl := range src.Globals {
							if gl.Name() == "SupportedHTTPPluginOps" {
								sup = true
							}
						}
					}
					if uses && sup {
						exact++
					}
				}
			})
		}
		c.Check(exact >= 1 && folded == "", "pkg/config/v1/validation.ValidateServerConfig>plugin-ops", f.Pos(), exact+1, nil,
			"plugin ops are validated by exact membership (exact tests: %d; case folding: %q)", exact, folded)
		// and the consumer compares exactly too
		if is := fn(c, "pkg/plugin/server.httpPlugin.IsSupport"); is != nil {
			fold := ""
			engine.ForEachInstr(is, func(in ssa.Instruction) {
				if call, ok := in.(ssa.CallInstruction); ok {
					if o := engine.CalleeObj(call); o != nil && o.Pkg() != nil && o.Pkg().Path() == "strings" && (o.Name() == "EqualFold" || o.Name() == "ToLower" || o.Name() == "ToUpper") {
						fold = o.Name()
					}
				}
			})
			c.Check(fold == "", "pkg/plugin/server.httpPlugin.IsSupport>exact", is.Pos(), 1, nil, "IsSupport compares op names exactly, like the validator (%s)", fold)
		}
	}
}

// nameStores returns the values stored into (nested) field fv of the struct allocated by al.
func nameStores(al *ssa.Alloc, fv *types.Var) []ssa.Value {
	var out []ssa.Value
	var visit func(addr ssa.Value, d int)
	visit = func(addr ssa.Value, d int) {
		if d > 4 {
			return
		}
		refs := addr.Referrers()
		if refs == nil {
			return
		}
		for _, r := range *refs {
			fa, ok := r.(*ssa.FieldAddr)
			if !ok || fa.X != addr {
				continue
			}
			if f, _ := engine.LoadedField(fa); f == fv {
				if fr := fa.Referrers(); fr != nil {
					for _, u := range *fr {
						if st, ok := u.(*ssa.Store); ok && st.Addr == fa {
							out = append(out, st.Val)
						}
					}
				}
			}
			visit(fa, d+1)
		}
	}
	visit(al, 0)
	return out
}

// nonNilOnPath: v is a definitely non-nil error, or the path carries the fact v != nil.
func nonNilOnPath(st *engine.PathState, v ssa.Value) bool {
	if definitelyNonNilError(v) {
		return true
	}
	isNil, known := st.NilFact(v)
	return known && !isNil
}

func checkGate(c *engine.Ctx, g *gateInfo, listOp map[*types.Var]string, rejectF, unchangeF *types.Var) {
	call := g.handle
	f := g.fn
	// receiver: element of the ranged list
	args := engine.CallArgs(call)
	recv := args[0]
	var listField *types.Var
	whole := false
	if u, ok := recv.(*ssa.UnOp); ok {
		if ia, ok := u.X.(*ssa.IndexAddr); ok {
			lf, base := engine.LoadedField(ia.X)
			if lf != nil && base != nil {
				listField = lf
				whole = true // indexed directly on the loaded field (not a sub-slice)
			} else if sl, ok := ia.X.(*ssa.Slice); ok {
				lf, _ := engine.LoadedField(sl.X)
				listField = lf
			}
		}
	}
	if g.shared {
		// a chain function shared by the gates: it ranges over the list it is given and passes on the op it is given
		okShape := false
		if u, ok := recv.(*ssa.UnOp); ok {
			if ia, ok := u.X.(*ssa.IndexAddr); ok {
				if _, isP := ia.X.(*ssa.Parameter); isP {
					okShape = true
				}
			}
		}
		_, opIsParam := args[2].(*ssa.Parameter)
		c.Check(okShape && opIsParam, g.name+">list-op", call.Pos(), 2, nil, "the shared chain ranges over the whole list parameter and hands its op parameter to Handle")
		if !okShape {
			return
		}
	} else {
		if listField == nil {
			c.Undecide(g.name+">list", call.Pos(), "cannot identify the plugin list the loop ranges over")
			return
		}
		g.list = listField
		op, _ := engine.ConstString(args[2])
		g.op = op
		want, registered := listOp[listField]
		c.Check(registered && whole && op != "" && op == want, g.name+">list-op", call.Pos(), 3,
			[]string{"ranges over " + listField.Name(), fmt.Sprintf("Handle op %q", op), fmt.Sprintf("list registered under op %q", want)},
			"the loop ranges over the whole list %s, which Register fills under the op %q passed to Handle", listField.Name(), op)
	}

	// the content passed is the threaded content
	// loop header: innermost block with a back edge that dominates the call
	var header *ssa.BasicBlock
	for _, b := range f.Blocks {
		if !b.Dominates(call.Block()) {
			continue
		}
		for _, pr := range b.Preds {
			if b.Dominates(pr) {
				if header == nil || header.Dominates(b) {
					header = b
				}
			}
		}
	}
	if header == nil {
		c.Undecide(g.name+">loop", call.Pos(), "Handle is not called from a loop")
		return
	}
	errV := func(v ssa.Value) bool { cl, i := engine.ResultOfCall(v); return cl == call && i == 2 }
	resField := func(fv *types.Var) func(ssa.Value) bool {
		return func(v ssa.Value) bool {
			lf, base := engine.LoadedField(v)
			if lf != fv || base == nil {
				return false
			}
			cl, i := engine.ResultOfCall(base)
			return cl == call && i == 0
		}
	}
	isRetContent := func(v ssa.Value) bool {
		ta, ok := v.(*ssa.TypeAssert)
		if !ok {
			return false
		}
		cl, i := engine.ResultOfCall(ta.X)
		return cl == call && i == 1 && types.Identical(ta.AssertedType, g.contentT)
	}
	contentArg := func(st *engine.PathState, v ssa.Value) ssa.Value {
		// *content boxed into any
		v = engine.Unwrap(v)
		if u, ok := v.(*ssa.UnOp); ok && u.Op == token.MUL {
			return st.Resolve(u.X)
		}
		return st.Resolve(v)
	}
	var track []ssa.Value
	track = append(track, args[3])
	if u, ok := engine.Unwrap(args[3]).(*ssa.UnOp); ok {
		track = append(track, u.X)
	}
	engine.ForEachInstr(f, func(in ssa.Instruction) {
		if r, ok := in.(*ssa.Return); ok {
			track = append(track, r.Results...)
		}
	})
	c.AllPaths(g.name+">chain", engine.PathCheck{Fn: f, From: call, KeepLoopFacts: true, Track: track,
		Sink: func(in ssa.Instruction) bool { return in == call || engine.IsReturn(in) },
		Pred: func(st *engine.PathState) string {
			errNil, errKnown := st.IsNil(errV)
			rej, rejKnown := st.Truth(resField(rejectF))
			unch, unchKnown := st.Truth(resField(unchangeF))
			var next ssa.Value
			success := false
			if r, ok := st.Sink.(*ssa.Return); ok {
				ev := st.Resolve(r.Results[1])
				if !engine.IsNilConst(ev) {
					// refusing exit: must be a real error
					if !nonNilOnPath(st, ev) {
						return "a refusing exit returns an error value that may be nil"
					}
					return ""
				}
				success = true
				next = st.Resolve(r.Results[0])
			} else {
				next = contentArg(st, engine.CallArgs(call)[3])
			}
			what := "the next plugin is consulted"
			if success {
				what = "the operation is allowed"
			}
			if !(errKnown && errNil) {
				return what + " on a path where the plugin call's error was not nil (unreachable or failing plugin treated as accept)"
			}
			if !(rejKnown && !rej) {
				return what + " on a path where the plugin's Reject flag was not tested false"
			}
			if !unchKnown {
				return what + " without looking at the Unchange flag"
			}
			if !unch && !isRetContent(next) {
				return "the plugin changed the content but " + what + " with " + engine.Describe(next) + " instead of the returned content"
			}
			if unch && isRetContent(next) {
				return "the plugin reported Unchange but its returned content replaces the threaded one"
			}
			if success {
				// the loop must have been left through its own condition
				seen := false
				for _, bi := range st.Blocks[st.ArmedAt+1:] {
					if bi == header.Index {
						seen = true
					}
				}
				if !seen {
					return "the chain returns success without going back to the loop condition: later plugins are skipped"
				}
			}
			return ""
		}}, "error/reject refuse, Unchange threads, loop exhausts the list")
	_ = sort.Strings
}

// registerTable: the table-driven form of Manager.Register — a literal table of {op constant, &m.<list>} rows and one
// loop `if p.IsSupport(row.op) { *row.list = append(*row.list, p) }`. The rows are evaluated to the same list→op
// relation the if-chain form yields; the loop is checked once (the append is guarded by IsSupport of the row's op and
// appends to the row's own list).
func registerTable(c *engine.Ctx, regFn *ssa.Function, mgr *types.Named, isSupport *types.Func, listOp map[*types.Var]string) {
	type row struct {
		op   string
		list *types.Var
	}
	rows := map[ssa.Value]*row{} // element address (IndexAddr) -> row
	var opField, listField *types.Var
	engine.ForEachInstr(regFn, func(in ssa.Instruction) {
		st, ok := in.(*ssa.Store)
		if !ok {
			return
		}
		fa, ok := st.Addr.(*ssa.FieldAddr)
		if !ok {
			return
		}
		ia, ok := fa.X.(*ssa.IndexAddr)
		if !ok {
			return
		}
		stt, ok := engine.Deref(fa.X.Type()).Underlying().(*types.Struct)
		if !ok || fa.Field >= stt.NumFields() {
			return
		}
		r := rows[ia]
		if r == nil {
			r = &row{}
			rows[ia] = r
		}
		if sv, ok := engine.ConstString(st.Val); ok {
			r.op = sv
			opField = stt.Field(fa.Field)
			return
		}
		if lf, base := engine.LoadedField(st.Val); lf != nil && base != nil && engine.NamedOf(base.Type()) == mgr {
			r.list = lf
			listField = stt.Field(fa.Field)
		}
	})
	if len(rows) == 0 || opField == nil || listField == nil {
		return
	}
	// the loop: one IsSupport(row.op) and one store through row.list guarded by it
	var sup *ssa.Call
	for _, cl := range engine.CallsTo(regFn, isSupport) {
		if cc, ok := cl.(*ssa.Call); ok {
			if engine.Provenance(cc.Call.Args[0], engine.ProvOpts{}).HasField(opField) {
				sup = cc
			}
		}
	}
	okLoop := false
	if sup != nil {
		engine.ForEachInstr(regFn, func(in ssa.Instruction) {
			st, ok := in.(*ssa.Store)
			if !ok {
				return
			}
			if lf, _ := engine.LoadedField(st.Addr); lf != listField {
				return // not a store through the row's list pointer
			}
			src := engine.Provenance(st.Val, engine.ProvOpts{})
			if !src.HasField(listField) {
				return
			}
			okLoop = c.AllPaths("pkg/plugin/server.Manager.Register>table-loop", engine.PathCheck{Fn: regFn, Sink: engine.Is(in), KeepLoopFacts: true, Pred: func(ps *engine.PathState) string {
				if v, k := ps.Truth(func(x ssa.Value) bool { return x == ssa.Value(sup) }); !(k && v) {
					return "a plugin is appended to a row's list on a path without a successful IsSupport(row.op) test"
				}
				return ""
			}}, "table-driven registration: append to the row's list only under IsSupport of the row's op")
		})
	}
	if !okLoop {
		return
	}
	for _, r := range rows {
		if r.op != "" && r.list != nil {
			listOp[r.list] = r.op
			c.Hold("pkg/plugin/server.Manager.Register>"+r.list.Name(), regFn.Pos(), 1, []string{"table row: " + r.op + " -> " + r.list.Name()}, "append to %s only under IsSupport of its op (table row)", r.list.Name())
		}
	}
}

// checkOwnList (R8): a gate method's fast path ("no plugin registered for this op: accept") and its loop must look at the
// same list. A fast path that tests a sibling list lets the operation through ungated whenever that sibling is empty.
func checkOwnList(c *engine.Ctx, mgr *types.Named, handleObj *types.Func) {
	c.Rule("R8", "every Manager method that consults plugins reads exactly one of the Manager's plugin lists (emptiness test and loop use the same list)")
	p := c.P
	st, _ := mgr.Underlying().(*types.Struct)
	n := 0
	for i := 0; i < mgr.NumMethods(); i++ {
		m := mgr.Method(i)
		f := p.FuncOf(m)
		if f == nil || (len(engine.CallsToVia(f, handleObj)) == 0 && len(chainCalls(f, handleObj)) == 0) {
			continue
		}
		seen := map[string]bool{}
		engine.ForEachInstr(f, func(in ssa.Instruction) {
			fa, ok := in.(*ssa.FieldAddr)
			if !ok || st == nil {
				return
			}
			if engine.NamedOf(engine.Deref(fa.X.Type())) != mgr {
				return
			}
			fv := st.Field(fa.Field)
			if _, isSlice := fv.Type().Underlying().(*types.Slice); isSlice {
				seen[fv.Name()] = true
			}
		})
		var names []string
		for k := range seen {
			names = append(names, k)
		}
		sort.Strings(names)
		n++
		c.Check(len(names) <= 1, "pkg/plugin/server.Manager."+m.Name()+">own-list", f.Pos(), 1, names,
			"the method reads one plugin list (reads: %s)", strings.Join(names, ", "))
	}
	c.Floor(n, 6)
}

// checkCloseNotifiesAll (R9): CloseProxy is a notification, not a gate: a plugin that fails must not keep the remaining
// plugins from hearing that the proxy is gone (they would account for it forever).
func checkCloseNotifiesAll(c *engine.Ctx, handleObj *types.Func) {
	c.Rule("R9", "Manager.CloseProxy: after a plugin's Handle returned (with or without error) the function returns only through the loop head, i.e. after the remaining plugins were notified")
	f := fn(c, "pkg/plugin/server.Manager.CloseProxy")
	if f == nil {
		return
	}
	n := 0
	for _, hc := range engine.CallsToVia(f, handleObj) {
		h := engine.LoopHeader(hc.Block())
		if h == nil {
			c.Undecide("pkg/plugin/server.Manager.CloseProxy>notifies-all", hc.Pos(), "the Handle call is not inside a loop")
			continue
		}
		n++
		hdrIf := h.Instrs[len(h.Instrs)-1]
		c.AllPaths("pkg/plugin/server.Manager.CloseProxy>notifies-all", engine.PathCheck{Fn: f, From: hc, Sink: engine.IsReturn,
			Event: func(in ssa.Instruction) string {
				if in == hdrIf {
					return "loop-head"
				}
				return ""
			},
			Pred: func(st *engine.PathState) string {
				if !st.HasEvent("loop-head") {
					return "CloseProxy returns from inside the loop: the plugins after the failing one are never told the proxy was closed"
				}
				return ""
			}}, "return only after the list is exhausted")
	}
	c.Floor(n, 1)
}

// checkAllPluginsRegistered (R10): the gates consult "every plugin registered for the operation"; that means every plugin
// the operator configured only if each configured entry is registered. In the loop over the configured http plugins every
// iteration must reach Manager.Register (no entry is skipped).
func checkAllPluginsRegistered(c *engine.Ctx) {
	c.Rule("R10", "the start-up loop over ServerConfig.HTTPPlugins reaches Manager.Register in every iteration (no configured plugin is skipped)")
	reg := method(c, "pkg/plugin/server", "Manager", "Register")
	plF := field(c, "pkg/config/v1", "ServerConfig", "HTTPPlugins")
	if reg == nil || plF == nil {
		return
	}
	n := 0
	for _, f := range c.P.RepoFuncs() {
		if f.Pkg == nil || !strings.HasSuffix(f.Pkg.Pkg.Path(), "/server") {
			continue
		}
		for _, rc := range engine.CallsTo(f, reg) {
			h := engine.LoopHeader(rc.Block())
			if h == nil {
				continue
			}
			// the loop ranges over the configured plugins
			ranged := false
			for _, b := range f.Blocks {
				for _, in := range b.Instrs {
					switch x := in.(type) {
					case *ssa.Range:
						if engine.Provenance(x.X, engine.ProvOpts{}).HasField(plF) {
							ranged = true
						}
					case *ssa.IndexAddr:
						if engine.Provenance(x.X, engine.ProvOpts{}).HasField(plF) {
							ranged = true
						}
					case *ssa.Index:
						if engine.Provenance(x.X, engine.ProvOpts{}).HasField(plF) {
							ranged = true
						}
					}
				}
			}
			if !ranged {
				continue
			}
			n++
			// from the loop head, the next visit of the loop head is preceded by Register (unless the loop ends)
			hdr := h.Instrs[len(h.Instrs)-1]
			first := true
			c.AllPaths(c.P.FuncName(f)+">registers-each", engine.PathCheck{Fn: f, From: hdr, KeepLoopFacts: true,
				Sink: func(in ssa.Instruction) bool {
					if in == hdr {
						if first { // the starting visit itself
							first = false
						}
						return true
					}
					return engine.IsReturn(in)
				},
				Event: func(in ssa.Instruction) string {
					if in == ssa.Instruction(rc) {
						return "register"
					}
					return ""
				},
				Pred: func(st *engine.PathState) string {
					if _, isRet := st.Sink.(*ssa.Return); isRet {
						return ""
					}
					if !st.HasEvent("register") {
						return "an iteration over the configured plugins ends without registering the entry: that plugin is never consulted"
					}
					return ""
				}}, "every configured plugin is registered")
		}
	}
	c.Floor(n, 1)
}

// chainCalls: the calls of f to a same-package function (or an instance of a generic one) whose body calls target.
func chainCalls(f *ssa.Function, target *types.Func) []ssa.CallInstruction {
	var out []ssa.CallInstruction
	engine.ForEachInstr(f, func(in ssa.Instruction) {
		call, ok := in.(ssa.CallInstruction)
		if !ok {
			return
		}
		cf := engine.CalleeFn(call)
		if cf == nil {
			return
		}
		body := cf
		if o := cf.Origin(); o != nil {
			body = o
		}
		if body.Pkg != f.Pkg || body.Blocks == nil {
			return
		}
		if len(engine.CallsTo(body, target)) > 0 {
			out = append(out, call)
		}
	})
	return out
}

// checkFreshDecodeTarget (R11): the content a plugin returns replaces the content it was sent. encoding/json leaves
// fields that are absent from the answer untouched and decodes into existing maps, so the answer must be decoded into a
// fresh zero value: decoding on top of a copy of the request resurrects what the plugin removed (omitempty fields, map
// entries) and, the copy being shallow, writes into the live session's maps.
func checkFreshDecodeTarget(c *engine.Ctx, rule string) {
	c.Rule(rule, "pkg/plugin/server: the value a plugin's answer is decoded into is a new zero value — the reflect.Value made by reflect.New is only turned into an interface, nothing is Set into it before the decode")
	p := c.P
	n := 0
	for _, f := range p.RepoFuncs() {
		if f.Pkg == nil || f.Pkg.Pkg.Path() != engine.ModPath+"/pkg/plugin/server" {
			continue
		}
		f := f
		engine.ForEachInstr(f, func(in ssa.Instruction) {
			call, ok := in.(*ssa.Call)
			if !ok {
				return
			}
			o := engine.CalleeObj(call)
			if o == nil || o.Pkg() == nil || o.Pkg().Path() != "reflect" || o.Name() != "New" {
				return
			}
			n++
			family := map[ssa.Value]bool{call: true}
			work := []ssa.Value{call}
			bad := ""
			for len(work) > 0 {
				v := work[0]
				work = work[1:]
				refs := v.Referrers()
				if refs == nil {
					continue
				}
				for _, r := range *refs {
					switch x := r.(type) {
					case *ssa.Call:
						xo := engine.CalleeObj(x)
						if xo == nil || xo.Pkg() == nil || xo.Pkg().Path() != "reflect" {
							continue
						}
						if a := engine.CallArgs(x); len(a) == 0 || !family[a[0]] {
							continue
						}
						switch {
						case strings.HasPrefix(xo.Name(), "Set"):
							bad = xo.Name()
						case xo.Name() == "Elem" || xo.Name() == "Field" || xo.Name() == "FieldByName" || xo.Name() == "Index" || xo.Name() == "Addr":
							if !family[x] {
								family[x] = true
								work = append(work, x)
							}
						}
					case *ssa.Store:
						// spilled to a local cell: follow the loads
						if al, ok := x.Addr.(*ssa.Alloc); ok && x.Val == v {
							if ar := al.Referrers(); ar != nil {
								for _, u := range *ar {
									if ld, ok := u.(*ssa.UnOp); ok && ld.Op == token.MUL && !family[ld] {
										family[ld] = true
										work = append(work, ld)
									}
								}
							}
						}
					}
				}
			}
			c.Check(bad == "", p.FuncName(f)+">decode-target", in.Pos(), len(family), nil,
				"the decode target made by reflect.New stays a zero value until the plugin's answer is decoded into it (found reflect.Value.%s on it: absent fields and removed map entries of the answer would keep the request's values)", bad)
		})
	}
	c.Floor(n, 1)
}
