package rules

import (
	"fmt"
	"go/token"
	"go/types"
	"os"
	"sort"
	"strings"
	"time"

	"golang.org/x/tools/go/ssa"

	"frpsa/engine"
)

func init() {
	Registry["C16"] = &Property{
		Title:       "No input or interleaving crashes or wedges frps or frpc",
		Run:         runC16,
		Explanation: "Decides crash/wedge hazards that are visible in the shape of the code: (R1) every read, write, delete and range of a map field of a struct that carries a mutex happens with that mutex held (write mode for mutations), outside constructors; (R2) every make(chan|slice|map, n) whose size derives from a protocol message field is bounded below by a dominating comparison; (R3) channel typestate: each struct-field channel has one close site, protected against a second close (sync.Once, flag or select-probe under a mutex, single-shot worker, owner-terminal Close), and every send on a channel that is closed somewhere is recover-protected or in the closing goroutine; (R4) the unchecked type assertion in each dispatcher handler matches the message type it is registered for; (R6) every value handed to msg.WriteMsg / Dispatcher.Send / MessageTransporter.Send is a pointer to a registered message struct; (R8) handlers that wait (NAT-hole, work-connection requests) are registered through AsyncHandler; (R9) no function returns while holding a mutex it locked (unless a deferred unlock is registered); (R10) results of a failed call are not dereferenced on the path where its error is non-nil. (R11) no two mutex fields are acquired in both orders (lock-order graph over must-held sets, through statically called functions, is acyclic). (R12) the retry loop that fetches a work connection is bounded by the clamped pool count plus one, never by a raw message field (a non-positive bound skips the loop and hands a nil connection to callers that dereference it). (R13) slice bounds derived from strings/bytes Index* results are used only where the result was found non-negative. Not decided: data races on non-map state, deadlocks between locks and channels, memory exhaustion, panics inside dependencies.",
		Assumptions: commonAssumptions,
	}
}

func runC16(c *engine.Ctx) {
	li := engine.AnalyzeLocks(c.P)
	steps := []struct {
		name string
		f    func()
	}{
		{"maps", func() { c16Maps(c, li) }}, {"alloc", func() { c16AllocSizes(c) }}, {"channels", func() { c16Channels(c, li) }},
		{"handlers", func() { c16Handlers(c) }}, {"encodable", func() { c16Encodable(c) }}, {"lockbalance", func() { c16LockBalance(c, li) }},
		{"errderef", func() { c16ErrorPathDeref(c) }}, {"panics", func() { c16Panics(c) }}, {"lockorder", func() { c16LockOrder(c, li, "R11") }},
		{"retry", func() { c16RetryBound(c, "R12") }}, {"index", func() { c16IndexBounds(c, "R13") }},
		{"dropped", func() { checkDroppedErrors(c, "R14", "*") }}, {"lost", func() { checkLostErrors(c, "R15", "*") }}, {"stale", func() { checkStaleErrReturns(c, "R16", "*") }},
		{"rawenum", func() { checkRawEnumCompare(c, "R17") }},
		{"checkact", func() { c16CheckThenAct(c, "R18") }},
		{"divlen", func() { c16DivByLen(c, "R19") }},
		{"decodeinto", func() { c16DecodeInto(c, "R20") }},
		{"assert", func() { c16ImpossibleAssert(c, "R21") }},
		{"bufio", func() { checkThrowawayBufio(c, "R22") }},
		{"waitlock", func() { checkNoWaitUnderLock(c, li, "R23") }},
		{"wirelen", func() { c16WireLengthArith(c, "R24") }},
		{"pooled", func() { checkPooledEscape(c, "R25") }},
		{"deferuse", func() { checkDeferredUseOfResult(c, "R26") }},
		{"deadline", func() { checkDeadlineCleared(c, "R27") }},
		{"synchandlers", func() { checkSyncStateHandlers(c, "R28") }},
		{"counters", func() { checkCounterBalance(c, "R29") }},
		{"localmaps", func() { checkLocalGuardedMaps(c, "R30") }},
		{"publish", func() { checkInitBeforePublish(c, "R31") }},
		{"chancap", func() { checkChannelCapacityClass(c, "R32") }},
		{"constindex", func() { checkConstIndexBounded(c, "R33") }},
	}
	for _, s := range steps {
		t0 := time.Now()
		s.f()
		if os.Getenv("FRPSA_TIMING") == "1" {
			fmt.Fprintf(os.Stderr, "C16 step %-12s %v\n", s.name, time.Since(t0))
		}
	}
}

func isMutexType(t types.Type) bool {
	n := engine.NamedOf(t)
	return n != nil && n.Obj().Pkg() != nil && n.Obj().Pkg().Path() == "sync" && (n.Obj().Name() == "Mutex" || n.Obj().Name() == "RWMutex")
}

// ---- R1 ----

func c16Maps(c *engine.Ctx, li *engine.LockInfo) { c16MapsRule(c, li, "R1") }

func c16MapsRule(c *engine.Ctx, li *engine.LockInfo, rule string) {
	p := c.P
	c.Rule(rule, "every access to a map field of a struct that has a mutex field happens with one of the struct's mutexes held (write mode for insert/delete), except in the function that allocates the struct")
	// struct -> (mutex fields, map fields)
	type sinfo struct {
		name string
		mus  map[*types.Var]bool
		maps map[*types.Var]bool
	}
	byMap := map[*types.Var]*sinfo{}
	structs := 0
	for _, pk := range p.Pkgs {
		if pk.Types == nil {
			continue
		}
		for _, name := range pk.Types.Scope().Names() {
			tn, ok := pk.Types.Scope().Lookup(name).(*types.TypeName)
			if !ok {
				continue
			}
			st, ok := tn.Type().Underlying().(*types.Struct)
			if !ok {
				continue
			}
			si := &sinfo{name: strings.TrimPrefix(pk.PkgPath, engine.ModPath+"/") + "." + name, mus: map[*types.Var]bool{}, maps: map[*types.Var]bool{}}
			for i := 0; i < st.NumFields(); i++ {
				fv := st.Field(i)
				if isMutexType(fv.Type()) {
					si.mus[fv] = true
				}
				if _, ok := fv.Type().Underlying().(*types.Map); ok {
					si.maps[fv] = true
				}
			}
			if len(si.mus) > 0 && len(si.maps) > 0 {
				structs++
				for m := range si.maps {
					byMap[m] = si
				}
			}
		}
	}
	// a struct without a mutex of its own whose only holder is a field of a mutex-carrying struct (serverMetrics.info
	// *ServerStatistics) is guarded by the holder's mutexes
	holders := map[*types.Named][]*sinfo{}
	holderCount := map[*types.Named]int{}
	for _, pk := range p.Pkgs {
		if pk.Types == nil {
			continue
		}
		for _, name := range pk.Types.Scope().Names() {
			tn, ok := pk.Types.Scope().Lookup(name).(*types.TypeName)
			if !ok {
				continue
			}
			st, ok := tn.Type().Underlying().(*types.Struct)
			if !ok {
				continue
			}
			var own *sinfo
			mus := map[*types.Var]bool{}
			for i := 0; i < st.NumFields(); i++ {
				if isMutexType(st.Field(i).Type()) {
					mus[st.Field(i)] = true
				}
			}
			for i := 0; i < st.NumFields(); i++ {
				inner := engine.NamedOf(st.Field(i).Type())
				if inner == nil || inner.Obj().Pkg() != pk.Types {
					continue
				}
				if _, isStruct := inner.Underlying().(*types.Struct); !isStruct {
					continue
				}
				holderCount[inner]++
				if len(mus) > 0 {
					if own == nil {
						own = &sinfo{name: strings.TrimPrefix(pk.PkgPath, engine.ModPath+"/") + "." + name, mus: mus, maps: map[*types.Var]bool{}}
					}
					holders[inner] = append(holders[inner], own)
				}
			}
		}
	}
	// the holder owns the inner struct: some function stores a freshly allocated inner value into the holder's field
	ownsFresh := map[*types.Named]bool{}
	for _, f := range p.RepoFuncs() {
		engine.ForEachInstr(f, func(in ssa.Instruction) {
			st, ok := in.(*ssa.Store)
			if !ok {
				return
			}
			fv, _ := engine.LoadedField(st.Addr)
			if fv == nil {
				return
			}
			inner := engine.NamedOf(fv.Type())
			if inner == nil || len(holders[inner]) == 0 {
				return
			}
			if al, ok := engine.Unwrap(st.Val).(*ssa.Alloc); ok && engine.NamedOf(al.Type()) == inner {
				ownsFresh[inner] = true
			}
		})
	}
	for inner, hs := range holders {
		if len(hs) != 1 || holderCount[inner] != 1 || !ownsFresh[inner] {
			continue
		}
		ist := inner.Underlying().(*types.Struct)
		hasMu := false
		for i := 0; i < ist.NumFields(); i++ {
			if isMutexType(ist.Field(i).Type()) {
				hasMu = true
			}
		}
		if hasMu {
			continue
		}
		for i := 0; i < ist.NumFields(); i++ {
			fv := ist.Field(i)
			if _, ok := fv.Type().Underlying().(*types.Map); ok && byMap[fv] == nil {
				byMap[fv] = &sinfo{name: hs[0].name + "→" + inner.Obj().Name(), mus: hs[0].mus, maps: map[*types.Var]bool{fv: true}}
			}
		}
	}
	type acc struct {
		in    ssa.Instruction
		m     ssa.Value
		write bool
		what  string
	}
	perField := map[*types.Var]int{}
	for _, f := range p.RepoFuncs() {
		var accs []acc
		engine.ForEachInstr(f, func(in ssa.Instruction) {
			switch x := in.(type) {
			case *ssa.Lookup:
				accs = append(accs, acc{in, x.X, false, "read"})
			case *ssa.MapUpdate:
				accs = append(accs, acc{in, x.Map, true, "insert"})
			case *ssa.Range:
				accs = append(accs, acc{in, x.X, false, "range"})
			case ssa.CallInstruction:
				if b, ok := x.Common().Value.(*ssa.Builtin); ok && b.Name() == "delete" {
					accs = append(accs, acc{in, x.Common().Args[0], true, "delete"})
				}
			}
		})
		for _, a := range accs {
			fv, base := engine.LoadedField(a.m)
			si := byMap[fv]
			if si == nil {
				continue
			}
			if _, local := base.(*ssa.Alloc); local {
				continue // constructor: the object has not escaped yet
			}
			perField[fv]++
			held := li.HeldAt(a.in)
			mode := engine.LockMode(0)
			for mu := range si.mus {
				if held[mu] > mode {
					mode = held[mu]
				}
			}
			key := fmt.Sprintf("%s.%s@%s#%s", si.name, fv.Name(), p.FuncName(f), a.what)
			switch {
			case mode == 0:
				c.Violate(key, a.in.Pos(), []string{"locks held here: " + strings.Join(held.Names(), ",")},
					"%s of shared map %s.%s without the struct's mutex held: concurrent use is a fatal runtime error", a.what, si.name, fv.Name())
			case a.write && mode == engine.LockR:
				c.Violate(key, a.in.Pos(), nil, "%s of shared map %s.%s under a read lock only", a.what, si.name, fv.Name())
			default:
				c.Hold(key, a.in.Pos(), 1, []string{"held: " + strings.Join(held.Names(), ",")}, "%s of %s.%s under its mutex", a.what, si.name, fv.Name())
			}
		}
	}
	// containers stored *inside* a guarded map (a slice of routes, an inner map) are shared state too: reading them
	// (index, range, inner lookup) needs the same mutex, because writers mutate them in place (Routers.Add appends to
	// and re-sorts the slice it found in the index)
	nElem := 0
	for _, f := range p.RepoFuncs() {
		f := f
		engine.ForEachInstr(f, func(in ssa.Instruction) {
			lk, ok := in.(*ssa.Lookup)
			if !ok {
				return
			}
			fv, base := engine.LoadedField(lk.X)
			si := byMap[fv]
			if si == nil {
				return
			}
			if _, local := base.(*ssa.Alloc); local {
				return
			}
			isContainer := func(t types.Type) bool {
				switch t.Underlying().(type) {
				case *types.Slice, *types.Map:
					return true
				}
				return false
			}
			// element value(s) of this lookup, and element values of nested lookups on them
			var elems []ssa.Value
			var collect func(v ssa.Value, d int)
			seen := map[ssa.Value]bool{}
			collect = func(v ssa.Value, d int) {
				if seen[v] || d > 5 || v.Referrers() == nil {
					return
				}
				seen[v] = true
				if isContainer(v.Type()) {
					elems = append(elems, v)
				}
				for _, r := range *v.Referrers() {
					switch x := r.(type) {
					case *ssa.Extract:
						if x.Index == 0 {
							collect(x, d+1)
						}
					case *ssa.Phi:
						collect(x, d+1)
					case *ssa.Lookup:
						if x.X == v {
							collect(x, d+1)
						}
					}
				}
			}
			collect(lk, 0)
			for _, ev := range elems {
				if ev.Referrers() == nil {
					continue
				}
				for _, r := range *ev.Referrers() {
					var what string
					switch x := r.(type) {
					case *ssa.IndexAddr:
						if x.X == ev {
							what = "index"
						}
					case *ssa.Index:
						if x.X == ev {
							what = "index"
						}
					case *ssa.Range:
						what = "range"
					case *ssa.Lookup:
						if x.X == ev {
							what = "inner lookup"
						}
					}
					if what == "" {
						continue
					}
					nElem++
					held := li.HeldAt(r)
					okHeld := false
					for mu := range si.mus {
						if held[mu] > 0 {
							okHeld = true
						}
					}
					key := fmt.Sprintf("%s.%s@%s#element-%s", si.name, fv.Name(), p.FuncName(f), strings.ReplaceAll(what, " ", "-"))
					if okHeld {
						c.Hold(key, r.Pos(), 1, []string{"held: " + strings.Join(held.Names(), ",")}, "%s of a container stored in %s.%s under its mutex", what, si.name, fv.Name())
					} else {
						c.Violate(key, r.Pos(), []string{"locks held here: " + strings.Join(held.Names(), ",")},
							"%s of a container taken out of the shared map %s.%s after its mutex was released: writers append to / re-sort / update that container in place, a concurrent reader sees a torn or stale view (a protected route can vanish from the reader's slice during a registration)", what, si.name, fv.Name())
					}
				}
			}
		})
	}
	c.Note("structs with a mutex and a map field: %d; map fields accessed: %d; reads of containers stored in them: %d", structs, len(perField), nElem)
	c.Floor(len(perField), 10)
}

// ---- R2 ----

func c16AllocSizes(c *engine.Ctx) { c16AllocSizesRule(c, "R2") }

func c16AllocSizesRule(c *engine.Ctx, rule string) {
	p := c.P
	c.Rule(rule, "every make(chan|slice|map, n) whose size derives from a field of a protocol message, or from an integer decoded off the wire with encoding/binary, is established non-negative by a comparison on every path (clamp or early return)")
	msgPkg := p.Pkg("pkg/msg")
	isMsgField := func(fv *types.Var) bool {
		return fv != nil && fv.Pkg() != nil && msgPkg != nil && fv.Pkg() == msgPkg.Types
	}
	n := 0
	for _, f := range p.RepoFuncs() {
		engine.ForEachInstr(f, func(in ssa.Instruction) {
			var size ssa.Value
			switch x := in.(type) {
			case *ssa.MakeChan:
				size = x.Size
			case *ssa.MakeSlice:
				size = x.Len
			case *ssa.MakeMap:
				size = x.Reserve
			}
			if size == nil {
				return
			}
			if _, isConst := size.(*ssa.Const); isConst {
				return
			}
			src := engine.Provenance(size, engine.ProvOpts{})
			fromMsg := false
			var mf *types.Var
			for fv := range src.Fields {
				if isMsgField(fv) && isIntegerType(fv.Type()) {
					fromMsg = true
					mf = fv
				}
			}
			mfName := ""
			if mf != nil {
				mfName = mf.Name()
			}
			if !fromMsg {
				// … or from an integer decoded off the wire (a hand-rolled frame reader): same obligation
				for o := range src.Calls {
					if o.Pkg() != nil && o.Pkg().Path() == "encoding/binary" {
						fromMsg, mfName = true, "binary."+o.Name()
					}
				}
			}
			if !fromMsg {
				return
			}
			n++
			key := p.FuncName(f) + ">make:" + mfName
			c.AllPaths(key, engine.PathCheck{Fn: f, Sink: engine.Is(in), Track: []ssa.Value{size}, Pred: func(st *engine.PathState) string {
				// collect the non-constant leaves of the size expression on this path
				var leaves []ssa.Value
				var walk func(v ssa.Value, d int)
				walk = func(v ssa.Value, d int) {
					v = st.Resolve(engine.Unwrap(v))
					if bo, ok := v.(*ssa.BinOp); ok && d < 6 && (bo.Op == token.ADD || bo.Op == token.SUB || bo.Op == token.MUL) {
						walk(bo.X, d+1)
						walk(bo.Y, d+1)
						return
					}
					if call, ok := v.(*ssa.Call); ok && d < 6 {
						if b, ok := call.Call.Value.(*ssa.Builtin); ok {
							switch b.Name() {
							case "max": // max(x, k) with a constant k >= 0 is non-negative whatever x is
								for _, a := range call.Call.Args {
									if z, ok := engine.ConstInt(st.Resolve(a)); ok && z >= 0 {
										return
									}
								}
								for _, a := range call.Call.Args {
									walk(a, d+1)
								}
								return
							case "min": // min is non-negative when all of its operands are
								for _, a := range call.Call.Args {
									walk(a, d+1)
								}
								return
							}
						}
					}
					if _, isC := v.(*ssa.Const); !isC {
						leaves = append(leaves, v)
					}
				}
				walk(size, 0)
				for _, lv := range leaves {
					if z, ok := engine.ConstInt(lv); ok && z >= 0 {
						continue
					}
					if lc, ok := lv.(*ssa.Call); ok {
						if b, ok := lc.Call.Value.(*ssa.Builtin); ok && (b.Name() == "len" || b.Name() == "cap") {
							continue
						}
						if helperNonNegative(lc, 0) {
							continue
						}
					}
					bounded := false
					for _, l := range st.Lits {
						x, y, op, val := l.X, l.Y, l.Op, l.Val
						if !engine.SameExpr(x, lv) {
							if engine.SameExpr(y, lv) {
								x, y = y, x
								op = flipOrd(op)
							} else {
								continue
							}
						}
						z, ok := engine.ConstInt(y)
						if !ok {
							continue
						}
						if !val {
							op = negOrd(op)
						}
						// after normalisation the literal reads: lv op z
						if (op == token.GEQ && z >= 0) || (op == token.GTR && z >= -1) {
							bounded = true
						}
					}
					if !bounded {
						return "allocation size depends on message field " + mfName + " (" + engine.Describe(lv) + ") with no lower bound on this path: a negative value panics in make()"
					}
				}
				return ""
			}}, "size derived from %s is bounded below", mfName)
		})
	}
	c.Floor(n, 1)
}

func isIntegerType(t types.Type) bool {
	b, ok := t.Underlying().(*types.Basic)
	return ok && b.Info()&types.IsInteger != 0
}

func flipOrd(o token.Token) token.Token {
	switch o {
	case token.LSS:
		return token.GTR
	case token.LEQ:
		return token.GEQ
	case token.GTR:
		return token.LSS
	case token.GEQ:
		return token.LEQ
	}
	return o
}

func negOrd(o token.Token) token.Token {
	switch o {
	case token.LSS:
		return token.GEQ
	case token.LEQ:
		return token.GTR
	case token.GTR:
		return token.LEQ
	case token.GEQ:
		return token.LSS
	}
	return o
}

// ---- R4 / R8 ----

// handlerReg is one Dispatcher.RegisterHandler call, resolved.
type handlerReg struct {
	site    ssa.CallInstruction
	msgT    types.Type
	handler *ssa.Function
	isAsync bool
	fn      *ssa.Function
}

func dispatcherRegs(c *engine.Ctx) []handlerReg {
	p := c.P
	regH := method(c, "pkg/msg", "Dispatcher", "RegisterHandler")
	async := funcObj(c, "pkg/msg", "AsyncHandler")
	if regH == nil || async == nil {
		return nil
	}
	var regs []handlerReg
	for _, f := range p.RepoFuncs() {
		for _, call := range engine.CallsTo(f, regH) {
			args := engine.CallArgs(call)
			r := handlerReg{site: call, fn: f}
			if mi, ok := args[1].(*ssa.MakeInterface); ok {
				r.msgT = mi.X.Type()
			}
			h := args[2]
			if hc, ok := h.(*ssa.Call); ok && engine.SameFunc(engine.CalleeObj(hc), async) {
				r.isAsync = true
				h = hc.Call.Args[0]
			}
			if mc, ok := h.(*ssa.MakeClosure); ok {
				if bf, ok := mc.Fn.(*ssa.Function); ok {
					// bound method closure: find the method
					if o, ok := bf.Object().(*types.Func); ok {
						r.handler = p.FuncOf(o)
					} else {
						r.handler = bf
					}
				}
			} else if hf, ok := h.(*ssa.Function); ok {
				r.handler = hf
			}
			regs = append(regs, r)
		}
	}
	return regs
}

// checkSyncStateHandlers (C16.R28, shared with C09.R13, C12.R15, C14.R15, C19.R12): the dispatcher's read loop runs the
// handlers one after the other, and closes Done() only when it has returned from the last one. Two guarantees hang on
// that for every handler that changes the session's proxy table: a later message (CloseProxy after NewProxy) takes
// effect after it, and the session teardown that waits for Done() finds no registration in flight. A handler wrapped
// in AsyncHandler has neither — so a handler that (transitively) writes Control.proxies or the proxy manager must be
// registered synchronously.
func checkSyncStateHandlers(c *engine.Ctx, rule string) {
	c.Rule(rule, "no message handler registered through msg.AsyncHandler writes the session's proxy table (Control.proxies) or the proxy manager, directly or through the functions it calls: registrations and closes are applied in wire order, and none is in flight when Done() fires")
	p := c.P
	proxiesF := field(c, "server", "Control", "proxies")
	add := method(c, "server/proxy", "Manager", "Add")
	del := method(c, "server/proxy", "Manager", "Del")
	if proxiesF == nil {
		return
	}
	var writes func(f *ssa.Function, d int, seen map[*ssa.Function]bool) string
	writes = func(f *ssa.Function, d int, seen map[*ssa.Function]bool) string {
		if f == nil || len(f.Blocks) == 0 || d > 4 || seen[f] {
			return ""
		}
		seen[f] = true
		res := ""
		engine.ForEachInstr(f, func(in ssa.Instruction) {
			if res != "" {
				return
			}
			switch x := in.(type) {
			case *ssa.MapUpdate:
				if lf, _ := engine.LoadedField(x.Map); lf == proxiesF {
					res = "writes Control.proxies in " + p.FuncName(f)
				}
			case ssa.CallInstruction:
				if _, isGo := in.(*ssa.Go); isGo {
					return
				}
				if b, ok := x.Common().Value.(*ssa.Builtin); ok && b.Name() == "delete" {
					if lf, _ := engine.LoadedField(x.Common().Args[0]); lf == proxiesF {
						res = "deletes from Control.proxies in " + p.FuncName(f)
					}
					return
				}
				if o := engine.CalleeObj(x); o != nil && (engine.SameFunc(o, add) || engine.SameFunc(o, del)) {
					res = "calls proxy.Manager." + o.Name() + " in " + p.FuncName(f)
					return
				}
				if cf := engine.CalleeFn(x); cf != nil && cf.Pkg != nil && engine.IsRepoPkg(cf.Pkg.Pkg.Path()) {
					if w := writes(cf, d+1, seen); w != "" {
						res = w
					}
				}
			}
		})
		return res
	}
	n, stateful := 0, 0
	for _, r := range dispatcherRegs(c) {
		if r.handler == nil || r.msgT == nil {
			continue
		}
		w := writes(r.handler, 0, map[*ssa.Function]bool{})
		if w == "" {
			continue
		}
		stateful++
		n++
		c.Check(!r.isAsync, p.FuncName(r.fn)+">"+typeShort(r.msgT)+">sync", r.site.Pos(), 2, []string{"handler " + p.FuncName(r.handler) + " " + w},
			"the handler for %s changes the session's proxy table and is registered synchronously (through AsyncHandler it would run beside the read loop: a CloseProxy could overtake it and it could complete after the session was torn down)", typeShort(r.msgT))
	}
	c.Floor(stateful, 2)
}

func c16Handlers(c *engine.Ctx) {
	p := c.P
	regs := dispatcherRegs(c)
	if regs == nil {
		return
	}
	c.Rule("R4", "the unchecked type assertion on a dispatcher handler's parameter asserts exactly the message type the handler is registered for")
	for _, r := range regs {
		key := p.FuncName(r.fn) + ">" + typeShort(r.msgT)
		if r.handler == nil || r.msgT == nil {
			c.Undecide(key, r.site.Pos(), "cannot resolve the registered handler or message type")
			continue
		}
		bad := ""
		nAssert := 0
		engine.ForEachInstr(r.handler, func(in ssa.Instruction) {
			ta, ok := in.(*ssa.TypeAssert)
			if !ok || ta.CommaOk {
				return
			}
			if pr, ok := ta.X.(*ssa.Parameter); !ok || pr != r.handler.Params[len(r.handler.Params)-1] {
				return
			}
			nAssert++
			if !types.Identical(ta.AssertedType, r.msgT) {
				bad = typeShort(ta.AssertedType)
			}
		})
		c.Check(bad == "", key, r.site.Pos(), 1+nAssert, []string{"handler " + p.FuncName(r.handler)},
			"handler %s registered for %s asserts its parameter to the same type (found %s): a mismatch panics the session's read loop", p.FuncName(r.handler), typeShort(r.msgT), bad)
	}
	c.Floor(len(regs), 5)

	c.Rule("R8", "handlers that can wait for seconds (they reach a channel receive/select with timeout, time.Sleep, or a connection dial) are registered through msg.AsyncHandler so that the session's read loop keeps running")
	n := 0
	for _, r := range regs {
		if r.handler == nil {
			continue
		}
		blocking, why := mayBlockLong(p, r.handler, 0, map[*ssa.Function]bool{})
		key := p.FuncName(r.fn) + ">" + typeShort(r.msgT)
		if !blocking {
			continue
		}
		n++
		c.Check(r.isAsync, key, r.site.Pos(), 2, []string{"handler " + p.FuncName(r.handler) + " may wait: " + why},
			"waiting handler %s is registered through AsyncHandler", p.FuncName(r.handler))
	}
	c.Floor(n, 2)
}

func typeShort(t types.Type) string {
	if t == nil {
		return "?"
	}
	return types.TypeString(t, func(p *types.Package) string { return p.Name() })
}

// mayBlockLong: the function (or repo functions it statically calls, 3 levels) contains time.Sleep, time.After in a
// select, or dials a connection.
func mayBlockLong(p *engine.Prog, f *ssa.Function, depth int, seen map[*ssa.Function]bool) (bool, string) {
	if f == nil || f.Blocks == nil || seen[f] || depth > 5 {
		return false, ""
	}
	seen[f] = true
	res, why := false, ""
	engine.ForEachInstr(f, func(in ssa.Instruction) {
		if res {
			return
		}
		if _, isGo := in.(*ssa.Go); isGo {
			return
		}
		call, ok := in.(ssa.CallInstruction)
		if !ok {
			return
		}
		if o := engine.CalleeObj(call); o != nil && o.Pkg() != nil {
			full := o.Pkg().Path() + "." + o.Name()
			switch full {
			case "time.Sleep", "time.After":
				res, why = true, full+" in "+p.FuncName(f)
				return
			}
			if o.Name() == "DialContext" || o.Name() == "Dial" || o.Name() == "DialTimeout" {
				res, why = true, full+" in "+p.FuncName(f)
				return
			}
		}
		if cf := engine.CalleeFn(call); cf != nil && cf.Pkg != nil && engine.IsRepoPkg(cf.Pkg.Pkg.Path()) {
			if b, w := mayBlockLong(p, cf, depth+1, seen); b {
				res, why = true, w
			}
		} else if o := engine.CalleeObj(call); o != nil && call.Common().IsInvoke() && o.Pkg() != nil && engine.IsRepoPkg(o.Pkg().Path()) {
			// interface call: repo implementations (CHA over the module's types)
			for _, impl := range p.Implementations(o) {
				if b, w := mayBlockLong(p, impl, depth+1, seen); b {
					res, why = true, w
				}
			}
		}
	})
	return res, why
}

// ---- R6 ----

func c16Encodable(c *engine.Ctx) {
	p := c.P
	c.Rule("R6", "every value handed to msg.WriteMsg, Dispatcher.Send or MessageTransporter.Send/Do is a pointer to a message struct registered in msgTypeMap (the codec dereferences with reflect and would panic otherwise)")
	registered := map[string]bool{}
	if pk := p.Pkg("pkg/msg"); pk != nil {
		// value types of the msgTypeMap composite literal
		for _, f := range p.RepoFuncs() {
			if f.Pkg == nil || f.Pkg.Pkg != pk.Types || f.Name() != "init" {
				continue
			}
			engine.ForEachInstr(f, func(in ssa.Instruction) {
				mu, ok := in.(*ssa.MapUpdate)
				if !ok {
					return
				}
				if mi, ok := mu.Value.(*ssa.MakeInterface); ok {
					registered[typeShort(mi.X.Type())] = true
				}
			})
		}
	}
	if len(registered) == 0 {
		c.Undecide("pkg/msg.msgTypeMap", 0, "cannot evaluate the message registry")
		return
	}
	sinks := []*types.Func{p.FuncObj("pkg/msg", "WriteMsg"), p.MethodObj("pkg/msg", "Dispatcher", "Send"),
		p.MethodObj("pkg/transport", "MessageTransporter", "Send"), p.MethodObj("pkg/transport", "MessageTransporter", "Do")}
	n := 0
	for _, f := range p.RepoFuncs() {
		for _, call := range engine.CallsTo(f, sinks...) {
			o := engine.CalleeObj(call)
			args := engine.CallArgs(call)
			var m ssa.Value
			for _, a := range args[1:] {
				if in := engine.NamedOf(a.Type()); in != nil && in.Obj().Name() == "Message" {
					m = a
				}
			}
			if o.Name() == "WriteMsg" {
				m = args[1]
			}
			if m == nil {
				continue
			}
			n++
			key := fmt.Sprintf("%s>%s#%d", p.FuncName(f), o.Name(), n)
			// all concrete types that can flow into m
			var bad []string
			var seenT []string
			src := engine.Provenance(m, engine.ProvOpts{NoArgs: true})
			for v := range src.Values {
				mi, ok := v.(*ssa.MakeInterface)
				if !ok {
					continue
				}
				ts := typeShort(mi.X.Type())
				seenT = append(seenT, ts)
				pt, isPtr := mi.X.Type().(*types.Pointer)
				if !isPtr || !registered[typeShort(pt.Elem())] {
					bad = append(bad, ts)
				}
			}
			sort.Strings(seenT)
			if len(seenT) == 0 {
				// a Message passed through (parameter, channel receive, decoded message): produced by the codec itself
				c.Hold(key, call.Pos(), 1, []string{"message value: " + src.Summary()}, "message forwarded from a typed source")
				continue
			}
			c.Check(len(bad) == 0, key, call.Pos(), len(seenT), []string{"concrete types: " + strings.Join(seenT, ",")},
				"sent value is a pointer to a registered message (offending: %s)", strings.Join(bad, ","))
		}
	}
	c.Floor(n, 18)
}

// ---- R9 ----

func c16LockBalance(c *engine.Ctx, li *engine.LockInfo) {
	p := c.P
	c.Rule("R9", "no function returns while holding a mutex it locked itself, unless an unlock of that mutex is deferred in the function (a leaked lock wedges every later user of the object)")
	n := 0
	for _, f := range p.RepoFuncs() {
		locks := map[*types.Var]bool{}
		deferred := map[*types.Var]bool{}
		engine.ForEachInstr(f, func(in ssa.Instruction) {
			fv, op, ok := engine.MutexOp(in)
			if ok {
				if d, isDefer := in.(*ssa.Defer); isDefer {
					_ = d
					if op == "Unlock" || op == "RUnlock" {
						deferred[fv] = true
					}
					return
				}
				if op == "Lock" || op == "RLock" {
					locks[fv] = true
				}
				return
			}
			if d, isDefer := in.(*ssa.Defer); isDefer {
				if cf := engine.CalleeFn(d); cf != nil {
					// a deferred closure that ends up releasing: net effect unlock without lock
					lk, ul := map[*types.Var]int{}, map[*types.Var]int{}
					engine.ForEachInstr(cf, func(x ssa.Instruction) {
						if fv2, op2, ok2 := engine.MutexOp(x); ok2 {
							if op2 == "Lock" || op2 == "RLock" {
								lk[fv2]++
							} else {
								ul[fv2]++
							}
						}
					})
					for k, v := range ul {
						if v > lk[k] {
							deferred[k] = true
						}
					}
				}
			}
		})
		if len(locks) == 0 {
			continue
		}
		entry := li.EntryLocks(f)
		engine.ForEachInstr(f, func(in ssa.Instruction) {
			r, ok := in.(*ssa.Return)
			if !ok {
				return
			}
			held := li.HeldAt(r)
			for fv := range locks {
				if held[fv] == 0 || deferred[fv] || entry[fv] != 0 {
					continue
				}
				n++
				c.Violate(fmt.Sprintf("%s>%s", p.FuncName(f), fv.Name()), posOf(r), nil,
					"%s returns at this exit with %s still locked and no deferred unlock", p.FuncName(f), fv.Name())
			}
		})
		n++
		c.Hold(p.FuncName(f)+">balanced", f.Pos(), len(locks), nil, "locks taken by the function are released on every exit")
	}
	c.Floor(n, 30)
}

// ---- R10 ----

func c16ErrorPathDeref(c *engine.Ctx) { c16ErrorPathDerefRule(c, "R10") }

func c16ErrorPathDerefRule(c *engine.Ctx, rule string) {
	p := c.P
	c.Rule(rule, "pointer results of a repo function that also returns an error are not dereferenced on a path where that error is known non-nil (nil-dereference panic on the failure path)")
	n := 0
	errT := types.Universe.Lookup("error").Type()
	for _, f := range p.RepoFuncs() {
		if f.Pkg == nil {
			continue
		}
		path := f.Pkg.Pkg.Path()
		if !(strings.HasPrefix(path, engine.ModPath+"/server") || strings.HasPrefix(path, engine.ModPath+"/pkg/nathole") || strings.HasPrefix(path, engine.ModPath+"/client")) {
			continue
		}
		engine.ForEachInstr(f, func(in ssa.Instruction) {
			call, ok := in.(*ssa.Call)
			if !ok {
				return
			}
			cf := engine.CalleeFn(call)
			if cf == nil || cf.Pkg == nil || !engine.IsRepoPkg(cf.Pkg.Pkg.Path()) {
				return
			}
			tup, ok := call.Type().(*types.Tuple)
			if !ok || tup.Len() < 2 || !types.Identical(tup.At(tup.Len()-1).Type(), errT) {
				return
			}
			// pointer results and the cells they are stored in
			var ptrs []*ssa.Extract
			if refs := call.Referrers(); refs != nil {
				for _, r := range *refs {
					if ex, ok := r.(*ssa.Extract); ok && ex.Index < tup.Len()-1 {
						if _, isPtr := ex.Type().Underlying().(*types.Pointer); isPtr {
							ptrs = append(ptrs, ex)
						} else if _, isIface := ex.Type().Underlying().(*types.Interface); isIface {
							ptrs = append(ptrs, ex) // a method call on a nil interface panics too
						}
					}
				}
			}
			// keep only results the callee can actually return as nil (a helper that hands its argument back together
			// with the error never does)
			{
				var keep []*ssa.Extract
				for _, ex := range ptrs {
					if mayReturnNil(cf, ex.Index) {
						keep = append(keep, ex)
					}
				}
				ptrs = keep
			}
			if len(ptrs) == 0 {
				return
			}
			errIdx := tup.Len() - 1
			for _, ex := range ptrs {
				ex := ex
				// dereference sites of ex (direct) and of cells holding ex
				isDeref := func(x ssa.Instruction, st *engine.PathState) bool {
					for _, op := range x.Operands(nil) {
						v := *op
						if v == nil {
							continue
						}
						switch y := x.(type) {
						case *ssa.FieldAddr:
							if y.X == v && st.Resolve(v) == ssa.Value(ex) {
								return true
							}
						case *ssa.UnOp:
							if y.Op == token.MUL && y.X == v && st.Resolve(v) == ssa.Value(ex) && v != st.Resolve(v) {
								// loading the cell is not a dereference of the pointer itself
								return false
							}
						}
					}
					if fa, ok := x.(*ssa.FieldAddr); ok {
						return st.Resolve(fa.X) == ssa.Value(ex)
					}
					if ci, ok := x.(ssa.CallInstruction); ok && ci.Common().IsInvoke() {
						return st.Resolve(ci.Common().Value) == ssa.Value(ex)
					}
					// closure capturing a cell that currently holds ex, and dereferencing it inside
					if mc, ok := x.(*ssa.MakeClosure); ok {
						cfn, _ := mc.Fn.(*ssa.Function)
						for i, b := range mc.Bindings {
							al, ok := b.(*ssa.Alloc)
							if !ok || cfn == nil || i >= len(cfn.FreeVars) {
								continue
							}
							cur := st.Resolve(&ssa.UnOp{Op: token.MUL, X: al})
							_ = cur
							if st.CellValue(al) == ssa.Value(ex) && freeVarDerefed(cfn.FreeVars[i]) {
								return true
							}
						}
					}
					return false
				}
				q := &engine.PathQuery{Fn: f, From: call, Sink: engine.IsReturn}
				var hit ssa.Instruction
				q.Event = func(x ssa.Instruction) string { return "" }
				// explore manually: use Event with access to state is not available, so use Sink predicate per instruction
				// candidate dereference sites: the operand is the result itself, a phi, or a load of a local cell of
				// the result's type (everything else cannot resolve to the result on any path)
				mayBe := func(v ssa.Value) bool {
					if v == ssa.Value(ex) {
						return true
					}
					if !types.Identical(v.Type(), ex.Type()) {
						return false
					}
					switch y := v.(type) {
					case *ssa.Phi:
						return true
					case *ssa.UnOp:
						if y.Op == token.MUL {
							switch y.X.(type) {
							case *ssa.Alloc, *ssa.FreeVar:
								return true
							}
						}
					}
					return false
				}
				cand := map[ssa.Instruction]bool{}
				engine.ForEachInstr(f, func(x ssa.Instruction) {
					switch y := x.(type) {
					case *ssa.FieldAddr:
						if mayBe(y.X) {
							cand[x] = true
						}
					case *ssa.MakeClosure:
						for _, b := range y.Bindings {
							if al, ok := b.(*ssa.Alloc); ok && types.Identical(engine.Deref(al.Type()), ex.Type()) {
								cand[x] = true
							}
						}
					case ssa.CallInstruction:
						if y.Common().IsInvoke() && mayBe(y.Common().Value) {
							cand[x] = true
						}
					}
				})
				if len(cand) == 0 {
					n++
					c.Hold(fmt.Sprintf("%s>%s#%d", p.FuncName(f), cf.Name(), ex.Index), call.Pos(), 1, nil, "failed-call result is never dereferenced in this function")
					continue
				}
				states, err := (&engine.PathQuery{Fn: f, From: call, Sink: func(x ssa.Instruction) bool {
					return cand[x] || engine.IsReturn(x)
				}, ContinueAfterSink: true, Track: invokeReceivers(f, ex.Type())}).Run()
				_ = q
				if err != nil {
					return
				}
				n++
				for _, st := range states {
					if engine.IsReturn(st.Sink) {
						continue
					}
					isNil, known := st.IsNil(func(v ssa.Value) bool {
						cl, i := engine.ResultOfCall(v)
						return cl == call && i == errIdx
					})
					if !(known && !isNil) {
						continue
					}
					if isDeref(st.Sink, st) {
						hit = st.Sink
						c.Violate(fmt.Sprintf("%s>%s#%d", p.FuncName(f), cf.Name(), ex.Index), posOf(hit),
							[]string{"path: " + st.Witness(), "facts: " + strings.Join(st.LitStrings(), " ; ")},
							"result #%d of %s is dereferenced on a path where its error is non-nil: nil-pointer panic", ex.Index, cf.Name())
						break
					}
				}
				if hit == nil {
					c.Hold(fmt.Sprintf("%s>%s#%d", p.FuncName(f), cf.Name(), ex.Index), call.Pos(), len(states), nil, "failed-call result not dereferenced on the error path")
				}
			}
		})
	}
	c.Floor(n, 5)
}

// freeVarDerefed: inside the closure the captured pointer variable is loaded and its fields are selected.
func freeVarDerefed(fv *ssa.FreeVar) bool {
	refs := fv.Referrers()
	if refs == nil {
		return false
	}
	for _, r := range *refs {
		u, ok := r.(*ssa.UnOp)
		if !ok || u.Op != token.MUL {
			continue
		}
		if ur := u.Referrers(); ur != nil {
			for _, x := range *ur {
				if fa, ok := x.(*ssa.FieldAddr); ok && fa.X == u {
					return true
				}
			}
		}
	}
	return false
}

// helperNonNegative: every return path of the (small, repo) callee yields a value that is a non-negative constant,
// a length, or carries a literal establishing v >= 0 — a clamp helper.
func helperNonNegative(call *ssa.Call, depth int) bool {
	cf := engine.CalleeFn(call)
	if cf == nil || cf.Blocks == nil || cf.Pkg == nil || !engine.IsRepoPkg(cf.Pkg.Pkg.Path()) || depth > 1 {
		return false
	}
	q := &engine.PathQuery{Fn: cf, Sink: engine.IsReturn}
	states, err := q.Run()
	if err != nil || len(states) == 0 {
		return false
	}
	for _, st := range states {
		r := st.Sink.(*ssa.Return)
		if len(r.Results) == 0 {
			return false
		}
		v := st.Resolve(r.Results[0])
		if z, ok := engine.ConstInt(v); ok {
			if z < 0 {
				return false
			}
			continue
		}
		okv := false
		for _, l := range st.Lits {
			x, y, op := l.X, l.Y, l.Op
			if !engine.SameExpr(x, v) {
				if engine.SameExpr(y, v) {
					x, y, op = y, x, flipOrd(op)
				} else {
					continue
				}
			}
			if !l.Val {
				op = negOrd(op)
			}
			if z, ok := engine.ConstInt(y); ok && ((op == token.GEQ && z >= 0) || (op == token.GTR && z >= -1)) {
				okv = true
			}
		}
		if !okv {
			return false
		}
	}
	return true
}

// c16LockOrder: no two mutex fields are acquired in both orders. Two goroutines taking them in opposite orders wedge
// each other for good (and everything that later needs either lock), which the property forbids for every interleaving.
func c16LockOrder(c *engine.Ctx, li *engine.LockInfo, rule string) {
	c.Rule(rule, "lock order: the graph 'mutex field A is held while mutex field B is acquired (directly or in a statically called function)' has no cycle")
	p := c.P
	edges := li.LockOrder()
	name := func(v *types.Var) string {
		pk := ""
		if v.Pkg() != nil {
			pk = strings.TrimPrefix(v.Pkg().Path(), engine.ModPath+"/")
		}
		return pk + "." + ownerOf(p, v) + "." + v.Name()
	}
	adj := map[*types.Var]map[*types.Var]engine.LockEdge{}
	for _, e := range edges {
		if adj[e.From] == nil {
			adj[e.From] = map[*types.Var]engine.LockEdge{}
		}
		if _, ok := adj[e.From][e.To]; !ok {
			adj[e.From][e.To] = e
		}
	}
	// reachability (the graph is tiny)
	reach := func(a, b *types.Var) bool {
		seen := map[*types.Var]bool{}
		var dfs func(x *types.Var) bool
		dfs = func(x *types.Var) bool {
			if x == b {
				return true
			}
			if seen[x] {
				return false
			}
			seen[x] = true
			for y := range adj[x] {
				if dfs(y) {
					return true
				}
			}
			return false
		}
		for y := range adj[a] {
			if dfs(y) {
				return true
			}
		}
		return false
	}
	type pair struct{ a, b string }
	var keys []string
	desc := map[string]engine.LockEdge{}
	for a, m := range adj {
		for b, e := range m {
			k := name(a) + "->" + name(b)
			keys = append(keys, k)
			desc[k] = e
		}
	}
	sort.Strings(keys)
	n := 0
	for _, k := range keys {
		e := desc[k]
		n++
		via := ""
		if e.Via != nil {
			via = " (inside " + p.FuncName(e.Via) + ")"
		}
		if reach(e.To, e.From) {
			c.Violate("order:"+k, e.Site.Pos(), []string{"edge at " + p.Pos(posOf(e.Site)) + via}, "%s is acquired while %s is held%s, and elsewhere the opposite order occurs: two goroutines can block each other forever", name(e.To), name(e.From), via)
		} else {
			c.Hold("order:"+k, e.Site.Pos(), 1, []string{"edge at " + p.Pos(posOf(e.Site)) + via}, "no path acquires these two locks in the opposite order")
		}
	}
	c.Floor(n, 3)
}

// ownerOf returns the name of the struct type that declares field v (best effort, for report keys).
func ownerOf(p *engine.Prog, v *types.Var) string {
	for _, pk := range p.Pkgs {
		if pk.Types != v.Pkg() {
			continue
		}
		sc := pk.Types.Scope()
		for _, nm := range sc.Names() {
			tn, ok := sc.Lookup(nm).(*types.TypeName)
			if !ok {
				continue
			}
			st, ok := tn.Type().Underlying().(*types.Struct)
			if !ok {
				continue
			}
			for i := 0; i < st.NumFields(); i++ {
				if st.Field(i) == v {
					return tn.Name()
				}
			}
		}
	}
	return "?"
}

// invokeReceivers lists the receivers of interface method calls in f whose static type is t (tracked so that a
// variable reassigned from a call result resolves to that result on the path).
func invokeReceivers(f *ssa.Function, t types.Type) []ssa.Value {
	var out []ssa.Value
	engine.ForEachInstr(f, func(in ssa.Instruction) {
		if ci, ok := in.(ssa.CallInstruction); ok && ci.Common().IsInvoke() && types.Identical(ci.Common().Value.Type(), t) {
			out = append(out, ci.Common().Value)
		}
	})
	return out
}

// c16RetryBound (R12, the crash side of C11.R5): GetWorkConnFromPool's callers use the returned connection without a
// nil check when err == nil; the loop must therefore run at least once, which holds because its bound is
// BaseProxy.poolCount+1 and poolCount is clamped to >= 0 when the control is built (C11.R2). A bound taken from the
// peer's login message is attacker-chosen and may be negative.
func c16RetryBound(c *engine.Ctx, rule string) {
	c.Rule(rule, "BaseProxy.GetWorkConnFromPool: the retry loop's bound is poolCount+1 with poolCount the proxy's clamped copy; no field of a protocol message flows into the bound")
	p := c.P
	n := 0
	f := fn(c, "server/proxy.BaseProxy.GetWorkConnFromPool")
	bpc := field(c, "server/proxy", "BaseProxy", "poolCount")
	writeMsg := funcObj(c, "pkg/msg", "WriteMsg")
	if f == nil || bpc == nil || writeMsg == nil {
		return
	}
	for _, w := range engine.CallsTo(f, writeMsg) {
		h := engine.LoopHeader(w.Block())
		if h == nil {
			continue
		}
		n++
		ok, why := false, "loop condition not recognised"
		if by, isCounting := engine.LoopBound(h); isCounting { // `i < B` or `range B`
			src := engine.Provenance(by, engine.ProvOpts{})
			ok, why = src.HasField(bpc), "bound does not derive from BaseProxy.poolCount"
			for fv := range src.Fields {
				if fv.Pkg() != nil && strings.HasSuffix(fv.Pkg().Path(), "/pkg/msg") {
					ok, why = false, "bound derives from the message field "+fv.Name()+" (peer-chosen, may be negative)"
				}
			}
			if add, isAdd := by.(*ssa.BinOp); !(isAdd && add.Op == token.ADD) {
				ok, why = false, "bound is not poolCount+1"
			} else if k, isK := engine.ConstInt(add.Y); !(isK && k >= 1) {
				ok, why = false, "bound is not poolCount+1"
			}
		}
		c.Check(ok, p.FuncName(f)+">retry-bound", w.Pos(), 2, nil, "the loop runs at least once: bound is the clamped poolCount + 1 (%s)", why)
	}
	c.Floor(n, 1)
}

// c16IndexBounds (R13): the result of strings.Index / IndexByte / LastIndex … is -1 when nothing is found; using it as
// a slice bound panics. Every slice expression whose bound derives from such a call is reached only on paths where the
// result was found >= 0 (any spelling: `< 0` false, `>= 0`, `!= -1`, `> k`, `>= k` with k >= 0). The panics are in
// goroutines without recover (vhost muxer handlers), so one malformed header would take the process down.
func c16IndexBounds(c *engine.Ctx, rule string) {
	c.Rule(rule, "a slice bound that derives from a strings/bytes Index* result is used only on paths where that result was found non-negative")
	p := c.P
	n := 0
	isIndexCall := func(v ssa.Value) *ssa.Call {
		cl, _ := engine.ResultOfCall(v)
		if cl == nil {
			return nil
		}
		o := engine.CalleeObj(cl)
		if o == nil || o.Pkg() == nil || !(o.Pkg().Path() == "strings" || o.Pkg().Path() == "bytes") {
			return nil
		}
		if strings.HasPrefix(o.Name(), "Index") || strings.HasPrefix(o.Name(), "LastIndex") {
			return cl
		}
		return nil
	}
	// bound expressions: idx, idx+k, idx-k
	rootIdx := func(v ssa.Value) *ssa.Call {
		for i := 0; i < 4; i++ {
			if v == nil {
				return nil
			}
			if cl := isIndexCall(v); cl != nil {
				return cl
			}
			switch x := v.(type) {
			case *ssa.BinOp:
				if x.Op == token.ADD || x.Op == token.SUB {
					if _, isC := x.Y.(*ssa.Const); isC {
						v = x.X
						continue
					}
				}
				return nil
			case *ssa.Convert:
				v = x.X
				continue
			case *ssa.ChangeType:
				v = x.X
				continue
			}
			return nil
		}
		return nil
	}
	for _, f := range p.RepoFuncs() {
		f := f
		engine.ForEachInstr(f, func(in ssa.Instruction) {
			sl, ok := in.(*ssa.Slice)
			if !ok {
				return
			}
			var idxCalls []*ssa.Call
			for _, b := range []ssa.Value{sl.Low, sl.High} {
				if cl := rootIdx(b); cl != nil {
					idxCalls = append(idxCalls, cl)
				}
			}
			if len(idxCalls) == 0 {
				return
			}
			n++
			key := fmt.Sprintf("%s>slice-bound#%d", p.FuncName(f), n)
			c.AllPaths(key, engine.PathCheck{Fn: f, Sink: engine.Is(in), KeepLoopFacts: true, Pred: func(st *engine.PathState) string {
				for _, cl := range idxCalls {
					nonNeg := false
					isIdx := func(v ssa.Value) bool { c2, _ := engine.ResultOfCall(v); return c2 == cl }
					// equality spellings
					for _, l := range st.Lits {
						if l.Op != token.EQL {
							continue
						}
						x, y := l.X, l.Y
						if _, isC := x.(*ssa.Const); isC {
							x, y = y, x
						}
						if !isIdx(x) {
							continue
						}
						if k, ok := engine.ConstInt(y); ok {
							if (k == -1 && !l.Val) || (k >= 0 && l.Val) {
								nonNeg = true
							}
						}
					}
					// ordering spellings
					if !nonNeg {
						nonNeg = st.Ordered(func(x ssa.Value, op token.Token, y ssa.Value) bool {
							if !isIdx(x) {
								return false
							}
							k, ok := engine.ConstInt(y)
							if !ok {
								return false
							}
							switch op {
							case token.GEQ:
								return k >= 0
							case token.GTR:
								return k >= -1
							}
							return false
						})
					}
					if !nonNeg {
						return "the slice bound derives from " + engine.Describe(cl) + ", which is -1 when nothing is found, and this path did not establish that it is >= 0: slice bounds out of range panic"
					}
				}
				return ""
			}}, "Index* result checked before it is used as a slice bound")
		})
	}
	// the sites disappear when the code moves to strings.Cut (which cannot produce a bad bound): the floor is on the
	// string-splitting calls the matcher looked at, not on the risky ones
	seen := 0
	for _, f := range p.RepoFuncs() {
		engine.ForEachInstr(f, func(in ssa.Instruction) {
			if call, ok := in.(*ssa.Call); ok {
				if o := engine.CalleeObj(call); o != nil && o.Pkg() != nil && (o.Pkg().Path() == "strings" || o.Pkg().Path() == "bytes") {
					if strings.HasPrefix(o.Name(), "Index") || strings.HasPrefix(o.Name(), "LastIndex") || strings.HasPrefix(o.Name(), "Cut") || strings.HasPrefix(o.Name(), "Split") {
						seen++
					}
				}
			}
		})
	}
	c.Check(seen >= 3, "index-bounds:calls-seen", token.NoPos, seen, nil, "positive control: %d Index*/Cut/Split calls examined, %d of them feed a slice bound", seen, n)
	c.Floor(seen, 3)
}

// mayReturnNil: some return of cf yields a nil constant, a named result, or an unknown value at result index i; false
// only when every return yields something that is visibly non-nil or handed in by the caller (parameter, address of a
// field or allocation).
func mayReturnNil(cf *ssa.Function, i int) bool {
	may := false
	engine.ForEachInstr(cf, func(in ssa.Instruction) {
		r, ok := in.(*ssa.Return)
		if !ok || i >= len(r.Results) {
			return
		}
		switch x := engine.Unwrap(r.Results[i]).(type) {
		case *ssa.Parameter, *ssa.FieldAddr, *ssa.Alloc, *ssa.MakeInterface:
			_ = x
		default:
			may = true
		}
	})
	return may
}

// checkRawEnumCompare: the server validates a registration by comparing enumeration-like configuration strings with
// constants exactly (checkValidationExact); the code that later acts on the same field must compare the same raw value.
// A consumer that folds case (or trims) first understands spellings the validator waved through unchecked — e.g.
// multiplexer "HTTPConnect" skips the "feature enabled" check and reaches a nil muxer.
func checkRawEnumCompare(c *engine.Ctx, rule string) {
	c.Rule(rule, "in server, server/proxy, server/group and server/visitor every comparison of a pkg/config/v1 string field with a constant compares the raw field value: no strings.ToLower/ToUpper/Title/TrimSpace/EqualFold in between")
	p := c.P
	isCfgField := func(f *types.Var) bool {
		if f.Pkg() == nil || !strings.HasSuffix(f.Pkg().Path(), "/pkg/config/v1") {
			return false
		}
		b, ok := f.Type().Underlying().(*types.Basic)
		return ok && b.Info()&types.IsString != 0
	}
	folding := func(o *types.Func) bool {
		if o == nil || o.Pkg() == nil || o.Pkg().Path() != "strings" {
			return false
		}
		switch o.Name() {
		case "ToLower", "ToUpper", "Title", "TrimSpace", "Trim", "ToTitle", "EqualFold":
			return true
		}
		return false
	}
	n := 0
	for _, f := range p.RepoFuncs() {
		if f.Pkg == nil {
			continue
		}
		rel := strings.TrimPrefix(f.Pkg.Pkg.Path(), engine.ModPath+"/")
		if rel != "server" && rel != "server/proxy" && rel != "server/group" && rel != "server/visitor" {
			continue
		}
		engine.ForEachInstr(f, func(in ssa.Instruction) {
			switch x := in.(type) {
			case *ssa.BinOp:
				if x.Op != token.EQL && x.Op != token.NEQ {
					return
				}
				var other ssa.Value
				if _, ok := x.X.(*ssa.Const); ok {
					other = x.Y
				} else if _, ok := x.Y.(*ssa.Const); ok {
					other = x.X
				} else {
					return
				}
				if b, ok := other.Type().Underlying().(*types.Basic); !ok || b.Info()&types.IsString == 0 {
					return
				}
				src := engine.Provenance(other, engine.ProvOpts{})
				cfg := false
				var fnames []string
				for fv := range src.Fields {
					if isCfgField(fv) {
						cfg = true
						fnames = append(fnames, fv.Name())
					}
				}
				if !cfg {
					return
				}
				sort.Strings(fnames)
				n++
				var bad []string
				for o := range src.Calls {
					if folding(o) {
						bad = append(bad, "strings."+o.Name())
					}
				}
				sort.Strings(bad)
				c.Check(len(bad) == 0, fmt.Sprintf("%s>raw-enum#%s", p.FuncName(f), strings.Join(fnames, "+")), in.Pos(), 1, bad,
					"the configuration string is compared as received (the validator compared it exactly)")
			case ssa.CallInstruction:
				o := engine.CalleeObj(x)
				if !folding(o) || o.Name() != "EqualFold" {
					return
				}
				for _, a := range x.Common().Args {
					src := engine.Provenance(a, engine.ProvOpts{})
					for fv := range src.Fields {
						if isCfgField(fv) {
							n++
							c.Violate(fmt.Sprintf("%s>raw-enum#EqualFold", p.FuncName(f)), in.Pos(), nil, "configuration field %s is matched case-insensitively; the validator matches it exactly", fv.Name())
						}
					}
				}
			}
		})
	}
	c.Floor(n, 2)
}

// c16CheckThenAct: "look the entry up, then replace it" on a lock-guarded map is one critical section. A function that
// reads a map field of a mutex-carrying struct and later writes the same field must not release the mutex in between:
// two callers would both see the old entry and both act on it (two re-logins both "replace" the same old session and
// both stay alive). The rule looks at every (read, write) pair of one map field inside one function and fails when some
// path from the read to the write passes an Unlock / RUnlock call.
func c16CheckThenAct(c *engine.Ctx, rule string) {
	c.Rule(rule, "in a function that reads and then writes the same map field of a struct with a mutex, no path from the read to the write releases a mutex (the lookup and the update are one critical section)")
	p := c.P
	isUnlock := func(in ssa.Instruction) bool {
		call, ok := in.(*ssa.Call)
		if !ok {
			return false
		}
		o := engine.CalleeObj(call)
		if o == nil || o.Pkg() == nil || o.Pkg().Path() != "sync" {
			return false
		}
		return o.Name() == "Unlock" || o.Name() == "RUnlock"
	}
	mapField := func(v ssa.Value) *types.Var {
		fv, _ := engine.LoadedField(v)
		if fv == nil {
			return nil
		}
		if _, ok := fv.Type().Underlying().(*types.Map); !ok {
			return nil
		}
		return fv
	}
	n := 0
	for _, f := range p.RepoFuncs() {
		hasUnlock := false
		reads := map[*types.Var][]ssa.Instruction{}
		writes := map[*types.Var][]ssa.Instruction{}
		engine.ForEachInstr(f, func(in ssa.Instruction) {
			if isUnlock(in) {
				hasUnlock = true
			}
			switch x := in.(type) {
			case *ssa.Lookup:
				if fv := mapField(x.X); fv != nil {
					reads[fv] = append(reads[fv], in)
				}
			case *ssa.Range:
				if fv := mapField(x.X); fv != nil {
					reads[fv] = append(reads[fv], in)
				}
			case *ssa.MapUpdate:
				if fv := mapField(x.Map); fv != nil {
					writes[fv] = append(writes[fv], in)
				}
			case *ssa.UnOp:
				// the table's value handed on as a whole (into a variadic helper such as lo.Values(m.tbl)): a snapshot read
				if x.Op == token.MUL {
					if fv := mapField(x); fv != nil && x.Referrers() != nil {
						for _, r := range *x.Referrers() {
							if st, ok := r.(*ssa.Store); ok && st.Val == ssa.Value(x) {
								if _, isIdx := st.Addr.(*ssa.IndexAddr); isIdx {
									reads[fv] = append(reads[fv], in)
								}
							}
						}
					}
				}
			case *ssa.Store:
				// the table replaced as a whole (`m.tbl = make(…)`)
				if fv, _ := engine.LoadedField(x.Addr); fv != nil {
					if _, isMap := fv.Type().Underlying().(*types.Map); isMap {
						if _, local := func() (ssa.Value, bool) {
							_, b := engine.LoadedField(x.Addr)
							_, isAl := b.(*ssa.Alloc)
							return nil, isAl
						}(); !local {
							writes[fv] = append(writes[fv], in)
						}
					}
				}
			case ssa.CallInstruction:
				if b, ok := x.Common().Value.(*ssa.Builtin); ok && b.Name() == "delete" {
					if fv := mapField(x.Common().Args[0]); fv != nil {
						writes[fv] = append(writes[fv], in)
					}
				} else if _, isB := x.Common().Value.(*ssa.Builtin); !isB {
					// the table handed to a function that reads it (lo.Values(m.tbl), maps.Keys(m.tbl)): a snapshot
					for _, a := range x.Common().Args {
						a = engine.Unwrap(a)
						if ct, ok := a.(*ssa.ChangeType); ok {
							a = ct.X
						}
						if fv := mapField(a); fv != nil {
							reads[fv] = append(reads[fv], in)
						}
					}
				}
			}
		})
		for fv, rs := range reads {
			ws := writes[fv]
			if len(ws) == 0 {
				continue
			}
			n++
			if !hasUnlock {
				c.Hold(fmt.Sprintf("%s>%s", p.FuncName(f), fv.Name()), f.Pos(), 1, nil, "read and write of %s in one function without an explicit unlock (deferred unlock or caller's lock)", fv.Name())
				continue
			}
			bad := ""
			var badPos token.Pos
			for _, r := range rs {
				for _, w := range ws {
					if !engine.InstrReaches(r, w) {
						continue
					}
					isRead := map[ssa.Instruction]bool{}
					for _, r2 := range rs {
						if r2 != r {
							isRead[r2] = true
						}
					}
					why := engine.QuietPaths(engine.PathCheck{Fn: f, From: r, Sink: engine.Is(w),
						Event: func(in ssa.Instruction) string {
							if isUnlock(in) {
								return "unlock"
							}
							if isRead[in] || (in == r) {
								return "read"
							}
							return ""
						},
						Pred: func(st *engine.PathState) string {
							// an unlock that is not followed by a fresh look at the table before the update
							lastUnlock, lastRead := -1, -1
							for i, e := range st.Events {
								switch e.Tag {
								case "unlock":
									lastUnlock = i
								case "read":
									lastRead = i
								}
							}
							if lastUnlock >= 0 && lastRead < lastUnlock {
								return "a mutex is released between the lookup and the update of " + fv.Name()
							}
							return ""
						}})
					if why != "" && bad == "" {
						bad, badPos = why, w.Pos()
					}
				}
			}
			key := fmt.Sprintf("%s>%s", p.FuncName(f), fv.Name())
			if bad != "" {
				c.Violate(key, badPos, nil, "%s: two callers can both act on the entry they both saw", bad)
			} else {
				c.Hold(key, f.Pos(), len(rs)*len(ws), nil, "lookup and update of %s form one critical section", fv.Name())
			}
		}
	}
	c.Floor(n, 5)
	// the same for a sync.Map: Load followed by Store of the same table is two operations, however "concurrent" the
	// type is — claiming an entry needs LoadOrStore (or a mutex around both)
	for _, f := range p.RepoFuncs() {
		loads := map[*types.Var][]ssa.Instruction{}
		stores := map[*types.Var][]ssa.Instruction{}
		engine.ForEachInstr(f, func(in ssa.Instruction) {
			call, ok := in.(*ssa.Call)
			if !ok {
				return
			}
			o := engine.CalleeObj(call)
			if o == nil || o.Pkg() == nil || o.Pkg().Path() != "sync" {
				return
			}
			recv := o.Type().(*types.Signature).Recv()
			if recv == nil || !engine.IsNamed(recv.Type(), "sync", "Map") {
				return
			}
			args := engine.CallArgs(call)
			if len(args) == 0 {
				return
			}
			var fv *types.Var
			if fa, ok := engine.Unwrap(args[0]).(*ssa.FieldAddr); ok {
				if st, ok := engine.Deref(fa.X.Type()).Underlying().(*types.Struct); ok {
					fv = st.Field(fa.Field)
				}
			}
			if fv == nil {
				return
			}
			switch o.Name() {
			case "Load", "Range":
				loads[fv] = append(loads[fv], in)
			case "Store", "Swap":
				stores[fv] = append(stores[fv], in)
			}
		})
		for fv, ls := range loads {
			for _, l := range ls {
				for _, w := range stores[fv] {
					if engine.InstrReaches(l, w) {
						c.Violate(fmt.Sprintf("%s>%s>load-then-store", p.FuncName(f), fv.Name()), w.Pos(), nil,
							"the sync.Map %s is consulted with %s and then written with Store in the same function: the two are not one atomic step, two callers can both find the entry absent and both store (use LoadOrStore, or a mutex around both)", fv.Name(), engine.CalleeObj(l.(*ssa.Call)).Name())
					}
				}
			}
		}
	}
}

// c16DivByLen: `x % len(s)` and `x / len(s)` panic (integer divide by zero) when s is empty — in a goroutine without
// recover that takes the process down. Every remainder / quotient whose divisor is a length must be reached only on paths
// that established the collection non-empty (len(s) > 0, len(s) != 0, or a loop over s).
func c16DivByLen(c *engine.Ctx, rule string) {
	c.Rule(rule, "every `% len(x)` / `/ len(x)` is reached only on paths where len(x) was found non-zero")
	p := c.P
	lenArg := func(v ssa.Value) ssa.Value {
		v = engine.Unwrap(v)
		for i := 0; i < 3; i++ {
			if cv, ok := v.(*ssa.Convert); ok {
				v = cv.X
				continue
			}
			break
		}
		call, ok := v.(*ssa.Call)
		if !ok {
			return nil
		}
		if b, ok := call.Call.Value.(*ssa.Builtin); ok && b.Name() == "len" {
			return call.Call.Args[0]
		}
		return nil
	}
	n := 0
	for _, f := range p.RepoFuncs() {
		f := f
		engine.ForEachInstr(f, func(in ssa.Instruction) {
			bo, ok := in.(*ssa.BinOp)
			if !ok || (bo.Op != token.REM && bo.Op != token.QUO) {
				return
			}
			coll := lenArg(bo.Y)
			if coll == nil {
				return
			}
			n++
			isLenOf := func(v ssa.Value) bool {
				a := lenArg(v)
				return a != nil && (a == coll || engine.SameExpr(a, coll))
			}
			isZero := func(v ssa.Value) bool { z, ok := engine.ConstInt(v); return ok && z == 0 }
			c.AllPaths(fmt.Sprintf("%s>div-by-len#%d", p.FuncName(f), n), engine.PathCheck{Fn: f, Sink: engine.Is(in), KeepLoopFacts: true, Pred: func(st *engine.PathState) string {
				// len(x) == 0 is false, or len(x) > 0 / >= 1 / 0 < len(x)
				if eq, k := st.Equal(isLenOf, isZero); k && !eq {
					return ""
				}
				if st.Ordered(func(x ssa.Value, op token.Token, y ssa.Value) bool {
					if !isLenOf(x) {
						return false
					}
					z, isC := engine.ConstInt(y)
					if !isC {
						return false
					}
					return (op == token.GTR && z >= 0) || (op == token.GEQ && z >= 1)
				}) {
					return ""
				}
				return "the divisor len(" + engine.Describe(coll) + ") may be zero on this path: integer divide by zero"
			}}, "divisor length is non-zero on every path")
		})
	}
	c.Floor(n, 2)
}

// c16DecodeInto: base64 / hex Decode(dst, src) write DecodedLen(len(src)) bytes into dst and panic (index out of range)
// when dst is shorter; src is chosen by the peer. A destination that was not sized from the source (a pooled, fixed
// buffer) turns an oversized payload into a process crash in goroutines that have no recover.
func c16DecodeInto(c *engine.Ctx, rule string) {
	c.Rule(rule, "every base64/hex Decode(dst, src) and Encode(dst, src) writes into a destination allocated with the matching DecodedLen/EncodedLen of that source (the allocating forms DecodeString / EncodeToString / AppendDecode are always fine)")
	p := c.P
	seen, into := 0, 0
	for _, f := range p.RepoFuncs() {
		engine.ForEachInstr(f, func(in ssa.Instruction) {
			call, ok := in.(*ssa.Call)
			if !ok {
				return
			}
			o := engine.CalleeObj(call)
			if o == nil || o.Pkg() == nil || !(o.Pkg().Path() == "encoding/base64" || o.Pkg().Path() == "encoding/hex") {
				return
			}
			seen++
			if o.Name() != "Decode" && o.Name() != "Encode" {
				return
			}
			args := engine.CallArgs(call)
			var dst ssa.Value
			for _, a := range args {
				if _, isSlice := a.Type().Underlying().(*types.Slice); isSlice {
					dst = a
					break
				}
			}
			if dst == nil {
				return
			}
			into++
			src := engine.DeepSources(p, dst)
			sized := false
			for k := range src.Calls {
				if k.Pkg() != nil && k.Pkg().Path() == o.Pkg().Path() && (k.Name() == "DecodedLen" || k.Name() == "EncodedLen") {
					sized = true
				}
			}
			c.Check(sized, fmt.Sprintf("%s>%s-into#%d", p.FuncName(f), o.Name(), into), in.Pos(), len(src.Values), []string{"destination: " + src.Summary()},
				"the destination of %s is sized from the source with %sdLen", o.Name(), o.Name())
		})
	}
	c.Check(seen >= 1, "decode-into:codec-calls-seen", token.NoPos, seen, nil, "positive control: %d base64/hex calls examined, %d of them write into a caller-supplied buffer", seen, into)
	c.Floor(seen, 1)
}

// c16ImpossibleAssert: a type assertion to an interface whose operand can only ever hold concrete types that do not
// implement it always fails — the code behind it (hijack the connection, flush, …) is dead and its failure branch is what
// every request gets. Typical cause: a value is wrapped (a recording ResponseWriter) and the wrapper forwards only part of
// the wrapped value's method set.
func c16ImpossibleAssert(c *engine.Ctx, rule string, pkgs ...string) {
	c.Rule(rule, "no interface type assertion has an operand that, traced to its sources, is always a concrete type of this module that lacks the asserted methods")
	p := c.P
	n := 0
	for _, f := range p.RepoFuncs() {
		if f.Pkg == nil {
			continue
		}
		if len(pkgs) > 0 {
			rel := strings.TrimPrefix(f.Pkg.Pkg.Path(), engine.ModPath+"/")
			okp := false
			for _, q := range pkgs {
				if rel == q || strings.HasPrefix(rel, q+"/") {
					okp = true
				}
			}
			if !okp {
				continue
			}
		}
		engine.ForEachInstr(f, func(in ssa.Instruction) {
			ta, ok := in.(*ssa.TypeAssert)
			if !ok {
				return
			}
			iface, ok := ta.AssertedType.Underlying().(*types.Interface)
			if !ok || iface.NumMethods() == 0 {
				return
			}
			n++
			dts, complete := engine.DynamicTypes(p, ta.X)
			if !complete {
				return // something this analysis cannot enumerate may flow in
			}
			var lacking []string
			good := 0
			for _, t := range dts {
				if types.Implements(t, iface) {
					good++
				} else {
					lacking = append(lacking, types.TypeString(t, nil))
				}
			}
			if good == 0 && len(lacking) > 0 {
				sort.Strings(lacking)
				c.Violate(fmt.Sprintf("%s>assert#%s", p.FuncName(f), types.TypeString(ta.AssertedType, nil)), in.Pos(), lacking,
					"the asserted value is always one of %s, none of which implements %s: the assertion can never succeed", strings.Join(lacking, ", "), types.TypeString(ta.AssertedType, nil))
			}
		})
	}
	c.Check(n >= 1, "impossible-assert:seen", token.NoPos, n, nil, "positive control: %d interface assertions examined", n)
	c.Floor(n, 1)
}

// checkThrowawayBufio: a bufio.Reader reads ahead. One that is created over a connection only to read a single message or
// request, and then dropped while the connection itself goes on being used (joined, handed on, read), has swallowed
// whatever bytes followed that message in the same segment — the head of the user's stream, or a cipher's IV.
func checkThrowawayBufio(c *engine.Ctx, rule string) {
	c.Rule(rule, "no bufio.Reader is created over a connection (a value that can also be written to) merely to pass it to read calls while the connection itself is used again afterwards: bytes buffered beyond the message are lost")
	p := c.P
	n := 0
	hasWrite := func(t types.Type) bool {
		ms := types.NewMethodSet(t)
		for i := 0; i < ms.Len(); i++ {
			if ms.At(i).Obj().Name() == "Write" {
				return true
			}
		}
		return false
	}
	for _, f := range p.RepoFuncs() {
		f := f
		engine.ForEachInstr(f, func(in ssa.Instruction) {
			call, ok := in.(*ssa.Call)
			if !ok {
				return
			}
			o := engine.CalleeObj(call)
			if o == nil || o.Pkg() == nil || o.Pkg().Path() != "bufio" || !strings.HasPrefix(o.Name(), "NewReader") {
				return
			}
			n++
			under := engine.Unwrap(call.Call.Args[0])
			if mi, ok := under.(*ssa.MakeInterface); ok {
				under = engine.Unwrap(mi.X)
			}
			key := fmt.Sprintf("%s>bufio#%d", p.FuncName(f), n)
			if !hasWrite(under.Type()) {
				c.Hold(key, in.Pos(), 1, nil, "buffered reader over a read-only source")
				return
			}
			// is the reader kept (stored, returned, wrapped) or only handed to read calls?
			temporary := true
			if refs := call.Referrers(); refs != nil {
				for _, r := range *refs {
					switch x := r.(type) {
					case *ssa.DebugRef:
					case ssa.CallInstruction:
						co := engine.CalleeObj(x)
						if co == nil || !(strings.HasPrefix(co.Name(), "Read") || strings.HasPrefix(co.Name(), "Peek")) {
							temporary = false
						}
					case *ssa.MakeInterface:
						if ir := x.Referrers(); ir != nil {
							for _, u := range *ir {
								if cc, ok := u.(ssa.CallInstruction); ok {
									co := engine.CalleeObj(cc)
									if co == nil || !strings.HasPrefix(co.Name(), "Read") {
										temporary = false
									}
								} else if _, dbg := u.(*ssa.DebugRef); !dbg {
									temporary = false
								}
							}
						}
					default:
						temporary = false
					}
				}
			}
			if !temporary {
				c.Hold(key, in.Pos(), 1, nil, "the buffered reader is kept and used for the rest of the stream")
				return
			}
			// the connection itself is used again after the reader was created (other than being closed)
			var later ssa.Instruction
			engine.ForEachInstr(f, func(x ssa.Instruction) {
				if later != nil || x == in {
					return
				}
				if r, isRet := x.(*ssa.Return); isRet && engine.InstrReaches(in, x) {
					// handed back to the caller, which goes on using it
					for _, rv := range r.Results {
						av := engine.Unwrap(rv)
						if av == under || engine.SameExpr(av, under) {
							later = x
						}
					}
					return
				}
				cc, ok := x.(ssa.CallInstruction)
				if !ok || !engine.InstrReaches(in, x) {
					return
				}
				if co := engine.CalleeObj(cc); co != nil && (co.Name() == "Close" || strings.HasPrefix(co.Name(), "Set") || strings.HasSuffix(co.Name(), "Addr")) {
					return
				}
				for _, a := range engine.CallArgs(cc) {
					av := engine.Unwrap(a)
					if mi, ok := av.(*ssa.MakeInterface); ok {
						av = engine.Unwrap(mi.X)
					}
					if av == under || engine.SameExpr(av, under) {
						if rc, isCall := x.(*ssa.Call); isCall && rc == call {
							continue
						}
						later = x
					}
				}
			})
			if later != nil {
				c.Violate(key, in.Pos(), []string{"connection used again at " + p.Pos(posOf(later))},
					"a buffered reader is created over %s only for one read, and the connection is used directly afterwards: what the reader buffered beyond the message is lost", engine.Describe(under))
			} else {
				c.Hold(key, in.Pos(), 1, nil, "the connection is not used after the buffered read")
			}
		})
	}
	c.Check(n >= 1, "bufio:seen", token.NoPos, n, nil, "positive control: %d bufio.NewReader sites examined", n)
	c.Floor(n, 1)
}
