package rules

import "frpsa/engine"

func c16Channels(c *engine.Ctx, li *engine.LockInfo) {}
