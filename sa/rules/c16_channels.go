package rules

import (
	"encoding/json"
	"fmt"
	"go/token"
	"go/types"
	"os"
	"path/filepath"
	"sort"
	"strings"

	"golang.org/x/tools/go/ssa"

	"frpsa/engine"
)

// Channel close/send typestate (C16.R3).
//
// Every close(x.f) of a struct-field channel is classified by how a second close is prevented:
//
//	once     inside a closure run by sync.Once.Do
//	flag     on a path where a bool field of the receiver was tested false (and is set true), with a mutex held
//	probe    in the default arm of a select that receives from the same channel, with a mutex held
//	single   none of the above (a single-shot worker or an owner-terminal Close): accepted only when it is the
//	         field's only close site; such sites are listed in the evidence
//
// The weakest class per field on today's tree is recorded in golden/channel_close_classes.json; a field whose
// class becomes weaker than recorded (a guard was dropped) is a violation. Fields not in the table are inventoried.
//
// Sends: a send on a field channel that is closed anywhere must be recover-protected (inside a closure run by
// errors.PanicToError, or in a function with a deferred recover), or sit in the function that contains the only close.

type closeSite struct {
	field *types.Var
	owner string
	fn    *ssa.Function
	in    ssa.Instruction
	class string
}

var classRank = map[string]int{"single": 0, "probe": 1, "flag": 1, "once": 2}

func fieldOwner(p *engine.Prog, fv *types.Var) string {
	for _, pk := range p.Pkgs {
		if pk.Types == nil || pk.Types != fv.Pkg() {
			continue
		}
		for _, name := range pk.Types.Scope().Names() {
			tn, ok := pk.Types.Scope().Lookup(name).(*types.TypeName)
			if !ok {
				continue
			}
			st, ok := tn.Type().Underlying().(*types.Struct)
			if !ok {
				continue
			}
			for i := 0; i < st.NumFields(); i++ {
				if st.Field(i) == fv {
					return strings.TrimPrefix(pk.PkgPath, engine.ModPath+"/") + "." + name + "." + fv.Name()
				}
			}
		}
	}
	return fv.Name()
}

func hasDeferredRecover(f *ssa.Function) bool {
	found := false
	engine.ForEachInstr(f, func(in ssa.Instruction) {
		d, ok := in.(*ssa.Defer)
		if !ok {
			return
		}
		if cf := engine.CalleeFn(d); cf != nil {
			engine.ForEachInstr(cf, func(x ssa.Instruction) {
				if call, ok := x.(ssa.CallInstruction); ok {
					if b, ok := call.Common().Value.(*ssa.Builtin); ok && b.Name() == "recover" {
						found = true
					}
				}
			})
		}
	})
	return found
}

// runBy: is f a closure passed to the named synchronous runner somewhere in its parent?
func runBy(f *ssa.Function, pkg, name string) bool {
	if f.Parent() == nil {
		// a method that is only ever used as a method value handed to pkg.name (once.Do(x.release)) and never
		// called directly
		fo, _ := f.Object().(*types.Func)
		if fo == nil || f.Pkg == nil || f.Signature.Recv() == nil {
			return false
		}
		handed, direct := 0, 0
		for _, mem := range f.Pkg.Members {
			_ = mem
		}
		for _, g := range allFuncsOfPkg(f.Pkg) {
			engine.ForEachInstr(g, func(in ssa.Instruction) {
				call, ok := in.(ssa.CallInstruction)
				if !ok {
					return
				}
				if engine.SameFunc(engine.CalleeObj(call), fo) {
					direct++
				}
				o := engine.CalleeObj(call)
				for _, a := range call.Common().Args {
					mc, ok := a.(*ssa.MakeClosure)
					if !ok {
						continue
					}
					bf, ok := mc.Fn.(*ssa.Function)
					if !ok || bf.Synthetic == "" {
						continue
					}
					if mo, ok := bf.Object().(*types.Func); ok && engine.SameFunc(mo, fo) {
						if o != nil && o.Pkg() != nil && o.Pkg().Path() == pkg && o.Name() == name {
							handed++
						} else {
							direct++
						}
					}
				}
			})
		}
		return handed > 0 && direct == 0
	}
	found := false
	engine.ForEachInstr(f.Parent(), func(in ssa.Instruction) {
		call, ok := in.(ssa.CallInstruction)
		if !ok {
			return
		}
		o := engine.CalleeObj(call)
		if o == nil || o.Pkg() == nil || o.Pkg().Path() != pkg || o.Name() != name {
			return
		}
		for _, a := range call.Common().Args {
			if mc, ok := a.(*ssa.MakeClosure); ok && mc.Fn == f {
				found = true
			}
		}
	})
	return found
}

func c16Channels(c *engine.Ctx, li *engine.LockInfo) { c16ChannelsPrefixed(c, li, "R3") }

func c16ChannelsPrefixed(c *engine.Ctx, li *engine.LockInfo, rid string) {
	p := c.P
	c.Rule(rid, "channel typestate: close sites of struct-field channels are protected against a second close (once / flag or select-probe under a mutex), unguarded sites are unique per field and never weaker than recorded; a closed channel is not reused; sends on closable channels are recover-protected")
	var sites []*closeSite
	for _, f := range p.RepoFuncs() {
		engine.ForEachInstr(f, func(in ssa.Instruction) {
			call, ok := in.(ssa.CallInstruction)
			if !ok {
				return
			}
			b, ok := call.Common().Value.(*ssa.Builtin)
			if !ok || b.Name() != "close" {
				return
			}
			fv, _ := engine.LoadedField(call.Common().Args[0])
			if fv == nil {
				return
			}
			s := &closeSite{field: fv, owner: fieldOwner(p, fv), fn: f, in: in, class: "single"}
			held := li.HeldAt(in)
			switch {
			case runBy(f, "sync", "Do"):
				s.class = "once"
			case len(held) > 0 && guardedByFlag(f, in):
				s.class = "flag"
			case len(held) > 0 && guardedByProbe(f, in, fv):
				s.class = "probe"
			}
			sites = append(sites, s)
		})
	}
	byField := map[*types.Var][]*closeSite{}
	for _, s := range sites {
		byField[s.field] = append(byField[s.field], s)
	}
	// reference classes
	ref := map[string]string{}
	refPath := filepath.Join(verifDirOf(), "golden", "channel_close_classes.json")
	if b, err := os.ReadFile(refPath); err == nil {
		_ = json.Unmarshal(b, &ref)
	} else {
		c.Undecide("golden/channel_close_classes.json", 0, "reference table missing: %v", err)
	}
	var inventory []string
	for fv, ss := range byField {
		owner := ss[0].owner
		weakest := "once"
		unguarded := 0
		var where []string
		for _, s := range ss {
			if classRank[s.class] < classRank[weakest] {
				weakest = s.class
			}
			if s.class == "single" {
				unguarded++
			}
			where = append(where, p.FuncName(s.fn)+":"+s.class)
		}
		sort.Strings(where)
		inventory = append(inventory, owner+" "+weakest+" ["+strings.Join(where, " ")+"]")
		key := owner + ">close"
		pos := ss[0].in.Pos()
		switch {
		case unguarded > 1 || (unguarded == 1 && len(ss) > 1):
			c.Violate(key, pos, where, "channel %s has %d close sites of which %d carry no once/flag/probe guard: two of them can run for the same object (close of closed channel panics)", owner, len(ss), unguarded)
		case ref[owner] != "" && classRank[weakest] < classRank[ref[owner]]:
			c.Violate(key, pos, where, "close of %s used to be protected (%s) and is now %s: a second Close panics", owner, ref[owner], weakest)
		default:
			c.Hold(key, pos, len(ss), where, "close of %s: class %s", owner, weakest)
		}
		_ = fv
	}
	sort.Strings(inventory)
	c.Note("channel close inventory: %s", strings.Join(inventory, " | "))
	c.Floor(len(byField), 10)

	// closed channel reuse: the field is closed in a method that is not paired with a reset, while another function
	// creates the channel only when the field is nil (so a closed, non-nil channel is reused)
	c.Rule(rid+"b", "a channel field that is (re)created only when it is nil must be reset when it is closed; otherwise the closed channel is reused by the next user (later close or send panics)")
	nb := 0
	for fv, ss := range byField {
		owner := ss[0].owner
		// conditional creation: a store of a MakeChan to the field on a path where the field was tested == nil
		condCreate := (*ssa.Function)(nil)
		for _, f := range p.RepoFuncs() {
			engine.ForEachInstr(f, func(in ssa.Instruction) {
				st, ok := in.(*ssa.Store)
				if !ok {
					return
				}
				if lf, _ := engine.LoadedField(st.Addr); lf != fv {
					return
				}
				if _, isMake := st.Val.(*ssa.MakeChan); !isMake {
					return
				}
				// is there a dominating nil test of the same field?
				q := &engine.PathQuery{Fn: f, Sink: engine.Is(in)}
				states, err := q.Run()
				if err != nil || len(states) == 0 {
					return
				}
				all := true
				for _, s := range states {
					isNil, known := s.IsNil(loadOfField(fv))
					if !(known && isNil) {
						all = false
					}
				}
				if all {
					condCreate = f
				}
			})
		}
		if condCreate == nil {
			continue
		}
		nb++
		for _, s := range ss {
			// after the close, is the field reset (store of nil or a new channel) in the same function?
			reset := false
			engine.ForEachInstr(s.fn, func(in ssa.Instruction) {
				st, ok := in.(*ssa.Store)
				if !ok {
					return
				}
				if lf, _ := engine.LoadedField(st.Addr); lf == fv {
					reset = true
				}
			})
			key := owner + ">reuse@" + p.FuncName(s.fn)
			if reset {
				c.Hold(key, s.in.Pos(), 2, nil, "field reset when closed")
			} else {
				c.Violate(key, s.in.Pos(), []string{"created only when nil in " + p.FuncName(condCreate)},
					"%s is closed here but never reset, while %s re-creates it only when it is nil: an object that is reused after its last member left keeps the closed channel (send/close on it panics)", owner, p.FuncName(condCreate))
			}
		}
	}
	c.Note("channel fields with nil-conditional creation: %d", nb)

	// sends
	c.Rule(rid+"c", "every send on a struct-field channel that is closed somewhere in the program is recover-protected (closure run by errors.PanicToError or function with deferred recover), or is in the function holding the field's only close")
	ns := 0
	closedFields := map[*types.Var]bool{}
	for fv := range byField {
		closedFields[fv] = true
	}
	checkSend := func(f *ssa.Function, in ssa.Instruction, ch ssa.Value, what string) {
		fv, _ := engine.LoadedField(ch)
		via := ""
		if fv == nil {
			// a channel parameter: stitch to the arguments of the static call sites (one level)
			prm, ok := ch.(*ssa.Parameter)
			if !ok {
				// captured by a closure, possibly a nested one (go/ssa captures by reference: the parameter is spilled
				// to a cell, the closure loads through its free variable): follow the bindings outwards
				if pp, ok3 := capturedOrigin(ch).(*ssa.Parameter); ok3 {
					prm, ok = pp, true
				}
			}
			if !ok || prm == nil {
				return
			}
			root := prm.Parent()
			idx := -1
			for i, q := range root.Params {
				if q == prm {
					idx = i
				}
			}
			for _, g := range p.RepoFuncs() {
				engine.ForEachInstr(g, func(x ssa.Instruction) {
					call, ok := x.(ssa.CallInstruction)
					if !ok || engine.CalleeFn(call) != root || idx < 0 || idx >= len(call.Common().Args) {
						return
					}
					a := call.Common().Args[idx]
					if ct, ok := a.(*ssa.ChangeType); ok {
						a = ct.X
					}
					if lf, _ := engine.LoadedField(a); lf != nil && closedFields[lf] {
						fv = lf
						via = " (passed as parameter from " + p.FuncName(g) + ")"
					}
				})
			}
			if fv == nil {
				return
			}
		}
		if !closedFields[fv] {
			return
		}
		ns++
		owner := fieldOwner(p, fv)
		key := fmt.Sprintf("%s>send@%s", owner, p.FuncName(f))
		protected := runBy(f, "github.com/fatedier/golib/errors", "PanicToError") || hasDeferredRecover(f)
		// same function as the only close
		if !protected && len(byField[fv]) == 1 {
			root := f
			for root.Parent() != nil {
				root = root.Parent()
			}
			croot := byField[fv][0].fn
			for croot.Parent() != nil {
				croot = croot.Parent()
			}
			if root == croot && f == byField[fv][0].fn {
				protected = true
			}
		}
		c.Check(protected, key, in.Pos(), 2, []string{what + via},
			"send on %s, which is closed elsewhere, is recover-protected (an unprotected send racing with the close is a fatal panic)", owner)
	}
	for _, f := range p.RepoFuncs() {
		engine.ForEachInstr(f, func(in ssa.Instruction) {
			switch x := in.(type) {
			case *ssa.Send:
				checkSend(f, in, x.Chan, "send statement")
			case *ssa.Select:
				for _, st := range x.States {
					if st.Dir == types.SendOnly {
						checkSend(f, in, st.Chan, "select send")
					}
				}
			}
		})
	}
	c.Floor(ns, 5)

	// reassigned channel fields
	c.Rule(rid+"d", "a channel field that is replaced (set to nil or re-made) after construction, under a mutex, is not re-read without that mutex by the goroutine that sends on it: the sender either holds the mutex or works on the channel value it was started with (a sender that re-reads the field can find nil and block forever, holding the connection it was about to hand over)")
	nd := 0
	type reasg struct {
		mus map[*types.Var]bool
		pos token.Pos
	}
	re := map[*types.Var]*reasg{}
	for _, f := range p.RepoFuncs() {
		engine.ForEachInstr(f, func(in ssa.Instruction) {
			st, ok := in.(*ssa.Store)
			if !ok {
				return
			}
			fv, base := engine.LoadedField(st.Addr)
			if fv == nil {
				return
			}
			if _, isCh := fv.Type().Underlying().(*types.Chan); !isCh {
				return
			}
			if _, local := base.(*ssa.Alloc); local {
				return // constructor
			}
			held := li.HeldAt(in)
			if len(held) == 0 {
				return
			}
			r := re[fv]
			if r == nil {
				r = &reasg{mus: map[*types.Var]bool{}, pos: in.Pos()}
				re[fv] = r
			}
			for m := range held {
				r.mus[m] = true
			}
		})
	}
	for _, f := range p.RepoFuncs() {
		f := f
		engine.ForEachInstr(f, func(in ssa.Instruction) {
			var chans []ssa.Value
			switch x := in.(type) {
			case *ssa.Send:
				chans = append(chans, x.Chan)
			case *ssa.Select:
				for _, stt := range x.States {
					if stt.Dir == types.SendOnly {
						chans = append(chans, stt.Chan)
					}
				}
			}
			for _, ch := range chans {
				fv, _ := engine.LoadedField(ch)
				r := re[fv]
				if fv == nil || r == nil {
					continue
				}
				nd++
				held := li.HeldAt(in)
				okHeld := false
				for m := range r.mus {
					if held[m] > 0 {
						okHeld = true
					}
				}
				c.Check(okHeld, fmt.Sprintf("%s>send-rereads-field@%s", fieldOwner(p, fv), p.FuncName(f)), in.Pos(), 2,
					[]string{"field replaced at " + p.Pos(r.pos), "held at the send: " + strings.Join(held.Names(), ",")},
					"the sender re-reads channel field %s, which is replaced elsewhere under a mutex, with that mutex held", fieldOwner(p, fv))
			}
		})
	}
	c.Note("channel fields replaced after construction under a mutex: %d; sends that re-read such a field: %d", len(re), nd)
}

// guardedByFlag: every path to the close passes a test of a bool field of the receiver with outcome false.
func guardedByFlag(f *ssa.Function, in ssa.Instruction) bool {
	q := &engine.PathQuery{Fn: f, Sink: engine.Is(in)}
	states, err := q.Run()
	if err != nil || len(states) == 0 {
		return false
	}
	for _, s := range states {
		ok := false
		for _, l := range s.Lits {
			if l.Op != token.ILLEGAL || l.Val {
				continue
			}
			if fv, _ := engine.LoadedField(l.X); fv != nil {
				if b, isB := fv.Type().Underlying().(*types.Basic); isB && b.Kind() == types.Bool {
					ok = true
				}
			}
		}
		if !ok {
			return false
		}
	}
	return true
}

// guardedByProbe: the close is reached only through the default arm of a select that receives from the same field.
func guardedByProbe(f *ssa.Function, in ssa.Instruction, fv *types.Var) bool {
	q := &engine.PathQuery{Fn: f, Sink: engine.Is(in)}
	states, err := q.Run()
	if err != nil || len(states) == 0 {
		return false
	}
	for _, s := range states {
		ok := false
		for _, l := range s.Lits {
			// select index comparisons: Extract(select)#0 == k
			var ex *ssa.Extract
			if e, isE := l.X.(*ssa.Extract); isE {
				ex = e
			}
			if ex == nil {
				continue
			}
			sel, isSel := ex.Tuple.(*ssa.Select)
			if !isSel || sel.Blocking {
				continue
			}
			for _, st := range sel.States {
				lf, _ := engine.LoadedField(st.Chan)
				if lf == nil || st.Dir != types.RecvOnly {
					continue
				}
				// the probed channel is the one being closed, or another channel closed in this same function
				// (Close probes one "closed" channel and then closes the rest)
				if lf == fv || closesField(f, lf) {
					ok = true
				}
			}
		}
		if !ok {
			return false
		}
	}
	return true
}

func closesField(f *ssa.Function, fv *types.Var) bool {
	found := false
	engine.ForEachInstr(f, func(in ssa.Instruction) {
		if call, ok := in.(ssa.CallInstruction); ok {
			if b, ok := call.Common().Value.(*ssa.Builtin); ok && b.Name() == "close" {
				if lf, _ := engine.LoadedField(call.Common().Args[0]); lf == fv {
					found = true
				}
			}
		}
	})
	return found
}

func verifDirOf() string {
	if d := os.Getenv("VERIF_DIR"); d != "" {
		return d
	}
	exe, err := os.Executable()
	if err == nil {
		d := filepath.Dir(filepath.Dir(exe))
		if _, err := os.Stat(filepath.Join(d, "properties.jsonl")); err == nil {
			return d
		}
	}
	return "/verif"
}

// allFuncsOfPkg lists the functions and methods (with their closures) of an SSA package.
func allFuncsOfPkg(pk *ssa.Package) []*ssa.Function {
	var out []*ssa.Function
	var add func(f *ssa.Function)
	add = func(f *ssa.Function) {
		if f == nil || f.Blocks == nil {
			return
		}
		out = append(out, f)
		for _, a := range f.AnonFuncs {
			add(a)
		}
	}
	for _, m := range pk.Members {
		switch x := m.(type) {
		case *ssa.Function:
			add(x)
		case *ssa.Type:
			for _, t := range []types.Type{x.Type(), types.NewPointer(x.Type())} {
				ms := pk.Prog.MethodSets.MethodSet(t)
				for i := 0; i < ms.Len(); i++ {
					if fn := pk.Prog.MethodValue(ms.At(i)); fn != nil && fn.Pkg == pk {
						add(fn)
					}
				}
			}
		}
	}
	return out
}

// capturedOrigin resolves a value read through closure captures to what the enclosing function stored in the captured
// cell, when that cell is written exactly once (a spilled parameter, a local assigned at its declaration).
func capturedOrigin(v ssa.Value) ssa.Value {
	for i := 0; i < 8; i++ {
		switch x := v.(type) {
		case *ssa.ChangeType:
			v = x.X
			continue
		case *ssa.FreeVar:
			b := engine.ClosureBinding(x)
			if b == nil {
				return v
			}
			v = b
			continue
		case *ssa.UnOp:
			if x.Op != token.MUL {
				return v
			}
			cell := x.X
			for j := 0; j < 6; j++ {
				fv, ok := cell.(*ssa.FreeVar)
				if !ok {
					break
				}
				b := engine.ClosureBinding(fv)
				if b == nil {
					return v
				}
				cell = b
			}
			al, ok := cell.(*ssa.Alloc)
			if !ok {
				return v
			}
			var stored ssa.Value
			n := 0
			for _, r := range *al.Referrers() {
				if st, ok := r.(*ssa.Store); ok && st.Addr == ssa.Value(al) {
					stored = st.Val
					n++
				}
			}
			if n != 1 {
				return v
			}
			v = stored
			continue
		}
		return v
	}
	return v
}
