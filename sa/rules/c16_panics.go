package rules

import (
	"fmt"
	"go/types"
	"sort"
	"strings"

	"golang.org/x/tools/go/ssa"

	"frpsa/engine"
)

// C16.R5 — no explicit panic is reachable from run-time entry points.
//
// Entry points are the functions that run per connection / per message / per timer: every target of a `go` statement
// in the product packages and every function registered as a dispatcher handler. Reachability follows static calls,
// closures created on the way, and interface calls resolved by CHA over the module's own types. Start-up code
// (constructors, flag parsing, registration in init) is not an entry point: a panic on bad configuration at start-up
// is allowed. Tabled exceptions (with reason) are listed below.

var allowedPanics = map[string]string{
	"pkg/auth.NewAuthSetter":            "panics on an unknown auth method: at run time it is reached only through the ssh gateway's virtual client, whose configuration is built by frps itself (peers can set only user and token) and is completed (method defaulted to token) before client.NewService runs — checked below; otherwise start-up only",
	"pkg/transport.newRandomTLSKeyPair": "panics only when RSA key generation or PEM encoding of a freshly generated key fails (entropy source failure); also reached from the xtcp QUIC listener set-up",
}

func c16Panics(c *engine.Ctx) {
	p := c.P
	c.Rule("R5", "no explicit panic(...) in repository code is reachable from run-time entry points (goroutine bodies and message handlers), apart from tabled key-generation failures")
	inProduct := func(f *ssa.Function) bool {
		if f == nil || f.Pkg == nil {
			return false
		}
		pp := f.Pkg.Pkg.Path()
		return engine.IsRepoPkg(pp) && !strings.Contains(pp, "/cmd/")
	}
	// entry points
	entries := map[*ssa.Function]bool{}
	regH := p.MethodObj("pkg/msg", "Dispatcher", "RegisterHandler")
	for _, f := range p.RepoFuncs() {
		if !inProduct(f) {
			continue
		}
		engine.ForEachInstr(f, func(in ssa.Instruction) {
			switch x := in.(type) {
			case *ssa.Go:
				if cf := engine.CalleeFn(x); cf != nil {
					entries[cf] = true
				} else if x.Call.IsInvoke() {
					for _, impl := range p.Implementations(x.Call.Method) {
						entries[impl] = true
					}
				}
			case *ssa.Call:
				if regH != nil && engine.IsCallTo(in, regH) {
					for _, a := range x.Call.Args {
						src := engine.Provenance(a, engine.ProvOpts{})
						for v := range src.Values {
							if mc, ok := v.(*ssa.MakeClosure); ok {
								if cf, ok := mc.Fn.(*ssa.Function); ok {
									entries[cf] = true
								}
							}
						}
					}
				}
			}
		})
	}
	// reachability
	reach := map[*ssa.Function]*ssa.Function{} // function -> predecessor on a shortest path
	var queue []*ssa.Function
	var es []*ssa.Function
	for e := range entries {
		es = append(es, e)
	}
	sort.Slice(es, func(i, j int) bool { return p.FuncName(es[i]) < p.FuncName(es[j]) })
	for _, e := range es {
		if _, ok := reach[e]; !ok {
			reach[e] = nil
			queue = append(queue, e)
		}
	}
	add := func(from, to *ssa.Function) {
		if to == nil || to.Blocks == nil || !inProduct(to) {
			return
		}
		if _, ok := reach[to]; ok {
			return
		}
		reach[to] = from
		queue = append(queue, to)
	}
	for len(queue) > 0 {
		f := queue[0]
		queue = queue[1:]
		engine.ForEachInstr(f, func(in ssa.Instruction) {
			if call, ok := in.(ssa.CallInstruction); ok {
				if cf := engine.CalleeFn(call); cf != nil {
					add(f, cf)
				} else if call.Common().IsInvoke() {
					if m := call.Common().Method; m != nil && m.Pkg() != nil && engine.IsRepoPkg(m.Pkg().Path()) {
						for _, impl := range p.Implementations(m) {
							add(f, impl)
						}
					}
				}
			}
			for _, op := range in.Operands(nil) {
				switch v := (*op).(type) {
				case *ssa.MakeClosure:
					if cf, ok := v.Fn.(*ssa.Function); ok {
						// a bound method value (x.M used as a function) is a synthetic wrapper: follow the method itself
						if o, ok := cf.Object().(*types.Func); ok && cf.Synthetic != "" {
							add(f, p.FuncOf(o))
						}
						add(f, cf)
					}
				case *ssa.Function:
					add(f, v)
				}
			}
		})
	}
	// explicit panics
	n := 0
	total := 0
	for _, f := range p.RepoFuncs() {
		if !inProduct(f) {
			continue
		}
		engine.ForEachInstr(f, func(in ssa.Instruction) {
			pn, ok := in.(*ssa.Panic)
			if !ok || !pn.Pos().IsValid() {
				return
			}
			total++
			name := p.FuncName(f)
			if _, reachable := reach[f]; !reachable {
				return
			}
			n++
			if why, ok := allowedPanics[name]; ok {
				c.Hold(name+">panic", pn.Pos(), 1, []string{why}, "tabled exception: %s", why)
				return
			}
			// path for the report
			var chain []string
			for g := f; g != nil; g = reach[g] {
				chain = append(chain, p.FuncName(g))
				if len(chain) > 12 {
					break
				}
			}
			c.Violate(name+">panic", pn.Pos(), []string{"reached via: " + strings.Join(chain, " <- ")},
				"an explicit panic is reachable from a run-time entry point: one connection or message can terminate the whole process")
		})
	}
	// precondition of the NewAuthSetter exception: virtual.NewClient completes the common configuration before it
	// constructs the service
	if vf := p.Fn("pkg/ssh.TunnelServer.Run"); vf != nil {
		complete := p.MethodObj("pkg/config/v1", "ClientCommonConfig", "Complete")
		newSvc := p.FuncObj("pkg/virtual", "NewClient")
		okOrder := false
		for _, cc := range engine.CallsTo(vf, complete) {
			for _, ns := range engine.CallsTo(vf, newSvc) {
				if cc.Block().Dominates(ns.Block()) {
					okOrder = true
				}
			}
		}
		c.Check(okOrder, "pkg/ssh.TunnelServer.Run>complete-before-client", vf.Pos(), 2, nil, "the run-time constructed client configuration is completed (auth method defaulted) before NewAuthSetter can see it")
	}
	c.Hold("repo>reachability", 0, len(reach), []string{fmt.Sprintf("%d entry points, %d functions reachable, %d explicit panic sites in product code, %d of them reachable", len(entries), len(reach), total, n)},
		"call-graph reachability from run-time entry points computed")
	c.Floor(len(entries), 40)
}
