package rules

import (
	"encoding/json"
	"fmt"
	"go/token"
	"go/types"
	"os"
	"path/filepath"
	"reflect"
	"sort"
	"strings"

	"golang.org/x/tools/go/ssa"

	"frpsa/engine"
)

func init() {
	Registry["C17"] = &Property{
		Title:       "Control-protocol codec: lossless, bounded, total, and wire-stable",
		Run:         runC17,
		NeedDeps:    true,
		Explanation: "Decides the table- and shape-level conditions of the codec: (R1) msgTypeMap is a bijection between 18 distinct type bytes and 18 distinct message structs, each constant Type<N> mapped to struct <N>, and init registers every entry with the codec; (R2) the JSON wire schema of every message struct (json names, options and value kinds, recursively) equals the released protocol recorded in golden/wire_schema.json — Go field names are free, tags and kinds are not; (R3) nothing raises the codec's frame bound (no SetMaxMsgLength call), and with dependency sources loaded the bound is 10240 and the reader rejects negative and oversized lengths before allocating; (R4) at every ReadMsg/ReadMsgInto site the decoded message is used only on the nil-error path; (R5) the first-message switch of handleConnection accepts exactly Login, NewWorkConn and NewVisitorConn and every other exit closes the connection; (R6) sent values are encodable (shared with C16.R6); (R7) message fields use only JSON round-trippable kinds. Not decided: equality of decode(encode(m)) for all values (encoding/json semantics), run-time allocation behaviour.",
		Assumptions: commonAssumptions,
	}
}

type wireField struct {
	JSON string `json:"json"`
	Opts string `json:"opts,omitempty"`
	Kind string `json:"kind"`
}

func wireKind(t types.Type, nested map[string]*types.Struct, depth int) string {
	switch x := t.(type) {
	case *types.Basic:
		return x.Name()
	case *types.Pointer:
		return "*" + wireKind(x.Elem(), nested, depth)
	case *types.Slice:
		return "[]" + wireKind(x.Elem(), nested, depth)
	case *types.Array:
		return fmt.Sprintf("[%d]%s", x.Len(), wireKind(x.Elem(), nested, depth))
	case *types.Map:
		return "map[" + wireKind(x.Key(), nested, depth) + "]" + wireKind(x.Elem(), nested, depth)
	case *types.Named:
		if st, ok := x.Underlying().(*types.Struct); ok {
			name := x.Obj().Name()
			if x.Obj().Pkg() != nil && !strings.HasSuffix(x.Obj().Pkg().Path(), "/pkg/msg") {
				name = x.Obj().Pkg().Path() + "." + name
			}
			if depth < 4 {
				nested[name] = st
			}
			return "struct:" + name
		}
		return wireKind(x.Underlying(), nested, depth)
	case *types.Alias:
		return wireKind(types.Unalias(x), nested, depth)
	case *types.Interface:
		return "interface"
	}
	return t.String()
}

func structSchema(st *types.Struct, nested map[string]*types.Struct, depth int) ([]wireField, []string) {
	var out []wireField
	var problems []string
	seen := map[string]bool{}
	for i := 0; i < st.NumFields(); i++ {
		f := st.Field(i)
		tag := reflect.StructTag(st.Tag(i))
		j, ok := tag.Lookup("json")
		if !f.Exported() {
			problems = append(problems, f.Name()+": unexported field is not transmitted")
			continue
		}
		parts := strings.Split(j, ",")
		if !ok || parts[0] == "" {
			problems = append(problems, f.Name()+": no json name")
			continue
		}
		if seen[parts[0]] {
			problems = append(problems, "duplicate json name "+parts[0])
		}
		seen[parts[0]] = true
		out = append(out, wireField{JSON: parts[0], Opts: strings.Join(parts[1:], ","), Kind: wireKind(f.Type(), nested, depth+1)})
	}
	sort.Slice(out, func(i, j int) bool { return out[i].JSON < out[j].JSON })
	return out, problems
}

func runC17(c *engine.Ctx) {
	p := c.P
	pk := p.Pkg("pkg/msg")
	if pk == nil {
		c.Missing("pkg/msg", "package not found")
		return
	}
	sp := p.SSAPkgs[pk.PkgPath]
	initFn := sp.Func("init")

	// ---- R1 ----
	c.Rule("R1", "msgTypeMap is a bijection over 18 messages: distinct type bytes, distinct struct types, constant Type<N> ↦ struct <N>; init registers every entry with the codec")
	constName := map[string]string{}
	for _, name := range pk.Types.Scope().Names() {
		if k, ok := pk.Types.Scope().Lookup(name).(*types.Const); ok && strings.HasPrefix(name, "Type") && !strings.HasPrefix(name, "TypeName") {
			constName[k.Val().ExactString()] = name
		}
	}
	type entry struct {
		key  string
		name string
		st   *types.Named
	}
	var entries []entry
	keySeen, valSeen := map[string]bool{}, map[string]bool{}
	dup := ""
	engine.ForEachInstr(initFn, func(in ssa.Instruction) {
		mu, ok := in.(*ssa.MapUpdate)
		if !ok {
			return
		}
		kc, ok := mu.Key.(*ssa.Const)
		if !ok || kc.Value == nil {
			return
		}
		if b, ok := kc.Type().Underlying().(*types.Basic); !ok || b.Kind() != types.Uint8 {
			return
		}
		mi, ok := mu.Value.(*ssa.MakeInterface)
		if !ok {
			return
		}
		n := engine.NamedOf(mi.X.Type())
		if n == nil {
			return
		}
		k := kc.Value.ExactString()
		if keySeen[k] {
			dup = "type byte " + k
		}
		if valSeen[n.Obj().Name()] {
			dup = "struct " + n.Obj().Name()
		}
		keySeen[k], valSeen[n.Obj().Name()] = true, true
		entries = append(entries, entry{k, n.Obj().Name(), n})
	})
	var mism []string
	for _, e := range entries {
		if constName[e.key] != "Type"+e.name {
			mism = append(mism, fmt.Sprintf("%s(%s)→%s", constName[e.key], e.key, e.name))
		}
	}
	var desc []string
	for _, e := range entries {
		desc = append(desc, constName[e.key]+"→"+e.name)
	}
	sort.Strings(desc)
	c.Check(len(entries) == 18 && dup == "" && len(mism) == 0, "pkg/msg.msgTypeMap", initFn.Pos(), len(entries), []string{strings.Join(desc, " ")},
		"18 entries, distinct keys and types, constant names agree with struct names (entries=%d dup=%q mismatched=%s)", len(entries), dup, strings.Join(mism, ","))
	// registration loop
	regOK := false
	for _, f := range p.RepoFuncs() {
		if f.Pkg != sp || !strings.HasPrefix(f.Name(), "init") {
			continue
		}
		engine.ForEachInstr(f, func(in ssa.Instruction) {
			call, ok := in.(ssa.CallInstruction)
			if !ok {
				return
			}
			o := engine.CalleeObj(call)
			if o == nil || o.Name() != "RegisterMsg" {
				return
			}
			args := engine.CallArgs(call)
			s1 := engine.Provenance(args[1], engine.ProvOpts{})
			s2 := engine.Provenance(args[2], engine.ProvOpts{})
			isMap := func(s *engine.Sources) bool {
				for g := range s.Globals {
					if g.Name() == "msgTypeMap" {
						return true
					}
				}
				return false
			}
			if isMap(s1) && isMap(s2) && engine.LoopHeader(in.Block()) != nil {
				regOK = true
			}
		})
	}
	c.Check(regOK, "pkg/msg.init>register-all", initFn.Pos(), 2, nil, "init ranges over msgTypeMap and registers each (byte, struct) pair with the codec")
	c.Floor(len(entries), 18)

	// ---- R2 ----
	c.Rule("R2", "the JSON wire schema (json names, options, value kinds, recursively) of every registered message equals golden/wire_schema.json")
	schema := map[string][]wireField{}
	nested := map[string]*types.Struct{}
	var tagProblems []string
	for _, e := range entries {
		st := e.st.Underlying().(*types.Struct)
		fs, pr := structSchema(st, nested, 0)
		schema[e.name] = fs
		for _, x := range pr {
			tagProblems = append(tagProblems, e.name+"."+x)
		}
	}
	for round := 0; round < 4; round++ {
		for name, st := range nested {
			if _, done := schema[name]; done {
				continue
			}
			fs, pr := structSchema(st, nested, round+1)
			schema[name] = fs
			if !strings.Contains(name, ".") {
				for _, x := range pr {
					tagProblems = append(tagProblems, name+"."+x)
				}
			}
		}
	}
	goldenPath := filepath.Join(verifDirOf(), "golden", "wire_schema.json")
	if os.Getenv("FRPSA_WRITE_GOLDEN") == "1" {
		b, _ := json.MarshalIndent(schema, "", " ")
		os.WriteFile(goldenPath, b, 0o644)
	}
	golden := map[string][]wireField{}
	if b, err := os.ReadFile(goldenPath); err != nil {
		c.Undecide("golden/wire_schema.json", 0, "reference schema missing: %v", err)
	} else if err := json.Unmarshal(b, &golden); err != nil {
		c.Undecide("golden/wire_schema.json", 0, "reference schema unreadable: %v", err)
	} else {
		names := map[string]bool{}
		for k := range golden {
			names[k] = true
		}
		for k := range schema {
			names[k] = true
		}
		var ns []string
		for k := range names {
			ns = append(ns, k)
		}
		sort.Strings(ns)
		fields := 0
		for _, name := range ns {
			if strings.Contains(name, ".") && name != "net.UDPAddr" {
				continue // foreign nested types are identified by their kind string only
			}
			g, gok := golden[name]
			s, sok := schema[name]
			key := "pkg/msg." + name
			if !gok || !sok {
				c.Violate(key, pk.Types.Scope().Lookup(strings.TrimPrefix(name, "net.")).Pos(), nil, "message struct %s present in golden=%v, in code=%v: the set of wire messages changed", name, gok, sok)
				continue
			}
			fields += len(s)
			var diffs []string
			gm := map[string]wireField{}
			for _, f := range g {
				gm[f.JSON] = f
			}
			sm := map[string]wireField{}
			for _, f := range s {
				sm[f.JSON] = f
				if gf, ok := gm[f.JSON]; !ok {
					diffs = append(diffs, "new wire field "+f.JSON)
				} else if gf != f {
					diffs = append(diffs, fmt.Sprintf("field %s changed from {%s %s} to {%s %s}", f.JSON, gf.Kind, gf.Opts, f.Kind, f.Opts))
				}
			}
			for _, f := range g {
				if _, ok := sm[f.JSON]; !ok {
					diffs = append(diffs, "released wire field "+f.JSON+" is gone (renamed tag?)")
				}
			}
			pos := token.NoPos
			if o := pk.Types.Scope().Lookup(name); o != nil {
				pos = o.Pos()
			}
			c.Check(len(diffs) == 0, key, pos, len(s)+1, nil, "wire schema of %s equals the released protocol (%s)", name, strings.Join(diffs, "; "))
		}
		c.Check(len(tagProblems) == 0, "pkg/msg>tags", initFn.Pos(), fields, nil, "every message field is exported and carries a unique json name (%s)", strings.Join(tagProblems, "; "))
		c.Floor(fields, 100)
	}

	// ---- R3 ----
	c.Rule("R3", "the codec's frame bound is never raised: no call to SetMaxMsgLength in the repository; (with dependency sources) the default bound is 10240 and readMsg rejects length<0 and length>max before allocating")
	nset := 0
	for _, f := range p.RepoFuncs() {
		engine.ForEachInstr(f, func(in ssa.Instruction) {
			if call, ok := in.(ssa.CallInstruction); ok {
				if o := engine.CalleeObj(call); o != nil && o.Name() == "SetMaxMsgLength" {
					nset++
					v, isC := engine.ConstInt(engine.CallArgs(call)[len(engine.CallArgs(call))-1])
					c.Check(isC && v <= 10240, p.FuncName(f)+">SetMaxMsgLength", in.Pos(), 1, nil, "frame bound stays at most 10240 (found %d const=%v)", v, isC)
				}
			}
		})
	}
	c.Hold("repo>no-SetMaxMsgLength", initFn.Pos(), len(p.RepoFuncs()), []string{fmt.Sprintf("%d functions scanned, %d calls", len(p.RepoFuncs()), nset)}, "frame bound left at the codec default")
	if p.Opts.Deps {
		checkCodecDependency(c)
	}
	c.Floor(1, 1)

	// ---- R4 ----
	c.Rule("R4", "at every ReadMsg / ReadMsgInto call the error result is tested and the decoded message is used only on the nil-error path")
	readMsg := funcObj(c, "pkg/msg", "ReadMsg")
	readInto := funcObj(c, "pkg/msg", "ReadMsgInto")
	n := 0
	if readMsg != nil && readInto != nil {
		for _, f := range p.RepoFuncs() {
			if f.Pkg == sp {
				continue
			}
			for _, ci := range engine.CallsTo(f, readMsg, readInto) {
				call, ok := ci.(*ssa.Call)
				if !ok {
					continue
				}
				n++
				into := engine.SameFunc(engine.CalleeObj(call), readInto)
				key := fmt.Sprintf("%s>%s#%d", p.FuncName(f), engine.CalleeObj(call).Name(), n)
				errMatch := func(v ssa.Value) bool {
					cl, i := engine.ResultOfCall(v)
					if cl != call {
						return false
					}
					return (into && i == -1) || (!into && i == 1)
				}
				// the target object of ReadMsgInto / the message result of ReadMsg
				var target ssa.Value
				if into {
					target = engine.Unwrap(call.Call.Args[1])
				}
				isUse := func(x ssa.Instruction) bool {
					if into {
						switch y := x.(type) {
						case *ssa.FieldAddr:
							return y.X == target
						case *ssa.UnOp:
							return y.Op == token.MUL && y.X == target
						}
						return false
					}
					switch y := x.(type) {
					case *ssa.TypeAssert:
						cl, i := engine.ResultOfCall(y.X)
						return cl == call && i == 0
					}
					return false
				}
				if _, direct := func() (ssa.Value, bool) {
					// `return msg.ReadMsgInto(...)`: the error is handed to the caller unchanged
					if refs := call.Referrers(); refs != nil && into {
						for _, r := range *refs {
							if _, ok := r.(*ssa.Return); ok {
								return nil, true
							}
						}
					}
					return nil, false
				}(); direct {
					c.Hold(key, call.Pos(), 1, nil, "error returned to the caller unchanged")
					continue
				}
				q := &engine.PathQuery{Fn: f, From: call, ContinueAfterSink: true, KeepLoopFacts: true, Cut: engine.Is(call), Sink: func(x ssa.Instruction) bool { return isUse(x) || engine.IsReturn(x) }}
				states, err := q.Run()
				if err != nil {
					c.Undecide(key, call.Pos(), "%v", err)
					continue
				}
				bad := ""
				for _, st := range states {
					isNil, known := st.IsNil(errMatch)
					if engine.IsReturn(st.Sink) {
						if !known {
							bad = "the function can return without ever testing the decode error"
						}
						continue
					}
					if !(known && isNil) {
						bad = "the decoded message is used at " + p.Pos(posOf(st.Sink)) + " on a path where the decode error is not known to be nil"
					}
				}
				c.Check(bad == "", key, call.Pos(), q.Steps, nil, "decode error tested, message used only when it is nil (%s)", bad)
			}
		}
	}
	c.Floor(n, 5)

	// ---- R5 ----
	c.Rule("R5", "handleConnection: the first message is accepted only as *Login, *NewWorkConn or *NewVisitorConn; a read error, any other message type and every refused request close the connection")
	if hc := fn(c, "server.Service.handleConnection"); hc != nil {
		// the first-message switch may have been moved, with the rest of the body, into a step split out of
		// handleConnection (a helper with a named error result and one deferred close): judge the function that hosts it
		countAsserts := func(g *ssa.Function) int {
			k := 0
			engine.ForEachInstr(g, func(in ssa.Instruction) {
				if ta, ok := in.(*ssa.TypeAssert); ok && ta.CommaOk {
					k++
				}
			})
			return k
		}
		if countAsserts(hc) < 2 {
			for _, g := range allAnon(hc) {
				if g.Parent() == nil && countAsserts(g) >= 2 {
					hc = g
					break
				}
			}
		}
		accept := map[string]bool{"*msg.Login": true, "*msg.NewWorkConn": true, "*msg.NewVisitorConn": true}
		var asserted []string
		engine.ForEachInstr(hc, func(in ssa.Instruction) {
			if ta, ok := in.(*ssa.TypeAssert); ok && ta.CommaOk {
				asserted = append(asserted, typeShort(ta.AssertedType))
			}
		})
		sort.Strings(asserted)
		okSet := len(asserted) == 3
		for _, a := range asserted {
			if !accept[a] {
				okSet = false
			}
		}
		c.Check(okSet, "server.Service.handleConnection>cases", hc.Pos(), len(asserted), []string{strings.Join(asserted, ",")}, "the first-message switch has exactly the three accepting cases")
		regCtl := p.MethodObj("server", "Service", "RegisterControl")
		regWork := p.MethodObj("server", "Service", "RegisterWorkConn")
		regVis := p.MethodObj("server", "Service", "RegisterVisitorConn")
		c.AllPaths("server.Service.handleConnection>exits", engine.PathCheck{Fn: hc, Sink: engine.IsReturn, Event: closeOfParam("conn"), Pred: func(st *engine.PathState) string {
			// which case was taken?
			taken := ""
			for _, l := range st.Lits {
				if l.Op != token.ILLEGAL || !l.Val {
					continue
				}
				if ex, ok := l.X.(*ssa.Extract); ok && ex.Index == 1 {
					if ta, ok := ex.Tuple.(*ssa.TypeAssert); ok {
						taken = typeShort(ta.AssertedType)
					}
				}
			}
			if taken == "" {
				if !st.HasEvent("close") {
					return "a connection whose first message could not be read, or is of an unexpected type, is left open (its read deadline already cleared)"
				}
				return ""
			}
			var obj *types.Func
			switch taken {
			case "*msg.Login":
				obj = regCtl
			case "*msg.NewWorkConn":
				obj = regWork
			case "*msg.NewVisitorConn":
				obj = regVis
			}
			if obj == nil {
				return "unexpected accepting case " + taken
			}
			isNil, known := st.IsNil(func(v ssa.Value) bool {
				cl, _ := engine.ResultOfCall(engine.Unwrap(v))
				return cl != nil && engine.SameFunc(engine.CalleeObj(cl), obj)
			})
			if known && isNil {
				return ""
			}
			if !st.HasEvent("close") {
				return "a refused " + taken + " leaves the connection open"
			}
			return ""
		}}, "every non-accepted exit closes the connection")
		c.Floor(2, 2)
	}

	// ---- R6 ----
	c16Encodable(c)

	// ---- R7 ----
	c.Rule("R7", "message fields use only JSON round-trippable kinds (bool, integers, strings, slices and string-keyed maps of those, nested such structs, *net.UDPAddr)")
	bad := []string{}
	nf := 0
	var checkKind func(k string) bool
	checkKind = func(k string) bool {
		switch {
		case k == "bool" || k == "string" || strings.HasPrefix(k, "int") || strings.HasPrefix(k, "uint"):
			return true
		case strings.HasPrefix(k, "[]"):
			return checkKind(k[2:])
		case strings.HasPrefix(k, "map[string]"):
			return checkKind(k[len("map[string]"):])
		case k == "*struct:net.UDPAddr":
			return true
		case strings.HasPrefix(k, "struct:") && !strings.Contains(k, "."):
			return true
		}
		return false
	}
	for name, fs := range schema {
		if strings.Contains(name, ".") {
			continue
		}
		for _, f := range fs {
			nf++
			if !checkKind(f.Kind) {
				bad = append(bad, name+"."+f.JSON+":"+f.Kind)
			}
		}
	}
	sort.Strings(bad)
	c.Check(len(bad) == 0, "pkg/msg>kinds", initFn.Pos(), nf, nil, "all %d message fields are of round-trippable kinds (%s)", nf, strings.Join(bad, ","))
	c.Floor(nf, 100)

	// ---- R8 fresh decode targets ----
	c.Rule("R8", "a message decoded inside a loop is decoded into a variable allocated in that loop: JSON decoding assigns only the keys present (every field of the udp packet is omitempty), so a reused target keeps the previous frame's values and the decoded message differs from the encoded one")
	nr := 0
	if rmi := funcObj(c, "pkg/msg", "ReadMsgInto"); rmi != nil {
		for _, f := range p.RepoFuncs() {
			for _, call := range engine.CallsTo(f, rmi) {
				h := engine.LoopHeader(call.Block())
				nr++
				key := fmt.Sprintf("%s>ReadMsgInto#%d", p.FuncName(f), nr)
				if h == nil {
					c.Hold(key, call.Pos(), 1, nil, "single decode (not in a loop)")
					continue
				}
				tgt := engine.Unwrap(call.Common().Args[1])
				al, ok := tgt.(*ssa.Alloc)
				if !ok {
					// the target comes from elsewhere (parameter, field): cannot be shown fresh
					c.Undecide(key, call.Pos(), "decode target inside a loop is not a local variable (%s)", engine.Describe(tgt))
					continue
				}
				c.Check(h.Dominates(al.Block()) && al.Block() != nil, key, call.Pos(), 2, []string{"target allocated at " + p.Pos(al.Pos())},
					"the decode target is allocated inside the read loop (fresh zero value per frame)")
			}
		}
	}
	c.Floor(nr, 4)

	// ---- R9 a failed first read does not crash the accept loop (shared with C16.R10) ----
	c16ErrorPathDerefRule(c, "R9")

	// ---- R10 channel typestate (shared with C16.R3): the dispatcher's done channel is closed in one place; a second
	// close site panics the process when a decode error and a failed write meet ----
	c16ChannelsPrefixed(c, engine.AnalyzeLocks(p), "R10")

	// ---- R11 a read error of any kind ends the read loop (shared with C14.R6) ----
	checkReadLoopEnds(c, "R11")

	// ---- R13 a frame length read off the wire is bounded below before it sizes a buffer (shared with C16.R2) ----
	c16AllocSizesRule(c, "R13")

	// ---- R14 a decoder never reads past its frame (shared with C16.R22): a buffered reader thrown away after one
	// message has swallowed the bytes that follow it ----
	checkThrowawayBufio(c, "R14")

	// ---- R15 a payload of any legal size is decoded without panicking (shared with C16.R20): Decode into a buffer sized
	// for the local packet size panics on a peer's larger datagram ----
	c16DecodeInto(c, "R15")

	// ---- R16 decoding is total: no constant index into received bytes without a length check (shared with C16.R33) ----
	checkConstIndexBounded(c, "R16")
	checkLoginRespFirst(c, "R17")

	// ---- R12 the wire form of every message is the one encoding/json derives from the struct (which R2 pins): no type of
	// package msg brings its own encoder or decoder — a hand-written MarshalJSON is a second schema that R2 cannot see ----
	c.Rule("R12", "no type declared in pkg/msg has a MarshalJSON, UnmarshalJSON, MarshalText or UnmarshalText method")
	if mp := p.Pkg("pkg/msg"); mp != nil && mp.Types != nil {
		nt := 0
		for _, name := range mp.Types.Scope().Names() {
			tn, ok := mp.Types.Scope().Lookup(name).(*types.TypeName)
			if !ok {
				continue
			}
			named, ok := tn.Type().(*types.Named)
			if !ok {
				continue
			}
			nt++
			var custom []string
			for _, t := range []types.Type{named, types.NewPointer(named)} {
				ms := types.NewMethodSet(t)
				for i := 0; i < ms.Len(); i++ {
					switch m := ms.At(i).Obj().Name(); m {
					case "MarshalJSON", "UnmarshalJSON", "MarshalText", "UnmarshalText":
						if ms.At(i).Obj().Pkg() == mp.Types {
							custom = append(custom, m)
						}
					}
				}
			}
			c.Check(len(custom) == 0, "pkg/msg."+name+">generic-codec", tn.Pos(), 1, custom, "%s is encoded by encoding/json from its fields (custom: %s)", name, strings.Join(custom, ","))
		}
		c.Floor(nt, 18)
	}
}

// checkCodecDependency re-derives the facts the quick tier trusts by pin, from the dependency's own source.
func checkCodecDependency(c *engine.Ctx) {
	p := c.P
	const dep = "github.com/fatedier/golib/msg/json"
	pk := p.ByPath[dep]
	sp := p.SSAPkgs[dep]
	if pk == nil || sp == nil {
		c.Undecide(dep, 0, "dependency package not loaded with source")
		return
	}
	// var defaultMaxMsgLength int64 = 10240, used as the initial maxMsgLength of every MsgCtl
	bound := int64(-1)
	if g, ok := sp.Members["defaultMaxMsgLength"].(*ssa.Global); ok {
		engine.ForEachInstr(sp.Func("init"), func(in ssa.Instruction) {
			if st, ok := in.(*ssa.Store); ok && st.Addr == ssa.Value(g) {
				if v, ok := engine.ConstInt(st.Val); ok {
					bound = v
				}
			}
		})
		// the only other writers of the bound would be stores to the global outside init
		for _, f := range p.SSA.AllPackages() {
			_ = f
		}
	}
	c.Check(bound == 10240, dep+">defaultMaxMsgLength", 0, 1, nil, "codec default frame bound is 10240 (found %d)", bound)
	mc := engine.NamedOf(pk.Types.Scope().Lookup("MsgCtl").Type())
	var readMsg *ssa.Function
	for i := 0; i < mc.NumMethods(); i++ {
		if mc.Method(i).Name() == "readMsg" {
			readMsg = p.SSA.FuncValue(mc.Method(i))
		}
	}
	if readMsg == nil {
		c.Undecide(dep+">readMsg", 0, "readMsg not found")
		return
	}
	var mk ssa.Instruction
	engine.ForEachInstr(readMsg, func(in ssa.Instruction) {
		if _, ok := in.(*ssa.MakeSlice); ok {
			mk = in
		}
	})
	if mk == nil {
		c.Undecide(dep+">readMsg", 0, "buffer allocation not found")
		return
	}
	size := mk.(*ssa.MakeSlice).Len
	c.AllPaths(dep+">readMsg>bounded-alloc", engine.PathCheck{Fn: readMsg, Sink: engine.Is(mk), Pred: func(st *engine.PathState) string {
		lo, hi := false, false
		for _, l := range st.Lits {
			x, y, op := l.X, l.Y, l.Op
			if engine.SameExpr(y, size) {
				x, y, op = y, x, flipOrd(op)
			}
			if !engine.SameExpr(x, size) {
				continue
			}
			if !l.Val {
				op = negOrd(op)
			}
			if z, ok := engine.ConstInt(y); ok && z == 0 && op == token.GEQ {
				lo = true
			}
			if _, isConst := y.(*ssa.Const); !isConst && (op == token.LEQ || op == token.LSS) {
				hi = true
			}
		}
		if !lo || !hi {
			return fmt.Sprintf("frame buffer allocated without both bounds (lower=%v upper=%v)", lo, hi)
		}
		return ""
	}}, "buffer allocated only for 0 <= length <= max")
}

// checkLoginRespFirst (R17): the control stream starts with the clear-text LoginResp; everything after it goes through
// the dispatcher's (encrypted) stream. Control.Start therefore writes the LoginResp before it starts any goroutine —
// the worker starts the dispatcher, whose first write (the cipher's IV) would otherwise reach the wire first and be
// decoded by the client as the login reply.
func checkLoginRespFirst(c *engine.Ctx, rule string) {
	c.Rule(rule, "Control.Start: every `go` statement is preceded on every path by the msg.WriteMsg of the LoginResp on the raw connection")
	f := fn(c, "server.Control.Start")
	write := funcObj(c, "pkg/msg", "WriteMsg")
	if f == nil || write == nil {
		return
	}
	n := 0
	engine.ForEachInstr(f, func(in ssa.Instruction) {
		g, ok := in.(*ssa.Go)
		if !ok {
			return
		}
		n++
		c.AllPaths(fmt.Sprintf("server.Control.Start>go#%d", n), engine.PathCheck{Fn: f, Sink: engine.Is(g),
			Event: func(x ssa.Instruction) string {
				if call, ok := x.(*ssa.Call); ok && engine.SameFunc(engine.CalleeObj(call), write) {
					if a := engine.CallArgs(call); len(a) == 2 {
						if mi, ok := a[1].(*ssa.MakeInterface); ok && engine.IsNamed(mi.X.Type(), engine.ModPath+"/pkg/msg", "LoginResp") {
							return "login-resp"
						}
					}
				}
				return ""
			},
			Pred: func(st *engine.PathState) string {
				if st.HasEvent("login-resp") {
					return ""
				}
				return "a goroutine is started before the LoginResp was written: the dispatcher's first encrypted bytes can overtake the clear-text login reply"
			}}, "LoginResp first")
	})
	c.Floor(n, 1)
}
