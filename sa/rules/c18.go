package rules

import (
	"fmt"
	"go/ast"
	"go/token"
	"go/types"
	"reflect"
	"sort"
	"strings"

	"golang.org/x/tools/go/ssa"

	"frpsa/engine"
)

func init() {
	Registry["C18"] = &Property{
		Title:       "A proxy definition means the same in every format and on both ends",
		Run:         runC18,
		Explanation: "Decides agreement relations that are visible in the code: (R1) for the base config and each of the eight proxy types the field relation written by MarshalToMsg is the inverse of the one read by UnmarshalFromMsg (same message field ↔ same config path, for every field); (R2) the proxy type table has exactly the eight ProxyType constants, each mapped to a type that defines both methods, and the visitor table the three visitor types; (R3) LoadConfigure stores its strict argument into the global switch on every path before decoding and applies strictness on the JSON and the YAML branch; every custom UnmarshalJSON that builds a decoder consults that switch; (R4) every exported field of the v1 config structs has a unique json tag and no diverging yaml/toml tag; (R5) ValidatePort accepts exactly 0..65535, the port fields reach it, and custom-domain comparison against the subdomain host is done on lower-cased operands; (R6) every pflag.Value Set method's stored value depends on its argument; (R8) NewProxyConfigurerFromMsg returns a configuration only after UnmarshalFromMsg, Complete and a nil validation result. Not decided: equality of the structures produced by the TOML/YAML/JSON parsers, template rendering output, defaults agreeing between flags and files, legacy INI conversion.",
		Assumptions: commonAssumptions,
	}
}

// valuePath follows a value back to a field path rooted at a parameter, looking through conversions and through
// the receiver / first argument of converter calls (String(), NewBandwidthQuantity(...), ...).
func valuePath(v ssa.Value) (root ssa.Value, path string, via []string) {
	for i := 0; i < 8; i++ {
		v = engine.Unwrap(v)
		switch x := v.(type) {
		case *ssa.Extract:
			v = x.Tuple
			continue
		case *ssa.Call:
			if o := engine.CalleeObj(x); o != nil {
				via = append(via, o.Name())
			}
			args := engine.CallArgs(x)
			if len(args) == 0 {
				return nil, "", via
			}
			v = args[0]
			continue
		case *ssa.Slice:
			v = x.X
			continue
		}
		break
	}
	r, p := engine.FieldPath(v)
	return r, engine.PathString(p), via
}

type fieldRel struct {
	msgField string
	cfgPath  string
	pos      token.Pos
}

func extractRel(f *ssa.Function, toMsg bool) (rels []fieldRel) { return extractRelDepth(f, toMsg, 0) }

func extractRelDepth(f *ssa.Function, toMsg bool, depth int) (rels []fieldRel) {
	if len(f.Params) < 2 {
		return nil
	}
	recv := f.Params[0]
	m := f.Params[1]
	// copies delegated to a helper of a sub-object (c.DomainConfig.marshalToMsg(m)): the helper's relation, with the
	// sub-object's path in front
	if depth < 2 {
		engine.ForEachInstr(f, func(in ssa.Instruction) {
			call, ok := in.(*ssa.Call)
			if !ok {
				return
			}
			cf := engine.CalleeFn(call)
			if cf == nil || cf.Blocks == nil || cf.Pkg != f.Pkg || len(cf.Params) < 2 || len(call.Call.Args) < 2 {
				return
			}
			if obj, _ := cf.Object().(*types.Func); obj == nil || obj.Exported() {
				return // the exported base methods are pairs of their own
			}
			if call.Call.Args[1] != ssa.Value(m) {
				return
			}
			root, pth := engine.FieldPath(call.Call.Args[0])
			if root != ssa.Value(recv) {
				return
			}
			prefix := engine.PathString(pth)
			for _, r := range extractRelDepth(cf, toMsg, depth+1) {
				cp := r.cfgPath
				if prefix != "" && !strings.HasPrefix(cp, prefix) {
					cp = prefix + "." + cp
				}
				rels = append(rels, fieldRel{r.msgField, cp, r.pos})
			}
		})
	}
	engine.ForEachInstr(f, func(in ssa.Instruction) {
		st, ok := in.(*ssa.Store)
		if !ok {
			return
		}
		droot, dpath := engine.FieldPath(st.Addr)
		sroot, spath, _ := valuePath(st.Val)
		if toMsg {
			if droot == ssa.Value(m) && sroot == ssa.Value(recv) && len(dpath) > 0 {
				rels = append(rels, fieldRel{engine.PathString(dpath), spath, in.Pos()})
			}
		} else {
			if droot == ssa.Value(recv) && sroot == ssa.Value(m) && len(dpath) > 0 {
				rels = append(rels, fieldRel{spath, engine.PathString(dpath), in.Pos()})
			}
		}
	})
	return rels
}

func runC18(c *engine.Ctx) {
	p := c.P

	// ---- R1 ----
	c.Rule("R1", "for each configuration type, the (message field ↔ config path) relation of MarshalToMsg equals that of UnmarshalFromMsg")
	pk := p.Pkg("pkg/config/v1")
	if pk == nil {
		c.Missing("pkg/config/v1", "package not found")
		return
	}
	pairs := 0
	for _, name := range pk.Types.Scope().Names() {
		tn, ok := pk.Types.Scope().Lookup(name).(*types.TypeName)
		if !ok {
			continue
		}
		n, ok := tn.Type().(*types.Named)
		if !ok {
			continue
		}
		var mm, um *types.Func
		for i := 0; i < n.NumMethods(); i++ {
			switch n.Method(i).Name() {
			case "MarshalToMsg":
				mm = n.Method(i)
			case "UnmarshalFromMsg":
				um = n.Method(i)
			}
		}
		if mm == nil && um == nil {
			continue
		}
		key := "pkg/config/v1." + name
		if mm == nil || um == nil {
			c.Violate(key, tn.Pos(), nil, "type defines only one of MarshalToMsg / UnmarshalFromMsg")
			continue
		}
		mf, uf := p.FuncOf(mm), p.FuncOf(um)
		if mf == nil || uf == nil {
			continue
		}
		pairs++
		M := extractRel(mf, true)
		U := extractRel(uf, false)
		ms, us := map[string]bool{}, map[string]bool{}
		for _, r := range M {
			ms[r.msgField+" <-> "+r.cfgPath] = true
		}
		for _, r := range U {
			us[r.msgField+" <-> "+r.cfgPath] = true
		}
		var onlyM, onlyU []string
		for k := range ms {
			if !us[k] {
				onlyM = append(onlyM, k)
			}
		}
		for k := range us {
			if !ms[k] {
				onlyU = append(onlyU, k)
			}
		}
		sort.Strings(onlyM)
		sort.Strings(onlyU)
		var all []string
		for k := range ms {
			all = append(all, k)
		}
		sort.Strings(all)
		// the embedded base must be delegated to in both directions (types other than the base itself)
		delegOK := true
		if name != "ProxyBaseConfig" {
			delegOK = len(engine.CallsTo(mf, p.MethodObj("pkg/config/v1", "ProxyBaseConfig", "MarshalToMsg"))) == 1 &&
				len(engine.CallsTo(uf, p.MethodObj("pkg/config/v1", "ProxyBaseConfig", "UnmarshalFromMsg"))) == 1
		}
		ok2 := len(onlyM) == 0 && len(onlyU) == 0 && len(ms) > 0 && delegOK
		c.Check(ok2, key, mf.Pos(), len(M)+len(U), []string{"relation: " + strings.Join(all, "; "),
			"only in MarshalToMsg: " + strings.Join(onlyM, "; "), "only in UnmarshalFromMsg: " + strings.Join(onlyU, "; "), fmt.Sprintf("base delegated both ways: %v", delegOK)},
			"MarshalToMsg and UnmarshalFromMsg of %s relate the same message fields to the same config paths (server reconstructs what the client sent)", name)
	}
	c.Floor(pairs, 9)

	// ---- R2 ----
	c.Rule("R2", "proxyConfigTypeMap maps exactly the eight ProxyType constants to eight distinct config types; visitorConfigTypeMap the three visitor types")
	checkTypeMap(c, "proxyConfigTypeMap", "ProxyType", 8)
	checkTypeMap(c, "visitorConfigTypeMap", "VisitorType", 3)

	// ---- R3 ----
	c.Rule("R3", "LoadConfigure stores strict into v1.DisallowUnknownFields on every path before any decoding and honours strict on both the JSON and YAML branch; custom UnmarshalJSON decoders consult the switch")
	n := 0
	var global *ssa.Global
	if sp := p.SSAPkgs[pk.PkgPath]; sp != nil {
		global, _ = sp.Members["DisallowUnknownFields"].(*ssa.Global)
	}
	lc := fn(c, "pkg/config.LoadConfigure")
	if global == nil {
		c.Missing("pkg/config/v1.DisallowUnknownFields", "global not found")
	}
	if lc != nil && global != nil {
		isDecode := func(in ssa.Instruction) bool {
			call, ok := in.(ssa.CallInstruction)
			if !ok {
				return false
			}
			o := engine.CalleeObj(call)
			if o == nil || o.Pkg() == nil {
				return false
			}
			full := o.Pkg().Path() + "." + o.Name()
			switch {
			case strings.HasSuffix(full, "yaml.Unmarshal"), strings.HasSuffix(full, "yaml.UnmarshalStrict"):
				return true
			case o.Pkg().Path() == "encoding/json" && o.Name() == "Decode":
				return true
			}
			return false
		}
		decodes := 0
		engine.ForEachInstr(lc, func(in ssa.Instruction) {
			if !isDecode(in) {
				return
			}
			decodes++
			n++
			call := in.(ssa.CallInstruction)
			o := engine.CalleeObj(call)
			c.AllPaths(fmt.Sprintf("pkg/config.LoadConfigure>%s#%d", o.Name(), decodes), engine.PathCheck{Fn: lc, Sink: engine.Is(in),
				Event: func(x ssa.Instruction) string {
					if st, ok := x.(*ssa.Store); ok && st.Addr == ssa.Value(global) {
						if isParam("strict")(st.Val) {
							return "set-global"
						}
						return "set-global-other"
					}
					if cl, ok := x.(ssa.CallInstruction); ok {
						if oo := engine.CalleeObj(cl); oo != nil && oo.Name() == "DisallowUnknownFields" {
							return "decoder-strict"
						}
					}
					return ""
				},
				Pred: func(st *engine.PathState) string {
					if !st.HasEvent("set-global") || st.HasEvent("set-global-other") {
						return "a document is decoded on a path where the nested-decoder strictness switch was not set to this call's strict argument: strictness of an earlier load leaks into this one"
					}
					strict, known := st.Truth(isParam("strict"))
					switch o.Name() {
					case "Decode":
						if !known || strict != st.HasEvent("decoder-strict") {
							return "JSON branch: decoder strictness does not follow the strict argument"
						}
					case "UnmarshalStrict":
						if !(known && strict) {
							return "YAML strict decoding used when strict is not set"
						}
					case "Unmarshal":
						if !(known && !strict) {
							return "YAML lenient decoding used although strict is set"
						}
					}
					return ""
				}}, "strictness set globally and applied locally before %s", o.Name())
		})
		if decodes < 3 {
			c.Violate("pkg/config.LoadConfigure>decoders", lc.Pos(), nil, "expected a JSON decoder and both YAML decoders in LoadConfigure, found %d decode call(s)", decodes)
		}
		// custom decoders
		for _, f := range p.RepoFuncs() {
			if f.Name() != "UnmarshalJSON" || f.Pkg == nil || f.Pkg.Pkg != pk.Types {
				continue
			}
			engine.ForEachInstr(f, func(in ssa.Instruction) {
				call, ok := in.(ssa.CallInstruction)
				if !ok {
					return
				}
				o := engine.CalleeObj(call)
				if o == nil || o.Pkg() == nil || o.Pkg().Path() != "encoding/json" || o.Name() != "Decode" {
					return
				}
				n++
				c.AllPaths(p.FuncName(f), engine.PathCheck{Fn: f, Sink: engine.Is(in),
					Event: func(x ssa.Instruction) string {
						if cl, ok := x.(ssa.CallInstruction); ok {
							if oo := engine.CalleeObj(cl); oo != nil && oo.Name() == "DisallowUnknownFields" {
								return "decoder-strict"
							}
						}
						return ""
					},
					Pred: func(st *engine.PathState) string {
						v, k := st.Truth(func(v ssa.Value) bool {
							u, ok := v.(*ssa.UnOp)
							return ok && u.X == ssa.Value(global)
						})
						if !k {
							return "nested decoder does not consult the DisallowUnknownFields switch"
						}
						if v != st.HasEvent("decoder-strict") {
							return "nested decoder strictness does not follow the switch"
						}
						return ""
					}}, "nested decoder follows the strictness switch")
			})
		}
	}
	c.Floor(n, 6)

	// ---- R4 ----
	c.Rule("R4", "every exported field of every struct in pkg/config/v1 and pkg/config/types has a json tag that is unique within its struct, and no yaml/toml tag that differs from it")
	checkJSONTags(c, []string{"pkg/config/v1", "pkg/config/types"})

	// ---- R5 ----
	c.Rule("R5", "ValidatePort returns nil exactly for 0 <= port <= 65535; the server and client port fields reach it; custom domains are compared with the subdomain host on lower-cased operands")
	n = 0
	if vp := fn(c, "pkg/config/v1/validation.ValidatePort"); vp != nil {
		n++
		c.AllPaths("pkg/config/v1/validation.ValidatePort", engine.PathCheck{Fn: vp, Sink: engine.IsReturn, Pred: func(st *engine.PathState) string {
			r := st.Sink.(*ssa.Return)
			isOK := engine.IsNilConst(st.Resolve(r.Results[0]))
			lo, hi := false, false
			for _, l := range st.Lits {
				x, y, op := l.X, l.Y, l.Op
				if isParam("port")(y) {
					x, y, op = y, x, flipOrd(op)
				}
				if !isParam("port")(x) {
					continue
				}
				if !l.Val {
					op = negOrd(op)
				}
				z, ok := engine.ConstInt(y)
				if !ok {
					continue
				}
				if (op == token.GEQ && z == 0) || (op == token.GTR && z == -1) {
					lo = true
				}
				if (op == token.LEQ && z == 65535) || (op == token.LSS && z == 65536) {
					hi = true
				}
			}
			if isOK && !(lo && hi) {
				return "ValidatePort accepts a port on a path that does not establish 0 <= port <= 65535"
			}
			if !isOK && lo && hi {
				return "ValidatePort rejects a port in 0..65535"
			}
			return ""
		}}, "accepts exactly 0..65535")
		// callers: which config fields reach it
		vpo := p.FuncObj("pkg/config/v1/validation", "ValidatePort")
		fields := map[string]bool{}
		for _, f := range p.RepoFuncs() {
			for _, call := range engine.CallsTo(f, vpo) {
				_, pth, _ := valuePath(engine.CallArgs(call)[0])
				fields[pth] = true
				// the ports may be collected in a table that a loop walks: every configuration field the argument can
				// come from counts
				for fv := range engine.Provenance(engine.CallArgs(call)[0], engine.ProvOpts{NoArgs: true}).Fields {
					if fv.Pkg() != nil && strings.HasSuffix(fv.Pkg().Path(), "/pkg/config/v1") {
						fields[fv.Name()] = true
					}
				}
			}
		}
		var fl []string
		for k := range fields {
			fl = append(fl, k)
		}
		sort.Strings(fl)
		n++
		want := []string{"BindPort", "KCPBindPort", "QUICBindPort", "VhostHTTPPort", "VhostHTTPSPort", "TCPMuxHTTPConnectPort", "Port", "LocalPort"}
		var missing []string
		for _, w := range want {
			found := false
			for k := range fields {
				if strings.HasSuffix(k, w) {
					found = true
				}
			}
			if !found {
				missing = append(missing, w)
			}
		}
		c.Check(len(missing) == 0, "pkg/config/v1/validation.ValidatePort>callers", vp.Pos(), len(fields), []string{"validated: " + strings.Join(fl, ", ")},
			"all port settings are range-checked (missing: %s)", strings.Join(missing, ","))
	}
	if vd := fn(c, "pkg/config/v1/validation.validateDomainConfigForServer"); vd != nil {
		subF := field(c, "pkg/config/v1", "ServerConfig", "SubDomainHost")
		cnt := 0
		for _, host := range withHelpers(vd) { // the comparison may sit in an extracted predicate
			host := host
			engine.ForEachInstr(host, func(in ssa.Instruction) {
				call, ok := in.(*ssa.Call)
				if !ok {
					return
				}
				o := engine.CalleeObj(call)
				if o == nil || o.Pkg() == nil || o.Pkg().Path() != "strings" {
					return
				}
				switch o.Name() {
				case "Contains", "HasSuffix", "EqualFold", "HasPrefix":
				default:
					return
				}
				// only comparisons that involve the subdomain host
				s0 := provThroughCallers(call.Call.Args[0], host, vd)
				s1 := provThroughCallers(call.Call.Args[1], host, vd)
				if !s0.HasField(subF) && !s1.HasField(subF) {
					return
				}
				cnt++
				n++
				lowered := func(s srcSet) bool { return s[:1].HasCallNamed("strings", "ToLower", "ToUpper") }
				okc := o.Name() == "EqualFold" || (lowered(s0) && lowered(s1))
				c.Check(okc, fmt.Sprintf("pkg/config/v1/validation.validateDomainConfigForServer>%s#%d", o.Name(), cnt), in.Pos(), 2, nil,
					"custom domain vs subdomain host comparison is case-insensitive (the routers index lower-cased hosts)")
			})
		}
		if cnt == 0 {
			c.Undecide("pkg/config/v1/validation.validateDomainConfigForServer", vd.Pos(), "no comparison of a custom domain with SubDomainHost found")
		}
	}
	c.Floor(n, 3)

	// ---- R6 ----
	c.Rule("R6", "the value stored by every Set(s string) method of a flag type depends on s")
	n = 0
	for _, f := range p.RepoFuncs() {
		if f.Name() != "Set" || f.Signature.Recv() == nil || f.Pkg == nil || !strings.HasSuffix(f.Pkg.Pkg.Path(), "/pkg/config") {
			continue
		}
		if f.Signature.Params().Len() != 1 {
			continue
		}
		if b, ok := f.Signature.Params().At(0).Type().Underlying().(*types.Basic); !ok || b.Kind() != types.String {
			continue
		}
		n++
		arg := f.Params[1]
		stores, dep := 0, 0
		engine.ForEachInstr(f, func(in ssa.Instruction) {
			st, ok := in.(*ssa.Store)
			if !ok {
				return
			}
			if _, local := st.Addr.(*ssa.Alloc); local {
				return
			}
			stores++
			src := engine.Provenance(st.Val, engine.ProvOpts{})
			if src.Params[arg] {
				dep++
			}
		})
		delegated := false
		if stores == 0 {
			// no direct store: the argument must be handed to a call (delegation to the target's own parser)
			if refs := arg.Referrers(); refs != nil {
				for _, r := range *refs {
					if _, ok := r.(ssa.CallInstruction); ok {
						delegated = true
					}
				}
			}
		}
		c.Check((stores > 0 && dep == stores) || delegated, p.FuncName(f), f.Pos(), stores+1, nil, "every value stored by %s derives from its argument (%d of %d stores; delegated=%v)", p.FuncName(f), dep, stores, delegated)
	}
	c.Floor(n, 3)

	// ---- R8 ----
	c.Rule("R8", "NewProxyConfigurerFromMsg returns a configuration only after UnmarshalFromMsg, Complete and a nil result of ValidateProxyConfigurerForServer, in that order")
	if f := fn(c, "pkg/config.NewProxyConfigurerFromMsg"); f != nil {
		um := method(c, "pkg/config/v1", "ProxyConfigurer", "UnmarshalFromMsg")
		cm := method(c, "pkg/config/v1", "ProxyConfigurer", "Complete")
		vm := funcObj(c, "pkg/config/v1/validation", "ValidateProxyConfigurerForServer")
		if um != nil && cm != nil && vm != nil {
			c.AllPaths("pkg/config.NewProxyConfigurerFromMsg", engine.PathCheck{Fn: f, Sink: engine.IsReturn,
				Event: func(in ssa.Instruction) string {
					switch {
					case engine.IsCallTo(in, um):
						return "unmarshal"
					case engine.IsCallTo(in, cm):
						return "complete"
					case engine.IsCallTo(in, vm):
						return "validate"
					}
					return ""
				},
				Pred: func(st *engine.PathState) string {
					r := st.Sink.(*ssa.Return)
					if engine.IsNilConst(st.Resolve(r.Results[0])) {
						return ""
					}
					a, b, d := st.EventIndex("unmarshal"), st.EventIndex("complete"), st.EventIndex("validate")
					if a < 0 || b < a || d < b {
						return "a configuration is returned without unmarshal → complete → validate in that order"
					}
					if v, k := st.IsNil(resultOf(vm)); !(k && v) {
						return "a configuration is returned on a path where validation did not return nil"
					}
					return ""
				}}, "unmarshal, complete, validate, then return")
			c.Floor(1, 1)
		}
	}

	checkFlagTargets(c, "R9")
	checkStrictPlumbing(c, "R10")

	// ---- R11 the strict switch stays locked for the whole load ----
	c.Rule("R11", "the function that sets v1.DisallowUnknownFields locks DisallowUnknownFieldsMu and releases it only by a deferred Unlock: the nested decoders read the switch during the whole decode, an overlapping load with the other mode must wait")
	n11 := 0
	isMu := func(v ssa.Value) bool {
		g, ok := engine.Unwrap(v).(*ssa.Global)
		return ok && g.Name() == "DisallowUnknownFieldsMu"
	}
	for _, f := range p.RepoFuncs() {
		setsSwitch := false
		engine.ForEachInstr(f, func(in ssa.Instruction) {
			if st, ok := in.(*ssa.Store); ok {
				if g, ok := st.Addr.(*ssa.Global); ok && g.Name() == "DisallowUnknownFields" {
					setsSwitch = true
				}
			}
		})
		if !setsSwitch || f.Name() == "init" {
			continue
		}
		n11++
		locks, deferredUnlock, directUnlock := 0, 0, 0
		engine.ForEachInstr(f, func(in ssa.Instruction) {
			call, ok := in.(ssa.CallInstruction)
			if !ok {
				return
			}
			o := engine.CalleeObj(call)
			if o == nil || o.Pkg() == nil || o.Pkg().Path() != "sync" || len(call.Common().Args) == 0 || !isMu(call.Common().Args[0]) {
				return
			}
			_, isDefer := in.(*ssa.Defer)
			switch {
			case o.Name() == "Lock":
				locks++
			case o.Name() == "Unlock" && isDefer:
				deferredUnlock++
			case o.Name() == "Unlock":
				directUnlock++
			}
		})
		c.Check(locks >= 1 && deferredUnlock >= 1 && directUnlock == 0, p.FuncName(f)+">switch-locked-for-the-load", f.Pos(), 3, nil,
			"Lock, deferred Unlock, no early Unlock (locks=%d deferred=%d direct=%d)", locks, deferredUnlock, directUnlock)
	}
	c.Floor(n11, 1)

	// ---- R12 environment values are taken whole ----
	c.Rule("R12", "the template environment is built by cutting each os.Environ entry at its first '=' only (SplitN(…, 2) or strings.Cut): a value that itself contains '=' must render, not vanish")
	n12 := 0
	for _, f := range p.RepoFuncs() {
		if f.Pkg == nil || !strings.HasSuffix(f.Pkg.Pkg.Path(), "/pkg/config") {
			continue
		}
		hasEnviron := false
		engine.ForEachInstr(f, func(in ssa.Instruction) {
			if call, ok := in.(ssa.CallInstruction); ok {
				if o := engine.CalleeObj(call); o != nil && o.Pkg() != nil && o.Pkg().Path() == "os" && o.Name() == "Environ" {
					hasEnviron = true
				}
			}
		})
		if !hasEnviron {
			continue
		}
		engine.ForEachInstr(f, func(in ssa.Instruction) {
			call, ok := in.(ssa.CallInstruction)
			if !ok {
				return
			}
			o := engine.CalleeObj(call)
			if o == nil || o.Pkg() == nil || o.Pkg().Path() != "strings" {
				return
			}
			args := call.Common().Args
			if len(args) < 2 {
				return
			}
			if sep, ok := engine.ConstString(args[1]); !ok || sep != "=" {
				return
			}
			n12++
			okSplit := false
			switch o.Name() {
			case "SplitN":
				if k, ok := engine.ConstInt(args[2]); ok && k == 2 {
					okSplit = true
				}
			case "Cut":
				okSplit = true
			}
			c.Check(okSplit, p.FuncName(f)+">env-split", in.Pos(), 1, nil, "environment entries are cut at the first '=' (%s)", o.Name())
		})
	}
	c.Floor(n12, 1)

	// ---- R13 accepted enumerations are the ones the consumers compare with ----
	checkValidationExact(c, "R13")
	checkLegacyConversion(c, "R14")

	// ---- R16 decoding a registration does not change it: the message is read after it was logged / inspected ----
	c.Rule("R16", "NewProxyConfigurerFromMsg (with the steps split out of it) and the UnmarshalFromMsg methods never write into the maps and slices of the message they decode (nor of a shallow copy of it, which shares them); defaulting a scalar field is not covered")
	{
		var fns []*ssa.Function
		if f := fn(c, "pkg/config.NewProxyConfigurerFromMsg"); f != nil {
			fns = append(fns, f)
			fns = append(fns, allAnon(f)...)
		}
		for _, f := range c.P.RepoFuncs() {
			if f.Parent() == nil && f.Name() == "UnmarshalFromMsg" && f.Pkg != nil && strings.HasSuffix(f.Pkg.Pkg.Path(), "/pkg/config/v1") {
				fns = append(fns, f)
			}
		}
		k := 0
		for _, f := range fns {
			msgParams := map[*ssa.Parameter]bool{}
			root := f
			for root.Parent() != nil {
				root = root.Parent()
			}
			for _, pr := range root.Params {
				if nn := engine.NamedOf(engine.Deref(pr.Type())); nn != nil && nn.Obj().Pkg() != nil && strings.HasSuffix(nn.Obj().Pkg().Path(), "/pkg/msg") {
					msgParams[pr] = true
				}
			}
			if len(msgParams) == 0 {
				continue
			}
			k++
			var bad []string
			var badPos token.Pos
			fromMsg := func(v ssa.Value) bool {
				for pr := range engine.Provenance(v, engine.ProvOpts{NoArgs: true}).Params {
					if msgParams[pr] {
						return true
					}
				}
				return false
			}
			engine.ForEachInstr(f, func(in ssa.Instruction) {
				switch x := in.(type) {
				case *ssa.MapUpdate:
					if fromMsg(x.Map) {
						bad, badPos = append(bad, "a map of the message is updated"), in.Pos()
					}
				case *ssa.Store:
					// an element of a slice of the message (shared with every shallow copy)
					if ia, ok := x.Addr.(*ssa.IndexAddr); ok {
						if rootv, path := engine.FieldPath(ia.X); len(path) > 0 {
							if pr, isP := rootv.(*ssa.Parameter); isP && msgParams[pr] {
								bad, badPos = append(bad, "an element of a slice of the message is overwritten"), in.Pos()
							}
						}
					}
				}
			})
			if len(bad) > 0 {
				c.Violate(c.P.FuncName(f)+">message-unchanged", badPos, bad, "decoding changes the message it decodes (%s): what the server acts on is no longer what the client sent", strings.Join(bad, "; "))
			} else {
				c.Hold(c.P.FuncName(f)+">message-unchanged", f.Pos(), 1, nil, "the message is only read")
			}
		}
		c.Floor(k, 8)
	}

	// ---- R15 the textual writers of a bandwidth quantity return the literal its parser accepted ----
	c.Rule("R15", "BandwidthQuantity.String and MarshalJSON derive their text from the stored literal (field s) only, and UnmarshalString stores its argument there on the success path: the parser truncates fractional quantities to bytes, so no rendering of the byte count re-parses to the same value for every accepted literal")
	if sf := field(c, "pkg/config/types", "BandwidthQuantity", "s"); sf != nil {
		iF := field(c, "pkg/config/types", "BandwidthQuantity", "i")
		k := 0
		for _, name := range []string{"String", "MarshalJSON"} {
			f := fn(c, "pkg/config/types.BandwidthQuantity."+name)
			if f == nil {
				continue
			}
			engine.ForEachInstr(f, func(in ssa.Instruction) {
				r, ok := in.(*ssa.Return)
				if !ok {
					return
				}
				k++
				src := engine.Provenance(r.Results[0], engine.ProvOpts{})
				c.Check(src.HasField(sf) && !src.HasField(iF), "pkg/config/types.BandwidthQuantity."+name+">literal", in.Pos(), 1, []string{src.Summary()},
					"the text written is the stored literal, not a rendering of the byte count")
			})
		}
		if uf := fn(c, "pkg/config/types.BandwidthQuantity.UnmarshalString"); uf != nil {
			k++
			c.AllPaths("pkg/config/types.BandwidthQuantity.UnmarshalString>stores-literal", engine.PathCheck{Fn: uf, Sink: engine.IsReturn,
				Event: func(in ssa.Instruction) string {
					if st, ok := in.(*ssa.Store); ok {
						lf, _ := engine.LoadedField(st.Addr)
						if lf == sf && engine.Provenance(st.Val, engine.ProvOpts{}).HasParam("s") {
							return "stored"
						}
						if lf == iF {
							return "bytes"
						}
					}
					return ""
				},
				Pred: func(st *engine.PathState) string {
					r := st.Sink.(*ssa.Return)
					if engine.IsNilConst(st.Resolve(r.Results[0])) && st.HasEvent("bytes") && !st.HasEvent("stored") {
						return "UnmarshalString sets the byte count without recording the literal it parsed"
					}
					return ""
				}}, "success ⇒ literal stored")
		}
		c.Floor(k, 3)
	}

	// ---- R17 the rendered document belongs to the caller (shared with C16.R25) ----
	checkPooledEscape(c, "R17")

	// ---- R18 ----
	checkTotalNumberParsing(c, "R18")

	// ---- R19 the definition the server gets is the one of the wrapper that is still current (shared with C19.R8) ----
	checkEventsUnderLock(c, engine.AnalyzeLocks(c.P), "R19")
	checkDecodersSeeLoadedBytes(c, "R20")
}

// checkFlagTargets (R9): "the same configuration given through command-line flags yields identical structures". Every
// flag registered in pkg/config writes through a pointer; that pointer must point into the configuration object the
// function was given, or into a local variable whose *address* is installed in the configuration (so that flags parsed
// later are still seen). A local whose address never reaches the configuration receives flag values nobody reads.
func checkFlagTargets(c *engine.Ctx, rule string) {
	c.Rule(rule, "pkg/config flag registration: every flag target pointer is rooted in the configuration parameter, or in a local variable whose address is stored into the configuration (never a copy)")
	p := c.P
	n := 0
	paramRooted := func(v ssa.Value) bool {
		root, _ := engine.FieldPath(v)
		src := engine.Provenance(root, engine.ProvOpts{})
		return len(src.Params) > 0
	}
	// addressInstalled: the address of al is the value of some store (in f or, through a captured variable, in a closure of f)
	addressInstalled := func(al *ssa.Alloc) bool {
		refs := al.Referrers()
		if refs == nil {
			return false
		}
		for _, r := range *refs {
			switch x := r.(type) {
			case *ssa.Store:
				if x.Val == ssa.Value(al) && paramRooted(x.Addr) {
					return true
				}
			case *ssa.MakeClosure:
				cf, _ := x.Fn.(*ssa.Function)
				for i, b := range x.Bindings {
					if b != ssa.Value(al) || cf == nil || i >= len(cf.FreeVars) {
						continue
					}
					if fr := cf.FreeVars[i].Referrers(); fr != nil {
						for _, y := range *fr {
							if st, ok := y.(*ssa.Store); ok && st.Val == ssa.Value(cf.FreeVars[i]) {
								return true
							}
						}
					}
				}
			}
		}
		return false
	}
	for _, f := range p.RepoFuncs() {
		if f.Pkg == nil || !strings.HasSuffix(f.Pkg.Pkg.Path(), "/pkg/config") {
			continue
		}
		engine.ForEachInstr(f, func(in ssa.Instruction) {
			call, ok := in.(ssa.CallInstruction)
			if !ok {
				return
			}
			o := engine.CalleeObj(call)
			if o == nil || o.Pkg() == nil || !strings.HasSuffix(o.Pkg().Path(), "spf13/pflag") || !strings.Contains(o.Name(), "Var") {
				return
			}
			args := engine.CallArgs(call)
			if len(args) < 2 {
				return
			}
			tgt := args[1]
			if _, isPtr := tgt.Type().Underlying().(*types.Pointer); !isPtr {
				return // Var/VarP with a pflag.Value wrapper: its pointer fields are checked where they are stored
			}
			n++
			root, _ := engine.FieldPath(tgt)
			okT := paramRooted(tgt)
			how := "rooted in the configuration parameter"
			if al, isAl := root.(*ssa.Alloc); isAl && !okT {
				okT = addressInstalled(al)
				how = "local variable whose address is installed in the configuration"
			}
			c.Check(okT, fmt.Sprintf("%s>flag-target#%d", p.FuncName(f), n), in.Pos(), 1, []string{"target: " + engine.Describe(tgt)},
				"flag target is %s", how)
		})
	}
	c.Floor(n, 30)
}

// checkStrictPlumbing (R10): "strict mode rejects unknown fields at every nesting level" in every file that is loaded.
// A parameter has the strict role when it is stored into v1.DisallowUnknownFields or passed on in a strict position; a
// function that has such a parameter must pass exactly that parameter at every strict position it calls (the included
// files of a client configuration are decoded by a helper two calls away from the switch).
func checkStrictPlumbing(c *engine.Ctx, rule string) {
	c.Rule(rule, "strict-mode plumbing: a function that receives the strict flag passes that very parameter to every callee position that (transitively) sets v1.DisallowUnknownFields")
	p := c.P
	type pos struct {
		f *ssa.Function
		i int
	}
	role := map[pos]bool{}
	var funcs []*ssa.Function
	for _, f := range p.RepoFuncs() {
		if f.Pkg != nil && strings.HasSuffix(f.Pkg.Pkg.Path(), "/pkg/config") && f.Parent() == nil {
			funcs = append(funcs, f)
		}
	}
	isSwitch := func(v ssa.Value) bool {
		g, ok := v.(*ssa.Global)
		return ok && g.Name() == "DisallowUnknownFields"
	}
	// base: parameter stored into the global switch
	for _, f := range funcs {
		engine.ForEachInstr(f, func(in ssa.Instruction) {
			if st, ok := in.(*ssa.Store); ok && isSwitch(st.Addr) {
				if pr, ok := st.Val.(*ssa.Parameter); ok {
					for i, q := range f.Params {
						if q == pr {
							role[pos{f, i}] = true
						}
					}
				}
			}
		})
	}
	if len(role) == 0 {
		c.Missing("pkg/config/v1.DisallowUnknownFields", "no function stores a parameter into the strict-mode switch")
		return
	}
	// propagate to callers
	for changed := true; changed; {
		changed = false
		for _, f := range funcs {
			engine.ForEachInstr(f, func(in ssa.Instruction) {
				call, ok := in.(ssa.CallInstruction)
				if !ok {
					return
				}
				cf := engine.CalleeFn(call)
				if cf == nil {
					return
				}
				for i, a := range call.Common().Args {
					if !role[pos{cf, i}] {
						continue
					}
					if pr, ok := a.(*ssa.Parameter); ok {
						for j, q := range f.Params {
							if q == pr && !role[pos{f, j}] {
								role[pos{f, j}] = true
								changed = true
							}
						}
					}
				}
			})
		}
	}
	n := 0
	for _, f := range funcs {
		var own []*ssa.Parameter
		for i, q := range f.Params {
			if role[pos{f, i}] {
				own = append(own, q)
			}
		}
		if len(own) == 0 {
			continue
		}
		f := f
		engine.ForEachInstr(f, func(in ssa.Instruction) {
			call, ok := in.(ssa.CallInstruction)
			if !ok {
				return
			}
			cf := engine.CalleeFn(call)
			if cf == nil {
				return
			}
			for i, a := range call.Common().Args {
				if !role[pos{cf, i}] {
					continue
				}
				n++
				okA := len(own) == 1 && a == ssa.Value(own[0])
				c.Check(okA, fmt.Sprintf("%s>strict-to-%s", p.FuncName(f), cf.Name()), in.Pos(), 1, []string{"argument: " + engine.Describe(a)},
					"%s passes its own strict parameter to %s (a different bool would decode that file leniently or strictly regardless of the mode)", p.FuncName(f), cf.Name())
			}
		})
		if len(own) > 1 {
			c.Violate(p.FuncName(f)+">strict-params", f.Pos(), nil, "%d parameters of %s reach the strict-mode switch", len(own), p.FuncName(f))
		}
	}
	c.Floor(n, 4)
}

func checkTypeMap(c *engine.Ctx, mapName, constType string, want int) {
	p := c.P
	pk := p.Pkg("pkg/config/v1")
	sp := p.SSAPkgs[pk.PkgPath]
	g, _ := sp.Members[mapName].(*ssa.Global)
	// constants of the enum type
	consts := map[string]string{}
	for _, name := range pk.Types.Scope().Names() {
		if k, ok := pk.Types.Scope().Lookup(name).(*types.Const); ok {
			if n := engine.NamedOf(k.Type()); n != nil && n.Obj().Name() == constType {
				consts[k.Val().ExactString()] = name
			}
		}
	}
	keys := map[string]string{}
	vals := map[string]bool{}
	initFn := sp.Func("init")
	if g == nil {
		// the table was replaced by a factory switch: evaluate `switch t { case K: return &T{} }` to the same relation
		factory := map[string]string{"proxyConfigTypeMap": "NewProxyConfigurerByType", "visitorConfigTypeMap": "NewVisitorConfigurerByType"}[mapName]
		ff := p.Fn("pkg/config/v1." + factory)
		if ff == nil || ff.Blocks == nil {
			c.Missing("pkg/config/v1."+mapName, "table not found (and no factory function %s)", factory)
			return
		}
		var res0 []ssa.Value
		engine.ForEachInstr(ff, func(in ssa.Instruction) {
			if r, ok := in.(*ssa.Return); ok && len(r.Results) > 0 {
				res0 = append(res0, r.Results[0])
			}
		})
		q := &engine.PathQuery{Fn: ff, Sink: engine.IsReturn, Track: res0}
		states, err := q.Run()
		if err != nil {
			c.Undecide("pkg/config/v1."+mapName, ff.Pos(), "factory %s: %v", factory, err)
			return
		}
		for _, st := range states {
			r := st.Sink.(*ssa.Return)
			v := engine.Unwrap(st.Resolve(r.Results[0]))
			al, ok := v.(*ssa.Alloc)
			if !ok {
				continue
			}
			for _, l := range st.Lits {
				if l.Op != token.EQL || !l.Val {
					continue
				}
				x, y := l.X, l.Y
				if _, isC := x.(*ssa.Const); isC {
					x, y = y, x
				}
				kc, isC := y.(*ssa.Const)
				if _, isP := x.(*ssa.Parameter); !isP || !isC || kc.Value == nil {
					continue
				}
				vt := typeShort(engine.Deref(al.Type()))
				keys[kc.Value.ExactString()] = vt
				vals[vt] = true
			}
		}
		initFn = nil
	}
	engine.ForEachInstr(initFn, func(in ssa.Instruction) {
		mu, ok := in.(*ssa.MapUpdate)
		if !ok {
			return
		}
		// map created for this global?
		src := engine.Provenance(mu.Map, engine.ProvOpts{})
		_ = src
		kc, ok := mu.Key.(*ssa.Const)
		if !ok || kc.Value == nil {
			return
		}
		if n := engine.NamedOf(kc.Type()); n == nil || n.Obj().Name() != constType {
			return
		}
		// value: reflect.TypeOf(T{}) → the argument's static type
		vt := "?"
		if call, _ := engine.ResultOfCall(mu.Value); call != nil && len(call.Call.Args) == 1 {
			if mi, ok := call.Call.Args[0].(*ssa.MakeInterface); ok {
				vt = typeShort(mi.X.Type())
			}
		}
		keys[kc.Value.ExactString()] = vt
		vals[vt] = true
	})
	var missing []string
	for v, name := range consts {
		if _, ok := keys[v]; !ok {
			missing = append(missing, name)
		}
	}
	var desc []string
	for k, v := range keys {
		desc = append(desc, k+"→"+v)
	}
	sort.Strings(desc)
	ok := len(keys) == want && len(vals) == want && len(consts) == want && len(missing) == 0
	pos := token.NoPos
	if g != nil {
		pos = g.Pos()
	}
	c.Check(ok, "pkg/config/v1."+mapName, pos, len(keys), []string{strings.Join(desc, " ")},
		"%s covers exactly the %d %s constants with distinct types (constants: %d, entries: %d, distinct types: %d, uncovered: %s)", mapName, want, constType, len(consts), len(keys), len(vals), strings.Join(missing, ","))
	c.Floor(1, 1)
}

func checkJSONTags(c *engine.Ctx, pkgs []string) {
	p := c.P
	n := 0
	for _, rel := range pkgs {
		pk := p.Pkg(rel)
		if pk == nil {
			c.Missing(rel, "package not found")
			continue
		}
		for _, file := range pk.Syntax {
			ast.Inspect(file, func(nd ast.Node) bool {
				ts, ok := nd.(*ast.TypeSpec)
				if !ok {
					return true
				}
				st, ok := ts.Type.(*ast.StructType)
				if !ok {
					return true
				}
				n++
				seen := map[string]string{}
				var problems []string
				for _, fld := range st.Fields.List {
					if len(fld.Names) == 0 {
						continue // embedded
					}
					for _, nm := range fld.Names {
						if !nm.IsExported() {
							continue
						}
						tag := ""
						if fld.Tag != nil {
							tag = strings.Trim(fld.Tag.Value, "`")
						}
						st := reflect.StructTag(tag)
						j, ok := st.Lookup("json")
						jn := strings.Split(j, ",")[0]
						if !ok || jn == "" {
							problems = append(problems, nm.Name+": no json tag")
							continue
						}
						if jn == "-" {
							continue
						}
						if prev, dup := seen[jn]; dup {
							problems = append(problems, fmt.Sprintf("%s and %s share json name %q", prev, nm.Name, jn))
						}
						seen[jn] = nm.Name
						for _, other := range []string{"yaml", "toml"} {
							if o, ok := st.Lookup(other); ok && strings.Split(o, ",")[0] != jn {
								problems = append(problems, fmt.Sprintf("%s: %s tag %q differs from json %q", nm.Name, other, o, jn))
							}
						}
					}
				}
				key := rel + "." + ts.Name.Name
				c.Check(len(problems) == 0, key, ts.Pos(), len(seen)+1, nil, "struct %s: one json name per exported field, same in every format (%s)", ts.Name.Name, strings.Join(problems, "; "))
				return true
			})
		}
	}
	c.Floor(n, 20)
}

// checkLegacyConversion (C18.R14, shared as C03.R10 / C05.R10): the legacy (ini) configuration is converted field by
// field into the v1 structures. Two obligations per Convert_* function, both over the stores `out.<dst> = conf.<src>`:
// (a) name agreement — when the source structure has a field with the destination's name, that is the field copied
// (UseEncryption is not fed from UseCompression); (b) completeness — every leaf field name that exists in both the source
// and the destination structure is actually copied (a dropped line silently resets the option to its default on one side).
func checkLegacyConversion(c *engine.Ctx, rule string) {
	c.Rule(rule, "pkg/config/legacy Convert_*: a destination field that has a namesake in the source structure is copied from that namesake, and every leaf field name common to source and destination is copied")
	p := c.P
	n := 0
	// leaves of a struct type: exported non-struct fields, through nested and embedded repo structs; a name that
	// occurs at two nesting levels is dropped (it identifies nothing)
	leaves := func(t types.Type) map[string]*types.Var {
		out := map[string]*types.Var{}
		dup := map[string]bool{}
		seen := map[types.Type]bool{}
		var walk func(t types.Type, d int)
		walk = func(t types.Type, d int) {
			t = engine.Deref(t)
			if seen[t] || d > 4 {
				return
			}
			seen[t] = true
			st, ok := t.Underlying().(*types.Struct)
			if !ok {
				return
			}
			for i := 0; i < st.NumFields(); i++ {
				f := st.Field(i)
				ft := engine.Deref(f.Type())
				if _, isSt := ft.Underlying().(*types.Struct); isSt {
					if nn := engine.NamedOf(ft); nn == nil || nn.Obj().Pkg() == nil || engine.IsRepoPkg(nn.Obj().Pkg().Path()) {
						walk(ft, d+1)
						continue
					}
				}
				if f.Exported() {
					if _, again := out[f.Name()]; again {
						dup[f.Name()] = true
					}
					out[f.Name()] = f
				}
			}
		}
		walk(t, 0)
		for k := range dup {
			delete(out, k)
		}
		return out
	}
	sameKind := func(a, b types.Type) bool {
		a, b = engine.Deref(a), engine.Deref(b)
		if types.Identical(a, b) {
			return true
		}
		ba, oka := a.Underlying().(*types.Basic)
		bb, okb := b.Underlying().(*types.Basic)
		return oka && okb && ba.Kind() == bb.Kind()
	}
	for _, f := range p.RepoFuncs() {
		if f.Pkg == nil || !strings.HasSuffix(f.Pkg.Pkg.Path(), "/pkg/config/legacy") || f.Parent() != nil || !strings.HasPrefix(f.Name(), "Convert_") {
			continue
		}
		if len(f.Params) != 1 || f.Signature.Results().Len() != 1 {
			continue
		}
		dstT := f.Signature.Results().At(0).Type()
		if _, isIface := dstT.Underlying().(*types.Interface); isIface {
			continue // dispatchers over the typed converters
		}
		n++
		dstLeaves := leaves(dstT)
		// the source structures: the parameter's type and every legacy struct the function reads fields of (the
		// source may be reached through an accessor such as conf.GetBaseConfig())
		var srcStructs []map[string]*types.Var
		seenSrc := map[types.Type]bool{}
		addSrc := func(t types.Type) {
			nn := engine.NamedOf(t)
			if nn == nil || seenSrc[nn] || nn.Obj().Pkg() == nil || !strings.HasSuffix(nn.Obj().Pkg().Path(), "/pkg/config/legacy") {
				return
			}
			seenSrc[nn] = true
			srcStructs = append(srcStructs, leaves(nn))
		}
		addSrc(f.Params[0].Type())
		engine.ForEachInstr(f, func(in ssa.Instruction) {
			switch x := in.(type) {
			case *ssa.FieldAddr:
				addSrc(x.X.Type())
			case *ssa.Field:
				addSrc(x.X.Type())
			}
		})
		copied := map[string]bool{}
		var bad []string
		engine.ForEachInstr(f, func(in ssa.Instruction) {
			st, ok := in.(*ssa.Store)
			if !ok {
				return
			}
			dst, _ := engine.LoadedField(st.Addr)
			if dst == nil || dstLeaves[dst.Name()] != dst {
				return
			}
			src := engine.Provenance(st.Val, engine.ProvOpts{})
			for fv := range src.Fields {
				for _, ss := range srcStructs {
					if ss[fv.Name()] != fv {
						continue // fv is not a leaf of this source structure
					}
					copied[dst.Name()] = true
					if twin, ok := ss[dst.Name()]; ok && twin != fv && sameKind(twin.Type(), dst.Type()) {
						bad = append(bad, fmt.Sprintf("%s is fed from %s although that legacy structure has a field %s", dst.Name(), fv.Name(), dst.Name()))
					}
				}
			}
		})
		var missing []string
		for name, dv := range dstLeaves {
			for _, ss := range srcStructs {
				if sv, ok := ss[name]; ok && sameKind(sv.Type(), dv.Type()) && !copied[name] {
					missing = append(missing, name)
				}
			}
		}
		sort.Strings(missing)
		sort.Strings(bad)
		c.Check(len(bad) == 0 && len(missing) == 0, p.FuncName(f), f.Pos(), len(copied), nil,
			"%d fields copied; mismatched: [%s]; common fields never copied: [%s]", len(copied), strings.Join(bad, "; "), strings.Join(missing, ","))
	}
	c.Floor(n, 4)
}

// checkTotalNumberParsing (R18): the textual port-range forms ("1000-2000,3000") are accepted only when each piece is a
// number as a whole. strconv's conversions are total over the piece (trailing garbage, a second dash, a missing bound
// are errors); fmt's scanners stop at the first byte that does not fit and report how many verbs matched, so
// "1000 - 2000" becomes the single port 1000 and "8080/tcp" is accepted. The numbers that reach the result must come
// from strconv, and no scanner of the fmt family is used in the configuration parsers.
func checkTotalNumberParsing(c *engine.Ctx, rule string) {
	c.Rule(rule, "every number stored into a PortsRange by NewPortsRangeSliceFromString, and every number ParseRangeNumbers appends, is the result of strconv.ParseInt/ParseUint/Atoi over the piece; pkg/config and pkg/util/util call no fmt.Sscan*/Fscan* (prefix scanners)")
	p := c.P
	n := 0
	isStrconv := func(o *types.Func) bool {
		if o == nil || o.Pkg() == nil || o.Pkg().Path() != "strconv" {
			return false
		}
		switch o.Name() {
		case "ParseInt", "ParseUint", "Atoi":
			return true
		}
		return false
	}
	fromStrconv := func(v ssa.Value) bool {
		src := engine.Provenance(v, engine.ProvOpts{})
		for o := range src.Calls {
			if isStrconv(o) {
				return true
			}
		}
		return false
	}
	if f := fn(c, "pkg/config/types.NewPortsRangeSliceFromString"); f != nil {
		for _, g := range append([]*ssa.Function{f}, allAnon(f)...) {
			g := g
			engine.ForEachInstr(g, func(in ssa.Instruction) {
				st, ok := in.(*ssa.Store)
				if !ok {
					return
				}
				fv, _ := engine.LoadedField(st.Addr)
				if fv == nil || fv.Pkg() == nil || !strings.HasSuffix(fv.Pkg().Path(), "/pkg/config/types") {
					return
				}
				switch fv.Name() {
				case "Single", "Start", "End":
				default:
					return
				}
				n++
				c.Check(fromStrconv(st.Val), p.FuncName(g)+">"+fv.Name(), in.Pos(), 1, nil, "PortsRange.%s is a strconv conversion of the whole piece", fv.Name())
			})
		}
	}
	if f := fn(c, "pkg/util/util.ParseRangeNumbers"); f != nil {
		k := 0
		engine.ForEachInstr(f, func(in ssa.Instruction) {
			call, ok := in.(*ssa.Call)
			if !ok {
				return
			}
			if b, ok := call.Call.Value.(*ssa.Builtin); !ok || b.Name() != "append" || len(call.Call.Args) < 2 {
				return
			}
			n++
			k++
			c.Check(fromStrconv(call.Call.Args[1]), fmt.Sprintf("pkg/util/util.ParseRangeNumbers>append#%d", k), in.Pos(), 1, nil, "appended numbers are strconv conversions of the whole piece (or counted up from them)")
		})
	}
	// prefix scanners
	for _, f := range p.RepoFuncs() {
		if f.Pkg == nil {
			continue
		}
		pp := f.Pkg.Pkg.Path()
		if !strings.HasPrefix(pp, engine.ModPath+"/pkg/config") && pp != engine.ModPath+"/pkg/util/util" {
			continue
		}
		f := f
		engine.ForEachInstr(f, func(in ssa.Instruction) {
			call, ok := in.(ssa.CallInstruction)
			if !ok {
				return
			}
			o := engine.CalleeObj(call)
			if o != nil && o.Pkg() != nil && o.Pkg().Path() == "fmt" && (strings.HasPrefix(o.Name(), "Sscan") || strings.HasPrefix(o.Name(), "Fscan")) {
				c.Violate(p.FuncName(f)+">"+o.Name(), in.Pos(), nil, "fmt.%s parses a prefix and reports a count: a literal with trailing or embedded garbage is accepted in truncated form instead of being refused", o.Name())
			}
		})
	}
	c.Floor(n, 3)
}

// checkDecodersSeeLoadedBytes (R20): the three formats mean the same because all of them are handed, unedited, to their
// library decoder (TOML re-encoded as JSON by the libraries themselves). Whatever LoadConfigure passes to
// json.NewDecoder / yaml.Unmarshal* derives from its input only through library calls — a repository function that
// rewrites the document first (comment stripping, normalisation) makes one format mean something else than the others
// in the corners the rewrite gets wrong.
func checkDecodersSeeLoadedBytes(c *engine.Ctx, rule string) {
	c.Rule(rule, "in config.LoadConfigure the document given to json.NewDecoder / yaml.Unmarshal / yaml.UnmarshalStrict reaches it from the function's input through library functions only (toml.Unmarshal → json.Marshal, bytes.NewBuffer): no function of this repository edits it on the way")
	p := c.P
	f := fn(c, "pkg/config.LoadConfigure")
	if f == nil {
		return
	}
	n := 0
	for _, g := range append([]*ssa.Function{f}, allAnon(f)...) {
		g := g
		engine.ForEachInstr(g, func(in ssa.Instruction) {
			call, ok := in.(*ssa.Call)
			if !ok {
				return
			}
			o := engine.CalleeObj(call)
			if o == nil || o.Pkg() == nil {
				return
			}
			isDec := (o.Pkg().Path() == "encoding/json" && o.Name() == "NewDecoder") || (strings.HasSuffix(o.Pkg().Path(), "/yaml") && strings.HasPrefix(o.Name(), "Unmarshal"))
			if !isDec || len(call.Call.Args) == 0 {
				return
			}
			n++
			src := engine.DeepSources(p, call.Call.Args[0])
			editor := ""
			for fo := range src.Calls {
				if fo.Pkg() != nil && engine.IsRepoPkg(fo.Pkg().Path()) {
					editor = fo.Pkg().Name() + "." + fo.Name()
				}
			}
			for fo := range src.Followed {
				if fo.Pkg() != nil && engine.IsRepoPkg(fo.Pkg().Path()) {
					editor = fo.Pkg().Name() + "." + fo.Name()
				}
			}
			c.Check(editor == "", fmt.Sprintf("pkg/config.LoadConfigure>%s#%d", o.Name(), n), in.Pos(), len(src.Values), nil,
				"the decoder receives the loaded document as the libraries produced it (it passes through %s of this repository first: the formats no longer mean the same where that rewrite errs)", editor)
		})
	}
	c.Floor(n, 2)
}
