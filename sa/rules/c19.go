package rules

import (
	"fmt"
	"go/token"
	"go/types"
	"sort"
	"strings"

	"golang.org/x/tools/go/ssa"

	"frpsa/engine"
)

func init() {
	Registry["C19"] = &Property{
		Title:       "The client keeps exactly the configured-and-healthy proxies registered",
		Run:         runC19,
		Explanation: "Decides the shape of the client's reconciliation loop: (R1) in both UpdateAll functions an existing entry is stopped and removed only when its name is absent from the new set or reflect.DeepEqual(old,new) is false, and a new entry is created only when its name is absent, all under the manager's mutex; (R2) Wrapper.Stop closes closeCh, closes the proxy, stops the monitor, sets the phase Closed and announces CloseProxy; checkWorker returns when closeCh is closed; (R3) a work connection is handed to the proxy only in phase Running and is closed otherwise; (R4) every store of a phase constant is dominated by a test restricting the current phase to that constant's legal predecessors (WaitStart ⇐ New | CheckFailed | WaitStart∧timeout | StartErr∧timeout, with health ok; Running, StartErr ⇐ WaitStart; CheckFailed ⇐ Running | WaitStart, with health failed; Closed ⇐ any); (R5) the health monitor resets its failure counter on every successful probe, increments it on every failed one, fires the failed callback only when currently ok and the counter reached maxFailed, the normal callback only when currently failed, and runs every probe under a deadline derived from its timeout; the http probe fails on non-2xx; a health-checked wrapper starts unhealthy; (R6) the retry/timeout durations are positive. Not decided: convergence over time, absence of traffic interruption, reply timing.",
		Assumptions: commonAssumptions,
	}
}

func runC19(c *engine.Ctx) {
	p := c.P
	li := engine.AnalyzeLocks(p)

	// ---- R1 reload diff ----
	c.Rule("R1", "UpdateAll (proxies and visitors): stop/remove an entry only if absent from the new set or not DeepEqual to its new configuration; create only absent names; under the manager's mutex")
	n := 0
	for _, spec := range []struct{ sym, table string }{{"client/proxy.Manager.UpdateAll", "proxies"}, {"client/visitor.Manager.UpdateAll", "cfgs"}} {
		f := fn(c, spec.sym)
		if f == nil {
			continue
		}
		recv := f.Params[0]
		isTable := func(v ssa.Value) bool {
			lf, b := engine.LoadedField(v)
			return lf != nil && lf.Name() == spec.table && engine.SameValue(b, recv)
		}
		isDeepEqual := func(v ssa.Value) bool {
			cl, _ := engine.ResultOfCall(v)
			if cl == nil {
				return false
			}
			o := engine.CalleeObj(cl)
			return o != nil && o.Pkg() != nil && o.Pkg().Path() == "reflect" && o.Name() == "DeepEqual"
		}
		engine.ForEachInstr(f, func(in ssa.Instruction) {
			call, ok := in.(ssa.CallInstruction)
			if ok {
				if b, ok := call.Common().Value.(*ssa.Builtin); ok && b.Name() == "delete" && isTable(call.Common().Args[0]) {
					n++
					held := li.HeldAt(in)
					// the names to remove may have been selected beforehand with lo.PickBy / lo.FilterKeys (a predicate
					// closure over the table): then the predicate's "true" paths are what decides a removal
					var selector *ssa.Function
					for cl := range engine.Provenance(call.Common().Args[1], engine.ProvOpts{}).CallIns {
						if o := engine.CalleeObj(cl); o != nil && o.Pkg() != nil && strings.HasSuffix(o.Pkg().Path(), "samber/lo") {
							for _, a := range cl.Call.Args {
								if sf := funcValueOf(p, a); sf != nil && isTable(cl.Call.Args[0]) {
									selector = sf
								}
							}
						}
					}
					removalDecided := func(st *engine.PathState) bool {
						present, kp := st.Truth(func(v ssa.Value) bool {
							ex, ok := v.(*ssa.Extract)
							if !ok || ex.Index != 1 {
								return false
							}
							lk, ok := ex.Tuple.(*ssa.Lookup)
							return ok && !isTable(lk.X)
						})
						if kp && !present {
							return true
						}
						eq, ke := st.Truth(isDeepEqual)
						return ke && !eq
					}
					if selector != nil {
						ok1 := len(held) > 0
						why := engine.QuietPaths(engine.PathCheck{Fn: selector, Sink: engine.IsReturn, Pred: func(st *engine.PathState) string {
							r := st.Sink.(*ssa.Return)
							if b, isC := engine.ConstBool(st.Resolve(r.Results[0])); isC && !b {
								return ""
							}
							if !removalDecided(st) {
								// the selector may return the condition itself (`return !ok || !DeepEqual(..)`)
								rv := st.Resolve(r.Results[0])
								src := engine.Provenance(rv, engine.ProvOpts{})
								hasDE := false
								for k := range src.Calls {
									if k.Pkg() != nil && k.Pkg().Path() == "reflect" && k.Name() == "DeepEqual" {
										hasDE = true
									}
								}
								if _, isC := rv.(*ssa.Const); !isC && hasDE {
									return ""
								}
								return "selected although present and not found different"
							}
							return ""
						}})
						c.Check(ok1 && why == "", spec.sym+">remove", in.Pos(), 3, []string{"selection predicate: " + p.FuncName(selector)},
							"removal only for absent or changed entries (names selected by %s; %s)", p.FuncName(selector), why)
						return
					}
					c.AllPaths(spec.sym+">remove", engine.PathCheck{Fn: f, Sink: engine.Is(in), KeepLoopFacts: true, Pred: func(st *engine.PathState) string {
						if len(held) == 0 {
							return "the table is modified without the manager's mutex"
						}
						// found in the new set?
						present, kp := st.Truth(func(v ssa.Value) bool {
							ex, ok := v.(*ssa.Extract)
							if !ok || ex.Index != 1 {
								return false
							}
							lk, ok := ex.Tuple.(*ssa.Lookup)
							return ok && !isTable(lk.X)
						})
						if kp && !present {
							return ""
						}
						eq, ke := st.Truth(isDeepEqual)
						if ke && !eq {
							return ""
						}
						return "an entry is stopped and removed on a path where it is present in the new configuration and was not found different from it: unchanged proxies are re-registered on every reload"
					}}, "removal only for absent or changed entries")
				}
			}
			if mu, ok := in.(*ssa.MapUpdate); ok && isTable(mu.Map) {
				n++
				c.AllPaths(spec.sym+">create", engine.PathCheck{Fn: f, Sink: engine.Is(in), KeepLoopFacts: true, Pred: func(st *engine.PathState) string {
					found, k := st.Truth(func(v ssa.Value) bool {
						ex, ok := v.(*ssa.Extract)
						if !ok || ex.Index != 1 {
							return false
						}
						lk, ok := ex.Tuple.(*ssa.Lookup)
						return ok && isTable(lk.X)
					})
					if !(k && !found) {
						return "an entry is (re)created although its name is still present: a running proxy is replaced without being stopped"
					}
					return ""
				}}, "creation only for absent names")
			}
		})
		// the DeepEqual compares the old entry's configuration with the new one of the same name
		for _, g := range []*ssa.Function{f} {
			engine.ForEachInstr(g, func(in ssa.Instruction) {
				call, ok := in.(*ssa.Call)
				if !ok || !isDeepEqual(call) {
					return
				}
				n++
				// one operand is (a field of) the value ranged over in the running table, the other the new set's entry
				isOld := func(v ssa.Value) bool {
					src := engine.Provenance(v, engine.ProvOpts{NoArgs: true})
					for x := range src.Values {
						if ex, ok := x.(*ssa.Extract); ok && ex.Index == 2 {
							if nx, ok := ex.Tuple.(*ssa.Next); ok {
								if r, ok := nx.Iter.(*ssa.Range); ok && isTable(r.X) {
									return true
								}
							}
						}
					}
					return false
				}
				isNew := func(v ssa.Value) bool {
					v = engine.Unwrap(v)
					if ex, ok := v.(*ssa.Extract); ok && ex.Index == 0 {
						if lk, ok := ex.Tuple.(*ssa.Lookup); ok && !isTable(lk.X) {
							return true
						}
					}
					return false
				}
				a0, a1 := call.Call.Args[0], call.Call.Args[1]
				okCmp := (isOld(a0) && isNew(a1)) || (isOld(a1) && isNew(a0))
				c.Check(okCmp, spec.sym+">compare", in.Pos(), 2, nil, "DeepEqual compares the running entry with the new configuration")
			})
		}
	}
	c.Floor(n, 3)

	// ---- R2 stop ----
	c.Rule("R2", "Wrapper.Stop: closeCh closed, proxy closed, monitor stopped when present, phase Closed, CloseProxy announced; checkWorker returns on closeCh")
	if f := fn(c, "client/proxy.Wrapper.Stop"); f != nil {
		closeChF := field(c, "client/proxy", "Wrapper", "closeCh")
		phaseF := field(c, "client/proxy", "WorkingStatus", "Phase")
		monF := field(c, "client/proxy", "Wrapper", "monitor")
		closeM := method(c, "client/proxy", "Wrapper", "close")
		pxyClose := method(c, "client/proxy", "Proxy", "Close")
		monStop := method(c, "client/health", "Monitor", "Stop")
		c.AllPaths("client/proxy.Wrapper.Stop", engine.PathCheck{Fn: f, Sink: engine.IsReturn,
			Event: func(in ssa.Instruction) string {
				if call, ok := in.(ssa.CallInstruction); ok {
					if _, isDefer := in.(*ssa.Defer); isDefer {
						return ""
					}
					if b, ok := call.Common().Value.(*ssa.Builtin); ok && b.Name() == "close" {
						if lf, _ := engine.LoadedField(call.Common().Args[0]); lf == closeChF {
							return "close-ch"
						}
					}
					switch {
					case engine.IsCallTo(in, closeM):
						return "announce"
					case engine.IsCallTo(in, pxyClose):
						return "proxy-close"
					case engine.IsCallTo(in, monStop):
						return "monitor-stop"
					}
				}
				if s, ok := phaseStoreOf(in, phaseF, phaseSetters(p, phaseF)); ok && s == "closed" {
					return "phase-closed"
				}
				return ""
			},
			Pred: func(st *engine.PathState) string {
				for _, need := range []string{"close-ch", "proxy-close", "phase-closed", "announce"} {
					if !st.HasEvent(need) {
						return "Stop returns without " + need
					}
				}
				if isNil, k := st.IsNil(loadOfField(monF)); k && !isNil && !st.HasEvent("monitor-stop") {
					return "Stop leaves the health monitor running"
				}
				return ""
			}}, "Stop is complete")
		if cw := fn(c, "client/proxy.Wrapper.checkWorker"); cw != nil {
			okRet := false
			engine.ForEachInstr(cw, func(in ssa.Instruction) {
				if sel, ok := in.(*ssa.Select); ok {
					for _, s := range sel.States {
						if lf, _ := engine.LoadedField(s.Chan); lf == closeChF && s.Dir == types.RecvOnly {
							okRet = true
						}
					}
				}
			})
			c.Check(okRet, "client/proxy.Wrapper.checkWorker>stops", cw.Pos(), 1, nil, "the status loop waits on closeCh (and so ends when the wrapper is stopped)")
		}
		c.Floor(2, 2)
	}

	// ---- R3 ----
	checkInWorkConnDispatch(c, "R3")

	// ---- R4 phase transitions ----
	c.Rule("R4", "every store of a phase constant to WorkingStatus.Phase happens on paths that restrict the current phase to the legal predecessors of that constant")
	checkPhaseStores(c)

	// ---- R5 health ----
	c.Rule("R5", "health monitor: success resets the failure counter, failure increments it; failed callback only when ok and counter >= maxFailed; normal callback only when failed; every probe under a deadline; http probe fails on non-2xx; health-checked wrappers start unhealthy")
	checkHealthMonitor(c)

	// ---- R6 ----
	c.Rule("R6", "retry and timeout durations of the status loop are positive constants")
	n = 0
	gc := p.GlobalConstants(engine.ModPath + "/client/proxy")
	for g, k := range gc {
		switch g.Name() {
		case "statusCheckInterval", "waitResponseTimeout", "startErrTimeout":
			n++
			v, ok := engine.ConstInt(k)
			c.Check(ok && v > 0, "client/proxy."+g.Name(), g.Pos(), 1, nil, "%s is a positive duration (%d ns)", g.Name(), v)
		}
	}
	c.Floor(n, 3)

	// ---- R7 ----
	checkConfigReadPerAttempt(c, "R7")
	// ---- R9 ----
	checkLocalStartFailure(c, "R9")
	checkConfigNotWritten(c, "R10")
	checkWorkerEndsOnOwnCtx(c, "R11")
	// ---- R12 a close sent right behind a registration closes it (shared with C16.R28) ----
	checkSyncStateHandlers(c, "R12")
	checkRefusedReloadKeepsConfig(c, "R13")

	// ---- R8 ----
	checkEventsUnderLock(c, li, "R8")
}

// checkConfigReadPerAttempt (C19.R7; the same obligation is part of C14.R5): the proxy and visitor configurations a new
// control is started with are loaded from the service inside the login attempt that starts it, so a reload that
// happened while the client was retrying is what gets registered.
func checkConfigReadPerAttempt(c *engine.Ctx, rule string) {
	c.Rule(rule, "the client's login attempt reads Service.proxyCfgs / visitorCfgs itself (in the function that calls Control.Run), never a snapshot taken before the retry loop")
	n := 0
	if lf := clientLoginLoop(c); lf != nil {
		ctlRun := method(c, "client", "Control", "Run")
		pcF := field(c, "client", "Service", "proxyCfgs")
		vcF := field(c, "client", "Service", "visitorCfgs")
		if ctlRun != nil && pcF != nil && vcF != nil {
			for _, call := range engine.CallsToDeep(lf, ctlRun) {
				n++
				args := engine.CallArgs(call)
				stale := ""
				seen := 0
				for i, fv := range []*types.Var{pcF, vcF} {
					src := engine.Provenance(args[i+1], engine.ProvOpts{})
					for v := range src.Values {
						if lf, _ := engine.LoadedField(v); lf == fv {
							seen++
							if in, ok := v.(ssa.Instruction); ok && in.Parent() != call.Parent() {
								stale = fv.Name() + " is read in " + c.P.FuncName(in.Parent()) + ", outside the login attempt that uses it"
							}
						}
					}
				}
				c.Check(stale == "" && seen >= 2, c.P.FuncName(lf)+">config-read-per-attempt", call.Pos(), seen, nil,
					"the configuration handed to the new control is read when the login succeeds %s", stale)
			}
		}
	}
	c.Floor(n, 1)
}

func checkPhaseStores(c *engine.Ctx) {
	p := c.P
	phaseF := field(c, "client/proxy", "WorkingStatus", "Phase")
	healthF := field(c, "client/proxy", "Wrapper", "health")
	if phaseF == nil || healthF == nil {
		return
	}
	phaseIs := func(st *engine.PathState, s string) (bool, bool) {
		return st.Equal(loadOfField(phaseF), func(v ssa.Value) bool { k, ok := engine.ConstString(v); return ok && k == s })
	}
	healthOK := func(st *engine.PathState) (bool, bool) {
		for _, l := range st.Lits {
			if l.Op != token.EQL {
				continue
			}
			cl, _ := engine.ResultOfCall(l.X)
			if cl == nil {
				continue
			}
			o := engine.CalleeObj(cl)
			if o == nil || o.Pkg() == nil || o.Pkg().Path() != "sync/atomic" || !strings.HasPrefix(o.Name(), "Load") {
				continue
			}
			if lf, _ := engine.LoadedField(cl.Call.Args[0]); lf != healthF {
				continue
			}
			if z, ok := engine.ConstInt(l.Y); ok && z == 0 {
				return l.Val, true
			}
		}
		return false, false
	}
	// afterTimeout: the path carries "now is later than <stamp> + d" in one of its spellings, with the right
	// orientation: now.After(stamp.Add(d)), stamp.Add(d).Before(now), now.Sub(stamp) > d, time.Since(stamp) > d
	afterTimeout := func(st *engine.PathState, stamp string) bool {
		hasStamp := func(v ssa.Value) bool {
			src := engine.Provenance(v, engine.ProvOpts{})
			for fv := range src.Fields {
				if fv.Name() == stamp {
					return true
				}
			}
			return false
		}
		for _, l := range st.Lits {
			if l.Op != token.ILLEGAL || !l.Val {
				continue
			}
			cl, _ := engine.ResultOfCall(l.X)
			if cl == nil {
				continue
			}
			o := engine.CalleeObj(cl)
			if o == nil || o.Pkg() == nil || o.Pkg().Path() != "time" {
				continue
			}
			args := engine.CallArgs(cl)
			if len(args) != 2 {
				continue
			}
			switch o.Name() {
			case "After":
				if !hasStamp(args[0]) && hasStamp(args[1]) {
					return true
				}
			case "Before":
				if hasStamp(args[0]) && !hasStamp(args[1]) {
					return true
				}
			}
		}
		return st.Ordered(func(x ssa.Value, op token.Token, y ssa.Value) bool {
			if op != token.GTR && op != token.GEQ {
				return false
			}
			cl, _ := engine.ResultOfCall(x)
			if cl == nil {
				return false
			}
			o := engine.CalleeObj(cl)
			if o == nil || o.Pkg() == nil || o.Pkg().Path() != "time" {
				return false
			}
			args := engine.CallArgs(cl)
			switch o.Name() {
			case "Sub":
				return len(args) == 2 && !hasStamp(args[0]) && hasStamp(args[1]) && !hasStamp(y)
			case "Since":
				return len(args) == 1 && hasStamp(args[0]) && !hasStamp(y)
			}
			return false
		})
	}
	n := 0
	setters := phaseSetters(p, phaseF)
	for _, f := range p.RepoFuncs() {
		engine.ForEachInstr(f, func(in ssa.Instruction) {
			if st, ok := in.(*ssa.Store); ok {
				if lf, b := engine.LoadedField(st.Addr); lf == phaseF {
					if _, isAl := b.(*ssa.Alloc); isAl {
						return // constructor / status snapshot
					}
				}
			}
			target, isC := phaseStoreOf(in, phaseF, setters)
			if !isC {
				return
			}
			n++
			key := fmt.Sprintf("%s>phase:=%s#%d", p.FuncName(f), strings.ReplaceAll(target, " ", "-"), n)
			c.AllPaths(key, engine.PathCheck{Fn: f, Sink: engine.Is(in), KeepLoopFacts: true, Pred: func(ps *engine.PathState) string {
				is := func(s string) bool {
					v, k := phaseIs(ps, s)
					if !k {
						// the store moved into a helper: the phase test stayed in (every) caller
						v, k = engine.CallerAgree(p, f, true, func(cs *engine.PathState) (bool, bool) { return phaseIs(cs, s) })
					}
					return k && v
				}
				switch target {
				case "closed", "new":
					return ""
				case "running", "start error":
					if !is("wait start") {
						return "phase becomes '" + target + "' on a path where the current phase was not found to be 'wait start': a late or duplicate server reply moves a withdrawn or stopped proxy"
					}
				case "wait start":
					h, k := healthOK(ps)
					if !k {
						h, k = engine.CallerAgree(p, f, true, healthOK) // the guard stayed in the caller of an extracted helper
					}
					if !(k && h) {
						return "a registration is (re)sent on a path where the health flag was not found ok"
					}
					if is("new") || is("check failed") || (is("wait start") && afterTimeout(ps, "lastSendStartMsg")) || (is("start error") && afterTimeout(ps, "lastStartErr")) {
						return ""
					}
					return "phase becomes 'wait start' from a phase that is not new / check failed / timed-out wait start / timed-out start error"
				case "check failed":
					h, k := healthOK(ps)
					if !k {
						h, k = engine.CallerAgree(p, f, true, healthOK)
					}
					if !(k && !h) {
						return "the proxy is withdrawn on a path where the health flag was not found failed"
					}
					if !(is("running") || is("wait start")) {
						return "phase becomes 'check failed' from a phase other than running / wait start"
					}
				default:
					return "unknown phase constant " + target
				}
				return ""
			}}, "transition into '%s' only from its legal predecessors", target)
		})
	}
	c.Floor(n, 5)
}

func checkHealthMonitor(c *engine.Ctx) {
	p := c.P
	f := fn(c, "client/health.Monitor.checkWorker")
	if f == nil {
		return
	}
	failedF := field(c, "client/health", "Monitor", "failedTimes")
	okF := field(c, "client/health", "Monitor", "statusOK")
	maxF := field(c, "client/health", "Monitor", "maxFailedTimes")
	normalF := field(c, "client/health", "Monitor", "statusNormalFn")
	failF := field(c, "client/health", "Monitor", "statusFailedFn")
	toF := field(c, "client/health", "Monitor", "timeout")
	if failedF == nil || okF == nil || maxF == nil || normalF == nil || failF == nil || toF == nil {
		return
	}
	n := 0
	// one iteration = from the creation of the probe's deadline context to the next one; the probe result is the error
	// returned by whichever call received that context (doCheck on the confirmed tree, or the tcp/http probes when the
	// dispatcher is inlined), or a sentinel error for an unknown probe type
	var dls []*ssa.Call
	engine.ForEachInstr(f, func(in ssa.Instruction) {
		if call, ok := in.(*ssa.Call); ok {
			if o := engine.CalleeObj(call); o != nil && o.Pkg() != nil && o.Pkg().Path() == "context" && (o.Name() == "WithDeadline" || o.Name() == "WithTimeout") {
				dls = append(dls, call)
			}
		}
	})
	if len(dls) == 0 {
		c.Violate("client/health.Monitor.checkWorker>deadline", f.Pos(), nil, "probes do not run under a context deadline")
	}
	for _, call := range dls {
		call := call
		usesCtx := func(v ssa.Value) bool {
			pc, _ := engine.ResultOfCall(v)
			if pc == nil || pc == call {
				return false
			}
			for _, a := range pc.Call.Args {
				if cc, i := engine.ResultOfCall(engine.Unwrap(a)); cc == call && i == 0 {
					return true
				}
			}
			return false
		}
		isProbe := func(v ssa.Value) bool { return usesCtx(v) || engine.IsSentinelError(v) }
		n++
		c.AllPaths("client/health.Monitor.checkWorker>counter", engine.PathCheck{Fn: f, From: call, KeepLoopFacts: true,
			Sink: func(in ssa.Instruction) bool { return in == ssa.Instruction(call) },
			Event: func(in ssa.Instruction) string {
				if st, ok := in.(*ssa.Store); ok {
					if lf, _ := engine.LoadedField(st.Addr); lf == failedF {
						if z, ok := engine.ConstInt(st.Val); ok && z == 0 {
							return "reset"
						}
						if bo, ok := st.Val.(*ssa.BinOp); ok && bo.Op == token.ADD {
							return "inc"
						}
						return "other"
					}
				}
				if cl, ok := in.(ssa.CallInstruction); ok {
					if lf, _ := engine.LoadedField(cl.Common().Value); lf == normalF {
						return "normal-cb"
					} else if lf == failF {
						return "failed-cb"
					}
				}
				return ""
			},
			Pred: func(st *engine.PathState) string {
				isNil, known := st.IsNil(isProbe)
				if !known {
					return "the probe result is not examined before the next probe"
				}
				okv, kok := st.Truth(loadOfField(okF))
				if isNil {
					if !st.HasEvent("reset") || st.HasEvent("inc") {
						return "a successful probe does not restart the failure count: non-consecutive failures add up to a withdrawal"
					}
					if st.HasEvent("failed-cb") {
						return "the failed callback fires after a successful probe"
					}
					if st.HasEvent("normal-cb") && !(kok && !okv) {
						return "the normal callback fires although the status was not 'failed'"
					}
					return ""
				}
				if !st.HasEvent("inc") || st.HasEvent("reset") {
					return "a failed probe does not count"
				}
				if st.HasEvent("normal-cb") {
					return "the normal callback fires after a failed probe"
				}
				if st.HasEvent("failed-cb") {
					if !(kok && okv) {
						return "the failed callback fires although the status was already failed"
					}
					reached := false
					for _, l := range st.Lits {
						x, y, op := l.X, l.Y, l.Op
						sx := engine.Provenance(x, engine.ProvOpts{})
						sy := engine.Provenance(y, engine.ProvOpts{})
						if sx.HasField(maxF) && sy.HasField(failedF) {
							sx, sy = sy, sx
							op = flipOrd(op)
						}
						if !(sx.HasField(failedF) && sy.HasField(maxF)) {
							continue
						}
						if !l.Val {
							op = negOrd(op)
						}
						if op == token.GEQ {
							reached = true
						}
					}
					if !reached {
						return "the failed callback fires without the counter having reached maxFailedTimes (withdrawn after fewer failures than configured)"
					}
				}
				return ""
			}}, "counter reset on success, incremented on failure, callbacks gated")
		// deadline
		n++
		src := engine.Provenance(call.Call.Args[1], engine.ProvOpts{})
		probes := 0
		engine.ForEachInstr(f, func(in ssa.Instruction) {
			if v, ok := in.(ssa.Value); ok && usesCtx(v) {
				probes++
			}
		})
		c.Check(probes > 0 && src.HasField(toF), "client/health.Monitor.checkWorker>deadline", call.Pos(), 2, []string{src.Summary()}, "each probe runs under a context deadline derived from the configured timeout")
	}
	if hf := fn(c, "client/health.Monitor.doHTTPCheck"); hf != nil {
		n++
		c.AllPaths("client/health.Monitor.doHTTPCheck", engine.PathCheck{Fn: hf, Sink: engine.IsReturn, Pred: func(st *engine.PathState) string {
			r := st.Sink.(*ssa.Return)
			v := st.Resolve(r.Results[0])
			if !engine.IsNilConst(v) {
				return ""
			}
			for _, l := range st.Lits {
				if l.Op != token.EQL {
					continue
				}
				bo, ok := l.X.(*ssa.BinOp)
				if !ok || bo.Op != token.QUO {
					continue
				}
				lf, _ := engine.LoadedField(bo.X)
				d, _ := engine.ConstInt(bo.Y)
				z, _ := engine.ConstInt(l.Y)
				if lf != nil && lf.Name() == "StatusCode" && d == 100 && z == 2 && l.Val {
					return ""
				}
			}
			return "the http probe reports success without having found the status code in the 2xx class"
		}}, "non-2xx ⇒ failed probe")
	}
	if nw := fn(c, "client/proxy.NewWrapper"); nw != nil {
		healthF := field(c, "client/proxy", "Wrapper", "health")
		monF := field(c, "client/proxy", "Wrapper", "monitor")
		n++
		c.AllPaths("client/proxy.NewWrapper>starts-unhealthy", engine.PathCheck{Fn: nw, Sink: engine.IsReturn,
			Event: func(in ssa.Instruction) string {
				if st, ok := in.(*ssa.Store); ok {
					lf, _ := engine.LoadedField(st.Addr)
					if lf == healthF {
						if z, ok := engine.ConstInt(st.Val); ok && z != 0 {
							return "unhealthy"
						}
					}
					if lf == monF {
						return "monitor"
					}
				}
				// the flag kept in a typed atomic: pw.health.Store(1) / atomic.StoreUint32(&pw.health, 1)
				if call, ok := in.(*ssa.Call); ok {
					if o := engine.CalleeObj(call); o != nil && o.Pkg() != nil && o.Pkg().Path() == "sync/atomic" && strings.HasPrefix(o.Name(), "Store") {
						if a := engine.CallArgs(call); len(a) == 2 {
							if lf, _ := engine.LoadedField(a[0]); lf == healthF {
								if z, ok := engine.ConstInt(a[1]); ok && z != 0 {
									return "unhealthy"
								}
							}
						}
					}
				}
				return ""
			},
			Pred: func(st *engine.PathState) string {
				if st.HasEvent("monitor") && !st.HasEvent("unhealthy") {
					return "a health-checked proxy starts with the health flag ok: it is registered before its first successful probe"
				}
				return ""
			}}, "health-checked wrappers start unhealthy")
	}
	var names []string
	_ = sort.Strings
	_ = names
	_ = p
	c.Floor(n, 4)
}

// checkConfigNotWritten (R10): the reload diff compares the configuration a running proxy / visitor was started from
// (Wrapper.Cfg, Manager.cfgs) with the freshly loaded one by reflect.DeepEqual. That comparison means "the file did
// not change" only while nobody writes into the stored configuration. The run-time packages of the client receive it
// by pointer (GetBaseConfig returns a pointer into it): they may fill defaults into private copies only.
func checkConfigNotWritten(c *engine.Ctx, rule string) {
	c.Rule(rule, "client/proxy, client/health and client/visitor never store into a field of a pkg/config/v1 structure reached through a pointer they were given (a parameter, a field, a call result): defaults are filled into by-value copies only, so the stored configuration stays DeepEqual to an unchanged file")
	p := c.P
	n, seen := 0, 0
	inV1 := func(t types.Type) bool {
		nn := engine.NamedOf(t)
		return nn != nil && nn.Obj().Pkg() != nil && nn.Obj().Pkg().Path() == engine.ModPath+"/pkg/config/v1"
	}
	for _, f := range p.RepoFuncs() {
		if f.Pkg == nil {
			continue
		}
		pp := f.Pkg.Pkg.Path()
		if pp != engine.ModPath+"/client/proxy" && pp != engine.ModPath+"/client/health" && pp != engine.ModPath+"/client/visitor" {
			continue
		}
		f := f
		engine.ForEachInstr(f, func(in ssa.Instruction) {
			st, ok := in.(*ssa.Store)
			if !ok {
				return
			}
			fa, ok := st.Addr.(*ssa.FieldAddr)
			if !ok || !inV1(fa.X.Type()) {
				return
			}
			seen++
			// walk to the base of the selector chain
			base := fa.X
			for {
				if inner, ok := base.(*ssa.FieldAddr); ok {
					base = inner.X
					continue
				}
				break
			}
			if _, local := base.(*ssa.Alloc); local {
				n++
				c.Hold(fmt.Sprintf("%s>config-write#%d", p.FuncName(f), seen), in.Pos(), 1, nil, "default filled into a private copy")
				return
			}
			n++
			c.Violate(fmt.Sprintf("%s>config-write#%d", p.FuncName(f), seen), in.Pos(), []string{"written through: " + engine.Describe(base)},
				"field %s of the shared configuration is overwritten at run time: the stored configuration no longer equals the file it was loaded from, so the next reload of the unchanged file restarts this entry", engine.Deref(fa.X.Type()).Underlying().(*types.Struct).Field(fa.Field).Name())
		})
	}
	c.Floor(n, 2)
}

// checkWorkerEndsOnOwnCtx (R11): the probe loop ends only when the monitor itself was stopped. Every probe runs under a
// context derived from the monitor's with the probe's deadline: that derived context is also done when the probe merely
// exceeded its timeout — which must count as a failed probe, not end health checking for good.
func checkWorkerEndsOnOwnCtx(c *engine.Ctx, rule string) {
	c.Rule(rule, "Monitor.checkWorker returns only on paths that found the monitor's own context (field ctx) done — a receive from ctx.Done() or ctx.Err() != nil on that very field, not on the per-probe context derived from it")
	f := fn(c, "client/health.Monitor.checkWorker")
	ctxF := field(c, "client/health", "Monitor", "ctx")
	if f == nil || ctxF == nil {
		return
	}
	onOwnCtx := func(recv ssa.Value) bool {
		lf, _ := engine.LoadedField(engine.Unwrap(recv))
		return lf == ctxF
	}
	var ownTest func(v ssa.Value, d int) bool
	ownTest = func(v ssa.Value, d int) bool {
		if v == nil || d > 4 {
			return false
		}
		switch x := v.(type) {
		case *ssa.Extract:
			if sel, ok := x.Tuple.(*ssa.Select); ok {
				for _, s := range sel.States {
					if ownTest(s.Chan, d+1) {
						return true
					}
				}
			}
			return ownTest(x.Tuple, d+1)
		case *ssa.UnOp:
			if x.Op == token.ARROW {
				return ownTest(x.X, d+1)
			}
		case *ssa.Call:
			if x.Call.IsInvoke() && (x.Call.Method.Name() == "Done" || x.Call.Method.Name() == "Err") {
				return onOwnCtx(x.Call.Value)
			}
		case *ssa.ChangeType:
			return ownTest(x.X, d+1)
		}
		return false
	}
	n := 0
	engine.ForEachInstr(f, func(in ssa.Instruction) {
		if _, ok := in.(*ssa.Return); ok {
			n++
		}
	})
	c.AllPaths("client/health.Monitor.checkWorker>ends-when-stopped", engine.PathCheck{Fn: f, Sink: engine.IsReturn, KeepLoopFacts: true, Pred: func(st *engine.PathState) string {
		for _, l := range st.Lits {
			if ownTest(l.X, 0) || ownTest(l.Y, 0) {
				return ""
			}
		}
		return "the probe loop ends on a path that did not test the monitor's own context: a probe that merely ran into its deadline ends health checking for this proxy"
	}}, "worker ends ⇒ monitor stopped")
	c.Floor(n, 1)
}

// phaseSetters: the functions that store one of their parameters into Wrapper.Phase (a `setPhase(next)` helper): a call
// to one of them with a constant argument is a store of that phase constant at the call site.
func phaseSetters(p *engine.Prog, phaseF *types.Var) map[*ssa.Function]int {
	out := map[*ssa.Function]int{}
	for _, f := range p.RepoFuncs() {
		f := f
		engine.ForEachInstr(f, func(in ssa.Instruction) {
			st, ok := in.(*ssa.Store)
			if !ok {
				return
			}
			if lf, _ := engine.LoadedField(st.Addr); lf != phaseF {
				return
			}
			if pr, ok := engine.Unwrap(st.Val).(*ssa.Parameter); ok {
				for i, q := range f.Params {
					if q == pr {
						out[f] = i
					}
				}
			}
		})
	}
	return out
}

// phaseStoreOf: the phase constant this instruction writes into Wrapper.Phase — directly or through a setter.
func phaseStoreOf(in ssa.Instruction, phaseF *types.Var, setters map[*ssa.Function]int) (string, bool) {
	if st, ok := in.(*ssa.Store); ok {
		if lf, _ := engine.LoadedField(st.Addr); lf == phaseF {
			return engine.ConstString(st.Val)
		}
		return "", false
	}
	if call, ok := in.(*ssa.Call); ok {
		if cf := engine.CalleeFn(call); cf != nil {
			if i, ok := setters[cf]; ok && i < len(call.Call.Args) {
				return engine.ConstString(call.Call.Args[i])
			}
		}
	}
	return "", false
}

// checkInWorkConnDispatch (C19.R3, shared with C01.R17): a work connection the client wrapper does not dispatch is closed
// (the server has already joined it to a user connection, which would hang otherwise).
func checkInWorkConnDispatch(c *engine.Ctx, rule string) {
	c.Rule(rule, "Wrapper.InWorkConn hands the connection to the proxy only in phase Running; otherwise it is closed")
	if f := fn(c, "client/proxy.Wrapper.InWorkConn"); f != nil {
		phaseF := field(c, "client/proxy", "WorkingStatus", "Phase")
		inWC := method(c, "client/proxy", "Proxy", "InWorkConn")
		n := 0
		engine.ForEachInstr(f, func(in ssa.Instruction) {
			if !engine.IsCallTo(in, inWC) {
				return
			}
			n++
			c.AllPaths("client/proxy.Wrapper.InWorkConn>dispatch", engine.PathCheck{Fn: f, Sink: engine.Is(in), Pred: func(st *engine.PathState) string {
				eq, k := st.Equal(loadOfField(phaseF), func(v ssa.Value) bool { s, ok := engine.ConstString(v); return ok && s == "running" })
				if !(k && eq) {
					return "a work connection is accepted on a path where the phase was not found to be Running (a stopped or withdrawn proxy keeps serving)"
				}
				return ""
			}}, "dispatch only while running")
		})
		n++
		c.AllPaths("client/proxy.Wrapper.InWorkConn>else-closed", engine.PathCheck{Fn: f, Sink: engine.IsReturn,
			Event: func(in ssa.Instruction) string {
				if engine.IsCallTo(in, inWC) {
					return "dispatch"
				}
				return closeOfParam("workConn")(in)
			},
			Pred: func(st *engine.PathState) string {
				if !st.HasEvent("dispatch") && !st.HasEvent("close") {
					return "a work connection that is not dispatched is left open"
				}
				return ""
			}}, "not dispatched ⇒ closed")
		c.Floor(n, 2)
	}
}

// checkEventsUnderLock (C19.R8, shared as C18.R19): the registration message the server reconstructs the proxy from is
// built and queued in the critical section that decided to send it.
func checkEventsUnderLock(c *engine.Ctx, li *engine.LockInfo, rule string) {
	p := c.P
	n := 0
	c.Rule(rule, "every event the proxy wrapper sends to the control (start-proxy, close-proxy) is sent while Wrapper.mu is held: the phase decision and the message it causes cannot be separated by a concurrent Stop, so a stopped proxy sends no further registration")
	if hF := field(c, "client/proxy", "Wrapper", "handler"); hF != nil {
		muF := field(c, "client/proxy", "Wrapper", "mu")
		for _, f := range p.RepoFuncs() {
			engine.ForEachInstr(f, func(in ssa.Instruction) {
				call, ok := in.(ssa.CallInstruction)
				if !ok || call.Common().IsInvoke() {
					return
				}
				if lf, _ := engine.LoadedField(call.Common().Value); lf != hF {
					return
				}
				n++
				held := li.HeldAt(in)
				c.Check(muF != nil && held[muF] > 0, fmt.Sprintf("%s>event-under-lock#%d", p.FuncName(f), n), in.Pos(), 1, []string{"held: " + strings.Join(held.Names(), ",")},
					"the event is sent with Wrapper.mu held")
			})
		}
	}
	c.Floor(n, 2)
}

// checkRefusedReloadKeepsConfig (R13): the configuration the client registers after its next (re-)login is the one stored
// in Service.proxyCfgs / visitorCfgs. A reload that UpdateAllConfigurer refuses with an error of its own making must not
// have stored the refused set: otherwise the running proxies stay as they are, and the refused set comes into force
// at the next reconnect.
func checkRefusedReloadKeepsConfig(c *engine.Ctx, rule string) {
	c.Rule(rule, "Service.UpdateAllConfigurer: on every path to a return whose error is known to be non-nil (an error built or selected in the function), Service.proxyCfgs / visitorCfgs have not been written")
	f := fn(c, "client.Service.UpdateAllConfigurer")
	pcF := field(c, "client", "Service", "proxyCfgs")
	vcF := field(c, "client", "Service", "visitorCfgs")
	if f == nil || pcF == nil || vcF == nil {
		return
	}
	stores := 0
	engine.ForEachInstr(f, func(in ssa.Instruction) {
		if st, ok := in.(*ssa.Store); ok {
			if lf, _ := engine.LoadedField(st.Addr); lf == pcF || lf == vcF {
				stores++
			}
		}
	})
	c.AllPaths("client.Service.UpdateAllConfigurer>refusal-keeps-config", engine.PathCheck{Fn: f, Sink: engine.IsReturn,
		Event: func(in ssa.Instruction) string {
			if st, ok := in.(*ssa.Store); ok {
				if lf, _ := engine.LoadedField(st.Addr); lf == pcF || lf == vcF {
					return "stored"
				}
			}
			return ""
		},
		Pred: func(st *engine.PathState) string {
			r := st.Sink.(*ssa.Return)
			if len(r.Results) == 0 || !st.HasEvent("stored") {
				return ""
			}
			ev := st.Resolve(r.Results[len(r.Results)-1])
			if engine.IsNilConst(ev) {
				return ""
			}
			if isNil, known := st.NilFact(ev); known && !isNil {
				return "the reload is refused (an error is returned) after the new set was stored in the service: it takes effect at the next reconnect although it was rejected"
			}
			return ""
		}}, "refused ⇒ nothing stored")
	c.Floor(stores, 1)
}
