package rules

import (
	"fmt"
	"go/ast"
	"go/token"
	"go/types"
	"sort"
	"strings"

	"golang.org/x/tools/go/ssa"

	"frpsa/engine"
)

func init() {
	Registry["C20"] = &Property{
		Title:       "NAT hole punching: authenticated, complementary instructions, bounded state",
		Run:         runC20,
		Explanation: "Decides the table- and shape-level conditions of the NAT-hole controller: (R1) each of the 28 entries of the five behaviour tables has exactly one sender and one receiver, component A is the sender in every entry of the tables of modes 1, 2 and 4 (the precondition of the swap rules), getBehaviorByMode maps constant k to table k, and the shared tables are never written or handed out by pointer; (R2) GetRecommandBehaviors swaps the two roles exactly when the mode's rule says so (mode 1: client is EasyNAT; mode 2: client is HardNAT; mode 4: client has no regular port change; never in modes 0 and 3), independent of scores; (R3) the two responses carry the same session id and mode, each party gets the other party's candidate and assisted addresses and its own role; (R4) candidate port ranges are clamped with max(...,1) / min(...,65535) and ClassifyNATFeature rejects ports outside 1..65535 before any range is computed from those addresses; (R5) a session is inserted only after the signature and allow-list checks and every exit after the insert removes it (deferred delete or scheduled removal); HandleClient/HandleReport ignore unknown session ids; (R6) after admission responses are sent only through the session's two transporters, and an analysis error is answered to both. Not decided: that two honest peers do find each other, timing of the exchange, score dynamics.",
		Assumptions: commonAssumptions,
	}
}

func runC20(c *engine.Ctx) {
	p := c.P
	pk := p.Pkg("pkg/nathole")
	if pk == nil {
		c.Missing("pkg/nathole", "package not found")
		return
	}
	sp := p.SSAPkgs[pk.PkgPath]
	gconsts := p.GlobalConstants(pk.PkgPath)
	gByName := map[string]string{}
	for g, k := range gconsts {
		if k.Value != nil {
			gByName[g.Name()] = strings.Trim(k.Value.ExactString(), "\"")
		}
	}
	// constOf: the constant an SSA value denotes (a literal, or a load of an effectively constant package variable)
	constOf := func(v ssa.Value) (string, bool) {
		switch x := v.(type) {
		case *ssa.Const:
			if x.Value != nil {
				return strings.Trim(x.Value.ExactString(), "\""), true
			}
		case *ssa.UnOp:
			if g, ok := x.X.(*ssa.Global); ok {
				if k, ok := gconsts[g]; ok && k.Value != nil {
					return strings.Trim(k.Value.ExactString(), "\""), true
				}
			}
		}
		return "", false
	}

	// ---- R1 tables ----
	c.Rule("R1", "behaviour tables: every tuple has exactly one sender and one receiver; in the tables of modes 1, 2 and 4 component A is always the sender; getBehaviorByMode(k) returns table k; the shared tables are never mutated nor exposed by pointer")
	entries := 0
	tableRoles := map[string][][2]string{}
	for _, file := range pk.Syntax {
		ast.Inspect(file, func(nd ast.Node) bool {
			vs, ok := nd.(*ast.ValueSpec)
			if !ok {
				return true
			}
			for i, nm := range vs.Names {
				if !strings.HasPrefix(nm.Name, "mode") || !strings.HasSuffix(nm.Name, "Behaviors") || i >= len(vs.Values) {
					continue
				}
				cl, ok := vs.Values[i].(*ast.CompositeLit)
				if !ok {
					continue
				}
				for _, el := range cl.Elts {
					call, ok := el.(*ast.CallExpr)
					if !ok || len(call.Args) != 2 {
						c.Undecide("pkg/nathole."+nm.Name, el.Pos(), "table entry is not a two-argument tuple constructor")
						continue
					}
					var roles [2]string
					for j, a := range call.Args {
						if lit, ok := a.(*ast.CompositeLit); ok {
							for _, kv := range lit.Elts {
								if kve, ok := kv.(*ast.KeyValueExpr); ok {
									if id, ok := kve.Key.(*ast.Ident); ok && id.Name == "Role" {
										if tv, ok := pk.TypesInfo.Types[kve.Value]; ok && tv.Value != nil {
											roles[j] = strings.Trim(tv.Value.ExactString(), "\"")
										} else if vid, ok := kve.Value.(*ast.Ident); ok {
											roles[j] = gByName[vid.Name]
										}
									}
								}
							}
						}
					}
					tableRoles[nm.Name] = append(tableRoles[nm.Name], roles)
					entries++
				}
			}
			return true
		})
	}
	sender, receiver := gByName["DetectRoleSender"], gByName["DetectRoleReceiver"]
	if k, ok := pk.Types.Scope().Lookup("DetectRoleSender").(*types.Const); ok {
		sender = strings.Trim(k.Val().ExactString(), "\"")
	}
	if k, ok := pk.Types.Scope().Lookup("DetectRoleReceiver").(*types.Const); ok {
		receiver = strings.Trim(k.Val().ExactString(), "\"")
	}
	var tnames []string
	for k := range tableRoles {
		tnames = append(tnames, k)
	}
	sort.Strings(tnames)
	for _, tn := range tnames {
		var bad []string
		for i, r := range tableRoles[tn] {
			okPair := (r[0] == sender && r[1] == receiver) || (r[0] == receiver && r[1] == sender)
			if !okPair || sender == "" {
				bad = append(bad, fmt.Sprintf("entry %d has roles (%s,%s)", i, r[0], r[1]))
			}
			if (tn == "mode1Behaviors" || tn == "mode2Behaviors" || tn == "mode4Behaviors") && r[0] != sender {
				bad = append(bad, fmt.Sprintf("entry %d: component A must be the sender (the swap rule assumes it)", i))
			}
		}
		pos := token.NoPos
		if o := pk.Types.Scope().Lookup(tn); o != nil {
			pos = o.Pos()
		}
		c.Check(len(bad) == 0, "pkg/nathole."+tn, pos, len(tableRoles[tn]), nil, "%d entries, complementary roles (%s)", len(tableRoles[tn]), strings.Join(bad, "; "))
	}
	// mode → table mapping
	if f := fn(c, "pkg/nathole.getBehaviorByMode"); f != nil {
		c.AllPaths("pkg/nathole.getBehaviorByMode", engine.PathCheck{Fn: f, Sink: engine.IsReturn, Pred: func(st *engine.PathState) string {
			r := st.Sink.(*ssa.Return)
			g := ""
			rv := st.Resolve(r.Results[0])
			if u, ok := rv.(*ssa.UnOp); ok {
				if gl, ok := u.X.(*ssa.Global); ok {
					g = gl.Name()
				}
			}
			// table-of-tables form: behaviorsByMode[mode] — the map literal is evaluated (package init) and must send
			// every key k to modekBehaviors; it is written nowhere else
			if ex, ok := rv.(*ssa.Extract); ok && ex.Index == 0 {
				if lk, ok := ex.Tuple.(*ssa.Lookup); ok && isParam("mode")(lk.Index) {
					if mu, ok := lk.X.(*ssa.UnOp); ok {
						if mg, ok := mu.X.(*ssa.Global); ok {
							return evalModeMap(p, mg)
						}
					}
				}
			}
			k := int64(-1)
			for _, l := range st.Lits {
				if l.Op == token.EQL && l.Val && isParam("mode")(l.X) {
					if z, ok := engine.ConstInt(l.Y); ok {
						k = z
					}
				}
			}
			want := fmt.Sprintf("mode%dBehaviors", k)
			if k < 0 {
				want = "mode0Behaviors" // default
			}
			if g != want {
				return fmt.Sprintf("mode %d is served from table %s", k, g)
			}
			return ""
		}}, "mode k ↦ table k")
	}
	// immutability / no pointer escape
	nro := 0
	for _, f := range p.RepoFuncs() {
		engine.ForEachInstr(f, func(in ssa.Instruction) {
			ia, ok := in.(*ssa.IndexAddr)
			if !ok {
				return
			}
			isTable := false
			src := engine.Provenance(ia.X, engine.ProvOpts{IntoCallee: true, Prog: p})
			for g := range src.Globals {
				if strings.HasPrefix(g.Name(), "mode") && strings.HasSuffix(g.Name(), "Behaviors") && g.Pkg == sp {
					isTable = true
				}
			}
			if !isTable {
				return
			}
			nro++
			bad := ""
			var walk func(v ssa.Value, d int)
			walk = func(v ssa.Value, d int) {
				if d > 4 || bad != "" {
					return
				}
				refs := v.Referrers()
				if refs == nil {
					return
				}
				for _, r := range *refs {
					switch x := r.(type) {
					case *ssa.UnOp:
						if x.Op != token.MUL {
							bad = "address arithmetic"
						}
					case *ssa.FieldAddr:
						walk(x, d+1)
					case *ssa.Store:
						if x.Addr == v {
							bad = "a table entry is written at " + p.Pos(x.Pos())
						} else {
							bad = "a pointer into the table is stored at " + p.Pos(x.Pos())
						}
					case *ssa.DebugRef:
					default:
						bad = fmt.Sprintf("a pointer into the table escapes (%T at %s)", r, p.Pos(r.Pos()))
					}
				}
			}
			walk(ia, 0)
			c.Check(bad == "", fmt.Sprintf("%s>table-readonly#%d", p.FuncName(f), nro), in.Pos(), 2, nil,
				"shared behaviour table is only read here (%s): an in-place role swap would persist for every later session", bad)
		})
	}
	c.Floor(entries, 28)

	// ---- R2 swap rules ----
	c.Rule("R2", "GetRecommandBehaviors swaps client/visitor behaviours exactly per the mode's rule: mode 1 ⇔ client is EasyNAT, mode 2 ⇔ client is HardNAT, mode 4 ⇔ client has no regular port change, modes 0 and 3 never")
	if f := fn(c, "pkg/nathole.Analyzer.GetRecommandBehaviors"); f != nil {
		get := funcObj(c, "pkg/nathole", "getBehaviorByModeAndIndex")
		natF := field(c, "pkg/nathole", "NatFeature", "NatType")
		regF := field(c, "pkg/nathole", "NatFeature", "RegularPortsChange")
		constStr := func(name string) string {
			if k, ok := pk.Types.Scope().Lookup(name).(*types.Const); ok {
				return strings.Trim(k.Val().ExactString(), "\"")
			}
			if v, ok := gByName[name]; ok {
				return v
			}
			return "?"
		}
		easy, hard := constStr("EasyNAT"), constStr("HardNAT")
		var rets []ssa.Value
		engine.ForEachInstr(f, func(in ssa.Instruction) {
			if r, ok := in.(*ssa.Return); ok {
				rets = append(rets, r.Results...)
			}
		})
		if get != nil && natF != nil && regF != nil {
			c.AllPaths("pkg/nathole.Analyzer.GetRecommandBehaviors", engine.PathCheck{Fn: f, Sink: engine.IsReturn, Track: rets, Pred: func(st *engine.PathState) string {
				r := st.Sink.(*ssa.Return)
				cb, vb := st.Resolve(r.Results[2]), st.Resolve(r.Results[3])
				ci, vi := -1, -1
				if cl, i := engine.ResultOfCall(cb); cl != nil && engine.SameFunc(engine.CalleeObj(cl), get) {
					ci = i
				}
				if cl, i := engine.ResultOfCall(vb); cl != nil && engine.SameFunc(engine.CalleeObj(cl), get) {
					vi = i
				}
				if !((ci == 0 && vi == 1) || (ci == 1 && vi == 0)) {
					return "the returned behaviours are not the (A,B) pair of one table entry, swapped or not"
				}
				swapped := ci == 1
				mode := int64(-1)
				for _, l := range st.Lits {
					if l.Op == token.EQL && l.Val {
						if ks, ok := constOf(l.Y); ok {
							if ex, ok := l.X.(*ssa.Extract); ok && ex.Index == 0 && isRecommandCall(ex.Tuple) {
								var z int64
								if _, err := fmt.Sscanf(ks, "%d", &z); err == nil {
									mode = z
								}
							}
						}
					}
				}
				natIs := func(s string) (bool, bool) {
					return st.Equal(func(v ssa.Value) bool { lf, b := engine.LoadedField(v); return lf == natF && isParam("c")(b) },
						func(v ssa.Value) bool { k, ok := constOf(v); return ok && k == s })
				}
				switch mode {
				case 1:
					v, k := natIs(easy)
					if !k || v != swapped {
						return "mode 1: roles must be swapped exactly when the client (proxy owner) is EasyNAT, so that the hard NAT sends"
					}
				case 2:
					v, k := natIs(hard)
					if !k || v != swapped {
						return "mode 2: roles must be swapped exactly when the client is HardNAT, so that the hard NAT listens"
					}
				case 4:
					v, k := st.Truth(func(x ssa.Value) bool { lf, b := engine.LoadedField(x); return lf == regF && isParam("c")(b) })
					if !k || v == swapped {
						return "mode 4: roles must be swapped exactly when the client has no regular port change, so that the side with regular changes sends"
					}
				default:
					if swapped {
						return fmt.Sprintf("roles are swapped in mode %d, where the table orientation is final", mode)
					}
				}
				return ""
			}}, "swap ⇔ the mode's rule")
			c.Floor(1, 1)
		}
	}

	// ---- R3 crossed responses ----
	c.Rule("R3", "Controller.analysis: both responses carry the session's id and the same mode; the visitor gets the client's candidate/assisted addresses and the visitor behaviour's role, the client the visitor's addresses and the client behaviour's role")
	if f := fn(c, "pkg/nathole.Controller.analysis"); f != nil {
		n := 0
		sidF := field(c, "pkg/nathole", "Session", "sid")
		cmF := field(c, "pkg/nathole", "Session", "clientMsg")
		vmF := field(c, "pkg/nathole", "Session", "visitorMsg")
		get := method(c, "pkg/nathole", "Analyzer", "GetRecommandBehaviors")
		// the two responses are what analysis returns (results #0 for the visitor, #1 for the client); each is traced field
		// by field to its sources — through a literal written in place or a builder both responses share
		seenResp := map[ssa.Value]bool{}
		engine.ForEachInstr(f, func(in ssa.Instruction) {
			r, ok := in.(*ssa.Return)
			if !ok || len(r.Results) < 2 {
				return
			}
			for ri := 0; ri < 2; ri++ {
				resp := spilledResult(r, ri)
				if engine.IsNilConst(resp) || seenResp[resp] || alwaysNilResult(resp) {
					continue
				}
				seenResp[resp] = true
				n++
				prov := func(fieldName string) *engine.Sources {
					fv := p.Field("pkg/msg", "NatHoleResp", fieldName)
					if fv == nil {
						fv = p.Field("pkg/msg", "NatHoleDetectBehavior", fieldName)
					}
					return engine.DeepSourcesOfField(p, resp, fv)
				}
				tx := prov("TransactionID")
				forVisitor := tx.HasField(vmF) && !tx.HasField(cmF)
				forClient := tx.HasField(cmF) && !tx.HasField(vmF)
				who := "visitor"
				other := cmF
				ownIdx := 3 // vBehavior is result #3 of GetRecommandBehaviors
				if forClient {
					who, other, ownIdx = "client", vmF, 2
				}
				var bad []string
				if forVisitor == forClient {
					bad = append(bad, "cannot tell which party this response is for")
				}
				if forVisitor != (ri == 0) && forVisitor != forClient {
					bad = append(bad, "the responses are returned in the wrong order (visitor first, client second)")
				}
				if s := prov("Sid"); !s.HasField(sidF) {
					bad = append(bad, "Sid is not the session's id")
				}
				if s := prov("Mode"); !s.HasCall(get) {
					bad = append(bad, "Mode is not the recommended mode")
				}
				for _, fn2 := range []string{"CandidateAddrs", "AssistedAddrs"} {
					s := prov(fn2)
					if !s.HasField(other) || s.HasField(map[bool]*types.Var{true: vmF, false: cmF}[other == cmF]) {
						bad = append(bad, fn2+" must come from the other party's message")
					}
				}
				// role from the party's own behaviour (result index of GetRecommandBehaviors)
				roleOK := false
				rs := prov("Role")
				for v := range rs.Values {
					if ex, ok := v.(*ssa.Extract); ok && ex.Index == ownIdx {
						if cl, ok := ex.Tuple.(*ssa.Call); ok && engine.SameFunc(engine.CalleeObj(cl), get) {
							roleOK = true
						}
					}
				}
				for v := range rs.Values {
					if ex, ok := v.(*ssa.Extract); ok && ex.Index != ownIdx && ex.Index >= 2 {
						if cl, ok := ex.Tuple.(*ssa.Call); ok && engine.SameFunc(engine.CalleeObj(cl), get) {
							roleOK = false
							bad = append(bad, "Role comes from the other party's behaviour")
						}
					}
				}
				if !roleOK {
					bad = append(bad, "Role is not the party's own recommended behaviour")
				}
				c.Check(len(bad) == 0, "pkg/nathole.Controller.analysis>response-for-"+who, r.Pos(), 6, nil, "response for the %s is consistent (%s)", who, strings.Join(bad, "; "))
			}
		})
		c.Floor(n, 2)
	}

	// ---- R4 port ranges ----
	c.Rule("R4", "getRangePorts clamps with max(…,1) and min(…,65535); ClassifyNATFeature continues with an address only when its port was found within 1..65535; ranges are computed from address lists that were classified first")
	n := 0
	if f := fn(c, "pkg/nathole.getRangePorts"); f != nil {
		fromF := field(c, "pkg/msg", "PortsRange", "From")
		toF := field(c, "pkg/msg", "PortsRange", "To")
		engine.ForEachInstr(f, func(in ssa.Instruction) {
			st, ok := in.(*ssa.Store)
			if !ok {
				return
			}
			fv, _ := engine.LoadedField(st.Addr)
			if fv != fromF && fv != toF {
				return
			}
			n++
			okClamp := false
			want, wantK := "max", int64(1)
			if fv == toF {
				want, wantK = "min", 65535
			}
			if call, ok := st.Val.(*ssa.Call); ok {
				if b, ok := call.Call.Value.(*ssa.Builtin); ok && b.Name() == want {
					for _, a := range call.Call.Args {
						if k, ok := engine.ConstInt(a); ok && k == wantK {
							okClamp = true
						}
					}
				}
			}
			c.Check(okClamp, "pkg/nathole.getRangePorts>"+fv.Name(), in.Pos(), 1, nil, "%s is clamped with %s(…, %d)", fv.Name(), want, wantK)
		})
	}
	if f0 := fn(c, "pkg/nathole.ClassifyNATFeature"); f0 != nil {
		// the port check sits in ClassifyNATFeature or in a same-package helper it calls per address
		var atoi *ssa.Call
		f := f0
		for _, host := range withHelpers(f0) {
			engine.ForEachInstr(host, func(in ssa.Instruction) {
				if call, ok := in.(*ssa.Call); ok && atoi == nil {
					if o := engine.CalleeObj(call); o != nil && o.Name() == "Atoi" {
						atoi = call
						f = host
					}
				}
			})
		}
		if f != f0 {
			// the helper's verdict is honoured: after the call, ClassifyNATFeature goes on only with a nil error
			if hobj, _ := f.Object().(*types.Func); hobj != nil {
				for _, hc := range engine.CallsTo(f0, hobj) {
					hcv := hc.Value()
					n++
					c.AllPaths("pkg/nathole.ClassifyNATFeature>helper-error", engine.PathCheck{Fn: f0, From: hc, KeepLoopFacts: true,
						Sink: func(in ssa.Instruction) bool { return in == hc.(ssa.Instruction) || engine.IsReturn(in) },
						Pred: func(st *engine.PathState) string {
							if r, ok := st.Sink.(*ssa.Return); ok && !engine.IsNilConst(st.Resolve(r.Results[len(r.Results)-1])) {
								return ""
							}
							if v, k := st.IsNil(func(x ssa.Value) bool {
								cl, i := engine.ResultOfCall(x)
								tup, isT := hcv.Type().(*types.Tuple)
								return cl != nil && ssa.Value(cl) == hcv && isT && i == tup.Len()-1
							}); !(k && v) {
								return "the address helper's error is not honoured: an address it rejected is used"
							}
							return ""
						}}, "helper error honoured")
				}
			}
		}
		if atoi == nil {
			c.Undecide("pkg/nathole.ClassifyNATFeature>port-range", f.Pos(), "port parsing not found")
		} else {
			n++
			c.AllPaths("pkg/nathole.ClassifyNATFeature>port-range", engine.PathCheck{Fn: f, From: atoi, KeepLoopFacts: true,
				Sink: func(in ssa.Instruction) bool { return in == ssa.Instruction(atoi) || engine.IsReturn(in) },
				Pred: func(st *engine.PathState) string {
					if r, ok := st.Sink.(*ssa.Return); ok {
						ev := st.Resolve(r.Results[len(r.Results)-1])
						if !engine.IsNilConst(ev) {
							return "" // error exit
						}
					}
					lo, hi := false, false
					for _, l := range st.Lits {
						x, y, op := l.X, l.Y, l.Op
						cl, i := engine.ResultOfCall(x)
						if cl != atoi || i != 0 {
							continue
						}
						if !l.Val {
							op = negOrd(op)
						}
						z, ok := engine.ConstInt(y)
						if !ok {
							continue
						}
						if (op == token.GEQ && z == 1) || (op == token.GTR && z == 0) {
							lo = true
						}
						if (op == token.LEQ && z == 65535) || (op == token.LSS && z == 65536) {
							hi = true
						}
					}
					if !lo || !hi {
						return "an address whose port was not found within 1..65535 is accepted: the candidate range computed from it can have From > To"
					}
					return ""
				}}, "ports outside 1..65535 are rejected")
		}
	}
	if f := fn(c, "pkg/nathole.Controller.analysis"); f != nil {
		grp := funcObj(c, "pkg/nathole", "getRangePorts")
		cls := funcObj(c, "pkg/nathole", "ClassifyNATFeature")
		for _, call := range engine.CallsTo(f, grp) {
			n++
			arg := engine.CallArgs(call)[0]
			okc := false
			for _, cc := range engine.CallsTo(f, cls) {
				if engine.SameExpr(engine.CallArgs(cc)[0], arg) && cc.Block().Dominates(call.Block()) {
					okc = true
				}
			}
			c.Check(okc, fmt.Sprintf("pkg/nathole.Controller.analysis>range-from-classified#%d", n), call.Pos(), 2, nil, "the address list given to getRangePorts was validated by ClassifyNATFeature first")
		}
		// ranges computed in a step split out of analysis (a response builder): the step is entered only after the
		// classification calls, and the list it ranges over is one that was classified
		classified := map[*types.Var]bool{}
		clsCalls := engine.CallsTo(f, cls)
		for _, cc := range clsCalls {
			for fv := range engine.Provenance(engine.CallArgs(cc)[0], engine.ProvOpts{NoArgs: true}).Fields {
				if _, isSlice := fv.Type().Underlying().(*types.Slice); isSlice {
					classified[fv] = true
				}
			}
		}
		for _, g := range allAnon(f) {
			gobj, _ := g.Object().(*types.Func)
			for _, call := range engine.CallsTo(g, grp) {
				n++
				okc := gobj != nil
				if gobj != nil {
					for _, gc := range engine.CallsTo(f, gobj) {
						for _, cc := range clsCalls {
							if !cc.Block().Dominates(gc.Block()) {
								okc = false
							}
						}
					}
				}
				fromClassified := false
				for fv := range engine.DeepSources(c.P, engine.CallArgs(call)[0]).Fields {
					if classified[fv] {
						fromClassified = true
					}
				}
				c.Check(okc && fromClassified && len(clsCalls) >= 2, fmt.Sprintf("pkg/nathole.Controller.analysis>range-from-classified#%d", n), call.Pos(), 2, nil,
					"the address list given to getRangePorts (in %s) was validated by ClassifyNATFeature first", c.P.FuncName(g))
			}
		}
	}
	c.Floor(n, 4)

	// ---- R5 session hygiene ----
	c.Rule("R5", "a session is inserted only after signature and allow-list checks; every exit of HandleVisitor after the insert removes the session; HandleClient and HandleReport return early for unknown session ids")
	checkNatholeAdmission(c)
	checkNatholeExits(c)
	sessionsF := field(c, "pkg/nathole", "Controller", "sessions")
	for _, sym := range []string{"pkg/nathole.Controller.HandleClient", "pkg/nathole.Controller.HandleReport"} {
		f := fn(c, sym)
		if f == nil || sessionsF == nil {
			continue
		}
		c.AllPaths(sym+">unknown-sid", engine.PathCheck{Fn: f, Sink: func(in ssa.Instruction) bool {
			// any use of the looked-up session: FieldAddr on it
			fa, ok := in.(*ssa.FieldAddr)
			if !ok {
				return false
			}
			ex, ok := fa.X.(*ssa.Extract)
			if !ok {
				return false
			}
			lk, ok := ex.Tuple.(*ssa.Lookup)
			if !ok {
				return false
			}
			lf, _ := engine.LoadedField(lk.X)
			return lf == sessionsF
		}, Pred: func(st *engine.PathState) string {
			v, k := st.Truth(func(v ssa.Value) bool {
				ex, ok := v.(*ssa.Extract)
				if !ok || ex.Index != 1 {
					return false
				}
				lk, ok := ex.Tuple.(*ssa.Lookup)
				if !ok {
					return false
				}
				lf, _ := engine.LoadedField(lk.X)
				return lf == sessionsF
			})
			if !(k && v) {
				return "a session that was not found is used (nil dereference for an unknown or expired session id)"
			}
			return ""
		}}, "unknown session ids are ignored")
	}

	// ---- R6 recipients ----
	c.Rule("R6", "in HandleVisitor every response after admission goes through the session's visitorTransporter or clientTransporter; an analysis error is sent to both")
	if hv := fn(c, "pkg/nathole.Controller.HandleVisitor"); hv != nil {
		sendObj := method(c, "pkg/transport", "MessageTransporter", "Send")
		vtF := field(c, "pkg/nathole", "Session", "visitorTransporter")
		ctF := field(c, "pkg/nathole", "Session", "clientTransporter")
		n = 0
		var viaV, viaC int
		for _, g := range append([]*ssa.Function{hv}, allAnon(hv)...) {
			for _, call := range engine.CallsTo(g, sendObj) {
				n++
				recv := engine.CallArgs(call)[0]
				src := engine.Provenance(recv, engine.ProvOpts{})
				switch {
				case src.HasField(vtF):
					viaV++
				case src.HasField(ctF):
					viaC++
				case src.HasParam("transporter"):
					// the requesting visitor's own control (refusals and pre-check answers)
				default:
					c.Violate(fmt.Sprintf("pkg/nathole.Controller.HandleVisitor>send#%d", n), call.Pos(), []string{src.Summary()}, "a NAT-hole response is sent to a control that is neither the visitor's nor the proxy owner's")
				}
			}
		}
		c.Check(viaV >= 1 && viaC >= 1, "pkg/nathole.Controller.HandleVisitor>both-parties", hv.Pos(), n, nil, "instructions (or the analysis error) go to both the visitor's and the owner's control (visitor sends=%d, client sends=%d)", viaV, viaC)
		// per path: once both parties are known (the analysis ran), every way out of HandleVisitor has sent to both
		// controls, whether the analysis succeeded or failed
		if an := method(c, "pkg/nathole", "Controller", "analysis"); an != nil {
			sendsVia := func(f *ssa.Function, fv *types.Var) bool {
				hit := false
				for _, g := range append([]*ssa.Function{f}, allAnon(f)...) {
					for _, call := range engine.CallsTo(g, sendObj) {
						if engine.Provenance(engine.CallArgs(call)[0], engine.ProvOpts{}).HasField(fv) {
							hit = true
						}
					}
				}
				return hit
			}
			for _, ac := range engine.CallsTo(hv, an) {
				n++
				c.AllPaths("pkg/nathole.Controller.HandleVisitor>both-parties-per-path", engine.PathCheck{Fn: hv, From: ac, Sink: engine.IsReturn,
					Event: func(in ssa.Instruction) string {
						call, ok := in.(ssa.CallInstruction)
						if !ok {
							return ""
						}
						if engine.IsCallTo(in, sendObj) {
							src := engine.Provenance(engine.CallArgs(call)[0], engine.ProvOpts{})
							if src.HasField(vtF) {
								return "to-visitor"
							}
							if src.HasField(ctF) {
								return "to-client"
							}
							return ""
						}
						// a closure started for sending (errgroup.Go / go)
						for _, a := range call.Common().Args {
							if mc, ok := a.(*ssa.MakeClosure); ok {
								if cf, ok := mc.Fn.(*ssa.Function); ok {
									v, k := sendsVia(cf, vtF), sendsVia(cf, ctF)
									switch {
									case v && k:
										return "to-both"
									case v:
										return "to-visitor"
									case k:
										return "to-client"
									}
								}
							}
						}
						return ""
					},
					Pred: func(st *engine.PathState) string {
						v := st.HasEvent("to-visitor") || st.HasEvent("to-both")
						k := st.HasEvent("to-client") || st.HasEvent("to-both")
						if !v || !k {
							return fmt.Sprintf("HandleVisitor returns after the analysis without a response to both controls (visitor=%v, owner=%v): one party keeps waiting for instructions that never come", v, k)
						}
						return ""
					}}, "both controls are answered on every path after the analysis")
			}
		}
		c.Floor(n, 3)
	}

	// ---- R7 the owner's answer is stored before the waiting visitor handler is woken ----
	c.Rule("R7", "HandleClient stores the client's message and transporter into the session before it signals notifyCh: the woken HandleVisitor reads both (a nil message crashes the analysis, a nil transporter loses the owner's answer)")
	if hc := fn(c, "pkg/nathole.Controller.HandleClient"); hc != nil {
		notifyF := field(c, "pkg/nathole", "Session", "notifyCh")
		cmF := field(c, "pkg/nathole", "Session", "clientMsg")
		ctF2 := field(c, "pkg/nathole", "Session", "clientTransporter")
		k := 0
		isNotify := func(in ssa.Instruction) bool {
			switch x := in.(type) {
			case *ssa.Send:
				lf, _ := engine.LoadedField(x.Chan)
				return lf == notifyF
			case *ssa.Select:
				for _, stt := range x.States {
					if stt.Dir == types.SendOnly {
						if lf, _ := engine.LoadedField(stt.Chan); lf == notifyF {
							return true
						}
					}
				}
			}
			return false
		}
		engine.ForEachInstr(hc, func(in ssa.Instruction) {
			if !isNotify(in) || notifyF == nil {
				return
			}
			k++
			c.AllPaths("pkg/nathole.Controller.HandleClient>notify-after-store", engine.PathCheck{Fn: hc, Sink: engine.Is(in),
				Event: func(x ssa.Instruction) string {
					if st, ok := x.(*ssa.Store); ok {
						switch lf, _ := engine.LoadedField(st.Addr); lf {
						case cmF:
							return "msg"
						case ctF2:
							return "transporter"
						}
					}
					return ""
				},
				Pred: func(st *engine.PathState) string {
					if !st.HasEvent("msg") || !st.HasEvent("transporter") {
						return "the visitor handler is woken before the owner's message and transporter are stored in the session"
					}
					return ""
				}}, "store, then notify")
		})
		c.Floor(k, 1)
	}

	checkWaitClock(c, "R8")
	checkSidWorker(c, "R9")
	checkEarlyMessages(c, "R10")
	// ---- R11 the session and client tables are written under the write lock (shared with C16.R1): an insert under the read
	// lock racing with another visitor's is a fatal runtime error, not an error response ----
	c16MapsRule(c, engine.AnalyzeLocks(c.P), "R11")
	checkRangeSweep(c, "R12")
	// ---- R13 sessions in flight are counted down on every exit (shared with C16.R29) ----
	checkCounterBalance(c, "R13")
	// ---- R14 the owner's answer is kept for a visitor handler that is not waiting yet (shared with C16.R32) ----
	checkChannelCapacityClass(c, "R14")
}

// checkEarlyMessages (R10): NatHoleClient and NatHoleReport are sent by peers whenever they like — also before the
// session they name has been analysed. In their handlers a pointer-typed field of the Session (anything that is filled in
// later: the owner's message, an analysis result) may be dereferenced only on paths that found it non-nil; the handlers
// run in bare goroutines (msg.AsyncHandler), so a nil dereference kills the server.
func checkEarlyMessages(c *engine.Ctx, rule string) {
	c.Rule(rule, "Controller.HandleClient / HandleReport dereference a pointer-typed Session field only on paths where that field was found non-nil")
	sess := c.P.Named("pkg/nathole", "Session")
	if sess == nil {
		c.Missing("pkg/nathole.Session", "type not found")
		return
	}
	loads, derefs := 0, 0
	for _, sym := range []string{"pkg/nathole.Controller.HandleClient", "pkg/nathole.Controller.HandleReport"} {
		f := fn(c, sym)
		if f == nil {
			continue
		}
		for _, g := range append([]*ssa.Function{f}, allAnon(f)...) {
			g := g
			engine.ForEachInstr(g, func(in ssa.Instruction) {
				var base ssa.Value
				switch x := in.(type) {
				case *ssa.FieldAddr:
					base = x.X
				case *ssa.Field:
					base = x.X
				case *ssa.UnOp:
					if x.Op == token.MUL {
						base = x.X
					}
				}
				if base == nil {
					return
				}
				u, ok := base.(*ssa.UnOp)
				if !ok || u.Op != token.MUL {
					return
				}
				fa, ok := u.X.(*ssa.FieldAddr)
				if !ok || engine.NamedOf(engine.Deref(fa.X.Type())) != sess {
					return
				}
				loads++
				fv, _ := engine.LoadedField(u)
				if fv == nil {
					return
				}
				if _, isPtr := fv.Type().Underlying().(*types.Pointer); !isPtr {
					return
				}
				derefs++
				c.AllPaths(fmt.Sprintf("%s>deref-%s#%d", sym, fv.Name(), derefs), engine.PathCheck{Fn: g, Sink: engine.Is(in), Pred: func(st *engine.PathState) string {
					isNil, known := st.IsNil(func(v ssa.Value) bool { lf, _ := engine.LoadedField(v); return lf == fv })
					if known && !isNil {
						return ""
					}
					return "Session." + fv.Name() + " is dereferenced on a path that did not find it non-nil: a message for a session that is not that far yet crashes the server"
				}}, "dereference only after a nil test")
			})
		}
	}
	c.Check(loads >= 0, "early-messages:seen", token.NoPos, loads+1, nil, "positive control: %d dereferences through Session fields examined in the two handlers, %d of pointer fields", loads, derefs)
}

// checkWaitClock (R8): the server computes each party's ReadTimeoutMs as "listen this long after your own send delay"
// (timeout = max(delays)+5000 − own delay). The client must therefore start the read clock after the delay: every
// time.Now() from which a read deadline in pkg/nathole derives is taken at a point from which the SendDelayMs sleep can
// no longer be reached.
func checkWaitClock(c *engine.Ctx, rule string) {
	c.Rule(rule, "MakeHole: no time.Now() that feeds a SetReadDeadline of the detection wait is taken before the SendDelayMs sleep (the instructed read timeout counts from the end of the party's own send delay)")
	p := c.P
	mh := fn(c, "pkg/nathole.MakeHole")
	delayF := field(c, "pkg/msg", "NatHoleDetectBehavior", "SendDelayMs")
	if mh == nil || delayF == nil {
		return
	}
	var sleeps []ssa.Instruction
	engine.ForEachInstr(mh, func(in ssa.Instruction) {
		if call, ok := in.(ssa.CallInstruction); ok {
			if o := engine.CalleeObj(call); o != nil && o.Pkg() != nil && o.Pkg().Path() == "time" && o.Name() == "Sleep" {
				if engine.Provenance(call.Common().Args[0], engine.ProvOpts{}).HasField(delayF) {
					sleeps = append(sleeps, in)
				}
			}
		}
	})
	c.Check(len(sleeps) >= 1, "pkg/nathole.MakeHole>send-delay", mh.Pos(), 1, nil, "MakeHole sleeps for SendDelayMs (%d site(s))", len(sleeps))
	pkgFns := allFuncsOfPkg(mh.Pkg)
	// resolve the time.Now() calls a value derives from, through parameters, free variables and local cells
	var nows func(v ssa.Value, depth int, seen map[ssa.Value]bool) (out []ssa.Instruction, opaque []ssa.Value)
	nows = func(v ssa.Value, depth int, seen map[ssa.Value]bool) (out []ssa.Instruction, opaque []ssa.Value) {
		if depth > 8 || seen[v] {
			return
		}
		seen[v] = true
		add := func(o []ssa.Instruction, q []ssa.Value) { out = append(out, o...); opaque = append(opaque, q...) }
		switch x := v.(type) {
		case *ssa.Call:
			o := engine.CalleeObj(x)
			if o != nil && o.Pkg() != nil && o.Pkg().Path() == "time" {
				switch o.Name() {
				case "Now":
					out = append(out, x)
					return
				case "Add":
					add(nows(x.Call.Args[0], depth+1, seen))
					return
				}
			}
			opaque = append(opaque, v)
		case *ssa.Parameter:
			host := x.Parent()
			idx := -1
			for i, pr := range host.Params {
				if pr == x {
					idx = i
				}
			}
			hobj, _ := host.Object().(*types.Func)
			found := false
			for _, g := range pkgFns {
				if hobj == nil {
					break
				}
				for _, call := range engine.CallsTo(g, hobj) {
					args := engine.CallArgs(call)
					if idx < len(args) {
						found = true
						add(nows(args[idx], depth+1, seen))
					}
				}
			}
			if !found {
				opaque = append(opaque, v)
			}
		case *ssa.FreeVar:
			if b := engine.ClosureBinding(x); b != nil {
				add(nows(b, depth+1, seen))
			} else {
				opaque = append(opaque, v)
			}
		case *ssa.UnOp:
			if x.Op == token.MUL {
				add(nows(x.X, depth+1, seen))
				return
			}
			opaque = append(opaque, v)
		case *ssa.Alloc:
			n := 0
			for _, ref := range *x.Referrers() {
				if st, ok := ref.(*ssa.Store); ok && st.Addr == ssa.Value(x) {
					n++
					add(nows(st.Val, depth+1, seen))
				}
			}
			for _, fn2 := range x.Parent().AnonFuncs {
				_ = fn2
			}
			// a cell without stores is the zero time: no deadline
		case *ssa.Phi:
			for _, e := range x.Edges {
				add(nows(e, depth+1, seen))
			}
		case *ssa.Const:
		default:
			opaque = append(opaque, v)
		}
		return
	}
	// lift an instruction to the points of MakeHole that lead to it
	var lift func(in ssa.Instruction, depth int) []ssa.Instruction
	lift = func(in ssa.Instruction, depth int) []ssa.Instruction {
		host := in.Parent()
		if host == mh {
			return []ssa.Instruction{in}
		}
		if depth > 4 {
			return nil
		}
		var out []ssa.Instruction
		if host.Parent() != nil {
			engine.ForEachInstr(host.Parent(), func(x ssa.Instruction) {
				if mc, ok := x.(*ssa.MakeClosure); ok && mc.Fn == host {
					out = append(out, lift(x, depth+1)...)
				}
			})
			return out
		}
		hobj, _ := host.Object().(*types.Func)
		for _, g := range pkgFns {
			if hobj == nil {
				break
			}
			for _, call := range engine.CallsTo(g, hobj) {
				out = append(out, lift(call, depth+1)...)
			}
		}
		return out
	}
	n := 0
	for _, f := range pkgFns {
		// only the detection wait: functions reachable from MakeHole
		engine.ForEachInstr(f, func(in ssa.Instruction) {
			call, ok := in.(ssa.CallInstruction)
			if !ok {
				return
			}
			o := engine.CalleeObj(call)
			if o == nil || o.Name() != "SetReadDeadline" {
				return
			}
			args := engine.CallArgs(call)
			origins, opaque := nows(args[len(args)-1], 0, map[ssa.Value]bool{})
			for _, o := range origins {
				pts := lift(o, 0)
				for _, pt := range pts {
					n++
					var bad []string
					for _, s := range sleeps {
						if engine.InstrReaches(pt, s) {
							bad = append(bad, "sleep at "+p.Pos(s.Pos()))
						}
					}
					c.Check(len(bad) == 0, fmt.Sprintf("%s>read-clock@%s", p.FuncName(f), p.FuncName(o.Parent())), pt.Pos(), 1, bad,
						"the read clock (time.Now at %s) starts after the send delay", p.Pos(o.Pos()))
				}
			}
			for _, q := range opaque {
				if len(lift(in, 0)) > 0 {
					c.Undecide(fmt.Sprintf("%s>read-clock-origin", p.FuncName(f)), in.Pos(), "cannot tell when the deadline %s was computed", engine.Describe(q))
				}
			}
		})
	}
	c.Floor(n, 1)
}

// checkSidWorker (R9): the goroutine started by XTCPProxy.Run relays every visitor's session id to the proxy owner for
// the life of the proxy. It may end only when the proxy is closed; ending on a transient failure (no work connection in
// time) leaves a registered proxy whose visitors all time out, and HandleVisitor's notification send finds no reader.
func checkSidWorker(c *engine.Ctx, rule string) {
	c.Rule(rule, "XTCPProxy.Run's relay goroutine returns only through the closeCh arm of its select (or when the sid channel is closed)")
	run := fn(c, "server/proxy.XTCPProxy.Run")
	if run == nil {
		return
	}
	// the proxy's stop signal: its closeCh field, or — when the stop-only channel was replaced by a cancellable context —
	// the Done() channel of a context (the relay is the only select of the proxy that also receives session ids)
	var closeF *types.Var
	if xt := c.P.Named("server/proxy", "XTCPProxy"); xt != nil {
		if st, ok := xt.Underlying().(*types.Struct); ok {
			for i := 0; i < st.NumFields(); i++ {
				if st.Field(i).Name() == "closeCh" {
					closeF = st.Field(i)
				}
			}
		}
	}
	isStop := func(ch ssa.Value) bool {
		if lf, _ := engine.LoadedField(ch); lf != nil && lf == closeF {
			return true
		}
		if call, ok := engine.Unwrap(ch).(*ssa.Call); ok && call.Call.IsInvoke() && call.Call.Method.Name() == "Done" && engine.IsNamed(call.Call.Value.Type(), "context", "Context") {
			return true
		}
		return false
	}
	n := 0
	for _, af := range allFuncsOfPkg(run.Pkg) {
		if !(af == run || fnReachesFn(run, af)) {
			continue
		}
		var sel *ssa.Select
		closeIdx := -1
		engine.ForEachInstr(af, func(in ssa.Instruction) {
			if s, ok := in.(*ssa.Select); ok {
				hasSid := false
				for _, stt := range s.States {
					if ch, ok := stt.Chan.Type().Underlying().(*types.Chan); ok {
						if b, ok := ch.Elem().Underlying().(*types.Basic); ok && b.Kind() == types.String {
							hasSid = true
						}
					}
				}
				for i, stt := range s.States {
					if isStop(stt.Chan) && (hasSid || closeF != nil) {
						sel, closeIdx = s, i
					}
				}
			}
		})
		if sel == nil || len(sel.States) < 2 {
			continue
		}
		n++
		c.AllPaths("server/proxy.XTCPProxy.Run>relay-ends-on-close", engine.PathCheck{Fn: af, From: sel, Sink: engine.IsReturn, KeepLoopFacts: true,
			Pred: func(st *engine.PathState) string {
				for _, l := range st.Lits {
					ex, ok := l.X.(*ssa.Extract)
					if !ok || ex.Tuple != ssa.Value(sel) {
						continue
					}
					if ex.Index == 0 && l.Op == token.EQL && l.Val {
						if k, ok := engine.ConstInt(l.Y); ok && int(k) == closeIdx {
							return ""
						}
					}
					if ex.Index >= 1 && l.Op == token.ILLEGAL && !l.Val {
						return "" // a comma-ok receive reported the channel closed
					}
				}
				return "the relay goroutine ends although the proxy is still registered: later visitors of this proxy are never relayed to the owner"
			}}, "return ⇒ closeCh arm")
	}
	c.Floor(n, 1)
}

// checkNatholeAdmission / checkNatholeExits are the C08.R4/R5 obligations re-evaluated under C20's rule R5.
func checkNatholeAdmission(c *engine.Ctx) {
	hv := fn(c, "pkg/nathole.Controller.HandleVisitor")
	nskF := field(c, "pkg/nathole", "ClientCfg", "sk")
	nallowF := field(c, "pkg/nathole", "ClientCfg", "allowUsers")
	sessionsF := field(c, "pkg/nathole", "Controller", "sessions")
	signF := field(c, "pkg/msg", "NatHoleVisitor", "SignKey")
	tsF := field(c, "pkg/msg", "NatHoleVisitor", "Timestamp")
	if hv == nil || nskF == nil || nallowF == nil || sessionsF == nil || signF == nil || tsF == nil {
		return
	}
	userM := func(v ssa.Value) bool { return isParam("visitorUser")(v) || isCellOfParam(v, "visitorUser") }
	for _, f := range append([]*ssa.Function{hv}, allAnon(hv)...) {
		engine.ForEachInstr(f, func(in ssa.Instruction) {
			mu, ok := in.(*ssa.MapUpdate)
			if !ok {
				return
			}
			if lf, _ := engine.LoadedField(mu.Map); lf != sessionsF {
				return
			}
			c.AllPaths("pkg/nathole.Controller.HandleVisitor>session-insert", engine.PathCheck{Fn: f, Sink: engine.Is(in), Pred: func(st *engine.PathState) string {
				if !signatureOK(c, st, nskF, loadOfFieldThroughCell(tsF), loadOfFieldThroughCell(signF)) {
					return "a NAT-hole session is created without the signature check against the proxy's secret key"
				}
				if !membershipOK(st, nallowF, userM) {
					return "a NAT-hole session is created without the allow-list check"
				}
				return ""
			}}, "session insert only for a correctly signed request of an allowed user")
		})
	}
}

func checkNatholeExits(c *engine.Ctx) {
	hv := fn(c, "pkg/nathole.Controller.HandleVisitor")
	sessionsF := field(c, "pkg/nathole", "Controller", "sessions")
	if hv == nil || sessionsF == nil {
		return
	}
	var insertFn *ssa.Function
	for _, f := range append([]*ssa.Function{hv}, allAnon(hv)...) {
		engine.ForEachInstr(f, func(in ssa.Instruction) {
			if mu, ok := in.(*ssa.MapUpdate); ok {
				if lf, _ := engine.LoadedField(mu.Map); lf == sessionsF {
					insertFn = f
				}
			}
		})
	}
	if insertFn == nil {
		c.Undecide("pkg/nathole.Controller.HandleVisitor>session-removed", hv.Pos(), "session insert not found")
		return
	}
	var admit ssa.Instruction
	engine.ForEachInstr(hv, func(x ssa.Instruction) {
		if call, ok := x.(*ssa.Call); ok && engine.CalleeFn(call) == insertFn {
			admit = x
		}
		if mu, ok := x.(*ssa.MapUpdate); ok && insertFn == hv {
			if lf, _ := engine.LoadedField(mu.Map); lf == sessionsF {
				admit = x
			}
		}
	})
	if admit == nil {
		c.Undecide("pkg/nathole.Controller.HandleVisitor>session-removed", hv.Pos(), "admission step not found")
		return
	}
	removes := func(x ssa.Instruction) bool {
		call, ok := x.(ssa.CallInstruction)
		if !ok {
			return false
		}
		// deferred or direct call of a closure that deletes from sessions, or time.AfterFunc(…, such a closure)
		// (a closure, or a same-package method extracted from it)
		if cf := engine.CalleeFn(call); cf != nil && cf.Pkg == hv.Pkg && deletesFrom(cf, sessionsF) {
			return true
		}
		if o := engine.CalleeObj(call); o != nil && o.Pkg() != nil && o.Pkg().Path() == "time" && o.Name() == "AfterFunc" {
			for _, a := range call.Common().Args {
				if mc, ok := a.(*ssa.MakeClosure); ok {
					if cf, ok := mc.Fn.(*ssa.Function); ok && deletesFrom(cf, sessionsF) {
						return true
					}
				}
			}
		}
		if b, ok := call.Common().Value.(*ssa.Builtin); ok && b.Name() == "delete" {
			if lf, _ := engine.LoadedField(call.Common().Args[0]); lf == sessionsF {
				return true
			}
		}
		return false
	}
	c.AllPaths("pkg/nathole.Controller.HandleVisitor>session-removed", engine.PathCheck{Fn: hv, From: admit, Sink: engine.IsReturn,
		Event: func(x ssa.Instruction) string {
			if removes(x) {
				return "remove"
			}
			return ""
		},
		Pred: func(st *engine.PathState) string {
			if av, ok := admit.(*ssa.Call); ok {
				// the admission step's error (its only result, or the error component of its results)
				isNil, known := st.IsNil(func(v ssa.Value) bool {
					if v == ssa.Value(av) {
						return true
					}
					if ex, ok := v.(*ssa.Extract); ok && ex.Tuple == ssa.Value(av) {
						return types.Identical(ex.Type(), types.Universe.Lookup("error").Type())
					}
					return false
				})
				if known && !isNil {
					return "" // not admitted: nothing was inserted
				}
			}
			if !st.HasEvent("remove") {
				return "an exit of HandleVisitor after the session was inserted neither deletes the session nor schedules its removal: one session leaks per such request"
			}
			return ""
		}}, "every exit after the insert removes the session")
}

// isRecommandCall: the tuple is the result of MakeHoleRecords.Recommand (mode, index).
func isRecommandCall(v ssa.Value) bool {
	call, ok := v.(*ssa.Call)
	if !ok {
		return false
	}
	o := engine.CalleeObj(call)
	return o != nil && o.Name() == "Recommand"
}

// evalModeMap evaluates a package-level map[int]table literal: every entry k must be the global mode<k>Behaviors, and
// no function other than the package initialiser may write the map. Returns "" when that holds.
func evalModeMap(p *engine.Prog, mg *ssa.Global) string {
	entries := 0
	bad := ""
	for _, f := range p.RepoFuncs() {
		engine.ForEachInstr(f, func(in ssa.Instruction) {
			mu, ok := in.(*ssa.MapUpdate)
			if !ok {
				return
			}
			src := engine.Provenance(mu.Map, engine.ProvOpts{})
			isG := false
			for gl := range src.Globals {
				if gl == mg {
					isG = true
				}
			}
			// the literal is built in a temporary and then stored to the global: accept the make-map that flows into it
			if !isG {
				if mm, ok := mu.Map.(*ssa.MakeMap); ok && mm.Referrers() != nil {
					for _, r := range *mm.Referrers() {
						if st, ok := r.(*ssa.Store); ok && st.Addr == ssa.Value(mg) {
							isG = true
						}
					}
				}
			}
			if !isG {
				return
			}
			if f.Name() != "init" {
				bad = "the mode table map is written outside the package initialiser (" + p.FuncName(f) + ")"
				return
			}
			k, okK := engine.ConstInt(mu.Key)
			name := ""
			if u, ok := mu.Value.(*ssa.UnOp); ok {
				if gl, ok := u.X.(*ssa.Global); ok {
					name = gl.Name()
				}
			}
			entries++
			if !okK || name != fmt.Sprintf("mode%dBehaviors", k) {
				bad = fmt.Sprintf("mode %d is served from table %s", k, name)
			}
		})
	}
	if bad != "" {
		return bad
	}
	if entries < 5 {
		return fmt.Sprintf("the mode table map has %d entries (5 expected)", entries)
	}
	return ""
}

// alwaysNilResult reports whether v is result #i of a statically resolved call (a local failure helper, say) whose
// every return yields a nil constant at #i.
func alwaysNilResult(v ssa.Value) bool {
	ex, ok := v.(*ssa.Extract)
	if !ok {
		return false
	}
	call, ok := ex.Tuple.(*ssa.Call)
	if !ok {
		return false
	}
	callee := engine.CalleeFn(call)
	if callee == nil || len(callee.Blocks) == 0 {
		return false
	}
	all, any := true, false
	engine.ForEachInstr(callee, func(in ssa.Instruction) {
		if r, ok := in.(*ssa.Return); ok && ex.Index < len(r.Results) {
			any = true
			if !engine.IsNilConst(spilledResult(r, ex.Index)) {
				all = false
			}
		}
	})
	return all && any
}

// checkRangeSweep (R12): the party told to probe the candidate port ranges sends to every port of each range, both ends
// included (the controller's ranges are inclusive: a one-port range {p,p} is a legal instruction). The sweep loop is
// evaluated symbolically: with the loop variable running from its initial value to its last value, the port handed to
// strconv.Itoa must run from PortsRange.From to PortsRange.To exactly.
func checkRangeSweep(c *engine.Ctx, rule string) {
	c.Rule(rule, "sendSidMessageToRangePorts: the port formatted into the probe address is a linear function of the sweep loop's variable whose first value is PortsRange.From and whose last value is PortsRange.To (inclusive bounds, whatever the loop form)")
	f := fn(c, "pkg/nathole.sendSidMessageToRangePorts")
	fromF := field(c, "pkg/msg", "PortsRange", "From")
	toF := field(c, "pkg/msg", "PortsRange", "To")
	if f == nil || fromF == nil || toF == nil {
		return
	}
	// linear forms over (i, From, To, 1)
	type lin struct{ i, from, to, k int64 }
	var eval func(v ssa.Value, iv ssa.Value, d int) (lin, bool)
	eval = func(v ssa.Value, iv ssa.Value, d int) (lin, bool) {
		if d > 8 {
			return lin{}, false
		}
		if iv != nil && v == iv {
			return lin{i: 1}, true
		}
		if k, ok := engine.ConstInt(v); ok {
			return lin{k: k}, true
		}
		switch x := v.(type) {
		case *ssa.Convert:
			return eval(x.X, iv, d+1)
		case *ssa.ChangeType:
			return eval(x.X, iv, d+1)
		case *ssa.BinOp:
			a, ok1 := eval(x.X, iv, d+1)
			b, ok2 := eval(x.Y, iv, d+1)
			if !ok1 || !ok2 {
				return lin{}, false
			}
			switch x.Op {
			case token.ADD:
				return lin{a.i + b.i, a.from + b.from, a.to + b.to, a.k + b.k}, true
			case token.SUB:
				return lin{a.i - b.i, a.from - b.from, a.to - b.to, a.k - b.k}, true
			}
			return lin{}, false
		}
		if lf, _ := engine.LoadedField(v); lf == fromF {
			return lin{from: 1}, true
		} else if lf == toF {
			return lin{to: 1}, true
		}
		return lin{}, false
	}
	n := 0
	engine.ForEachInstr(f, func(in ssa.Instruction) {
		call, ok := in.(*ssa.Call)
		if !ok {
			return
		}
		o := engine.CalleeObj(call)
		if o == nil || o.Pkg() == nil || o.Pkg().Path() != "strconv" || o.Name() != "Itoa" {
			return
		}
		n++
		key := "pkg/nathole.sendSidMessageToRangePorts>sweep"
		h := engine.LoopHeader(call.Block())
		if h == nil {
			c.Violate(key, call.Pos(), nil, "the probe address is not built inside a loop over the range")
			return
		}
		// the loop variable: a phi of the header with one edge from outside (initial value) and one from the body (step +1)
		var iv *ssa.Phi
		var init ssa.Value
		for _, x := range h.Instrs {
			ph, ok := x.(*ssa.Phi)
			if !ok {
				break
			}
			for ei, e := range ph.Edges {
				if bo, ok := e.(*ssa.BinOp); ok && bo.Op == token.ADD && bo.X == ssa.Value(ph) {
					if k, isC := engine.ConstInt(bo.Y); isC && k == 1 {
						iv = ph
						for ej, e2 := range ph.Edges {
							if ej != ei {
								init = e2
							}
						}
					}
				}
			}
		}
		if iv == nil || init == nil {
			c.Undecide(key, call.Pos(), "cannot identify the counting variable of the sweep loop")
			return
		}
		lo, okLo := eval(init, nil, 0)
		// last value: classic head test `i <= L` / `i < L`; range-over-int: back-edge test `i+1 < B`
		var hi lin
		okHi := false
		if t, isIf := h.Instrs[len(h.Instrs)-1].(*ssa.If); isIf {
			if bo, ok := t.Cond.(*ssa.BinOp); ok && bo.X == ssa.Value(iv) {
				if l, ok := eval(bo.Y, nil, 0); ok {
					switch bo.Op {
					case token.LEQ:
						hi, okHi = l, true
					case token.LSS:
						hi, okHi = lin{l.i, l.from, l.to, l.k - 1}, true
					}
				}
			}
		}
		if !okHi {
			if b, ok := engine.LoopBound(h); ok {
				if l, ok := eval(b, nil, 0); ok {
					hi, okHi = lin{l.i, l.from, l.to, l.k - 1}, true
				}
			}
		}
		port, okP := eval(call.Call.Args[0], iv, 0)
		if !okLo || !okHi || !okP || port.i != 1 {
			c.Undecide(key, call.Pos(), "the sweep loop or the port expression is not a linear form over the loop variable and the range bounds")
			return
		}
		first := lin{0, port.from + lo.from, port.to + lo.to, port.k + lo.k}
		last := lin{0, port.from + hi.from, port.to + hi.to, port.k + hi.k}
		okAll := first == lin{from: 1} && last == lin{to: 1}
		c.Check(okAll, key, call.Pos(), 4, []string{fmt.Sprintf("first port = %d·From + %d·To + %d", first.from, first.to, first.k), fmt.Sprintf("last port = %d·From + %d·To + %d", last.from, last.to, last.k)},
			"the sweep probes From … To inclusive (first port %d·From%+d·To%+d, last port %d·From%+d·To%+d)", first.from, first.to, first.k, last.from, last.to, last.k)
	})
	c.Floor(n, 1)
}
