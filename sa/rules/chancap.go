package rules

import (
	"encoding/json"
	"os"
	"path/filepath"
	"sort"

	"golang.org/x/tools/go/ssa"

	"frpsa/engine"
)

// checkChannelCapacityClass (C16.R32, shared with C06.R17 and C20.R14): whether a struct's channel is a rendezvous
// (unbuffered: a send completes only when a receiver is there — closing the route cuts off everything that was not
// accepted) or a queue (buffered: a notification sent before the receiver waits is kept) is part of the protocol
// between the goroutines that use it. The class of every struct-field channel on the confirmed tree is recorded in
// golden/channel_capacity.json; a make site that flips it is reported. The number of slots of a queue is not compared.
func checkChannelCapacityClass(c *engine.Ctx, rule string) {
	c.Rule(rule, "every make(chan …) stored into a struct field creates a channel of the capacity class recorded for that field (rendezvous = no buffer, queue = some buffer): a hand-off made buffered keeps delivering after its route was closed, a one-shot notification made unbuffered is lost when it is sent before the receiver waits")
	p := c.P
	path := filepath.Join(verifDirOf(), "golden", "channel_capacity.json")
	golden := map[string]string{}
	if b, err := os.ReadFile(path); err == nil {
		_ = json.Unmarshal(b, &golden)
	}
	found := map[string]string{}
	type site struct {
		in    ssa.Instruction
		owner string
		class string
		fname string
	}
	var sites []site
	for _, f := range p.RepoFuncs() {
		f := f
		engine.ForEachInstr(f, func(in ssa.Instruction) {
			st, ok := in.(*ssa.Store)
			if !ok {
				return
			}
			mc, ok := engine.Unwrap(st.Val).(*ssa.MakeChan)
			if !ok {
				if ct, isCT := st.Val.(*ssa.ChangeType); isCT {
					mc, ok = ct.X.(*ssa.MakeChan)
				}
				if !ok {
					return
				}
			}
			fv, _ := engine.LoadedField(st.Addr)
			if fv == nil {
				return
			}
			class := "queue"
			if k, isC := engine.ConstInt(mc.Size); isC && k == 0 {
				class = "rendezvous"
			}
			owner := fieldOwner(p, fv)
			if prev, seen := found[owner]; seen && prev != class {
				class = "mixed"
			}
			found[owner] = class
			sites = append(sites, site{in, owner, class, p.FuncName(f)})
		})
	}
	if os.Getenv("FRPSA_WRITE_GOLDEN") == "1" {
		b, _ := json.MarshalIndent(found, "", " ")
		_ = os.WriteFile(path, b, 0o644)
		golden = found
	}
	sort.Slice(sites, func(i, j int) bool { return sites[i].owner+sites[i].fname < sites[j].owner+sites[j].fname })
	n := 0
	for _, s := range sites {
		want, known := golden[s.owner]
		if !known {
			continue // a new channel field: nothing recorded, nothing claimed
		}
		n++
		c.Check(found[s.owner] == want, s.owner+">capacity@"+s.fname, s.in.Pos(), 1, []string{"recorded: " + want, "found: " + found[s.owner]},
			"the channel %s is created as a %s, as recorded (found %s: the goroutines on both sides rely on the recorded class)", s.owner, want, found[s.owner])
	}
	c.Floor(n, 10)
}
