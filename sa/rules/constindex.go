package rules

import (
	"fmt"
	"go/token"
	"go/types"

	"golang.org/x/tools/go/ssa"

	"frpsa/engine"
)

// checkConstIndexBounded (C16.R33, shared with C17.R16): `buf[k]` with a constant k on a byte slice whose length is not
// known from its construction (the result of a read, a decode, a parameter) panics when the slice is shorter — for a
// slice that holds what a peer sent, one short datagram. Every such index is reached only on paths that established
// len(buf) > k (in any spelling), or the slice was made / sliced with a constant length that covers k.
func checkConstIndexBounded(c *engine.Ctx, rule string) {
	c.Rule(rule, "every constant index into a []byte whose length does not follow from its construction is dominated by a comparison that makes len(slice) exceed the index (len > k, len >= k+1, len != 0 for k = 0, a loop bound, or a fixed-size construction)")
	p := c.P
	n, seen := 0, 0
	for _, f := range p.RepoFuncs() {
		f := f
		k := 0
		engine.ForEachInstr(f, func(in ssa.Instruction) {
			ia, ok := in.(*ssa.IndexAddr)
			if !ok {
				return
			}
			sl, ok := ia.X.Type().Underlying().(*types.Slice)
			if !ok {
				return
			}
			if b, ok := sl.Elem().Underlying().(*types.Basic); !ok || b.Kind() != types.Uint8 {
				return
			}
			idx, isC := engine.ConstInt(ia.Index)
			if !isC {
				return
			}
			seen++
			// construction with a known, sufficient length
			known := false
			switch x := engine.Unwrap(ia.X).(type) {
			case *ssa.MakeSlice:
				if l, ok := engine.ConstInt(x.Len); ok && l > idx {
					known = true
				}
			case *ssa.Slice:
				if al, ok := x.X.(*ssa.Alloc); ok {
					if arr, ok := engine.Deref(al.Type()).Underlying().(*types.Array); ok && arr.Len() > idx && x.High == nil {
						known = true
					}
				}
				if h, ok := engine.ConstInt(x.High); ok && x.High != nil {
					lo := int64(0)
					if x.Low != nil {
						lo, _ = engine.ConstInt(x.Low)
					}
					if h-lo > idx {
						known = true // s[a:b] panics itself when too short; the index cannot
					}
				}
			}
			// a matcher handed to golib's connection mux together with the number of bytes it needs: the mux calls it
			// with at least that many bytes
			if pr, ok := engine.Unwrap(ia.X).(*ssa.Parameter); ok && len(f.Params) > 0 && pr == f.Params[len(f.Params)-1] {
				scan := func(g *ssa.Function, visit func(x ssa.Instruction)) { engine.ForEachInstr(g, visit) }
				var hosts []*ssa.Function
				if f.Parent() != nil {
					hosts = []*ssa.Function{f.Parent()}
				} else if f.Pkg != nil {
					for _, g := range p.RepoFuncs() {
						if g.Pkg == f.Pkg {
							hosts = append(hosts, g)
						}
					}
				}
				for _, host := range hosts {
					scan(host, func(x ssa.Instruction) {
						call, ok := x.(*ssa.Call)
						if !ok {
							return
						}
						o := engine.CalleeObj(call)
						if o == nil || o.Name() != "Listen" || o.Pkg() == nil || o.Pkg().Path() != "github.com/fatedier/golib/net/mux" {
							return
						}
						args := engine.CallArgs(call)
						if len(args) < 4 {
							return
						}
						fnArg := args[3]
						if ct, ok := fnArg.(*ssa.ChangeType); ok {
							fnArg = ct.X
						}
						if mc, ok := fnArg.(*ssa.MakeClosure); ok {
							fnArg = mc.Fn
						}
						if fnArg == ssa.Value(f) {
							if need, ok := engine.ConstInt(args[2]); ok && need > idx {
								known = true
							}
						}
					})
				}
			}
			if known {
				return
			}
			n++
			k++
			isLenOf := func(v ssa.Value) bool {
				v = engine.Unwrap(v)
				for i := 0; i < 3; i++ {
					if cv, ok := v.(*ssa.Convert); ok {
						v = cv.X
					}
				}
				call, ok := v.(*ssa.Call)
				if !ok {
					return false
				}
				b, ok := call.Call.Value.(*ssa.Builtin)
				return ok && b.Name() == "len" && (call.Call.Args[0] == ia.X || engine.SameExpr(call.Call.Args[0], ia.X))
			}
			c.AllPaths(fmt.Sprintf("%s>const-index#%d", p.FuncName(f), k), engine.PathCheck{Fn: f, Sink: engine.Is(in), KeepLoopFacts: true, Pred: func(st *engine.PathState) string {
				if idx == 0 {
					if eq, known := st.Equal(isLenOf, func(v ssa.Value) bool { z, ok := engine.ConstInt(v); return ok && z == 0 }); known && !eq {
						return ""
					}
				}
				if st.Ordered(func(x ssa.Value, op token.Token, y ssa.Value) bool {
					if !isLenOf(x) {
						return false
					}
					z, isC := engine.ConstInt(y)
					if !isC {
						return false
					}
					return (op == token.GTR && z >= idx) || (op == token.GEQ && z >= idx+1)
				}) {
					return ""
				}
				if eq, known := st.Equal(isLenOf, func(v ssa.Value) bool { z, ok := engine.ConstInt(v); return ok && z > idx }); known && eq {
					return ""
				}
				return fmt.Sprintf("%s[%d] is read on a path that did not establish len > %d: a shorter slice (an empty frame from a peer) panics here", engine.Describe(ia.X), idx, idx)
			}}, "constant index within the established length")
		})
	}
	c.Check(seen >= 1, "const-index:seen", token.NoPos, seen, nil, "positive control: %d constant indexes into byte slices examined, %d of them without a length that follows from the construction", seen, n)
}
