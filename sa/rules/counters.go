package rules

import (
	"go/token"
	"go/types"

	"golang.org/x/tools/go/ssa"

	"frpsa/engine"
)

// counterOp classifies an instruction as an increment (+1) or decrement (-1) of a struct-field counter: `x.n++`,
// `x.n += k`, atomic.AddInt64(&x.n, k), x.n.Add(k) with a constant k.
func counterOp(in ssa.Instruction) (*types.Var, int) {
	switch x := in.(type) {
	case *ssa.Store:
		fv, base := engine.LoadedField(x.Addr)
		if fv == nil {
			return nil, 0
		}
		bo, ok := x.Val.(*ssa.BinOp)
		if !ok || (bo.Op != token.ADD && bo.Op != token.SUB) {
			return nil, 0
		}
		lf, lb := engine.LoadedField(bo.X)
		if lf != fv || !(lb == base || engine.SameExpr(lb, base)) {
			return nil, 0
		}
		k, ok := engine.ConstInt(bo.Y)
		if !ok {
			// `x.n = x.n + v` / `x.n - v` with a computed amount (a quota): the sign is the operator's
			k = 1
		}
		if k == 0 {
			return nil, 0
		}
		if bo.Op == token.SUB {
			k = -k
		}
		if k > 0 {
			return fv, 1
		}
		return fv, -1
	case *ssa.Call:
		o := engine.CalleeObj(x)
		if o == nil || o.Pkg() == nil || o.Pkg().Path() != "sync/atomic" || len(o.Name()) < 3 || o.Name()[:3] != "Add" {
			return nil, 0
		}
		args := engine.CallArgs(x)
		if len(args) != 2 {
			return nil, 0
		}
		fv, _ := engine.LoadedField(args[0])
		if fv == nil {
			return nil, 0
		}
		k, ok := engine.ConstInt(args[1])
		if !ok || k == 0 {
			return nil, 0
		}
		if k > 0 {
			return fv, 1
		}
		return fv, -1
	}
	return nil, 0
}

// checkCounterBalance (C16.R29, shared with C04.R11 and C20.R13): a function that both takes a slot of a counter and gives
// it back (pending connections, sessions in flight, ports in use) gives it back on every exit that is not a success
// the slot belongs to: on every exit of a function without an error result, and on every failing exit of a function
// with one. A slot that is never returned on one refusal path accumulates until the limit refuses everybody.
func checkCounterBalance(c *engine.Ctx, rule string) {
	c.Rule(rule, "in a function whose body (closures and deferred clean-ups included) both increments and decrements the same struct-field counter, every path from an increment to a failing return (any return when the function has no error result) passes a decrement of that counter, in place, in a called helper or in a deferred closure as it runs at that exit")
	p := c.P
	errT := types.Universe.Lookup("error").Type()
	n, ops := 0, 0
	for _, f := range p.RepoFuncs() {
		engine.ForEachInstr(f, func(in ssa.Instruction) {
			if fv, _ := counterOp(in); fv != nil {
				ops++
			}
		})
	}
	for _, f := range p.RepoFuncs() {
		if f.Parent() != nil {
			continue
		}
		f := f
		inc := map[*types.Var]bool{}
		dec := map[*types.Var]bool{}
		for _, g := range append([]*ssa.Function{f}, lexicalAnon(f)...) {
			engine.ForEachInstr(g, func(in ssa.Instruction) {
				if fv, d := counterOp(in); fv != nil {
					if d > 0 {
						inc[fv] = true
					} else {
						dec[fv] = true
					}
				}
			})
		}
		for fv := range inc {
			if !dec[fv] {
				continue
			}
			fv := fv
			n++
			hasErr := false
			res := f.Signature.Results()
			for i := 0; i < res.Len(); i++ {
				if types.Identical(res.At(i).Type(), errT) {
					hasErr = true
				}
			}
			c.AllPaths(p.FuncName(f)+">counter:"+fv.Name(), engine.PathCheck{Fn: f, Sink: engine.IsReturn, EventsBeforeFrom: true,
				Event: func(in ssa.Instruction) string {
					if v, d := counterOp(in); v == fv {
						if d > 0 {
							return "inc"
						}
						return "dec"
					}
					return ""
				},
				Pred: func(st *engine.PathState) string {
					open := false
					for _, e := range st.Events {
						switch e.Tag {
						case "inc":
							open = true
						case "dec":
							open = false
						}
					}
					if !open {
						return ""
					}
					if hasErr {
						r := st.Sink.(*ssa.Return)
						failing := false
						for _, rv := range r.Results {
							if types.Identical(rv.Type(), errT) {
								ev := st.Resolve(rv)
								if engine.IsNilConst(ev) {
									continue
								}
								if isNil, known := st.NilFact(ev); !(known && isNil) {
									failing = true
								}
							}
						}
						if !failing {
							return "" // the slot belongs to what the function set up
						}
					}
					return "the counter " + fv.Name() + " was incremented on this path and is not decremented before this exit, although the function gives the slot back elsewhere: refused attempts accumulate until the limit refuses everybody"
				}}, "slot returned on every exit that does not keep it")
		}
	}
	c.Check(ops >= 1, "counters:seen", token.NoPos, ops, nil, "positive control: %d counter updates seen in the module, %d functions both take and return a slot", ops, n)
}
