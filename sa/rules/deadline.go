package rules

import (
	"fmt"
	"go/token"
	"go/types"

	"golang.org/x/tools/go/ssa"

	"frpsa/engine"
)

// checkDeadlineCleared (C14.R14, shared with C16.R27): a deadline set on a connection stays in force for every later
// read / write on it. The code arms one for a single exchange (the first message, the login response, the TLS sniff) and
// clears it again; a deadline that is still armed when the connection goes on to carry a session makes every
// operation fail from that moment on — for a write deadline on a control connection silently, because the dispatcher
// ignores write errors: the peer is alive, sends heartbeats, and never gets an answer.
func checkDeadlineCleared(c *engine.Ctx, rule string) {
	c.Rule(rule, "after SetDeadline / SetReadDeadline / SetWriteDeadline with a real time, every path to the function's exit clears that deadline on the same connection (zero time), closes the connection, re-arms it (a per-iteration deadline) or reports failure (a non-nil error or a constant false verdict: the caller discards the connection)")
	p := c.P
	n := 0
	isZeroTime := func(v ssa.Value) bool {
		switch x := v.(type) {
		case *ssa.Const:
			return x.Value == nil
		case *ssa.UnOp:
			if al, ok := x.X.(*ssa.Alloc); ok && x.Op == token.MUL {
				stores := 0
				for _, r := range *al.Referrers() {
					if _, ok := r.(*ssa.Store); ok {
						stores++
					}
				}
				return stores == 0
			}
		}
		return false
	}
	deadlineCall := func(in ssa.Instruction) (recv ssa.Value, t ssa.Value, name string, ok bool) {
		call, isCall := in.(*ssa.Call)
		if !isCall {
			return nil, nil, "", false
		}
		if call.Call.IsInvoke() {
			name = call.Call.Method.Name()
		} else if o := engine.CalleeObj(call); o != nil {
			name = o.Name()
		}
		switch name {
		case "SetDeadline", "SetReadDeadline", "SetWriteDeadline":
		default:
			return nil, nil, "", false
		}
		args := engine.CallArgs(call)
		if len(args) != 2 || !engine.IsNamed(args[1].Type(), "time", "Time") {
			return nil, nil, "", false
		}
		return engine.Unwrap(args[0]), args[1], name, true
	}
	errT := types.Universe.Lookup("error").Type()
	for _, f := range p.RepoFuncs() {
		f := f
		k := 0
		engine.ForEachInstr(f, func(in ssa.Instruction) {
			recv, t, name, ok := deadlineCall(in)
			if !ok || isZeroTime(t) {
				return
			}
			if _, isParam := t.(*ssa.Parameter); isParam {
				return // a wrapper passing its caller's deadline on
			}
			n++
			k++
			ord := k
			same := func(v ssa.Value) bool {
				v = engine.Unwrap(v)
				return v == recv || engine.SameExpr(v, recv)
			}
			c.AllPaths(fmt.Sprintf("%s>%s#%d", p.FuncName(f), name, ord), engine.PathCheck{Fn: f, From: in, KeepLoopFacts: true, EventsBeforeFrom: true,
				Sink: func(x ssa.Instruction) bool { return engine.IsReturn(x) || x == in },
				Event: func(x ssa.Instruction) string {
					if d, isDefer := x.(*ssa.Defer); isDefer {
						// a Close deferred earlier runs at every exit
						nm := ""
						if d.Call.IsInvoke() {
							nm = d.Call.Method.Name()
						} else if o := engine.CalleeObj(d); o != nil {
							nm = o.Name()
						}
						if nm == "Close" {
							return "closed"
						}
						return ""
					}
					if x != in && x.Parent() == f && !engine.InstrReaches(in, x) {
						return ""
					}
					if call, ok := x.(*ssa.Call); ok && dynamicCall(call) {
						// handed to a registered hook (the vhost fail hook answers and closes)
						for _, a := range call.Call.Args {
							if engine.IsNamed(a.Type(), "net", "Conn") {
								return "closed"
							}
						}
					}
					if r2, t2, n2, ok := deadlineCall(x); ok && x != in && same(r2) && (n2 == name || n2 == "SetDeadline") {
						if isZeroTime(t2) {
							return "cleared"
						}
						return "rearmed"
					}
					if cc, ok := x.(ssa.CallInstruction); ok {
						nm := ""
						if cc.Common().IsInvoke() {
							nm = cc.Common().Method.Name()
						} else if o := engine.CalleeObj(cc); o != nil {
							nm = o.Name()
						}
						if nm == "Close" {
							return "closed"
						}
					}
					return ""
				},
				Pred: func(st *engine.PathState) string {
					if st.Sink == in || st.HasEvent("cleared") || st.HasEvent("rearmed") || st.HasEvent("closed") {
						return ""
					}
					r := st.Sink.(*ssa.Return)
					for _, rv := range r.Results {
						// a helper that reports failure as `false`: the caller gives the connection up
						if b, isC := engine.ConstBool(st.Resolve(rv)); isC && !b {
							return ""
						}
					}
					for _, rv := range r.Results {
						if types.Identical(rv.Type(), errT) {
							ev := st.Resolve(rv)
							if engine.IsNilConst(ev) {
								continue
							}
							if isNil, known := st.NilFact(ev); !(known && isNil) {
								return ""
							}
						}
					}
					return name + " is still armed when the function returns successfully: every later operation on this connection fails once the deadline has passed"
				}}, "armed deadline is cleared before the connection is used on")
		})
	}
	c.Floor(n, 5)
}
