package rules

import (
	"go/token"
	"go/types"

	"golang.org/x/tools/go/ssa"

	"frpsa/engine"
)

// checkDeferredUseOfResult (C16.R26, shared with C14.R13): a deferred clean-up that calls a method on a variable of the
// enclosing function sees the value that variable holds when the function exits. For a named result that is what the
// return statement has just stored: `return nil, nil, err` clears the very connector the clean-up `if err != nil {
// connector.Close() }` is about to close — a nil-interface call, i.e. a panic on the goroutine that was supposed to
// retry. Every exit is explored with the deferred closures expanded at the exit; a method call (or field access) through
// a captured variable that holds nil there is reported.
func checkDeferredUseOfResult(c *engine.Ctx, rule string) {
	c.Rule(rule, "on every exit of a function with a deferred closure, a variable the closure calls a method on (or dereferences) does not hold a nil constant when the closure runs — in particular not a named result that an explicit `return nil, …` has just overwritten")
	p := c.P
	n := 0
	for _, f := range p.RepoFuncs() {
		f := f
		// deferred direct closures and the captured cells they use as receivers
		uses := map[ssa.Instruction]*ssa.Alloc{}
		engine.ForEachInstr(f, func(in ssa.Instruction) {
			d, ok := in.(*ssa.Defer)
			if !ok {
				return
			}
			mc, ok := d.Call.Value.(*ssa.MakeClosure)
			if !ok || !engine.DeferExpanded(d) {
				return
			}
			cf := mc.Fn.(*ssa.Function)
			cellOf := func(v ssa.Value) *ssa.Alloc {
				u, ok := v.(*ssa.UnOp)
				if !ok || u.Op != token.MUL {
					return nil
				}
				fv, ok := u.X.(*ssa.FreeVar)
				if !ok {
					return nil
				}
				for i, x := range cf.FreeVars {
					if x == fv && i < len(mc.Bindings) {
						if al, ok := mc.Bindings[i].(*ssa.Alloc); ok {
							return al
						}
					}
				}
				return nil
			}
			engine.ForEachInstr(cf, func(x ssa.Instruction) {
				switch y := x.(type) {
				case *ssa.Call:
					if y.Call.IsInvoke() {
						if al := cellOf(y.Call.Value); al != nil {
							uses[x] = al
						}
					} else if len(y.Call.Args) > 0 && y.Call.Signature().Recv() != nil {
						if al := cellOf(y.Call.Args[0]); al != nil {
							if _, isPtr := al.Type().(*types.Pointer).Elem().Underlying().(*types.Pointer); isPtr {
								uses[x] = al
							}
						}
					}
				case *ssa.FieldAddr:
					if al := cellOf(y.X); al != nil {
						uses[x] = al
					}
				}
			})
		})
		if len(uses) == 0 {
			continue
		}
		n++
		c.AllPaths(p.FuncName(f)+">deferred-use", engine.PathCheck{Fn: f, Sink: engine.IsReturn, EventsBeforeFrom: true,
			Event: func(in ssa.Instruction) string {
				if _, ok := uses[in]; ok {
					return "use"
				}
				return ""
			},
			Pred: func(st *engine.PathState) string {
				for _, e := range st.Events {
					if e.Tag != "use" {
						continue
					}
					al := uses[e.Instr]
					if cv := st.CellValue(al); cv != nil && engine.IsNilConst(cv) {
						return "the deferred closure uses " + al.Comment + " at " + p.Pos(e.Instr.Pos()) + " while it holds nil on this exit (the return statement stored nil into the named result, or nothing was ever assigned): nil dereference in the clean-up"
					}
				}
				return ""
			}}, "deferred clean-ups use live values")
	}
	c.Floor(n, 1)
}
