package rules

import (
	"encoding/json"
	"fmt"
	"go/token"
	"go/types"
	"os"
	"path/filepath"
	"sort"
	"strings"

	"golang.org/x/tools/go/ssa"

	"frpsa/engine"
)

// checkDroppedErrors: "errors of the repository's own functions are not newly dropped". For every call to a function of
// this module whose last result is an error, the error must be used (tested, returned, stored). The call sites that
// drop it on the confirmed tree were read one by one and are frozen in golden/dropped_errors.json as
// (calling package → callee) with the number of dropping and of testing sites; cleanup calls (Close / GracefulClose) are
// not counted. A violation is a pair the package never dropped before, or a tabled pair with more dropping and fewer
// testing sites than confirmed — the usual way an error-handling slip enters (an `if err != nil` removed while the call
// stays, `_ =` added to silence a linter, a result assigned and never looked at). Merely repeating a reviewed
// best-effort call (a refusal sent to a peer from two branches instead of one) is not.
func checkDroppedErrors(c *engine.Ctx, rule string, pkgs ...string) {
	c.Rule(rule, "in "+strings.Join(pkgs, ", ")+": the error result of a call to a function of this module is used; the drops confirmed by reading are tabled per (calling package → callee) in golden/dropped_errors.json; a new pair, or a tabled pair with more dropping and fewer testing sites, is a violation")
	p := c.P
	errT := types.Universe.Lookup("error").Type()
	inScope := func(path string) bool {
		rel := strings.TrimPrefix(path, engine.ModPath+"/")
		for _, q := range pkgs {
			if q == "*" || rel == q || strings.HasPrefix(rel, q+"/") {
				return true
			}
		}
		return false
	}
	type drop struct {
		pos token.Pos
		fn  string
	}
	found := map[string][]drop{}
	usedN := map[string]int{}
	calls := 0
	for _, f := range p.RepoFuncs() {
		if f.Pkg == nil || !inScope(f.Pkg.Pkg.Path()) {
			continue
		}
		f := f
		engine.ForEachInstr(f, func(in ssa.Instruction) {
			call, ok := in.(*ssa.Call)
			if !ok {
				return
			}
			o := engine.CalleeObj(call)
			if o == nil || o.Pkg() == nil || !engine.IsRepoPkg(o.Pkg().Path()) {
				return
			}
			if o.Name() == "Close" || o.Name() == "GracefulClose" {
				return
			}
			sig, _ := o.Type().(*types.Signature)
			if sig == nil || sig.Results().Len() == 0 || !types.Identical(sig.Results().At(sig.Results().Len()-1).Type(), errT) {
				return
			}
			calls++
			used := false
			if refs := call.Referrers(); refs != nil {
				for _, r := range *refs {
					switch x := r.(type) {
					case *ssa.DebugRef:
					case *ssa.Extract:
						if x.Index == sig.Results().Len()-1 && x.Referrers() != nil {
							for _, u := range *x.Referrers() {
								if _, d := u.(*ssa.DebugRef); !d {
									used = true
								}
							}
						}
					default:
						if sig.Results().Len() == 1 {
							used = true
						}
					}
				}
			}
			k := strings.TrimPrefix(f.Pkg.Pkg.Path(), engine.ModPath+"/") + " -> " + strings.TrimPrefix(o.Pkg().Path(), engine.ModPath+"/") + "." + o.Name()
			if used {
				usedN[k]++
				return
			}
			found[k] = append(found[k], drop{in.Pos(), p.FuncName(f)})
		})
	}
	path := filepath.Join(verifDirOf(), "golden", "dropped_errors.json")
	type tabled struct {
		Dropped int `json:"dropped"`
		Used    int `json:"used"`
	}
	golden := map[string]tabled{}
	if b, err := os.ReadFile(path); err == nil {
		_ = json.Unmarshal(b, &golden)
	}
	if os.Getenv("FRPSA_WRITE_GOLDEN") == "1" {
		for k, v := range found {
			g := golden[k]
			if len(v) > g.Dropped {
				g.Dropped = len(v)
			}
			g.Used = usedN[k]
			golden[k] = g
		}
		// pairs that test every error are recorded too (dropped 0): they say which callees returned an error on the
		// confirmed tree
		for k, u := range usedN {
			if _, ok := found[k]; !ok {
				g := golden[k]
				g.Used = u
				golden[k] = g
			}
		}
		b, _ := json.MarshalIndent(golden, "", " ")
		_ = os.WriteFile(path, b, 0o644)
	}
	var keys []string
	for k := range found {
		keys = append(keys, k)
	}
	sort.Strings(keys)
	for _, k := range keys {
		ds := found[k]
		g, isTabled := golden[k]
		var facts []string
		for _, d := range ds {
			facts = append(facts, d.fn+" at "+p.Pos(d.pos))
		}
		callee, pkg := k[strings.Index(k, "-> ")+3:], k[:strings.Index(k, " ->")]
		calleeKnown := false
		for gk := range golden {
			if strings.HasSuffix(gk, "-> "+callee) {
				calleeKnown = true
			}
		}
		switch {
		case !isTabled && !calleeKnown:
			// the callee did not return an error on the confirmed tree (a new function, or a result added to an existing
			// one and deliberately ignored by its old callers): no handling that existed has been lost
			c.Hold("dropped:"+k, ds[0].pos, len(ds), facts, "%s is new as an error-returning function: %d call(s) ignore the added result", callee, len(ds))
		case !isTabled:
			c.Violate("dropped:"+k, ds[len(ds)-1].pos, facts, "the error of %s is dropped at %d site(s) of package %s, which never dropped it on the confirmed tree: a failure of that call now goes unnoticed",
				callee, len(ds), pkg)
		case len(ds) > g.Dropped && usedN[k] < g.Used:
			// more drops AND fewer tested calls: a call whose error was handled has become one whose error is not
			c.Violate("dropped:"+k, ds[len(ds)-1].pos, facts, "the error of %s is dropped at %d site(s) of package %s (%d confirmed) while the sites that test it fell from %d to %d: a failure of that call now goes unnoticed (is the result still tested?)",
				callee, len(ds), pkg, g.Dropped, g.Used, usedN[k])
		default:
			// a reviewed best-effort call (a reply to a peer that is being refused, a notification): further sites of the
			// same convention are not findings as long as every site that tested the error still does
			c.Hold("dropped:"+k, ds[0].pos, len(ds), facts, "tabled best-effort call: %d drop(s) (%d confirmed), %d tested site(s) (%d confirmed)", len(ds), g.Dropped, usedN[k], g.Used)
		}
	}
	c.Check(calls >= 10, "dropped:calls-seen", token.NoPos, calls, nil, fmt.Sprintf("positive control: %d calls to error-returning functions of this module examined", calls))
	c.Floor(calls, 10)
}
